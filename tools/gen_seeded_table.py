#!/usr/bin/env python3
"""Regenerates the table and the list of strengthenings of DESIGN.md 11.4 from seeded/*/meta.json and check_quick.log."""
import json, os, re, glob
ROOT = os.path.dirname(os.path.dirname(os.path.abspath(__file__)))
rows, hist = [], []
def clip(s, n):
    s = ' '.join(str(s).split()).replace('|', '/')
    return s if len(s) <= n else s[:n - 1].rstrip() + '…'
for d in sorted(glob.glob(os.path.join(ROOT, 'seeded', '*'))):
    name = os.path.basename(d)
    try:
        m = json.load(open(os.path.join(d, 'meta.json')))
    except Exception:
        continue
    classes = []
    log = os.path.join(d, 'check_quick.log')
    if os.path.exists(log):
        for l in open(log):
            mm = re.match(r'\s*class: (\S+)', l)
            if mm and mm.group(1) not in classes:
                classes.append(mm.group(1))
    caught = m.get('caught')
    rows.append('| %s | %s | %s | %s |' % (name, clip(m.get('summary', ''), 260), clip(m.get('needs', ''), 200),
                clip(', '.join(classes), 200) if caught else '**missed**'))
    if m.get('history'):
        hist.append('* **%s** - %s' % (name, ' '.join(m['history'].split())))
out = ['| id | change | needs | reported as (quick tier) |', '|---|---|---|---|'] + rows
out += ['', 'Strengthenings that followed from seeded changes (recorded in each `meta.json` under `history`):'] + hist
p = os.path.join(ROOT, 'DESIGN.md')
s = open(p).read()
a, b = '<!-- seeded-table:begin -->', '<!-- seeded-table:end -->'
i, j = s.index(a), s.index(b)
s = s[:i + len(a)] + '\n' + '\n'.join(out) + '\n' + s[j:]
open(p, 'w').write(s)
print(len(rows), 'rows;', sum(1 for r in rows if '**missed**' in r), 'missed')
