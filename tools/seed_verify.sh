#!/bin/bash
# usage: seed_verify.sh <PROPERTY-ID> <seed-worktree> [seeded-name]
# Confirms a seeded defect (suite passes with it, demo fails with it and passes without it), runs the
# property's quick check against it in /repo, and files it under /verif/seeded/<name>/.
ID=$1; S=$2; NAME=${3:-$ID}
export GOFLAGS=-mod=mod GOPROXY=off
OUT=/verif/seeded/$NAME; mkdir -p $OUT
[ -f $S/out/patch.diff ] || { echo "no patch"; exit 2; }
DEMO_DIR=$(python3 -c "import json;print(json.load(open('$S/out/meta.json')).get('demo_dir','.'))")
DEMO_RUN=$(python3 -c "import json;print(json.load(open('$S/out/meta.json')).get('demo_run',''))")
cd $S
git checkout -q -- . 2>/dev/null
git clean -fdq -e out 2>/dev/null
# demo without the change
mkdir -p $DEMO_DIR; cp out/demo_test.go $DEMO_DIR/zz_seed_demo_test.go
( eval "$DEMO_RUN" ) > out/demo_without.log 2>&1; W=$?
git apply out/patch.diff || { echo "patch does not apply"; exit 2; }
( eval "$DEMO_RUN" ) > out/demo_with.log 2>&1; C=$?
rm -f $DEMO_DIR/zz_seed_demo_test.go
go build ./... > out/build.log 2>&1; B=$?
go test -vet=off -count=1 $(go list ./... | grep -v "/out$") > out/suite.log 2>&1; T=$?
if [ $T -ne 0 ]; then # re-run once: wall-clock tests in pkg/nack / pkg/twcc flake on a loaded machine
  go test -vet=off -count=1 $(go list ./... | grep -v "/out$") > out/suite.log 2>&1; T=$?
fi
echo "demo without change: exit $W (want 0); with change: exit $C (want !=0); build $B; suite $T (want 0)"
git checkout -q -- .
# the check against the defect
git -C /repo apply $S/out/patch.diff || { echo "patch does not apply to /repo"; exit 2; }
cd /verif && ./bin/verif check $ID --tier quick > $OUT/check_quick.log 2>&1; V=$?
git -C /repo checkout -- .
grep -E "^VIOLATION|class:|^KNOWN|^verif" $OUT/check_quick.log | cut -c1-220 | head -8
echo "check exit $V (want 1)"
cp $S/out/patch.diff $OUT/patch.diff; cp $S/out/demo_test.go $OUT/demo_test.go
python3 - <<PY
import json
m=json.load(open('$S/out/meta.json'))
m.update({"verified":{"demo_without_change_exit":$W,"demo_with_change_exit":$C,"build_exit":$B,"repo_suite_exit":$T,"check":"./bin/verif check $ID --tier quick","check_exit":$V},
          "caught": $V==1})
json.dump(m,open('$OUT/meta.json','w'),indent=1)
PY
