#!/usr/bin/env python3
"""Mechanical mutation sweep used to look for weak spots of a check (an evaluation aid, not a check).

usage: mutsweep.py <ID> <max-mutants> <file> [<file>...]      (files relative to the repository root)

A scratch worktree of /repo is created under /tmp, one small syntactic mutation at a time is applied to it
(relational operator swaps, +-1 changes, && <-> ||, break <-> continue, dropped `!`), and the quick check of
<ID> is run against the worktree (VERIF_REPO) from a scratch copy of /verif (VERIF_ROOT) in fail-fast mode.
For mutants the check does not report, the package's own tests are run: a mutant that survives both is
printed for manual triage (it may be equivalent). Nothing in /repo or /verif is modified; results go to
/verif/mutants/sweep/<ID>.json.
"""
import json, os, re, subprocess, sys, shutil, hashlib

ROOT = os.path.dirname(os.path.dirname(os.path.abspath(__file__)))
ENV = dict(os.environ, GOFLAGS='-mod=mod', GOPROXY='off')

SWAPS = [
    (r'(?<![<>=!:+\-*/&|^%])<=(?!=)', '<'), (r'(?<![<>=!:\-])<(?![<=\-])', '<='),
    (r'(?<![<>=!:+\-*/&|^%])>=(?!=)', '>'), (r'(?<![<>=!:\-])>(?![>=])', '>='),
    (r'==', '!='), (r'!=', '=='),
    (r'&&', '||'), (r'\|\|', '&&'),
    (r' \+ 1\b', ' + 2'), (r' - 1\b', ' - 2'), (r' \+ 1\b', ''), (r' - 1\b', ''),
    (r'\bcontinue\b', 'break'), (r'\bbreak\b', 'continue'),
    (r'!(?=[a-zA-Z(])', ''),
    (r'\+\+', '--'), (r' \+= ', ' -= '),
]


def mutants(path):
    out = []
    lines = open(path).read().split('\n')
    in_block = False
    for n, line in enumerate(lines):
        code = line
        st = code.strip()
        if st.startswith('/*'):
            in_block = True
        if in_block:
            if '*/' in st:
                in_block = False
            continue
        if st.startswith('//') or '"' in code or '`' in code or st.startswith('import') or st.startswith('package'):
            continue
        c = code.find('//')
        if c >= 0:
            code = code[:c]
        for pat, rep in SWAPS:
            for k, m in enumerate(re.finditer(pat, code)):
                new = code[:m.start()] + rep + code[m.end():]
                if new != code:
                    out.append((n, pat, k, new + (line[c:] if c >= 0 else '')))
    return lines, out


def run(cmd, cwd, env, timeout):
    try:
        p = subprocess.run(cmd, cwd=cwd, env=env, stdout=subprocess.PIPE, stderr=subprocess.STDOUT, timeout=timeout, text=True)
        return p.returncode, p.stdout
    except subprocess.TimeoutExpired as e:
        return 124, (e.stdout or '') if isinstance(e.stdout, str) else ''


def main():
    cid, limit, files = sys.argv[1], int(sys.argv[2]), sys.argv[3:]
    wt = '/tmp/mutsweep-%s-repo' % cid
    vr = '/tmp/mutsweep-%s-verif' % cid
    subprocess.run(['git', '-C', '/repo', 'worktree', 'remove', '--force', wt], stdout=subprocess.DEVNULL, stderr=subprocess.DEVNULL)
    shutil.rmtree(vr, ignore_errors=True)
    subprocess.check_call(['git', '-C', '/repo', 'worktree', 'add', '-q', '--detach', wt, 'HEAD'])
    subprocess.check_call(['rsync', '-a', '--exclude', '.git', '--exclude', 'replays', '--exclude', 'seeded', '--exclude', 'mutants', ROOT + '/', vr + '/'])
    env = dict(ENV, VERIF_ROOT=vr, VERIF_REPO=wt, VERIF_FAILFAST='1', VERIF_TIER='quick')
    allm = []
    for f in files:
        lines, ms = mutants(os.path.join(wt, f))
        for m in ms:
            allm.append((f, lines, m))
    # deterministic spread over the candidates
    allm.sort(key=lambda x: hashlib.sha1(('%s:%d:%s:%d' % (x[0], x[2][0], x[2][1], x[2][2])).encode()).hexdigest())
    results = []
    done = 0
    for f, lines, (n, pat, k, new) in allm:
        if done >= limit:
            break
        path = os.path.join(wt, f)
        mutated = list(lines)
        mutated[n] = new
        open(path, 'w').write('\n'.join(mutated))
        pkg = './' + os.path.dirname(f)
        rc, out = run(['go', 'build', pkg], wt, ENV, 300)
        if rc != 0:
            open(path, 'w').write('\n'.join(lines))
            continue
        done += 1
        rc, out = run([os.path.join(vr, 'bin/verif'), 'check', cid, '--tier', 'quick'], vr, env, 1500)
        classes = sorted(set(re.findall(r'class: (\S+)', out)))
        caught = rc == 1 and 'VIOLATION property=' in out
        entry = {'file': f, 'line': n + 1, 'old': lines[n].strip(), 'new': new.strip(), 'check_exit': rc, 'caught': caught, 'classes': classes[:4]}
        if not caught:
            if rc != 0:
                entry['check_output_tail'] = out[-600:]
            trc, tout = run(['go', 'test', '-vet=off', '-count=1', pkg], wt, ENV, 900)
            entry['package_tests_exit'] = trc
        results.append(entry)
        tag = 'CAUGHT ' if caught else ('tests-catch' if entry.get('package_tests_exit') else 'SURVIVED')
        print('%-11s %s:%d  %s  =>  %s  %s' % (tag, f, n + 1, lines[n].strip()[:70], new.strip()[:70], ','.join(classes[:2])), flush=True)
        open(path, 'w').write('\n'.join(lines))
    os.makedirs(os.path.join(ROOT, 'mutants', 'sweep'), exist_ok=True)
    json.dump({'property': cid, 'files': files, 'mutants': results}, open(os.path.join(ROOT, 'mutants', 'sweep', cid + '.json'), 'w'), indent=1)
    subprocess.run(['git', '-C', '/repo', 'worktree', 'remove', '--force', wt])
    shutil.rmtree(vr, ignore_errors=True)
    n = len(results)
    c = sum(1 for r in results if r['caught'])
    t = sum(1 for r in results if not r['caught'] and r.get('package_tests_exit'))
    print('%s: %d mutants, %d caught by the check, %d more by the package tests only, %d survived both' % (cid, n, c, t, n - c - t))


if __name__ == '__main__':
    main()
