#!/bin/bash
# usage: benign_verify.sh <worktree-with-change-applied> <name> [check ids...]
# Runs the quick checks against a behaviour-preserving change (VERIF_REPO = the worktree, VERIF_ROOT = a scratch
# copy of /verif, so neither /repo nor the committed evidence is touched) and files the result under benign/<name>/.
set -u
WT=$1; NAME=$2; shift 2
IDS=${*:-C01 C02 C03 C04 C05 C06 C07 C08 C09 C10 C11 C12 C13 C14 C15 C16 C17 C18 C19 C20}
ROOT=$(cd "$(dirname "$0")/.." && pwd)
SCR=/tmp/benroot-$NAME
rm -rf "$SCR"; rsync -a --exclude .git --exclude replays --exclude seeded --exclude mutants --exclude benign "$ROOT/" "$SCR/"
mkdir -p "$ROOT/benign/$NAME"
cp "$WT/out/patch.diff" "$WT/out/meta.json" "$ROOT/benign/$NAME/" 2>/dev/null
: > "$ROOT/benign/$NAME/checks.log"
bad=0
for id in $IDS; do
  out=$(cd "$SCR" && VERIF_ROOT=$SCR VERIF_REPO=$WT ./bin/verif check $id --tier quick 2>&1); rc=$?
  echo "$out" | grep -E "^VIOLATION|class:|^verif:|INFRASTRUCTURE" | cut -c1-400 >> "$ROOT/benign/$NAME/checks.log"
  echo "$id exit $rc" >> "$ROOT/benign/$NAME/checks.log"
  if [ $rc -ne 0 ]; then bad=$((bad+1)); echo "ALARM $NAME $id exit $rc"; echo "$out" | grep -E "class:|INFRASTRUCTURE|error" | head -5 | cut -c1-300; mkdir -p "$ROOT/benign/$NAME/replays"; cp "$SCR"/replays/$id-* "$ROOT/benign/$NAME/replays/" 2>/dev/null; fi
done
rm -rf "$SCR"
echo "$NAME: alarms=$bad"
