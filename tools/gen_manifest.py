#!/usr/bin/env python3
"""Generates /verif/MANIFEST.json from the table below (kept next to the checks so it stays current)."""
import json, os
ROOT = os.path.dirname(os.path.dirname(os.path.abspath(__file__)))
props = [json.loads(l) for l in open(os.path.join(ROOT, 'properties.jsonl'))]
TRUST = ("Trusts the vsched models of mutex/atomic/channel/select/timer semantics and their race annotations (litmus suite run in the same binary "
         "before every check) and the vrewrite instrumenter (syntax-directed, fails closed); ")
E2 = "explicit-state model checking of the implementation: exhaustive breadth-first search over operation histories on the real code under a controlled scheduler and virtual clock, compared with a reference model at every transition"
E1 = "stateless model checking of the implementation: exhaustive depth-first exploration of goroutine schedules (iterative preemption bounding, happens-before fingerprint pruning) under a controlled scheduler, with the Go race detector evaluated on every explored schedule"
E3 = "bounded-exhaustive enumeration of a structured input grammar against the real code with an independent decoder/reference as oracle"
CHECKS = {
 'C01': dict(engine='vsched-e2', technique=E2,
   text="For every ordered chain without repetition of length 0-2 (thorough: 3) of the 14 non-buffering interceptor factories, every option variant for single members and the 14 rotations of the full chain, built directly and through Registry.Build, all operation sequences up to depth 4 (single members) / 3 (longer chains) over 19 symbols (six header shapes written, four read, incoming SR/NACK/TWCC/CCFB, application RTCP, tick, arm the next transport write/read to fail) are executed between a mock transport and the application: the application packet must reach the transport exactly once during its own Write, first, with identical header and payload (transport-cc value aside); reads return the transport's bytes and a matching cached parse; injected transport errors are returned (errors.Is); the feedback of a history with a failed read equals that of its twin without the read. A separate enumeration of chains of counting members (all shapes up to length 4, every subset failing Close) checks that Unbind/Close reach every member exactly once, that Close errors are preserved and that Registry.Build keeps factory order.",
   note=TRUST + "application packets on the negotiated stream carry the transport-cc extension themselves; an error produced by an interceptor itself (not by the transport) is not judged beyond non-duplication.", ref="DESIGN.md 3/C01"),
 'C03': dict(engine='vsched-e2', technique=E2,
   text="All arrival/tick histories up to the stated depth over a 17-symbol alphabet built from the receive log's branch conditions, for every (window, skipLastN, maxNacks, start) configuration listed in the evidence, are executed on the real NACK generator interceptor and compared at every tick with a reference on unwrapped sequence numbers. Exhaustive within the bounds; longer histories and other window sizes are not covered.",
   note=TRUST + "pion/rtcp NackPair fields are read directly, the PID/BLP expansion is the harness's own.", ref="DESIGN.md 3/C03"),
 'C04': dict(engine='vsched-e2', technique=E2 + "; plus " + E1,
   text="(1) All send/NACK/Unbind/Rebind/Close histories up to the stated depth over a 20-symbol alphabet (late and out-of-window sends, NACKs at and around both window edges, never-sent numbers, unbound SSRC) for buffer sizes 1, 2, 8 (and 1024), RTX on/off, with three padding forms, are executed on the real ResponderInterceptor and every retransmission is compared byte for byte with the packet as originally sent (or its RFC 4588 form). (2) Every schedule up to preemption bound 2 (quick) / 3-4 (thorough) of a writer evicting ring slots while a NACK for those slots is processed asynchronously, optionally racing UnbindLocalStream, Close or a second NACK, is executed under the race detector with the buffer pool modelled as LIFO (immediate recycling).",
   note=TRUST + "retransmissions are recognised at the transport as packets written by goroutines the interceptor started; rtcp.Marshal serialises the NACK that is fed to the RTCP reader.", ref="DESIGN.md 3/C04"),
 'C08': dict(engine='vsched-e2', technique=E2,
   text="All add/build histories up to depth 5-8 over per-family alphabets (sequence offsets from the highest incl. +0x7FFF jumps, duplicates, reordering below the first packet; arrival/report clock steps around the floor, saturation and 64 s wrap edges; 12 small maximum sizes and 1200/70000) for one to three SSRCs are executed on rfc8888.Recorder and, at smaller depth, through the SenderInterceptor under the virtual clock; every report is decoded from its Marshal() bytes by an independent RFC 8888 decoder and compared with a reference on unwrapped numbers (contiguity, end at highest, received flags, ATO, once-received-never-lost, new arrivals present unless pushed out, size limit).",
   note=TRUST + "the begin of a range is left free (DESIGN.md section 5); ECN bits are not judged.", ref="DESIGN.md 3/C08"),
 'C09': dict(engine='vsched-e2', technique=E2 + "; feedback inputs by " + E3,
   text="Send histories (nothing sent, 24 packets, never-sent numbers, TWCC and non-TWCC SSRCs interleaved, 250/251/262/270 packets in flight, starts 1000 and 65530) x feedback (hand-built TWCC chunk lists of every chunk type and symbol size incl. padded final chunks and run lengths beyond the status count, RFC 8888 blocks, closed loop through the library's own twcc.Recorder / rfc8888.Recorder, read sequences of depth 3-4 incl. compound, duplicated and overlapping feedback) are executed on internal/cc.FeedbackAdapter and on rtpfb.Interceptor through its public API; expected status/arrival/ECN per sequence number come from an independent decoder of the marshalled feedback bytes.",
   note=TRUST + "completeness is demanded only for the 250 most recent packets (documented history size); two behaviours pinned by the repository's own tests are known findings.", ref="DESIGN.md 3/C09"),
 'C10': dict(engine='vsched-e1', technique=E1,
   text="For every interceptor of the library (17 kinds, 36 scenarios) a closed harness of 2-3 application threads forced onto the same stream/SSRC (writers, readers, independent RTCP read loops, Unbind/Close, getters, rate changes) plus the interceptor's own goroutines and timer firings is explored over every schedule that departs from the default schedule at most 3 (quick) / 4 (thorough) times; on every schedule the race detector is read, deadlocks, panics and leaked goroutines are detected, and every successfully written packet must reach the transport exactly once with its payload.",
   note=TRUST + "only concurrency the Interceptor interface permits is generated; map iteration in the code under test is made deterministic (sorted keys), so behaviours that need a particular random map order are not explored.", ref="DESIGN.md 3/C10"),
 'C11': dict(engine='vsched-e2', technique=E2 + "; plus " + E1,
   text="(1) For every interceptor of the library, all sequences up to depth 5-6 of BindRTCPWriter, BindRTCPReader, ReadRTCP, toggle RTCP-writer failure, Tick, Close and per stream Bind/Unbind/traffic, each call on its own thread so that a call that never returns is observed: lifecycle calls must return, Close must release every pending traffic call, leave no goroutine of the interceptor alive and be followed by silence at the transport for five intervals; after Unbind nothing about that SSRC may be emitted from the second interval on. (2) For every interceptor, every schedule with at most 3 (4) deviations of a traffic thread racing Close or Unbind+Close under the race detector: no deadlock, panic or leak, nothing written by the interceptor's goroutines after Close returned.",
   note=TRUST + "a second Close is not issued; traffic is generated on a stream only while it is bound or after Close; transport-wide (TWCC) feedback is not treated as being about a stream.", ref="DESIGN.md 3/C11"),
 'C13': dict(engine='vsched-e2', technique="differential " + E2 + "; plus " + E1,
   text="(1) For every interceptor and option variant (except the responder's documented DisableCopy), all histories up to depth 4 (5) over 10 symbols are executed twice - fresh allocations per call vs. one header/payload/read buffer reused and overwritten right after each call returns, with the application scheduled ahead of the interceptor's goroutines - and everything emitted (packets at the transport, text and binary dumps, statistics) must be identical and the payload unchanged at return. (2) Every schedule with at most 3 (4) deviations of a caller that overwrites its buffers as soon as each call returns, racing the interceptor's goroutines under the race detector: a late read of caller memory is a reported race.",
   note=TRUST + "RTCP packet objects handed to the RTCP writer are not among the buffers the property lets the caller reuse; RTX sequence numbers (pion/randutil) are normalised.", ref="DESIGN.md 3/C13"),
 'C14': dict(engine='vsched-e3', technique=E3 + "; plus explicit-state search over successive batches through one encoder",
   text="For every (media count, FEC count) in the boundary set x all counterparts (quick) / all 12210 pairs (thorough), three successive batches through one FlexEncoder03 (pooled scratch buffers, coverage reuse), bases 0/1000/65530, header shapes and lengths differing within a batch, all 16^k shape/length assignments for k<=4, plus the interceptor with two FEC streams: every repair packet is parsed by an independent FlexFEC-03 header parser and every packet named in its mask is recovered by XOR and compared byte for byte; masks must name exactly the combined packets, every media packet must be protected, repair packets carry FEC SSRC/PT with consecutive sequence numbers, media first and unmodified.",
   note=TRUST + "payload bytes are a fixed pattern per (batch,index); the repository's decoder is not used.", ref="DESIGN.md 3/C14"),
 'C15': dict(engine='vsched-e1', technique=E1,
   text="Every interleaving (all of them for 3 writers x 2 packets: the evidence reports all_interleavings=true; deviation bound 4 for 4 writers) of concurrent writers on two negotiated and one non-negotiated stream of one HeaderExtensionInterceptor is executed for each (extension id, profile, pre-existing extension) configuration, including writers started just below the 2^16 wrap, with uniqueness/consecutiveness/header-preservation checked at the transport and the race detector read after each schedule.",
   note=TRUST + "rtp.Header.GetExtension/DelExtension are used to read headers at the transport.", ref="DESIGN.md 3/C15"),
 'C16': dict(engine='vsched-e2', technique=E2,
   text="All histories up to depth 5 (6) over 15 symbols (send 1/5 packets; feedback for everything sent since the last feedback under 8 arrival patterns incl. identical and decreasing arrival times, growing queueing delay, 50% and near-total loss, duplicated and reordered reports, generated by the library's own TWCC / RFC 8888 recorders and passed through Marshal/Unmarshal; advance 5 ms/250 ms/1 s; Close) are executed on gcc.SendSideBWE for six (initial,min,max) x pacer x feedback-kind configurations under the virtual clock; in every state the target must be finite, positive, within [min,max], equal to the last value given to the change callback, and the injected pacer must have been told the same sequence; WriteRTCP must return, and fail with ErrSendSideBWEClosed after Close.",
   note=TRUST + "callback order is the spawn order of the callback goroutines (DESIGN.md section 5).", ref="DESIGN.md 3/C16"),
 'C17': dict(engine='vsched-e2', technique=E2 + "; plus " + E1,
   text="(1) All histories up to depth 4 (5) over 16 symbols (writes of 12..1532 bytes on the wire on two streams, advance 1/10/200 pacing intervals, SetRate 100k/1M/5M, Close) on pacing.Interceptor, gcc.LeakyBucketPacer and gcc.NoOpPacer under the virtual clock with golang.org/x/time/rate instrumented too: after every step deliveries are a per-stream prefix of the accepted packets (exactly once, in order, intact), token-bucket releases stay within burst + integral of the rate, and after a drain phase nothing accepted is missing. (2) Every schedule with at most 3 (4) deviations of two writers on one stream, an optional SetRate and the pacer goroutine with two timer firings under the race detector.",
   note=TRUST + "packets whose Write returns an error are not accepted; the returned byte count is not judged.", ref="DESIGN.md 3/C17"),
 'C20': dict(engine='vsched-e3', technique="exhaustive enumeration of the finite input space on the real code: " + E3,
   text="Unwrapper: every (previous result p in [0,2^17), next uint16) pair - 8.6e9 Unwrap calls on the real type, reached through the public API by walking one instance and applying every next to a copy - plus regions around 2^31/2^32 (thorough: 2^47, 2^48, 2^51), all boundary-input sequences of length <=3 (4) from every p and all short true-value streams. NTP: every nanosecond of 2^16-ns (thorough 2^20-ns) windows around 52 anchors (epoch, powers of two, float64 rounding boundaries, second and 65536-second window boundaries, end of era 0): monotonicity over adjacent nanoseconds, 64-bit round trip within 1 us, 32-bit round trip within 1/65536 s for references in the same window.",
   note="Pure functions (no scheduler involved); results hold for amd64 float-to-integer conversion; NTP instants outside the enumerated windows are not covered.", ref="DESIGN.md 3/C20"),
}
checks = []
for pid in sorted(CHECKS):
    c = CHECKS[pid]
    checks.append({
        "property_id": pid,
        "quick_cmd": f"./bin/verif check {pid} --tier quick",
        "thorough_cmd": f"./bin/verif check {pid} --tier thorough",
        "evidence_file": f"/verif/evidence/{pid}.json",
        "replay_cmd_template": "./bin/verif replay {path}",
        "engine": c['engine'],
        "technique": c['technique'],
        "level_claimed": {"category": "model_checking", "text": c['text'], "design_ref": c['ref']},
        "level_note": c['note'],
    })
na = [{"property_id": p['id'], "reason": "check not registered yet in this build of /verif (model checking applies; planned, see DESIGN.md section 3)"}
      for p in props if p['id'] not in CHECKS]
m = {"version": 1, "setup_cmd": "./setup.sh",
     "hooks": {"guard": "verif-overlay",
               "enable": "no hooks are committed to /repo: every check instruments /repo's current working tree on the fly (engine/vrewrite) and builds it through `go build -overlay` together with the vsched runtime and the harness sources; /repo itself is never written",
               "baseline_off_cmd": "cd /repo && GOFLAGS=-mod=mod go test -vet=off -count=1 -timeout 25m ./...",
               "source_commits": [], "add_only": True},
     "engines": [
        {"name": "vsched-e2", "path": "engine/ harness/hk/search.go", "serves_properties": sorted(k for k, v in CHECKS.items() if v['engine'] == 'vsched-e2'),
         "kind_free_text": "hand-written controlled scheduler + source instrumenter; explicit-state search over operation sequences on the real code"},
        {"name": "vsched-e1", "path": "engine/vsched/explore.go harness/hk/e1.go", "serves_properties": sorted(k for k, v in CHECKS.items() if v['engine'] == 'vsched-e1'),
         "kind_free_text": "hand-written controlled scheduler; stateless DFS over schedules with preemption bounding and the race detector in the loop"},
        {"name": "vsched-e3", "path": "harness/", "serves_properties": sorted(k for k, v in CHECKS.items() if v['engine'] == 'vsched-e3'),
         "kind_free_text": "bounded-exhaustive grammar enumeration on the real code"}],
     "checks": checks, "not_applicable": na,
     "notes": "See DESIGN.md. fix: commits made in /repo are recorded in known_findings.json (fixed entries suppress nothing)."}
json.dump(m, open(os.path.join(ROOT, 'MANIFEST.json'), 'w'), indent=1)
print("claimed:", sorted(CHECKS), "not claimed:", [x['property_id'] for x in na])
