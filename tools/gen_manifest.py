#!/usr/bin/env python3
"""Generates /verif/MANIFEST.json from the table below (kept next to the checks so it stays current)."""
import json, os
ROOT = os.path.dirname(os.path.dirname(os.path.abspath(__file__)))
props = [json.loads(l) for l in open(os.path.join(ROOT, 'properties.jsonl'))]
TRUST = ("Trusts the vsched models of mutex/atomic/channel/select/timer semantics and their race annotations (litmus suite run in the same binary "
         "before every check) and the vrewrite instrumenter (syntax-directed, fails closed); ")
E2 = "explicit-state model checking of the implementation: exhaustive breadth-first search over operation histories on the real code under a controlled scheduler and virtual clock, compared with a reference model at every transition"
E1 = "stateless model checking of the implementation: exhaustive depth-first exploration of goroutine schedules (iterative preemption bounding, happens-before fingerprint pruning) under a controlled scheduler, with the Go race detector evaluated on every explored schedule"
E3 = "bounded-exhaustive enumeration of a structured input grammar against the real code with an independent decoder/reference as oracle"
CHECKS = {
 'C01': dict(engine='vsched-e2', technique=E2,
   text="For every ordered chain without repetition of length 0-2 (thorough: 3) of the 14 non-buffering interceptor factories, every option variant for single members and the 14 rotations of the full chain, built directly and through Registry.Build, all operation sequences up to depth 4 (single members) / 3 (longer chains) over 19 symbols (six header shapes written, four read, incoming SR/NACK/TWCC/CCFB, application RTCP, tick, arm the next transport write/read to fail) are executed between a mock transport and the application: the application packet must reach the transport exactly once during its own Write, first, with identical header and payload (transport-cc value aside); reads return the transport's bytes and a matching cached parse; injected transport errors are returned (errors.Is); the feedback of a history with a failed read equals that of its twin without the read. A separate enumeration of chains of counting members (all shapes up to length 4, every subset failing Close) checks that Unbind/Close reach every member exactly once, that Close errors are preserved and that Registry.Build keeps factory order.",
   note=TRUST + "application packets on the negotiated stream carry the transport-cc extension themselves; an error produced by an interceptor itself (not by the transport) is not judged beyond non-duplication.", ref="DESIGN.md 3/C01"),
 'C02': dict(engine='vsched-e3', technique=E3,
   text="3.5 million structured inputs (quick; thorough adds all 256 first bytes and TWCC chunk lists of length 3) are delivered through every Bind*Reader / BindLocalStream path of every interceptor individually and through the chain of all pass-through interceptors, after a prior history and with the previous packet still in the read buffer: incoming RTP over first byte x second byte x 13 lengths x extension header/body variants x padding counts; TWCC over bases x status counts x all chunk lists x delta tails (run lengths beyond the count, missing deltas); CCFB blocks incl. num_reports 16384/65535 and every truncation; every single-byte replacement and every truncation of 12 well-formed RTCP types, all ordered compound pairs; outgoing packets of 8 sizes up to 65535 x 6 header shapes and legacy padding counts. No goroutine may panic, no loop may exceed its step budget, the caller must return, n <= len(buffer), and well-formed probe packets must keep being processed.",
   note=TRUST + "a small-scope grammar, not all byte strings: inputs that need two unrelated corruptions at distance are outside the bound.", ref="DESIGN.md 3/C02"),
 'C03': dict(engine='vsched-e2', technique=E2 + "; plus " + E1,
   text="All arrival/tick histories up to the stated depth over a 17-symbol alphabet built from the receive log's branch conditions, for every (window, skipLastN, maxNacks, start) configuration listed in the evidence, are executed on the real NACK generator interceptor and compared at every tick with a reference on unwrapped sequence numbers. Exhaustive within the bounds; longer histories and other window sizes are not covered.",
   note=TRUST + "pion/rtcp NackPair fields are read directly, the PID/BLP expansion is the harness's own.", ref="DESIGN.md 3/C03"),
 'C04': dict(engine='vsched-e2', technique=E2 + "; plus " + E1,
   text="(1) All send/NACK/Unbind/Rebind/Close histories up to the stated depth over a 20-symbol alphabet (late and out-of-window sends, NACKs at and around both window edges, never-sent numbers, unbound SSRC) for buffer sizes 1, 2, 8 (and 1024), RTX on/off, with three padding forms, are executed on the real ResponderInterceptor and every retransmission is compared byte for byte with the packet as originally sent (or its RFC 4588 form). (2) Every schedule up to preemption bound 2 (quick) / 3-4 (thorough) of a writer evicting ring slots while a NACK for those slots is processed asynchronously, optionally racing UnbindLocalStream, Close or a second NACK, is executed under the race detector with the buffer pool modelled as LIFO (immediate recycling).",
   note=TRUST + "retransmissions are recognised at the transport as packets written by goroutines the interceptor started; rtcp.Marshal serialises the NACK that is fed to the RTCP reader.", ref="DESIGN.md 3/C04"),
 'C05': dict(engine='vsched-e3', technique=E3 + "; plus " + E2,
   text="(1) Packer: every status string over {received small delta, received large delta, lost} of length <= 12/11 (thorough 16/14) under 8 arrival-time flavours (1-byte/2-byte delta edge, +-8192 ms split edges, zero and negative steps, rounding drift, 24-bit reference wrap) and every list of up to 3-4 runs of boundary lengths, recorded on twcc.Recorder and built once. (2) Histories: all Record(dseq, dt)/Build sequences to depth 2-5 over 10 sequence steps x 7 time steps from three starts (0, 65530, just below the reference wrap), and the same kind of histories through SenderInterceptor on the virtual ticker. Every packet produced is decoded from its marshalled bytes by an independent draft-holmer-01 decoder: declared length, one status per number, one delta per received status, decoded arrival within 125 us of an admissible recorded arrival, not-received only if admissible, everything recorded since the last build reported, consecutive non-overlapping ranges, feedback counter +1 per packet.",
   note=TRUST + "'the first arrival still within the 500 ms history' is modelled as: the first arrival is held, a duplicate of a held number is ignored, an arrival may leave from 500 ms later on (when it actually leaves is left free).", ref="DESIGN.md 3/C05"),
 'C06': dict(engine='vsched-e2', technique=E2,
   text="All histories up to depth 5-6 (thorough 6-8) over per-aspect alphabets - loss (16 symbols incl. +8191/+8192/+8193, +32767, -8191, previous report boundary), jitter (23 symbols of timestamp/clock steps incl. the 2^32 wrap in both directions), sender reports (bound/unbound SSRC, compound), mixed and two-stream products - for sequence starts 0/65534/65535, timestamp starts 0/2^32-3000/2^31-1500 and clock rates 90000/8000/48000, through ReceiverInterceptor with the virtual clock and ticker; every report is decoded from its marshalled bytes and compared with an RFC 3550 reference on unwrapped numbers with exact rational arithmetic (extended highest, fraction, cumulative with saturation, wrap-safe jitter +-1, LSR/DLSR). Four scripted long histories cover 260 sequence cycles, saturation of the cumulative count and intervals of 98301 packets.",
   note=TRUST + "reordering is restricted to the 8192-packet history as the quantifier says; the first interval counts the first packet as expected (RFC 3550 A.3).", ref="DESIGN.md 3/C06"),
 'C07': dict(engine='vsched-e2', technique=E2 + "; plus " + E1,
   text="All histories up to depth 5-6 over 12 write symbols (sequence steps incl. +0x7FFF/+0x8000 and out-of-order, same/next/wrapping/zero timestamps, payload sizes 0/1/1460, clock steps) plus tick for 24 configurations (use-latest-packet x clock rate x start values, two streams) through SenderInterceptor under the virtual clock: packet and octet counts modulo 2^32, NTP time of the report instant (+-1 us), RTP time = reference packet timestamp + elapsed x rate modulo 2^32 (+-1) with the reference chosen by the statement's rule. Scripted jobs cover idle periods longer than 2^32 RTP ticks and an octet count beyond 2^32. A second part (C07R, stateless schedule exploration with the race detector) runs one writer per stream against the report loop under a sequence clock, so that a packet can be stamped after the report instant: on every schedule the counts are a prefix of the writes and RTP time = timestamp of the newest accounted packet + (report instant - its send instant) x rate, also for negative differences.",
   note=TRUST + "no RTP time is demanded before the first packet; the NTP tolerance is the one microsecond C20 promises.", ref="DESIGN.md 3/C07"),
 'C08': dict(engine='vsched-e2', technique=E2,
   text="All add/build histories up to depth 5-8 over per-family alphabets (sequence offsets from the highest incl. +0x7FFF jumps, duplicates, reordering below the first packet; arrival/report clock steps around the floor, saturation and 64 s wrap edges; 12 small maximum sizes and 1200/70000) for one to three SSRCs are executed on rfc8888.Recorder and, at smaller depth, through the SenderInterceptor under the virtual clock; every report is decoded from its Marshal() bytes by an independent RFC 8888 decoder and compared with a reference on unwrapped numbers (contiguity, end at highest, received flags, ATO, once-received-never-lost, new arrivals present unless pushed out, size limit).",
   note=TRUST + "the begin of a range is left free (DESIGN.md section 5); ECN bits are not judged.", ref="DESIGN.md 3/C08"),
 'C09': dict(engine='vsched-e2', technique=E2 + "; feedback inputs by " + E3,
   text="Send histories (nothing sent, 24 packets, never-sent numbers, TWCC and non-TWCC SSRCs interleaved, 250/251/262/270 packets in flight, starts 1000 and 65530) x feedback (hand-built TWCC chunk lists of every chunk type and symbol size incl. padded final chunks and run lengths beyond the status count, RFC 8888 blocks, closed loop through the library's own twcc.Recorder / rfc8888.Recorder, read sequences of depth 3-4 incl. compound, duplicated and overlapping feedback) are executed on internal/cc.FeedbackAdapter and on rtpfb.Interceptor through its public API; expected status/arrival/ECN per sequence number come from an independent decoder of the marshalled feedback bytes.",
   note=TRUST + "completeness is demanded only for the 250 most recent packets (documented history size); two behaviours pinned by the repository's own tests are known findings.", ref="DESIGN.md 3/C09"),
 'C10': dict(engine='vsched-e1', technique=E1,
   text="For every interceptor of the library (17 kinds, 36 scenarios) a closed harness of 2-3 application threads forced onto the same stream/SSRC (writers, readers, independent RTCP read loops, Unbind/Close, getters, rate changes) plus the interceptor's own goroutines and timer firings is explored over every schedule that departs from the default schedule at most 3 (quick) / 4 (thorough) times; on every schedule the race detector is read, deadlocks, panics and leaked goroutines are detected, and every successfully written packet must reach the transport exactly once with its payload. The stats recorder's counters are additionally recounted on every schedule of eight scenarios (writers, readers, RTCP read loop, RTCP writer with SR/XR): no lost update.",
   note=TRUST + "only concurrency the Interceptor interface permits is generated; map iteration in the code under test is made deterministic (sorted keys), so behaviours that need a particular random map order are not explored.", ref="DESIGN.md 3/C10"),
 'C11': dict(engine='vsched-e2', technique=E2 + "; plus " + E1,
   text="(1) For every interceptor of the library, all sequences up to depth 5-6 of BindRTCPWriter, BindRTCPReader, ReadRTCP, toggle RTCP-writer failure, Tick, Close and per stream Bind/Unbind/traffic, each call on its own thread so that a call that never returns is observed: lifecycle calls must return, a traffic call on an open interceptor whose RTCP writer is bound must return within three timer intervals, Close must release every pending traffic call, leave no goroutine of the interceptor alive and be followed by silence at the transport for five intervals; after Unbind nothing about that SSRC may be emitted from the second interval on. (2) For every interceptor, every schedule with at most 3 (4) deviations of a traffic thread racing Close or Unbind+Close under the race detector: no deadlock, panic or leak, nothing written by the interceptor's goroutines after Close returned.",
   note=TRUST + "a second Close is not issued; traffic is generated on a stream only while it is bound or after Close; transport-wide (TWCC) feedback is not treated as being about a stream.", ref="DESIGN.md 3/C11"),
 'C12': dict(engine='vsched-e2', technique="explicit-state pumping search on the real code: every workload cycle up to a length bound is iterated for five equal phases on one instance under the virtual clock and a deterministic reflective retained-size measure is compared at the phase boundaries",
   text="For every interceptor, every workload cycle of length <= 2 (thorough 3) over {in-order packet, skipped number, duplicate, late packet, feedback read, extra tick} is repeated 3000 (thorough 10000; 4000 for the pacers and the jitter buffer) times per phase for five phases, each packet advancing the virtual clock by 1 ms so that the interceptor's own timers fire; the retained size (reflective walk from the interceptor: maps by length, slices by capacity, channel models by queued elements) must not grow by a byte per iteration in each of the last three phases. In addition two streams carry the same traffic, one is unbound, the other carries two more seconds of traffic, and the size must be within 256 bytes of an instance that only ever had the other stream.",
   note=TRUST + "boundedness is decided for all short cycles, not all histories; a structure whose capacity exceeds 3xP elements would look like growth; pooled buffers, package-level pools and application-owned writers are not counted; collectability is reachability from the interceptor, the garbage collector is not observed.", ref="DESIGN.md 3/C12"),
 'C13': dict(engine='vsched-e2', technique="differential " + E2 + "; plus " + E1,
   text="(1) For every interceptor and option variant (except the responder's documented DisableCopy), all histories up to depth 4 (5) over 11 symbols (incl. a 1461-byte payload, one byte above the pooled buffers) are executed twice - fresh allocations per call vs. one header/payload/read buffer reused and overwritten right after each call returns, with the application scheduled ahead of the interceptor's goroutines - and everything emitted (packets at the transport, text and binary dumps, statistics) must be identical and the payload unchanged at return. (2) Every schedule with at most 3 (4) deviations of a caller that overwrites its buffers as soon as each call returns, racing the interceptor's goroutines under the race detector: a late read of caller memory is a reported race.",
   note=TRUST + "RTCP packet objects handed to the RTCP writer are not among the buffers the property lets the caller reuse; RTX sequence numbers (pion/randutil) are normalised.", ref="DESIGN.md 3/C13"),
 'C14': dict(engine='vsched-e3', technique=E3 + "; plus explicit-state search over successive batches through one encoder",
   text="For every (media count, FEC count) in the boundary set x all counterparts (quick) / all 12210 pairs (thorough), three successive batches through one FlexEncoder03 (pooled scratch buffers, coverage reuse), bases 0/1000/65530, header shapes and lengths differing within a batch, all 16^k shape/length assignments for k<=4, plus the interceptor with two FEC streams: every repair packet is parsed by an independent FlexFEC-03 header parser and every packet named in its mask is recovered by XOR and compared byte for byte; masks must name exactly the combined packets, every media packet must be protected, repair packets carry FEC SSRC/PT with consecutive sequence numbers, media first and unmodified.",
   note=TRUST + "payload bytes are a fixed pattern per (batch,index); the repository's decoder is not used.", ref="DESIGN.md 3/C14"),
 'C15': dict(engine='vsched-e1', technique=E1,
   text="Every interleaving (all of them for 3 writers x 2 packets: the evidence reports all_interleavings=true; deviation bound 4 for 4 writers) of concurrent writers on two negotiated and one non-negotiated stream of one HeaderExtensionInterceptor is executed for each (extension id, profile, pre-existing extension) configuration, including writers started just below the 2^16 wrap, with uniqueness/consecutiveness/header-preservation checked at the transport and the race detector read after each schedule.",
   note=TRUST + "rtp.Header.GetExtension/DelExtension are used to read headers at the transport.", ref="DESIGN.md 3/C15"),
 'C16': dict(engine='vsched-e2', technique=E2 + "; plus " + E1,
   text="All histories up to depth 5 (6) over 15 symbols (send 1/5 packets; feedback for everything sent since the last feedback under 8 arrival patterns incl. identical and decreasing arrival times, growing queueing delay, 50% and near-total loss, duplicated and reordered reports, generated by the library's own TWCC / RFC 8888 recorders and passed through Marshal/Unmarshal; advance 5 ms/250 ms/1 s; Close) are executed on gcc.SendSideBWE for six (initial,min,max) x pacer x feedback-kind configurations under the virtual clock; in every state the target must be finite, positive, within [min,max], equal to the last value given to the change callback, and the injected pacer must have been told the same sequence; WriteRTCP must return, and fail with ErrSendSideBWEClosed after Close. Cycle pumping repeats every cycle of length <= 4 over a reduced alphabet 30 times with the invariant after every operation. A second part (C16R) feeds two prepared reports while Close runs on another goroutine and explores every schedule with at most 2 (3) deviations under the race detector: each call returns nil or the closed error, nothing panics, deadlocks or outlives Close.",
   note=TRUST + "callback order is the spawn order of the callback goroutines (DESIGN.md section 5).", ref="DESIGN.md 3/C16"),
 'C17': dict(engine='vsched-e2', technique=E2 + "; plus " + E1,
   text="(1) All histories up to depth 4 (5) over 16 symbols (writes of 12..1532 bytes on the wire on two streams, advance 1/10/200 pacing intervals, SetRate 100k/1M/5M, Close) on pacing.Interceptor, gcc.LeakyBucketPacer and gcc.NoOpPacer under the virtual clock with golang.org/x/time/rate instrumented too: after every step deliveries are a per-stream prefix of the accepted packets (exactly once, in order, intact), token-bucket releases stay within burst + integral of the rate, and after a drain phase nothing accepted is missing. (2) Every schedule with at most 3 (4) deviations of two writers on one stream, an optional SetRate and the pacer goroutine with two timer firings under the race detector; plus a rate reduction while the token bucket drains (per-segment rate bound) and a writer whose packets are accepted while a backlog that exceeds every tick's budget drains (delivery order = acceptance order).",
   note=TRUST + "packets whose Write returns an error are not accepted; the returned byte count is not judged.", ref="DESIGN.md 3/C17"),
 'C18': dict(engine='vsched-e2', technique=E2,
   text="All histories up to depth 5-6 (thorough 7-9) of Push (sequence numbers around the 2^16 wrap, two timestamps, duplicates, all arrival orders), Pop, PopAtSequence, PopAtTimestamp, Peek, PeekAtSequence, SetPlayoutHead, Clear(true|false) for minimum counts 1-3 on jitterbuffer.JitterBuffer, the same on PriorityQueue (with Find and Length), and read suffixes after scripted prefixes through the interceptor's RTPReader, each history on a fresh instance with a step budget (an endless loop is a reported class), compared with a reference multiset of pushed packet objects.",
   note=TRUST + "Peek/Find results are judged only by the Clear clause; 'consecutive' is demanded between pops at the playout head with no head-moving call in between (DESIGN.md section 5).", ref="DESIGN.md 3/C18"),
 'C19': dict(engine='vsched-e2', technique=E2 + "; plus " + E1,
   text="All histories up to the depth (8 search families) over in/out RTP for SSRCs A, B and an unbound one (steps +1,+2,dup,-1,-2,+300,+32765 from starts around 0/32767/65535, two header shapes, two sizes), all ordered compound RTCP lists of length <= 2 in both directions over 27 elements (SR with/without blocks, RR/XR-DLRR echoing the latest/previous/fifth-latest report, XR-RRTR, NACK, PLI, FIR in both conventions, mixed and unbound-SSRC variants) and three clock steps, through stats.Interceptor with SetNowFunc; after every symbol Get(A) and Get(B) are compared field by field with a recount by the WebRTC-stats formulas and Get of never-bound SSRCs must be nil; one family unbinds one of the two bindings of an SSRC while the other keeps carrying traffic. In addition every schedule with at most 3 (4) deviations of concurrent writers, readers, an RTCP read loop and an RTCP writer through one interceptor is explored under the race detector and the (commutative) counters must equal the recount on each of them.",
   note=TRUST + "inbound jitter and last-packet timestamps are not in the statement and not judged.", ref="DESIGN.md 3/C19"),
 'C20': dict(engine='vsched-e3', technique="exhaustive enumeration of the finite input space on the real code: " + E3,
   text="Unwrapper: every (previous result p in [0,2^17), next uint16) pair - 8.6e9 Unwrap calls on the real type, reached through the public API by walking one instance and applying every next to a copy - plus regions around 2^31/2^32 (thorough: 2^47, 2^48, 2^51), all boundary-input sequences of length <=3 (4) from every p and all short true-value streams. NTP: every nanosecond of 2^16-ns (thorough 2^20-ns) windows around 52 anchors (epoch, powers of two, float64 rounding boundaries, second and 65536-second window boundaries, end of era 0): monotonicity over adjacent nanoseconds, 64-bit round trip within 1 us, 32-bit round trip within 1/65536 s for references in the same window.",
   note="Pure functions (no scheduler involved); results hold for amd64 float-to-integer conversion; NTP instants outside the enumerated windows are not covered.", ref="DESIGN.md 3/C20"),
}
# additions made after seeded changes showed gaps (DESIGN.md 11.4); appended to the texts above
EXTRA = {
 'C01': " A third local stream that negotiated the same header extensions under different ids is bound last and stays idle (per-stream settings must stay per stream). A well-formed application packet that does not reach the transport exactly once although the transport did not fail is a violation.",
 'C03': " Two configurations use skipLastN 600 in a window of 1024 with the options given in both orders and steps relative to skipLastN.",
 'C04': " Unless DisableCopy is set, the caller overwrites its header (fields, CSRC, extension payloads) and payload right after every Write.",
 'C07': " Three configurations start the clock shortly before the end of NTP era 0 (the second tick crosses it), a day after it and in 2040.",
 'C10': " The estimator is also closed while feedback that makes it publish estimates is in flight (C16R as a part of this check).",
 'C11': " The rebind differential (an instance on which the SSRC was bound, used, unbound - possibly several times - and bound again must emit the same about that stream, statistics included, as an instance that never had it) runs for every interceptor over all histories up to depth 3 (5) of five operations.",
 'C12': " The workload writes the same sequence-number pattern on a transport-cc stream and on a stream that negotiated nothing; pacers run at 4 Mbit/s, above what the workload offers. Violation keys name the irregular operations a growing cycle needs. Known findings: rtpfb history (2) and the jitter buffer interceptor growing without bound after a lost packet or on old duplicates / late packets (7 keys).",
 'C13': " The packet dumpers are also run with the default text format and a filter that looks at packet contents on the logger goroutine.",
 'C16': " The change callback reads GetTargetBitrate and GetStats, as an application would.",
 'C17': " One packet size carries a header extension, and the caller overwrites header and payload right after every Write.",
 'C18': " Minimum-start count 0 is included.",
}
for k, v in EXTRA.items():
    CHECKS[k]['text'] += v
# additions after the fourth round of seeded changes
EXTRA2 = {
 'C01': " The lifecycle part includes chains nested in chains (also a Registry inside a Registry) with every subset of members failing in Close.",
 'C02': " Two more grammars feed well-formed packets whose sequence number, transport-wide number and timestamp walk through every ordered pair of boundary values (0, 1, 2, 2^15-2..2^15+1, 2^16-2, 2^16-1), incoming and outgoing.",
 'C03': " Feedback lists are negotiated in two orders ([nack] and [goog-remb, ccm fir, nack pli, nack, transport-cc]); the stream that must never be NACKed negotiated [nack pli, ccm fir].",
 'C04': " In the RTX configurations Unbind gets a copy of the stream description without feedback types.",
 'C05': " The reference lets an arrival leave the 500 ms history only when a higher number is recorded at least 500 ms later.",
 'C06': " Two scripted histories lose 2^24 or more packets within one interval.",
 'C11': " For interceptors with timers whose Close tolerates repetition, two threads issue Close concurrently: a Close call that returns must do so after the interceptor's goroutines have stopped writing.",
 'C12': " 120 remote streams receiving in turn are measured for the kinds that see only incoming RTP.",
 'C13': " Sequence numbers wrap inside every history of three or more packets; one FlexFEC variant uses batches of 3 with 2 repair packets.",
 'C16': " One configuration injects a pacer whose Close fails; after Close real feedback must be refused with the closed error.",
 'C17': " The leaky bucket pacer is also driven inside gcc.SendSideBWE behind the cc interceptor with a transport-cc stream and a plain stream.",
 'C18': " Minimum-start counts 103 and 150 are explored after a run of 99 / 147 packets (across the buffer's overflow mark).",
 'C19': " One family starts the clock 2.5 s before the 32-bit LSR/LRR field wraps.",
}
for k, v in EXTRA2.items():
    CHECKS[k]['text'] += v
# additions after the fifth round of seeded changes
EXTRA3 = {
 'C01': " One write symbol puts another bound stream's SSRC into a packet written on stream 1. Known finding: the gcc pacers route packets by the SSRC in the header.",
 'C03': " A second part (C03R, stateless schedule exploration with the race detector) runs the arrival of a packet that moves the window concurrently with the reporting tick: the numbers requested must be exactly those missing before or exactly those missing after the arrival.",
 'C07': " Some write symbols carry padding, marker and CSRCs.",
 'C08': " One profile lets the arrival clock step backwards between packets.",
 'C09': " A sibling interceptor built by the same factory sends packets with the same SSRCs and numbers but other sizes.",
 'C10': " The NACK generator is also explored with a per-packet NACK limit.",
 'C11': " For the jitter buffer the first read of a stream is preceded by a run of packets that starts playout with the playout head missing.",
 'C12': " With every RTP write at the transport failing, neither the retained size nor the number of packets written but never offered to the next writer may grow.",
 'C13': " The bytes returned by every Read are part of the compared transcript; the jitter buffer gets a warm-up run with a late number and a tail that plays everything out.",
 'C14': " Every interceptor-level case is preceded by an earlier life of each stream with another FEC payload type.",
 'C15': " A fan-out of one parsed packet to a negotiated and a non-negotiated stream must leave the receive buffer and the second copy untouched.",
 'C17': " Scripted histories change the rate by -4 %, -1 % and +2 % while a backlog of 250 packets drains.",
 'C19': " One concurrent scenario unbinds a stream while a compound with NACKs for two other streams is read.",
}
for k, v in EXTRA3.items():
    CHECKS[k]['text'] += v
# additions after the sixth round of seeded changes
EXTRA4 = {
 'C01': " One symbol makes the next RTCP write at the transport fail (the injected transport error wraps io.ErrClosedPipe); a Read or Write that never returns is a violation.",
 'C02': " Every job ends with Close followed by one more well-formed packet, which must not crash or wedge.",
 'C03': " Every fourth arrival is a padding-only packet.",
 'C04': " The quick tier includes the largest legal size 32768.",
 'C05': " Scripted histories let the arrival-time ring grow beyond 512 numbers, shrink to a range that is not a power of two and then take a late packet.",
 'C09': " The second transport-cc stream negotiates another extension id and carries an unrelated extension under the first one's id.",
 'C10': " Writes to the mock transport are scheduling points. C15R (with a next writer that fails while other streams write) runs as a part of this check as well.",
 'C11': " Writes to the mock transport are scheduling points (a lock released just before a write no longer hides the window); NACKs name several buffered packets in one entry; a request's goroutine may write at most one retransmission after UnbindLocalStream returned.",
 'C14': " A bystander encoder of another stream encodes with the first batch's configuration and switches configuration before every later batch.",
 'C15': " In one scenario the next writer of one stream fails while the other streams write: the numbers seen at the transport (the failing call included) stay unique and consecutive.",
 'C17': " Every stream has an earlier registration with a writer that is gone.",
 'C18': " A scripted case buffers the whole 16-bit sequence space, clears, and starts a new stream.",
}
for k, v in EXTRA4.items():
    CHECKS[k]['text'] += v
EXTRA5 = {
 'C06': " The clock handed to the interceptor (ReceiverNow) is the virtual time plus a skew that two symbols step backwards; arrival and report instants of the reference are readings of that clock (a negative delay since the last sender report is not judged).",
 'C10': " After the only stream of the NACK generator was unbound concurrently with the reporting tick, the retained size must equal that of an instance that never had a stream; a stream re-bound as another one while the old writer is still writing must not inherit its counters (sender reports).",
}
for k, v in EXTRA5.items():
    CHECKS[k]['text'] += v
EXTRA6 = {
 'C02': " After every outgoing input the probe packet must not only be accepted but reach the transport (pacers: within 400 intervals); outgoing inputs include packets on the stream's RTX/FEC SSRC and on an unannounced SSRC.",
 'C03': " The long restricted alphabets and the two-stream configuration include a tick during which the RTCP writer refuses every write: what was offered is judged like a written request and may not come back at a later tick.",
 'C06': " One of the two loss-accounting configurations binds a 48 kHz stream.",
 'C08': " Interceptor-mode histories include clock readings with sub-microsecond parts around the rounding edge of the 1/1024 s unit and 1 ns after the report instant.",
 'C09': " TWCC reference times include 70000, 2^20 and 2^24-1 (microsecond values beyond 32 bits).",
 'C10': " Race reports are not de-duplicated by the detector; several schedules are recorded per race class and the first that fails again five times out of five is reported.",
 'C11': " Unbind of stream 1 names only the SSRC; every kind is searched again from warmed-up states (writer/reader bound, stream 1 bound, two traffic calls).",
 'C12': " The unbind measurement passes a StreamInfo that names only the SSRC.",
 'C13': " Every second packet of the CSRC shape is written with the stream's RTX SSRC.",
 'C15': " After the concurrent phase the other streams are unbound and two more packets written: the numbers continue the run.",
 'C16': " Configurations give the initial/min/max options in three orders with limits outside the package defaults.",
 'C17': " Every second 700-byte packet carries a longer value in the same header extension.",
 'C19': " The 32-bit counters of incoming sender reports wrap between the first and the second report of a history.",
}
for k, v in EXTRA6.items():
    CHECKS[k]['text'] += v
EXTRA7 = {
 'C01': " The lifecycle part binds a remote stream with the SSRC number of a local stream and unbinds every stream: each Unbind reaches every member.",
 'C04': " C04R also reads two compounds of two NACK packets each on one reader, the second while requests of the first may be under way.",
 'C06': " Part C06R (E1, -race): two packets with a gap arrive while the report loop builds the first report and writes it (a scheduling point); on every schedule the reports of two consecutive ticks agree with the arrivals (every packet belongs to exactly one interval).",
 'C09': " Every rtpfb.Report handed to the application is kept and compared again at the end of the history: it does not change when later feedback is read.",
 'C11': " Remote sequence numbers start at 65529 (the third packet of a stream is 65535, later ones have wrapped).",
 'C13': " Every second packet of the one-byte-extension shape carries a longer value in the same extension.",
 'C14': " Part C14R (E1, -race): two threads write b,b+2,b+3 and b+1 of one stream so that consecutive batches complete on different threads; every repair packet decodes against the packets written, repair sequence numbers are distinct and contiguous, media packets are forwarded once and unmodified.",
}
for k, v in EXTRA7.items():
    CHECKS[k]['text'] += v
EXTRA8 = {
 'C01': " Before any stream is bound, RTCP is written and read twice through every chain.",
 'C04': " C04R also runs UnbindLocalStream followed by Close against a NACK under way (bound 3): no retransmission is written after Close returned; writes to the sink are scheduling points.",
 'C07': " Idle scripts at 192 kHz and 1 MHz (elapsed x rate beyond 2^31 within hours or minutes).",
 'C08': " In recorder mode the previous report is marshalled again after the next BuildReport and must not have changed.",
 'C09': " The two RFC 8888 streams have SSRCs that are equal in their low 16 bits.",
 'C12': " The workload also writes packets with the stream's RTX SSRC on the stream's writer.",
 'C13': " A second twcc-sender variant has logging turned on (every level, formatted at once): what is logged is part of what the differential compares; one read shape carries a one-byte transport-cc element on every second packet.",
 'C14': " The earlier binding of the first stream is unbound after the new binding has carried its first packet.",
 'C15': " The packets written after the other streams were unbound carry the stream's RTX and FEC SSRC.",
 'C18': " A second interceptor from the same factory receives one packet before and one after every interceptor-level history and must be buffering on its own.",
 'C19': " The length of the header extension value alternates with the sequence number.",
 'C20': " Replays of a 32-bit conversion carry the conversion made before it (the result must not depend on it).",
}
for k, v in EXTRA8.items():
    CHECKS[k]['text'] += v
EXTRA9 = {
 'C03': " One configuration gives the per-packet limit before the size option (window 1024, jumps beyond 512 missing numbers). One scripted job unbinds a stream with an open gap, binds another NACK stream and lets two ticks pass before its first packet.",
 'C04': " One sequence number in seven is a padding-only packet.",
 'C08': " In interceptor mode every fourth number arrives as a padding-only packet.",
 'C10': " The packetdump variants of the catalog send RTP and RTCP dumps to one writer; for classes raised by the race detector two failing replays out of five of one recorded case suffice.",
 'C12': " One received packet in 64 is padding-only.",
 'C15': " The remaining stream is replaced (second binding of the same SSRC, then Unbind of the first) before the last packets.",
 'C16': " One configuration has its minimum above 100 Mbit/s.",
}
for k, v in EXTRA9.items():
    CHECKS[k]['text'] += v
EXTRA10 = {
 'C04': " C04R also lets the concurrent writer jump over the slots of the packets being retransmitted (gap 1 in a ring of 2 at deviation bound 4; gap 4 in a ring of 4 with Unbind) and then come round the ring onto them; the order of writes to the transport is part of the schedule fingerprint.",
}
for k, v in EXTRA10.items():
    CHECKS[k]['text'] += v
checks = []
for pid in sorted(CHECKS):
    c = CHECKS[pid]
    checks.append({
        "property_id": pid,
        "quick_cmd": f"./bin/verif check {pid} --tier quick",
        "thorough_cmd": f"./bin/verif check {pid} --tier thorough",
        "evidence_file": f"/verif/evidence/{pid}.json",
        "replay_cmd_template": "./bin/verif replay {path}",
        "engine": c['engine'],
        "technique": c['technique'],
        "level_claimed": {"category": "model_checking", "text": c['text'], "design_ref": c['ref']},
        "level_note": c['note'],
    })
na = [{"property_id": p['id'], "reason": "check not registered yet in this build of /verif (model checking applies; planned, see DESIGN.md section 3)"}
      for p in props if p['id'] not in CHECKS]
m = {"version": 1, "setup_cmd": "./setup.sh",
     "hooks": {"guard": "verif-overlay",
               "enable": "no hooks are committed to /repo: every check instruments /repo's current working tree on the fly (engine/vrewrite) and builds it through `go build -overlay` together with the vsched runtime and the harness sources; /repo itself is never written",
               "baseline_off_cmd": "cd /repo && GOFLAGS=-mod=mod go test -vet=off -count=1 -timeout 25m ./...",
               "source_commits": [], "add_only": True},
     "engines": [
        {"name": "vsched-e2", "path": "engine/ harness/hk/search.go", "serves_properties": sorted(k for k, v in CHECKS.items() if v['engine'] == 'vsched-e2'),
         "kind_free_text": "hand-written controlled scheduler + source instrumenter; explicit-state search over operation sequences on the real code"},
        {"name": "vsched-e1", "path": "engine/vsched/explore.go harness/hk/e1.go", "serves_properties": sorted(k for k, v in CHECKS.items() if v['engine'] == 'vsched-e1'),
         "kind_free_text": "hand-written controlled scheduler; stateless DFS over schedules with preemption bounding and the race detector in the loop"},
        {"name": "vsched-e3", "path": "harness/", "serves_properties": sorted(k for k, v in CHECKS.items() if v['engine'] == 'vsched-e3'),
         "kind_free_text": "bounded-exhaustive grammar enumeration on the real code"}],
     "checks": checks, "not_applicable": na,
     "notes": "See DESIGN.md. fix: commits made in /repo are recorded in known_findings.json (fixed entries suppress nothing)."}
json.dump(m, open(os.path.join(ROOT, 'MANIFEST.json'), 'w'), indent=1)
print("claimed:", sorted(CHECKS), "not claimed:", [x['property_id'] for x in na])
