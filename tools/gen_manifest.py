#!/usr/bin/env python3
"""Generates /verif/MANIFEST.json from the table below (kept next to the checks so it stays current)."""
import json, os
ROOT = os.path.dirname(os.path.dirname(os.path.abspath(__file__)))
props = [json.loads(l) for l in open(os.path.join(ROOT, 'properties.jsonl'))]
TRUST = ("Trusts the vsched models of mutex/atomic/channel/select/timer semantics and their race annotations (litmus suite run in the same binary "
         "before every check) and the vrewrite instrumenter (syntax-directed, fails closed); ")
E2 = "explicit-state model checking of the implementation: exhaustive breadth-first search over operation histories on the real code under a controlled scheduler and virtual clock, compared with a reference model at every transition"
E1 = "stateless model checking of the implementation: exhaustive depth-first exploration of goroutine schedules (iterative preemption bounding, happens-before fingerprint pruning) under a controlled scheduler, with the Go race detector evaluated on every explored schedule"
E3 = "bounded-exhaustive enumeration of a structured input grammar against the real code with an independent decoder/reference as oracle"
CHECKS = {
 'C03': dict(engine='vsched-e2', technique=E2,
   text="All arrival/tick histories up to the stated depth over a 17-symbol alphabet built from the receive log's branch conditions, for every (window, skipLastN, maxNacks, start) configuration listed in the evidence, are executed on the real NACK generator interceptor and compared at every tick with a reference on unwrapped sequence numbers. Exhaustive within the bounds; longer histories and other window sizes are not covered.",
   note=TRUST + "pion/rtcp NackPair fields are read directly, the PID/BLP expansion is the harness's own.", ref="DESIGN.md 3/C03"),
 'C04': dict(engine='vsched-e2', technique=E2 + "; plus " + E1,
   text="(1) All send/NACK/Unbind/Rebind/Close histories up to the stated depth over a 20-symbol alphabet (late and out-of-window sends, NACKs at and around both window edges, never-sent numbers, unbound SSRC) for buffer sizes 1, 2, 8 (and 1024), RTX on/off, with three padding forms, are executed on the real ResponderInterceptor and every retransmission is compared byte for byte with the packet as originally sent (or its RFC 4588 form). (2) Every schedule up to preemption bound 2 (quick) / 3-4 (thorough) of a writer evicting ring slots while a NACK for those slots is processed asynchronously, optionally racing UnbindLocalStream, Close or a second NACK, is executed under the race detector with the buffer pool modelled as LIFO (immediate recycling).",
   note=TRUST + "retransmissions are recognised at the transport as packets written by goroutines the interceptor started; rtcp.Marshal serialises the NACK that is fed to the RTCP reader.", ref="DESIGN.md 3/C04"),
 'C15': dict(engine='vsched-e1', technique=E1,
   text="Every interleaving (all of them for 3 writers x 2 packets: the evidence reports all_interleavings=true; preemption bound 4 for 4 writers) of concurrent writers on two negotiated and one non-negotiated stream of one HeaderExtensionInterceptor is executed for each (extension id, profile, pre-existing extension) configuration, including writers started just below the 2^16 wrap, with uniqueness/consecutiveness/header-preservation checked at the transport and the race detector read after each schedule.",
   note=TRUST + "rtp.Header.GetExtension/DelExtension are used to read headers at the transport.", ref="DESIGN.md 3/C15"),
}
checks = []
for pid in sorted(CHECKS):
    c = CHECKS[pid]
    checks.append({
        "property_id": pid,
        "quick_cmd": f"./bin/verif check {pid} --tier quick",
        "thorough_cmd": f"./bin/verif check {pid} --tier thorough",
        "evidence_file": f"/verif/evidence/{pid}.json",
        "replay_cmd_template": "./bin/verif replay {path}",
        "engine": c['engine'],
        "technique": c['technique'],
        "level_claimed": {"category": "model_checking", "text": c['text'], "design_ref": c['ref']},
        "level_note": c['note'],
    })
na = [{"property_id": p['id'], "reason": "check not registered yet in this build of /verif (model checking applies; planned, see DESIGN.md section 3)"}
      for p in props if p['id'] not in CHECKS]
m = {"version": 1, "setup_cmd": "./setup.sh",
     "hooks": {"guard": "verif-overlay",
               "enable": "no hooks are committed to /repo: every check instruments /repo's current working tree on the fly (engine/vrewrite) and builds it through `go build -overlay` together with the vsched runtime and the harness sources; /repo itself is never written",
               "baseline_off_cmd": "cd /repo && GOFLAGS=-mod=mod go test -vet=off -count=1 -timeout 25m ./...",
               "source_commits": [], "add_only": True},
     "engines": [
        {"name": "vsched-e2", "path": "engine/ harness/hk/search.go", "serves_properties": sorted(k for k, v in CHECKS.items() if v['engine'] == 'vsched-e2'),
         "kind_free_text": "hand-written controlled scheduler + source instrumenter; explicit-state search over operation sequences on the real code"},
        {"name": "vsched-e1", "path": "engine/vsched/explore.go harness/hk/e1.go", "serves_properties": sorted(k for k, v in CHECKS.items() if v['engine'] == 'vsched-e1'),
         "kind_free_text": "hand-written controlled scheduler; stateless DFS over schedules with preemption bounding and the race detector in the loop"},
        {"name": "vsched-e3", "path": "harness/", "serves_properties": sorted(k for k, v in CHECKS.items() if v['engine'] == 'vsched-e3'),
         "kind_free_text": "bounded-exhaustive grammar enumeration on the real code"}],
     "checks": checks, "not_applicable": na,
     "notes": "See DESIGN.md. fix: commits made in /repo are recorded in known_findings.json (fixed entries suppress nothing)."}
json.dump(m, open(os.path.join(ROOT, 'MANIFEST.json'), 'w'), indent=1)
print("claimed:", sorted(CHECKS), "not claimed:", [x['property_id'] for x in na])
