#!/bin/sh
# Builds the verif CLI from the sources on disk (offline) and pre-warms the Go
# build cache with the instrumented harness builds (plain and -race).
set -e
cd "$(dirname "$0")"
export GOFLAGS=-mod=mod GOPROXY=off
unset GOTOOLCHAIN GOSUMDB || true
mkdir -p bin evidence replays
go build -o bin/verif ./cmd/verif
./bin/verif setup
