// Command verif is the entry point named in MANIFEST.json.
package main

import (
	"os"

	"verif/engine/cli"
)

func main() {
	os.Exit(cli.Main(os.Args[1:]))
}
