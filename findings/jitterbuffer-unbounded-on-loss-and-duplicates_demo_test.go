package jitterbuffer

import (
	"testing"

	"github.com/pion/interceptor"
	"github.com/pion/rtp"
)

type zzFeed struct{ next []byte }

func (f *zzFeed) Read(b []byte, a interceptor.Attributes) (int, interceptor.Attributes, error) {
	return copy(b, f.next), a, nil
}

func run(t *testing.T, name string, seqs []uint16) {
	f, _ := NewInterceptor()
	i, _ := f.NewInterceptor("")
	feed := &zzFeed{}
	rd := i.BindRemoteStream(&interceptor.StreamInfo{SSRC: 1}, feed)
	ok := 0
	for _, s := range seqs {
		p := rtp.Packet{Header: rtp.Header{Version: 2, SSRC: 1, SequenceNumber: s}, Payload: make([]byte, 100)}
		feed.next, _ = p.Marshal()
		if _, _, err := rd.Read(make([]byte, 1500), nil); err == nil {
			ok++
		}
	}
	ri := i.(*ReceiverInterceptor)
	t.Logf("%s: %d reads, %d returned a packet, %d packets still buffered", name, len(seqs), ok, ri.buffer.packets.Length())
}

func TestZZ(t *testing.T) {
	var inorder, loss, dup []uint16
	for k := 0; k < 20000; k++ {
		inorder = append(inorder, uint16(k))
		if k != 1000 {
			loss = append(loss, uint16(k))
		}
		dup = append(dup, uint16(k))
		if k > 100 {
			dup = append(dup, uint16(k-60)) // a duplicate of a packet that was played out already
		}
	}
	run(t, "in order", inorder)
	run(t, "one packet (1000) lost", loss)
	run(t, "old duplicates", dup)
}
