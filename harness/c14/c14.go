// Package c14 decides property C14 (FlexFEC-03 repair packets recover any
// single loss in their group) by bounded-exhaustive enumeration of
// (media count, FEC count) configurations, base sequence numbers, header
// shapes and payload lengths over successive batches through one encoder,
// with an independent FlexFEC-03 repair-header parser and XOR recovery.
package c14

import (
	"bytes"
	"encoding/json"
	"fmt"
	"time"

	"github.com/pion/interceptor"
	"github.com/pion/interceptor/pkg/flexfec"
	"github.com/pion/interceptor/verifh/hk"
	"github.com/pion/interceptor/vsched"
	"github.com/pion/rtp"
)

const (
	fecPT     = 118
	fecSSRC   = 0xFEC00001
	mediaSSRC = 0x11223344
	maxSteps  = 400_000_000
)

// ---------------------------------------------------------------------------
// Alphabets
// ---------------------------------------------------------------------------

var shapeNames = []string{"plain", "marker", "csrc1", "csrc15", "ext1", "ext2", "pad", "all"}

var lengths = []int{0, 1, 7, 100, 1459, 1460, 1500}

var padSizes = []int{5, 1, 32, 255}

// boundary values of k and n (mask field edges 15 / 46 / 109 and the ends)
var boundary = []int{1, 2, 3, 5, 14, 15, 16, 45, 46, 47, 108, 109, 110}

// third-batch configurations (k', n')
var thirdSet = [][2]int{{1, 1}, {3, 2}, {16, 3}, {47, 5}, {109, 4}, {15, 15}, {46, 2}, {108, 110}}

// small-k exhaustive alphabets
var smallShapes = []int{0, 2, 4, 6} // plain, csrc1, ext1, pad
var smallLens = []int{0, 1, 7, 100}

func mix(vs ...uint64) uint64 {
	h := uint64(0x9E3779B97F4A7C15)
	for _, v := range vs {
		h ^= v + 0x9E3779B97F4A7C15 + (h << 6) + (h >> 2)
		h *= 0xBF58476D1CE4E5B9
		h ^= h >> 29
	}
	return h
}

// fill writes a deterministic non-repeating byte pattern (never all zero).
func fill(n int, seed uint64) []byte {
	b := make([]byte, n)
	x := seed | 1
	for i := range b {
		x ^= x << 13
		x ^= x >> 7
		x ^= x << 17
		b[i] = byte(x>>24) | 1
	}
	return b
}

// build makes one media packet from a shape, a payload length and a content seed.
func build(shape, plen int, seq uint16, ssrc uint32, seed uint64) *mpkt {
	h := mix(seed, uint64(shape), uint64(plen))
	m := &mpkt{seq: seq, ssrc: ssrc, ts: uint32(h >> 16), pt: uint8(h>>8) & 0x7f, payload: fill(plen, h)}
	csrc := func(n int) {
		for i := 0; i < n; i++ {
			m.csrc = append(m.csrc, uint32(mix(h, uint64(i)))|1)
		}
	}
	switch shape {
	case 1:
		m.marker = true
	case 2:
		csrc(1)
	case 3:
		csrc(15)
	case 4:
		m.extKind = 1
		m.ext = []extElem{{id: 1, data: fill(1, h+1)}, {id: 5, data: fill(3, h+2)}, {id: 14, data: fill(16, h+3)}}
	case 5:
		m.extKind = 2
		m.ext = []extElem{{id: 1, data: fill(2, h+4)}, {id: 200, data: fill(21, h+5)}}
	case 6:
		m.pad = padSizes[int(h>>40)%len(padSizes)]
	case 7:
		m.marker = true
		csrc(3)
		m.extKind = 1
		m.ext = []extElem{{id: 3, data: fill(2, h+6)}}
		m.pad = padSizes[int(h>>40)%len(padSizes)]
	}
	return m
}

// rotated assigns the shapes and lengths in rotation (shape (i + i/8 + ...) mod 8,
// length rotated against the shapes with a different period) so that the
// packets combined by one repair packet (indices r, r+n, r+2n, ...) differ in
// shape and length for every stride n.
func rotated(k int, first uint16, ssrc uint32, batch, variant int, seed uint64) []*mpkt {
	out := make([]*mpkt, k)
	for i := 0; i < k; i++ {
		shape := (i + i/len(shapeNames) + 3*batch + variant) % len(shapeNames)
		plen := lengths[(i+2*(i/len(lengths))+5*batch+2*variant)%len(lengths)]
		out[i] = build(shape, plen, first+uint16(i), ssrc, mix(seed, uint64(batch), uint64(i)))
	}
	return out
}

// ---------------------------------------------------------------------------
// Execution descriptors
// ---------------------------------------------------------------------------

type spec struct {
	Mode    string `json:"mode"` // enc | small | long | icpt
	K       int    `json:"k"`
	N       int    `json:"n"`
	K3      int    `json:"k3,omitempty"`
	N3      int    `json:"n3,omitempty"`
	Base    uint16 `json:"base"`
	Var     int    `json:"variant,omitempty"`
	Assign  []int  `json:"assign,omitempty"`  // small: per packet shapeIdx*4+lenIdx
	Batches int    `json:"batches,omitempty"` // long
}

func (s spec) String() string { b, _ := json.Marshal(s); return string(b) }

type batch struct {
	k, n int
	pkts []*mpkt
}

func (s spec) batches(ssrc uint32, salt uint64) []batch {
	var out []batch
	seq := s.Base
	add := func(k, n int, p []*mpkt) {
		out = append(out, batch{k: k, n: n, pkts: p})
		seq += uint16(k)
	}
	seed := mix(uint64(s.K), uint64(s.N), uint64(s.Base), salt)
	switch s.Mode {
	case "enc", "icpt":
		add(s.K, s.N, rotated(s.K, seq, ssrc, 0, s.Var, seed))
		add(s.K, s.N, rotated(s.K, seq, ssrc, 1, s.Var, seed))
		if s.K3 > 0 {
			add(s.K3, s.N3, rotated(s.K3, seq, ssrc, 2, s.Var, seed))
		}
	case "small":
		for b := 0; b < 2; b++ {
			p := make([]*mpkt, s.K)
			for i := range p {
				a := s.Assign[(i+b)%s.K]
				p[i] = build(smallShapes[a/4], smallLens[a%4], seq+uint16(i), ssrc, mix(seed, uint64(b), uint64(i)))
			}
			add(s.K, s.N, p)
		}
	case "long":
		for b := 0; b < s.Batches; b++ {
			p := make([]*mpkt, s.K)
			for i := range p {
				p[i] = build((i+b)%3, (i+b)%5, seq+uint16(i), ssrc, mix(seed, uint64(b), uint64(i)))
			}
			add(s.K, s.N, p)
		}
	}
	return out
}

// ---------------------------------------------------------------------------
// Accepted configurations
// ---------------------------------------------------------------------------

var acceptedCache = map[[2]int]bool{}

// encoderAccepts reports whether a fresh encoder produces anything but nil for
// a plain batch of k consecutive packets and n FEC packets (nil is the
// encoder's documented way of refusing its input).
func encoderAccepts(k, n int) bool {
	key := [2]int{k, n}
	if v, ok := acceptedCache[key]; ok {
		return v
	}
	acc := false
	vsched.Run(vsched.Options{Strategy: vsched.BackgroundFirst{}, MaxSteps: maxSteps}, func() {
		enc := flexfec.NewFlexEncoder03(fecPT, fecSSRC)
		ps := make([]rtp.Packet, k)
		for i := range ps {
			ps[i] = rtp.Packet{Header: rtp.Header{Version: 2, PayloadType: 96, SequenceNumber: uint16(1000 + i), Timestamp: uint32(i), SSRC: mediaSSRC}, Payload: []byte{byte(i + 1)}}
		}
		acc = enc.EncodeFec(ps, uint32(n)) != nil
	})
	acceptedCache[key] = acc
	return acc
}

// ---------------------------------------------------------------------------
// Direct encoder executions
// ---------------------------------------------------------------------------

type stats struct {
	batches, recoveries, repairs int64
	outcomes                     map[string]int
	rejected                     bool
}

type outPkt struct {
	ssrc    uint32
	pt      uint8
	seq     uint16
	payload []byte
}

// execEnc runs one encoder history and checks it. Returns the first failure.
func execEnc(s spec, st *stats) *fail {
	bs := s.batches(mediaSSRC, 0)
	rtps := make([][]rtp.Packet, len(bs))
	for i, b := range bs {
		rtps[i] = make([]rtp.Packet, len(b.pkts))
		for j, m := range b.pkts {
			p, err := m.toRTP()
			if err != nil {
				return &fail{key: "harness", msg: "cannot build packet: " + err.Error()}
			}
			raw, err := p.Marshal()
			if err != nil || !bytes.Equal(raw, m.wire()) {
				return &fail{key: "harness", msg: fmt.Sprintf("self-check: rtp.Packet.Marshal (%v) % x differs from the hand serialisation % x", err, clipB(raw), clipB(m.wire()))}
			}
			rtps[i][j] = p
		}
	}
	accepted := make([]bool, len(bs))
	for i, b := range bs {
		accepted[i] = encoderAccepts(b.k, b.n)
	}
	outs := make([][]outPkt, len(bs))
	isNil := make([]bool, len(bs))
	var modified *fail
	res := vsched.Run(vsched.Options{Strategy: vsched.BackgroundFirst{}, MaxSteps: maxSteps}, func() {
		enc := flexfec.NewFlexEncoder03(fecPT, fecSSRC)
		// another stream's encoder lives in the same process: it starts with the configuration of the first
		// batch and switches to a different one before every later batch. Encoders share nothing.
		other := flexfec.NewFlexEncoder03(fecPT+1, fecSSRC+1)
		otherSeq := uint16(500)
		bystander := func(k, n int) {
			ps := make([]rtp.Packet, k)
			for j := range ps {
				ps[j] = rtp.Packet{Header: rtp.Header{Version: 2, PayloadType: 96, SSRC: mediaSSRC + 7, SequenceNumber: otherSeq, Timestamp: uint32(otherSeq)}, Payload: []byte{byte(j), 9}}
				otherSeq++
			}
			_ = other.EncodeFec(ps, uint32(n))
		}
		for i, b := range bs {
			if i == 0 {
				bystander(b.k, b.n)
			} else {
				bystander(b.k%7+2, b.n%2+1)
			}
			fec := enc.EncodeFec(rtps[i], uint32(b.n))
			isNil[i] = fec == nil
			for _, f := range fec {
				outs[i] = append(outs[i], outPkt{ssrc: f.SSRC, pt: f.PayloadType, seq: f.SequenceNumber, payload: f.Payload})
			}
			// the caller's packets must not have been altered
			for j := range rtps[i] {
				raw, err := rtps[i][j].Marshal()
				if (err != nil || !bytes.Equal(raw, b.pkts[j].wire())) && modified == nil {
					modified = failf("media-packet-modified", "batch %d: media packet %d (seq %d) was altered by EncodeFec", i+1, j, b.pkts[j].seq)
				}
			}
		}
	})
	if msg := runFailure(res); msg != "" {
		return failf("runtime", "%s", msg)
	}
	if modified != nil {
		return modified
	}
	var lastSeq uint16
	haveSeq := false
	for i, b := range bs {
		st.batches++
		if !accepted[i] {
			st.rejected = true
			st.outcomes[fmt.Sprintf("rejected k=%d", b.k)]++
			if len(outs[i]) == 0 {
				continue
			}
			// the probe was refused but this batch was encoded: check what came out all the same
		}
		if isNil[i] && accepted[i] {
			return failf("accepted-configuration-refused-for-batch", "batch %d: (k=%d,n=%d) is encoded for a plain batch at sequence 1000 but EncodeFec returned nil for consecutive packets %d..%d",
				i+1, b.k, b.n, b.pkts[0].seq, b.pkts[b.k-1].seq)
		}
		first := b.pkts[0].seq
		lookup := func(seq uint16) (*mpkt, int) {
			d := int(uint16(seq - first))
			if d < b.k {
				return b.pkts[d], d
			}
			return nil, -1
		}
		protected := make([]int, b.k)
		for ri, o := range outs[i] {
			where := fmt.Sprintf("batch %d (k=%d,n=%d,first seq %d) repair packet %d of %d", i+1, b.k, b.n, first, ri+1, len(outs[i]))
			if o.ssrc != fecSSRC || o.pt != fecPT {
				return failf("repair-ssrc-or-payload-type", "%s: SSRC %#x PT %d, expected FEC SSRC %#x PT %d", where, o.ssrc, o.pt, uint32(fecSSRC), fecPT)
			}
			if haveSeq && o.seq != lastSeq+1 {
				return failf("repair-sequence-not-increasing-by-one", "%s: sequence number %d follows %d", where, o.seq, lastSeq)
			}
			lastSeq, haveSeq = o.seq, true
			facts, f := checkRepair(o.payload, lookup, b.pkts)
			if f != nil {
				f.msg = where + ": " + f.msg
				return f
			}
			for _, idx := range facts.named {
				protected[idx]++
			}
			st.repairs++
			st.recoveries += int64(facts.recoveries)
			st.outcomes[fmt.Sprintf("hdr%d", facts.hdrLen)]++
		}
		if b.n >= 1 {
			for idx, c := range protected {
				if c == 0 {
					return failf("media-packet-unprotected", "batch %d (k=%d,n=%d,first seq %d): media packet %d (seq %d) is named by none of the %d repair packets",
						i+1, b.k, b.n, first, idx, b.pkts[idx].seq, len(outs[i]))
				}
			}
		}
		switch {
		case b.n == 0:
			st.outcomes["n=0"]++
		case b.n > b.k:
			st.outcomes["n>k"]++
		}
	}
	return nil
}

func clipB(b []byte) []byte {
	if len(b) > 48 {
		return b[:48]
	}
	return b
}

func runFailure(res *vsched.Result) string {
	switch {
	case len(res.Panics) > 0:
		return "panic: " + res.Panics[0].Value + "\n" + res.Panics[0].Stack
	case res.Deadlock:
		return fmt.Sprintf("deadlock: %+v", res.Blocked)
	case res.StepLimit:
		return "step budget exceeded (loops forever?): " + res.StepWhere
	case len(res.Failures) > 0:
		return res.Failures[0]
	case len(res.Blocked) > 0:
		return fmt.Sprintf("goroutines still alive at the end: %+v", res.Blocked)
	}
	return ""
}

// ---------------------------------------------------------------------------
// Interceptor executions: two FEC streams and one stream without FEC
// ---------------------------------------------------------------------------

type istream struct {
	ssrc, fecSSRC uint32
	fecPT         uint8
	sink          *hk.RTPSink
	w             interceptor.RTPWriter
	pkts          []*mpkt
	hdrs          []rtp.Header
	pays          [][]byte
	k, n          int
}

func execIcpt(s spec, st *stats) *fail {
	streams := []*istream{
		{ssrc: mediaSSRC, fecSSRC: fecSSRC, fecPT: fecPT, k: s.K, n: s.N},
		{ssrc: 0x55667788, fecSSRC: 0xFEC00002, fecPT: 97, k: s.K, n: s.N},
		{ssrc: 0x99AABBCC, k: 0}, // no FEC negotiated
	}
	for si, is := range streams {
		sp := s
		sp.K3, sp.N3 = 0, 0
		sp.Base = s.Base + uint16(si)*0x4000
		for _, b := range sp.batches(is.ssrc, uint64(si)) {
			is.pkts = append(is.pkts, b.pkts...)
		}
		// a partial batch at the end (never completed)
		extra := 2
		if s.K <= 2 {
			extra = s.K - 1
		}
		last := is.pkts[len(is.pkts)-1].seq
		for i := 0; i < extra; i++ {
			is.pkts = append(is.pkts, build(i%len(shapeNames), lengths[i%len(lengths)], last+1+uint16(i), is.ssrc, mix(uint64(si), uint64(i), 77)))
		}
		for _, m := range is.pkts {
			p, err := m.toRTP()
			if err != nil {
				return &fail{key: "harness", msg: "cannot build packet: " + err.Error()}
			}
			is.hdrs = append(is.hdrs, p.Header)
			is.pays = append(is.pays, p.Payload)
		}
	}
	rejected := false
	res := vsched.Run(vsched.Options{Strategy: vsched.BackgroundFirst{}, MaxSteps: maxSteps}, func() {
		f, err := flexfec.NewFecInterceptor(flexfec.NumMediaPackets(uint32(s.K)), flexfec.NumFECPackets(uint32(s.N)))
		if err != nil {
			rejected = true
			return
		}
		ic, err := f.NewInterceptor("")
		if err != nil {
			rejected = true
			return
		}
		// an earlier life of every stream on the same interceptor: the same media and FEC SSRC negotiated with
		// another FEC payload type, one full batch sent, then unbound (a renegotiation that renumbers payload
		// types); nothing of it may show in what follows
		var lateUnbind *interceptor.StreamInfo
		for _, is := range streams {
			old := &interceptor.StreamInfo{SSRC: is.ssrc, PayloadTypeForwardErrorCorrection: is.fecPT ^ 0x15, SSRCForwardErrorCorrection: is.fecSSRC}
			w := ic.BindLocalStream(old, &hk.RTPSink{})
			for i := 0; i < s.K; i++ {
				h := rtp.Header{Version: 2, PayloadType: 96, SSRC: is.ssrc, SequenceNumber: uint16(30000 + i), Timestamp: uint32(i)}
				_, _ = w.Write(&h, []byte{1, 2, 3, byte(i)}, interceptor.Attributes{})
			}
			if is == streams[0] {
				// the first stream's earlier binding is unbound only after the new binding has been made and has
				// carried its first packet (the application replaces the track, then removes the old one)
				lateUnbind = old
				continue
			}
			ic.UnbindLocalStream(old)
		}
		for _, is := range streams {
			is.sink = &hk.RTPSink{}
			is.w = ic.BindLocalStream(&interceptor.StreamInfo{SSRC: is.ssrc, PayloadTypeForwardErrorCorrection: is.fecPT,
				SSRCForwardErrorCorrection: is.fecSSRC}, is.sink)
		}
		// interleave the streams packet by packet
		for i := 0; i < len(streams[0].pkts); i++ {
			for _, is := range streams {
				h := is.hdrs[i]
				if _, err := is.w.Write(&h, is.pays[i], interceptor.Attributes{}); err != nil {
					vsched.Failf("Write returned %v", err)
					return
				}
			}
			if i == 0 && lateUnbind != nil {
				ic.UnbindLocalStream(lateUnbind)
			}
		}
		for _, is := range streams {
			ic.UnbindLocalStream(&interceptor.StreamInfo{SSRC: is.ssrc})
		}
		if err := ic.Close(); err != nil {
			vsched.Failf("Close returned %v", err)
		}
	})
	if msg := runFailure(res); msg != "" {
		return failf("runtime", "%s", msg)
	}
	if rejected {
		st.rejected = true
		st.outcomes[fmt.Sprintf("interceptor rejected k=%d n=%d", s.K, s.N)]++
		return nil
	}
	for si, is := range streams {
		if f := checkSink(si, is, st); f != nil {
			return f
		}
	}
	return nil
}

// checkSink verifies everything that reached one stream's downstream writer.
func checkSink(si int, is *istream, st *stats) *fail {
	where := fmt.Sprintf("stream %d (SSRC %#x, k=%d, n=%d)", si, is.ssrc, is.k, is.n)
	seen := map[uint16]int{} // sequence number -> index of the media packet already forwarded
	next := 0
	protected := make([]int, len(is.pkts))
	var lastSeq uint16
	haveSeq := false
	for ei, e := range is.sink.Pkts {
		switch {
		case e.Header.SSRC == is.ssrc:
			if next >= len(is.pkts) {
				return failf("media-packet-duplicated", "%s: event %d: more media packets forwarded than written", where, ei)
			}
			// serialise what was forwarded into a fresh zeroed buffer (pion/rtp leaves padding filler octets untouched)
			buf := make([]byte, 12+4*15+4+65536/8+len(e.Payload)+256)
			n, err := rtp.MarshalPacketTo(buf, &e.Header, e.Payload)
			want := is.pkts[next].wire()
			if err != nil || !bytes.Equal(buf[:n], want) {
				return failf("media-packet-modified", "%s: event %d: forwarded media packet is not the %d-th written packet (seq %d) unmodified: err=%v got % x want % x",
					where, ei, next, is.pkts[next].seq, err, clipB(buf[:n]), clipB(want))
			}
			seen[is.pkts[next].seq] = next
			next++
		case is.fecSSRC != 0 && e.Header.SSRC == is.fecSSRC:
			if e.Header.PayloadType != is.fecPT {
				return failf("repair-ssrc-or-payload-type", "%s: event %d: repair packet with PT %d, expected %d", where, ei, e.Header.PayloadType, is.fecPT)
			}
			if haveSeq && e.Header.SequenceNumber != lastSeq+1 {
				return failf("repair-sequence-not-increasing-by-one", "%s: event %d: repair sequence number %d follows %d", where, ei, e.Header.SequenceNumber, lastSeq)
			}
			lastSeq, haveSeq = e.Header.SequenceNumber, true
			// the receiver can use the media packets that were forwarded before this repair packet
			lookup := func(seq uint16) (*mpkt, int) {
				if idx, ok := seen[seq]; ok {
					return is.pkts[idx], idx
				}
				return nil, -1
			}
			lo := (next - 1) / is.k * is.k
			if lo < 0 {
				lo = 0
			}
			facts, f := checkRepair(e.Payload, lookup, is.pkts[lo:next])
			if f != nil {
				if f.key == "C14:mask-names-packet-outside-batch" {
					f.key = "C14:repair-names-packet-not-forwarded-before-it"
					f.msg += " forwarded to this stream's writer before the repair packet (media packets must pass through first)"
				}
				f.msg = fmt.Sprintf("%s: event %d (after %d media packets): %s", where, ei, next, f.msg)
				return f
			}
			for _, idx := range facts.named {
				protected[idx]++
			}
			st.repairs++
			st.recoveries += int64(facts.recoveries)
			st.outcomes[fmt.Sprintf("icpt hdr%d", facts.hdrLen)]++
		default:
			return failf("unexpected-packet-on-stream", "%s: event %d: packet with SSRC %#x PT %d reached this stream's writer", where, ei, e.Header.SSRC, e.Header.PayloadType)
		}
	}
	if next != len(is.pkts) {
		return failf("media-packet-not-forwarded", "%s: %d media packets written, %d forwarded", where, len(is.pkts), next)
	}
	if is.fecSSRC == 0 {
		st.outcomes["icpt passthrough stream"]++
		return nil
	}
	if is.n >= 1 {
		complete := len(is.pkts) / is.k * is.k
		for idx := 0; idx < complete; idx++ {
			if protected[idx] == 0 {
				return failf("media-packet-unprotected", "%s: media packet %d (seq %d, batch %d) is named by no repair packet", where, idx, is.pkts[idx].seq, idx/is.k+1)
			}
		}
		st.batches += int64(complete / is.k)
	}
	return nil
}

// ---------------------------------------------------------------------------
// Spaces, jobs
// ---------------------------------------------------------------------------

var bases = []uint16{0, 1000, 65530}

func inBoundary(v int) bool {
	for _, b := range boundary {
		if b == v {
			return true
		}
	}
	return false
}

// quickConfig selects the (k,n) pairs of the quick tier: every k against the
// boundary values of n, every n against the boundary values of k, and the
// diagonal with its two neighbours.
func quickConfig(k, n int) bool {
	return inBoundary(n) || n == 0 || inBoundary(k) || k-n <= 1 && n-k <= 1
}

// encSpecs lists the encoder histories of a tier.
func encSpecs(tier string) []spec {
	var out []spec
	thorough := tier == "thorough"
	thirds := func(k, n int) [][2]int {
		nn := n + 1
		if nn > 110 {
			nn = n - 1
		}
		kk := k - 1
		if kk < 1 {
			kk = k + 1
		}
		l := [][2]int{{k, nn}, {kk, n}, thirdSet[(k+n)%len(thirdSet)]}
		if thorough {
			l = append(l, thirdSet[(k+3*n+5)%len(thirdSet)])
		}
		return l
	}
	for k := 1; k <= 110; k++ {
		for n := 0; n <= 110; n++ {
			if !thorough && !quickConfig(k, n) {
				continue
			}
			for bi, base := range bases {
				for ti, t := range thirds(k, n) {
					v := (bi + ti) % len(shapeNames)
					out = append(out, spec{Mode: "enc", K: k, N: n, K3: t[0], N3: t[1], Base: base, Var: v})
					if thorough {
						out = append(out, spec{Mode: "enc", K: k, N: n, K3: t[0], N3: t[1], Base: base, Var: (v + 3) % len(shapeNames)})
					}
				}
			}
		}
	}
	return out
}

// smallCount lists the (k,n) pairs, k <= 4, for which all 16^k assignments of
// 4 shapes x 4 lengths are enumerated.
func smallCount(string) [][2]int {
	var out [][2]int
	for k := 1; k <= 4; k++ {
		for n := 1; n <= k; n++ {
			out = append(out, [2]int{k, n})
		}
	}
	return out
}

func icptSpecs(tier string) []spec {
	var out []spec
	ns := []int{0, 1, 2, 3, 5, 15, 16, 46, 47, 109, 110}
	if tier == "thorough" {
		ns = nil
		for n := 0; n <= 110; n++ {
			ns = append(ns, n)
		}
	}
	for _, k := range boundary {
		for _, n := range ns {
			for bi, base := range bases {
				out = append(out, spec{Mode: "icpt", K: k, N: n, Base: base, Var: bi})
			}
		}
	}
	return out
}

type jobDesc struct {
	Kind  string `json:"kind"`
	Shard int    `json:"shard"`
	Of    int    `json:"of"`
	K     int    `json:"k,omitempty"`
	N     int    `json:"n,omitempty"`
}

func jobList(tier string) []jobDesc {
	var out []jobDesc
	shards := 32
	if tier == "thorough" {
		shards = 192
	}
	for i := 0; i < shards; i++ {
		out = append(out, jobDesc{Kind: "enc", Shard: i, Of: shards})
	}
	for _, kn := range smallCount(tier) {
		sh := 1
		if kn[0] == 4 {
			sh = 4
		}
		for i := 0; i < sh; i++ {
			out = append(out, jobDesc{Kind: "small", Shard: i, Of: sh, K: kn[0], N: kn[1]})
		}
	}
	ish := 4
	if tier == "thorough" {
		ish = 16
	}
	for i := 0; i < ish; i++ {
		out = append(out, jobDesc{Kind: "icpt", Shard: i, Of: ish})
	}
	out = append(out, jobDesc{Kind: "long", Of: 1})
	return out
}

func jobs(tier string) []string {
	var names []string
	for _, j := range jobList(tier) {
		b, _ := json.Marshal(j)
		names = append(names, string(b))
	}
	return names
}

func execSpec(s spec, st *stats) *fail {
	if s.Mode == "icpt" {
		return execIcpt(s, st)
	}
	return execEnc(s, st)
}

func run(tier string, i int, deadline time.Time) *hk.JobResult {
	jd := jobList(tier)[i]
	r := &hk.JobResult{Exhaustive: true, Outcomes: map[string]int{}, Bounds: map[string]any{}}
	st := &stats{outcomes: r.Outcomes}
	vkeys := map[string]bool{}
	done := 0
	stop := false
	one := func(s spec) {
		if stop {
			return
		}
		if !deadline.IsZero() && r.Executions%16 == 0 && time.Now().After(deadline) {
			stop = true
			r.Exhaustive = false
			r.Notes = append(r.Notes, fmt.Sprintf("deadline reached after %d executions of this shard", done))
			return
		}
		before := st.recoveries
		f := execSpec(s, st)
		r.Executions++
		done++
		if f != nil {
			if f.key == "harness" {
				r.Error = f.msg + " " + s.String()
				stop = true
				return
			}
			if !vkeys[f.key] && len(vkeys) < 8 {
				vkeys[f.key] = true
				r.Violations = append(r.Violations, hk.Violation{Key: f.key, Message: f.msg, Replay: s})
			}
			r.Outcomes["violation "+f.key]++
		} else if st.recoveries > before {
			r.Nontrivial++
		}
		if len(r.Samples) < 2 && (done == 1 || done == 500) {
			r.Samples = append(r.Samples, s)
		}
	}
	switch jd.Kind {
	case "enc":
		specs := encSpecs(tier)
		r.Bounds["enc_histories_total"] = len(specs)
		for x := jd.Shard; x < len(specs); x += jd.Of {
			one(specs[x])
		}
	case "icpt":
		specs := icptSpecs(tier)
		r.Bounds["icpt_histories_total"] = len(specs)
		for x := jd.Shard; x < len(specs); x += jd.Of {
			one(specs[x])
		}
	case "small":
		total := 1
		for x := 0; x < jd.K; x++ {
			total *= 16
		}
		r.Bounds["assignments"] = total
		for code := jd.Shard; code < total; code += jd.Of {
			a := make([]int, jd.K)
			c := code
			for x := range a {
				a[x] = c % 16
				c /= 16
			}
			for _, base := range []uint16{65534} {
				one(spec{Mode: "small", K: jd.K, N: jd.N, Base: base, Assign: a})
			}
		}
	case "long":
		// enough batches for the repair sequence counter to pass 65535
		one(spec{Mode: "long", K: 109, N: 109, Base: 65000, Batches: 640})
		one(spec{Mode: "long", K: 3, N: 2, Base: 0, Batches: 3000})
	}
	r.States = st.batches
	r.Transitions = st.recoveries
	r.Bounds["repair_packets_decoded"] = st.repairs
	return r
}

func replayFn(raw json.RawMessage) string {
	var s spec
	if err := json.Unmarshal(raw, &s); err != nil {
		return "bad replay: " + err.Error()
	}
	st := &stats{outcomes: map[string]int{}}
	if f := execSpec(s, st); f != nil {
		return f.msg
	}
	return ""
}

func init() {
	hk.Register(&hk.Check{
		ID: "C14",
		Rule: "E3 bounded-exhaustive enumeration. Encoder histories: one FlexEncoder03 per history, three successive batches (k,n),(k,n),(k',n') of consecutive media packets " +
			"(second batch re-uses the coverage tables, third rebuilds them; pooled scratch buffer persists), base sequence in {0,1000,65530}, packet i of a batch gets header shape " +
			"(i+i/8+3*batch+variant) mod 8 of {plain, marker, 1 CSRC, 15 CSRC, one-byte ext, two-byte ext, padding, marker+3 CSRC+ext+padding} and payload length rotated through {0,1,7,100,1459,1460,1500}; " +
			"quick: all k in 1..110 x n in boundary set+{0}, k in boundary set x all n in 0..110, and |k-n|<=1, each with 3 bases x 3 third batches; thorough: all k in 1..110 x n in 0..110 with 3 bases x 4 third batches x 2 shape rotations. For k<=4, n<=k: all 16^k assignments of 4 shapes x 4 lengths, two batches. " +
			"A 640-batch history takes the repair sequence counter through 65535. Interceptor histories: NumMediaPackets/NumFECPackets over the boundary set, two FEC streams and one stream without FEC, interleaved, two full batches plus a partial one. " +
			"Oracle: own FlexFEC-03 repair-header parser (R,F,P,X,CC,M,PT,length,TS recovery, SSRCCount, SSRC, SN base, k-bits, 15/46/109-bit mask) and XOR recovery: for every repair packet and every packet named in its mask, " +
			"XOR with the other named packets must give the hand-serialised media packet byte for byte; every media packet of an accepted configuration with n>=1 is named by some mask; repair SSRC/PT; repair sequence numbers +1 (mod 2^16); " +
			"media reaches the stream's writer unmodified, in order, before any repair packet naming it. States = batches checked, transitions = single-loss recoveries verified; an execution is non-trivial if at least one recovery was verified.",
		Assumptions: []string{
			"a configuration (k,n) counts as accepted by the encoder iff a fresh encoder returns non-nil for a plain batch of k consecutive packets; by the interceptor iff factory and NewInterceptor return no error",
			"the media packet 'as sent' is its serialisation with zero padding filler octets (what rtp.Packet.Marshal yields); the harness checks that pion/rtp marshals every generated packet to exactly the hand-serialised bytes",
			"payload bytes, timestamps, payload types and CSRC values are a fixed pseudo-random pattern per (batch, index); they are content, not an enumerated dimension",
			"sync.Pool is modelled as a LIFO free list (vsched)",
		},
		Jobs:   jobs,
		Run:    run,
		Replay: replayFn,
		Bounds: func(tier string) map[string]any {
			return map[string]any{"tier": tier, "encoder_histories": len(encSpecs(tier)), "interceptor_histories": len(icptSpecs(tier)),
				"small_k_configs": len(smallCount(tier)), "shapes": len(shapeNames), "lengths": lengths, "bases": bases, "boundary": boundary}
		},
	})
}
