package c14

import (
	"bytes"
	"encoding/binary"
	"fmt"

	"github.com/pion/rtp"
)

// ---------------------------------------------------------------------------
// Media packets: described abstractly, serialised by hand (RFC 3550 / RFC 8285)
// and, separately, turned into the rtp.Packet handed to the code under test.
// ---------------------------------------------------------------------------

type extElem struct {
	id   uint8
	data []byte
}

// mpkt is one media packet of the reference side.
type mpkt struct {
	marker  bool
	pt      uint8
	seq     uint16
	ts      uint32
	ssrc    uint32
	csrc    []uint32
	extKind int // 0 none, 1 one-byte (0xBEDE), 2 two-byte (0x1000)
	ext     []extElem
	payload []byte
	pad     int // number of padding octets including the count octet (0 = no padding)

	raw []byte // hand-serialised wire form (cached)
}

// wire serialises the packet by hand: fixed header, CSRC list, RFC 8285
// extension block padded to a 32-bit boundary, payload, zero padding octets
// followed by the padding count (the form rtp.Packet.Marshal produces).
func (m *mpkt) wire() []byte {
	if m.raw != nil {
		return m.raw
	}
	b := make([]byte, 12, 12+4*len(m.csrc)+len(m.payload)+m.pad+64)
	b[0] = 0x80 | uint8(len(m.csrc))
	if m.pad > 0 {
		b[0] |= 0x20
	}
	if m.extKind != 0 {
		b[0] |= 0x10
	}
	b[1] = m.pt & 0x7f
	if m.marker {
		b[1] |= 0x80
	}
	binary.BigEndian.PutUint16(b[2:], m.seq)
	binary.BigEndian.PutUint32(b[4:], m.ts)
	binary.BigEndian.PutUint32(b[8:], m.ssrc)
	for _, c := range m.csrc {
		b = binary.BigEndian.AppendUint32(b, c)
	}
	if m.extKind != 0 {
		var e []byte
		for _, x := range m.ext {
			if m.extKind == 1 {
				e = append(e, x.id<<4|uint8(len(x.data)-1))
			} else {
				e = append(e, x.id, uint8(len(x.data)))
			}
			e = append(e, x.data...)
		}
		for len(e)%4 != 0 {
			e = append(e, 0)
		}
		prof := uint16(0xBEDE)
		if m.extKind == 2 {
			prof = 0x1000
		}
		b = binary.BigEndian.AppendUint16(b, prof)
		b = binary.BigEndian.AppendUint16(b, uint16(len(e)/4))
		b = append(b, e...)
	}
	b = append(b, m.payload...)
	if m.pad > 0 {
		b = append(b, make([]byte, m.pad-1)...)
		b = append(b, uint8(m.pad))
	}
	m.raw = b
	return b
}

// fillerRange returns the half-open range, relative to the end of the fixed
// 12-byte header, of the padding octets that precede the padding count.
func (m *mpkt) fillerRange() (int, int) {
	if m.pad <= 1 {
		return 0, 0
	}
	n := len(m.wire()) - 12
	return n - m.pad, n - 1
}

// toRTP builds the rtp.Packet the application would hand to the library.
func (m *mpkt) toRTP() (rtp.Packet, error) {
	h := rtp.Header{Version: 2, Marker: m.marker, PayloadType: m.pt & 0x7f, SequenceNumber: m.seq, Timestamp: m.ts, SSRC: m.ssrc}
	if len(m.csrc) > 0 {
		h.CSRC = append([]uint32(nil), m.csrc...)
	}
	if m.extKind != 0 {
		h.Extension = true
		h.ExtensionProfile = 0xBEDE
		if m.extKind == 2 {
			h.ExtensionProfile = 0x1000
		}
		for _, x := range m.ext {
			if err := h.SetExtension(x.id, append([]byte(nil), x.data...)); err != nil {
				return rtp.Packet{}, err
			}
		}
	}
	if m.pad > 0 {
		h.Padding = true
		h.PaddingSize = uint8(m.pad)
	}
	return rtp.Packet{Header: h, Payload: append([]byte(nil), m.payload...)}, nil
}

// ---------------------------------------------------------------------------
// FlexFEC-03 repair payload parser (draft-ietf-payload-flexible-fec-scheme-03,
// section 4.2), working on bytes only.
// ---------------------------------------------------------------------------

type repair struct {
	hdrLen    int
	b0, b1    byte // R F P X CC | M PT-recovery
	lenRec    uint16
	tsRec     uint32
	ssrcCount uint8
	reserved  uint32
	ssrc      uint32
	snBase    uint16
	mask      []int // protected offsets relative to snBase, ascending
	body      []byte
}

func parseRepair(p []byte) (*repair, error) {
	if len(p) < 20 {
		return nil, fmt.Errorf("repair payload of %d bytes is shorter than the 20-byte FlexFEC-03 header", len(p))
	}
	r := &repair{b0: p[0], b1: p[1]}
	if p[0]&0x80 != 0 {
		return nil, fmt.Errorf("R bit set (retransmission) in a repair packet, first byte %#02x", p[0])
	}
	if p[0]&0x40 != 0 {
		return nil, fmt.Errorf("F bit set (fixed block) while a flexible mask is expected, first byte %#02x", p[0])
	}
	r.lenRec = binary.BigEndian.Uint16(p[2:])
	r.tsRec = binary.BigEndian.Uint32(p[4:])
	r.ssrcCount = p[8]
	r.reserved = uint32(p[9])<<16 | uint32(p[10])<<8 | uint32(p[11])
	if r.ssrcCount != 1 {
		return nil, fmt.Errorf("SSRCCount = %d, one protected SSRC expected", r.ssrcCount)
	}
	r.ssrc = binary.BigEndian.Uint32(p[12:])
	r.snBase = binary.BigEndian.Uint16(p[16:])
	w0 := binary.BigEndian.Uint16(p[18:])
	for i := 0; i < 15; i++ {
		if w0&(1<<uint(14-i)) != 0 {
			r.mask = append(r.mask, i)
		}
	}
	r.hdrLen = 20
	if w0&0x8000 == 0 {
		if len(p) < 24 {
			return nil, fmt.Errorf("k-bit 0 clear but payload has only %d bytes (24 needed)", len(p))
		}
		w1 := binary.BigEndian.Uint32(p[20:])
		for i := 0; i < 31; i++ {
			if w1&(1<<uint(30-i)) != 0 {
				r.mask = append(r.mask, 15+i)
			}
		}
		r.hdrLen = 24
		if w1&0x80000000 == 0 {
			if len(p) < 32 {
				return nil, fmt.Errorf("k-bit 1 clear but payload has only %d bytes (32 needed)", len(p))
			}
			w2 := binary.BigEndian.Uint64(p[24:])
			for i := 0; i < 63; i++ {
				if w2&(1<<uint(62-i)) != 0 {
					r.mask = append(r.mask, 46+i)
				}
			}
			r.hdrLen = 32
			if w2&(1<<63) == 0 {
				return nil, fmt.Errorf("k-bit 2 clear: no mask longer than 109 bits exists in FlexFEC-03")
			}
		}
	}
	r.body = p[r.hdrLen:]
	return r, nil
}

// xorAcc accumulates the recovery bit string and the payload XOR.
type xorAcc struct {
	b0, b1 byte
	length uint16
	ts     uint32
	body   []byte
	over   int // packets added (odd number of times) whose tail is longer than the repair payload
	short  bool
}

func newAcc(r *repair) *xorAcc {
	return &xorAcc{b0: r.b0, b1: r.b1, length: r.lenRec, ts: r.tsRec, body: append([]byte(nil), r.body...)}
}

// add XORs one received media packet (wire bytes) into the accumulator.
func (a *xorAcc) add(w []byte) {
	if len(w) < 12 {
		a.short = true
		return
	}
	a.b0 ^= w[0]
	a.b1 ^= w[1]
	a.length ^= uint16(len(w) - 12)
	a.ts ^= binary.BigEndian.Uint32(w[4:])
	t := w[12:]
	if len(t) > len(a.body) {
		a.over++
		t = t[:len(a.body)]
	}
	for i, c := range t {
		a.body[i] ^= c
	}
}

func (a *xorAcc) clone() *xorAcc {
	c := *a
	c.body = append([]byte(nil), a.body...)
	return &c
}

// zeroExcept reports whether nothing is left (repair == XOR of everything
// added) outside the positions marked in skip.
func (a *xorAcc) zeroExcept(skip []bool) bool {
	if a.b0&0x3f != 0 || a.b1 != 0 || a.length != 0 || a.ts != 0 {
		return false
	}
	for i, c := range a.body {
		if c != 0 && !(i < len(skip) && skip[i]) {
			return false
		}
	}
	return true
}

// rebuild produces the recovered packet from an accumulator that holds the
// repair packet XOR all received packets (FlexFEC-03 section 6.3).
func (a *xorAcc) rebuild(seq uint16, ssrc uint32) ([]byte, error) {
	if a.short {
		return nil, fmt.Errorf("media packet shorter than an RTP header")
	}
	if a.over > 0 {
		return nil, fmt.Errorf("%d received packet(s) named in the mask are longer than the repair payload (%d bytes)", a.over, len(a.body))
	}
	if int(a.length) > len(a.body) {
		return nil, fmt.Errorf("recovered length %d exceeds the repair payload (%d bytes)", a.length, len(a.body))
	}
	out := make([]byte, 12, 12+int(a.length))
	out[0] = 0x80 | a.b0&0x3f
	out[1] = a.b1
	binary.BigEndian.PutUint16(out[2:], seq)
	binary.BigEndian.PutUint32(out[4:], a.ts)
	binary.BigEndian.PutUint32(out[8:], ssrc)
	return append(out, a.body[:a.length]...), nil
}

// ---------------------------------------------------------------------------
// Oracle for one repair packet.
// ---------------------------------------------------------------------------

type fail struct {
	key string
	msg string
}

func failf(key, format string, a ...any) *fail {
	return &fail{key: "C14:" + key, msg: fmt.Sprintf(format, a...)}
}

// repairFacts is what a verified repair packet contributes.
type repairFacts struct {
	named      []int // batch indices named by the mask
	hdrLen     int
	recoveries int
}

// checkRepair decodes payload and performs every single-loss recovery.
// lookup maps a sequence number to the media packet carrying it (nil when no
// such packet is available to the receiver); group lists the candidates that
// may have been combined without being named (for diagnosis only).
func checkRepair(payload []byte, lookup func(seq uint16) (*mpkt, int), group []*mpkt) (*repairFacts, *fail) {
	r, err := parseRepair(payload)
	if err != nil {
		return nil, failf("repair-header-malformed", "%v", err)
	}
	if len(r.mask) == 0 {
		return nil, failf("repair-packet-with-empty-mask", "repair packet (SN base %d, %d payload bytes) names no media packet; first 20 bytes % x",
			r.snBase, len(r.body), payload[:20])
	}
	facts := &repairFacts{hdrLen: r.hdrLen}
	var named []*mpkt
	isNamed := map[*mpkt]bool{}
	for _, off := range r.mask {
		seq := r.snBase + uint16(off)
		m, idx := lookup(seq)
		if m == nil {
			return nil, failf("mask-names-packet-outside-batch", "mask bit %d with SN base %d names sequence number %d, which is not a media packet of the batch", off, r.snBase, seq)
		}
		named = append(named, m)
		isNamed[m] = true
		facts.named = append(facts.named, idx)
	}
	all := newAcc(r)
	for _, m := range named {
		all.add(m.wire())
	}
	for i, m := range named {
		// XOR of the repair packet with all named packets but m
		acc := all.clone()
		acc.over = 0
		for _, o := range named {
			if o != m && len(o.wire())-12 > len(acc.body) {
				acc.over++
			}
		}
		acc.add(m.wire())
		if len(m.wire())-12 > len(acc.body) {
			acc.over-- // m is the missing packet: its own length is not an obstacle to receiving the others
		}
		got, rerr := acc.rebuild(m.seq, r.ssrc)
		want := m.wire()
		if rerr == nil && bytes.Equal(got, want) {
			facts.recoveries++
			continue
		}
		return nil, diagnose(r, all, named, isNamed, group, i, got, rerr)
	}
	return facts, nil
}

// diagnose classifies a failed recovery.
func diagnose(r *repair, all *xorAcc, named []*mpkt, isNamed map[*mpkt]bool, group []*mpkt, i int, got []byte, rerr error) *fail {
	m := named[i]
	want := m.wire()
	where := fmt.Sprintf("recovering seq %d (mask offset %d of %d named, SN base %d, header %d bytes)", m.seq, r.mask[i], len(named), r.snBase, r.hdrLen)
	// positions of padding filler octets of the packets involved: ignored when identifying which packets were combined
	fillerOf := func(extra *mpkt) []bool {
		f := make([]bool, len(all.body))
		for _, u := range append(append([]*mpkt(nil), named...), extra) {
			if u == nil {
				continue
			}
			lo, hi := u.fillerRange()
			for k := lo; k < hi && k < len(f); k++ {
				f[k] = true
			}
		}
		return f
	}
	// combined but not named?
	for _, u := range group {
		if isNamed[u] {
			continue
		}
		c := all.clone()
		c.add(u.wire())
		if c.zeroExcept(fillerOf(u)) {
			return failf("combined-packet-not-named-in-mask", "%s: the repair packet also contains media packet seq %d (offset %d from SN base), which its mask does not name; mask offsets %v",
				where, u.seq, uint16(u.seq-r.snBase), clipInts(r.mask))
		}
	}
	// named but not combined?
	for _, u := range named {
		c := all.clone()
		c.add(u.wire())
		if c.zeroExcept(fillerOf(nil)) {
			return failf("mask-names-packet-not-combined", "%s: mask names seq %d but the repair packet does not contain it; mask offsets %v", where, u.seq, clipInts(r.mask))
		}
	}
	if rerr != nil {
		return failf("recovery-impossible", "%s: %v", where, rerr)
	}
	// residual confined to padding filler octets of named packets?
	if all.b0&0x3f == 0 && all.b1 == 0 && all.length == 0 && all.ts == 0 && r.ssrc == m.ssrc {
		filler := make([]bool, len(all.body))
		for _, u := range named {
			lo, hi := u.fillerRange()
			for k := lo; k < hi && k < len(filler); k++ {
				filler[k] = true
			}
		}
		only, first := true, -1
		for k, c := range all.body {
			if c != 0 {
				if first < 0 {
					first = k
				}
				if !filler[k] {
					only = false
				}
			}
		}
		if only && first >= 0 {
			return failf("padding-filler-octets-not-zero-in-xor", "%s: repair payload differs from the XOR of the named packets only at padding filler positions (first at byte %d after the fixed header: residual %#02x); "+
				"the encoder combined padding octets that are not the ones of the packet as serialised (zero filler + count)", where, first, all.body[first])
		}
	}
	field, detail := "payload", ""
	switch {
	case len(got) >= 2 && (got[0] != want[0] || got[1] != want[1]):
		field, detail = "header-bits", fmt.Sprintf("first two bytes % x, expected % x", got[:2], want[:2])
	case len(got) != len(want):
		field, detail = "length", fmt.Sprintf("recovered %d bytes, expected %d", len(got), len(want))
	case !bytes.Equal(got[4:8], want[4:8]):
		field, detail = "timestamp", fmt.Sprintf("timestamp % x, expected % x", got[4:8], want[4:8])
	case !bytes.Equal(got[8:12], want[8:12]):
		field, detail = "ssrc", fmt.Sprintf("SSRC % x, expected % x", got[8:12], want[8:12])
	case !bytes.Equal(got[2:4], want[2:4]):
		field, detail = "sequence-number", fmt.Sprintf("sequence % x, expected % x", got[2:4], want[2:4])
	default:
		for k := 12; k < len(got); k++ {
			if got[k] != want[k] {
				detail = fmt.Sprintf("first difference at byte %d of %d: %#02x, expected %#02x", k, len(want), got[k], want[k])
				break
			}
		}
	}
	return failf("recovery-mismatch-"+field, "%s: %s; mask offsets %v", where, detail, clipInts(r.mask))
}

func clipInts(l []int) string {
	if len(l) <= 16 {
		return fmt.Sprint(l)
	}
	return fmt.Sprintf("%v…(%d offsets, last %d)", l[:16], len(l), l[len(l)-1])
}
