package c14

import (
	"bytes"
	"encoding/json"
	"fmt"
	"time"

	"github.com/pion/interceptor"
	"github.com/pion/interceptor/pkg/flexfec"
	"github.com/pion/interceptor/verifh/hk"
	"github.com/pion/interceptor/vsched"
	"github.com/pion/rtp"
)

// C14R: two application threads write media packets of the same stream (one writes b, b+2, b+3, the other
// b+1), so that consecutive batches complete on different threads. Which packets form a batch, and whether a
// batch is consecutive (only those are encoded), depends on the schedule, and so does the order in which
// packets of the two threads reach the transport. Whatever the schedule, every repair packet at the
// transport names media packets that were written and reconstructs each of them byte for byte, repair
// sequence numbers are distinct and contiguous, and every media packet is forwarded once, unmodified.

type rscen struct {
	K     int    `json:"k"`
	N     int    `json:"n"`
	Base  uint16 `json:"base"`
	Bound int    `json:"deviation_bound"`
}

func (c rscen) name() string { b, _ := json.Marshal(c); return string(b) }

type rsink struct{ pkts []hk.SentRTP }

//go:norace
func (s *rsink) Write(h *rtp.Header, payload []byte, _ interceptor.Attributes) (int, error) {
	vsched.Yield() // a write to the transport is an observable event
	s.pkts = append(s.pkts, hk.SentRTP{Header: h.Clone(), Payload: append([]byte(nil), payload...), Thread: vsched.CurrentID()})
	return h.MarshalSize() + len(payload), nil
}

func rbody(c rscen, ctx *hk.Ctx) {
	f, err := flexfec.NewFecInterceptor(flexfec.NumMediaPackets(uint32(c.K)), flexfec.NumFECPackets(uint32(c.N)))
	if err != nil {
		ctx.Fail("C14:setup", "%v", err)
		return
	}
	ic, err := f.NewInterceptor("")
	if err != nil {
		ctx.Fail("C14:setup", "%v", err)
		return
	}
	sink := &rsink{}
	w := ic.BindLocalStream(&interceptor.StreamInfo{SSRC: mediaSSRC, PayloadTypeForwardErrorCorrection: fecPT, SSRCForwardErrorCorrection: fecSSRC}, sink)
	bySeq := map[uint16]*mpkt{}
	var lists [2][]*mpkt
	for t, offs := range [][]int{{0, 2, 3}, {1}} {
		for j, off := range offs {
			seq := c.Base + uint16(off)
			m := build(off%len(shapeNames), []int{7, 100, 1, 33}[(j+2*t)%4], seq, mediaSSRC, mix(uint64(t), uint64(j), 99))
			lists[t] = append(lists[t], m)
			bySeq[seq] = m
		}
	}
	vsched.SetupDone()
	var ths []*vsched.Thread
	for t := 0; t < 2; t++ {
		t := t
		ths = append(ths, vsched.GoApp(fmt.Sprintf("writer%d", t), func() {
			for _, m := range lists[t] {
				p, err := m.toRTP()
				if err != nil {
					ctx.Fail("C14:harness", "cannot build packet: %v", err)
					return
				}
				h := p.Header
				if _, err := w.Write(&h, p.Payload, interceptor.Attributes{}); err != nil {
					ctx.Fail("C14:concurrent:write-error", "Write of %d returned %v", m.seq, err)
				}
			}
		}))
	}
	for _, th := range ths {
		th.Join()
	}
	vsched.Quiesce()
	_ = ic.Close()
	vsched.AcquireFinished()
	if ctx.Failed() {
		return
	}
	forwarded := map[uint16]int{}
	order := 0
	repairs := 0
	var loSeq uint16
	haveSeq := false
	repairSeqs := map[uint16]bool{}
	for ei, e := range sink.pkts {
		switch e.Header.SSRC {
		case mediaSSRC:
			m := bySeq[e.Header.SequenceNumber]
			if m == nil {
				ctx.Fail("C14:concurrent:unexpected-packet-on-stream", "event %d: media packet with sequence number %d was never written", ei, e.Header.SequenceNumber)
				return
			}
			if _, dup := forwarded[m.seq]; dup {
				ctx.Fail("C14:concurrent:media-packet-duplicated", "event %d: media packet %d forwarded twice", ei, m.seq)
				return
			}
			buf := make([]byte, 12+4*15+4+65536/8+len(e.Payload)+256)
			n, err := rtp.MarshalPacketTo(buf, &e.Header, e.Payload)
			if err != nil || !bytes.Equal(buf[:n], m.wire()) {
				ctx.Fail("C14:concurrent:media-packet-modified", "event %d: forwarded media packet %d is not the written packet unmodified (err=%v)", ei, m.seq, err)
				return
			}
			forwarded[m.seq] = order
			order++
		case fecSSRC:
			if e.Header.PayloadType != fecPT {
				ctx.Fail("C14:concurrent:repair-ssrc-or-payload-type", "event %d: repair packet with PT %d, expected %d", ei, e.Header.PayloadType, fecPT)
				return
			}
			if repairSeqs[e.Header.SequenceNumber] {
				ctx.Fail("C14:concurrent:repair-sequence-number-reused", "event %d: two repair packets with sequence number %d", ei, e.Header.SequenceNumber)
				return
			}
			repairSeqs[e.Header.SequenceNumber] = true
			if !haveSeq || int16(e.Header.SequenceNumber-loSeq) < 0 {
				loSeq = e.Header.SequenceNumber
			}
			haveSeq = true
			// the receiver may use every media packet that was written: in which order the packets of two
			// threads reach the transport is the scheduler's choice
			lookup := func(seq uint16) (*mpkt, int) {
				if m := bySeq[seq]; m != nil {
					return m, int(seq - c.Base)
				}
				return nil, -1
			}
			var group []*mpkt
			for _, m := range bySeq {
				group = append(group, m)
			}
			if _, f := checkRepair(e.Payload, lookup, group); f != nil {
				ctx.Fail("C14:concurrent:"+f.key[len("C14:"):], "event %d (after %d media packets, two writers on one stream): %s", ei, order, f.msg)
				return
			}
			repairs++
		default:
			ctx.Fail("C14:concurrent:unexpected-packet-on-stream", "event %d: packet with SSRC %#x", ei, e.Header.SSRC)
			return
		}
	}
	if order != len(bySeq) {
		ctx.Fail("C14:concurrent:media-packet-not-forwarded", "%d media packets written, %d forwarded", len(bySeq), order)
		return
	}
	for q := range repairSeqs {
		if int(q-loSeq) >= len(repairSeqs) {
			ctx.Fail("C14:concurrent:repair-sequence-not-increasing-by-one", "the %d repair packets carry sequence numbers that are not contiguous (lowest %d, also %d)", len(repairSeqs), loSeq, q)
			return
		}
	}
	if repairs%c.N != 0 || repairs > 2*c.N {
		ctx.Fail("C14:concurrent:repair-count", "%d repair packets for at most two batches with %d repair packets each", repairs, c.N)
		return
	}
	ctx.Outcome("repairs=%d", repairs)
}

func rscenarios(tier string) []rscen {
	b := 2
	if tier == "thorough" {
		b = 3
	}
	return []rscen{{K: 2, N: 1, Base: 65533, Bound: b}, {K: 2, N: 2, Base: 1000, Bound: b}}
}

func rscenario(c rscen) *hk.Scenario {
	return &hk.Scenario{ID: "C14", Name: c.name(), MaxBound: c.Bound, MaxSteps: 400000, Body: func(ctx *hk.Ctx) { rbody(c, ctx) }}
}

func init() {
	hk.Register(&hk.Check{
		ID: "C14R",
		Rule: "E1 schedule exploration (-race): two application threads write sequence numbers b, b+2, b+3 and b+1 of one stream through the FlexFEC interceptor ((k,n) = (2,1), (2,2); writes to the transport are scheduling points), so that consecutive batches complete on different threads; " +
			"on every schedule each media packet is forwarded once and unmodified, every repair packet at the transport names only media packets that were written and reconstructs each of them byte for byte (same decoder as the sequential part), and the repair sequence numbers are distinct and contiguous; outcomes = number of repair packets (only consecutive batches are encoded)",
		Assumptions: []string{"vsched model and race annotations (litmus suite)"},
		Jobs: func(tier string) []string {
			var n []string
			for _, c := range rscenarios(tier) {
				n = append(n, c.name())
			}
			return n
		},
		Run: func(tier string, i int, deadline time.Time) *hk.JobResult {
			r := &hk.JobResult{Exhaustive: true}
			rscenario(rscenarios(tier)[i]).Explore(deadline, r)
			return r
		},
		Replay: func(raw json.RawMessage) string {
			var rp hk.E1Replay
			if err := json.Unmarshal(raw, &rp); err != nil {
				return "bad replay"
			}
			var c rscen
			if err := json.Unmarshal([]byte(rp.Scenario), &c); err != nil {
				return "bad scenario"
			}
			return rscenario(c).ReplaySchedule(rp.Schedule)
		},
		Bounds: func(tier string) map[string]any { return map[string]any{"scenarios": len(rscenarios(tier))} },
	})
}
