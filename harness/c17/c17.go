// Package c17 decides property C17 (pacers deliver each accepted packet once,
// in order, intact, within the rate) by explicit-state search over
// write/advance/set-rate/close histories on the three pacers under the
// virtual clock, with a drain phase, and by schedule exploration of
// concurrent writers against the pacer goroutine.
package c17

import (
	"bytes"
	"encoding/json"
	"fmt"
	"time"

	"github.com/pion/interceptor"
	"github.com/pion/interceptor/pkg/cc"
	"github.com/pion/interceptor/pkg/gcc"
	"github.com/pion/interceptor/pkg/pacing"
	"github.com/pion/interceptor/verifh/hk"
	"github.com/pion/interceptor/vsched"
	"github.com/pion/rtp"
)

type config struct {
	Pacer    string `json:"pacer"` // token-bucket (pacing.Interceptor) | leaky-bucket (gcc) | noop (gcc)
	Interval int    `json:"interval_ms"`
	Rate     int    `json:"initial_rate"`
	Depth    int    `json:"depth"`
	First    int    `json:"first_symbol"`               // shard: histories starting with this symbol
	Script   []int  `json:"scripted_history,omitempty"` // a fixed history (symbols; 1000+k = SetRate(k kbit/s)) instead of a search
}

// wire sizes of the packets the alphabet writes (payload, number of CSRCs)
var sizes = [][2]int{{8, 0}, {680, 0}, // the 700-byte packet carries an 8-byte header extension block
	{1460, 0}, {1460, 7}, {1460, 15}, {0, 0}}

var rates = []int{100_000, 1_000_000, 5_000_000}

var symNames = []string{"W(s1,20B)", "W(s1,700B)", "W(s1,1472B)", "W(s1,1500B)", "W(s1,1532B)", "W(s1,12B empty)",
	"W(s2,20B)", "W(s2,1472B)", "W(s2,1500B)",
	"Advance(1 interval)", "Advance(10 intervals)", "Advance(200 intervals)", "SetRate(100k)", "SetRate(1M)", "SetRate(5M)", "Close"}

type sentPkt struct {
	stream  int
	seq     uint16
	hdr     rtp.Header
	payload []byte
	bits    int
	at      int64
}

type pacerAPI struct {
	write   func(stream int, h *rtp.Header, p []byte) (int, error)
	setRate func(r int)
	close   func() error
	icpt    any
}

type system struct {
	c        config
	t        *hk.Transport
	api      pacerAPI
	accepted [3][]sentPkt
	seq      [3]uint16
	tseq     uint16 // transport-wide number (cc-leaky, stream 1)
	closed   bool
	t0       int64
	// rate schedule for the token bucket bound
	rateAt   []int64
	rateVal  []int
	rateSeq  []int // transport sequence mark when the segment started
	maxBurst float64
}

func ssrc(stream int) uint32 { return hk.StreamInfo(true, stream, false).SSRC }

func burstOf(rate int, interval time.Duration) float64 {
	f := float64(time.Second.Milliseconds() / interval.Milliseconds())
	b := float64(rate) / f
	if b < 8*1500 {
		b = 8 * 1500
	}
	return float64(int(b))
}

func newSystem(c config) (*system, error) {
	sys := &system{c: c, t: &hk.Transport{}, t0: vsched.NowNanos()}
	iv := time.Duration(c.Interval) * time.Millisecond
	switch c.Pacer {
	case "token-bucket":
		f := pacing.NewInterceptor(pacing.InitialRate(c.Rate), pacing.Interval(iv))
		i, err := f.NewInterceptor("pc")
		if err != nil {
			return nil, err
		}
		s := hk.NewSession(i, nil)
		s.T = sys.t
		w := map[int]interceptor.RTPWriter{1: s.BindLocal(1, false).W, 2: s.BindLocal(2, false).W}
		sys.api = pacerAPI{icpt: i,
			write:   func(st int, h *rtp.Header, p []byte) (int, error) { return w[st].Write(h, p, nil) },
			setRate: func(r int) { f.SetRate("pc", r) },
			close:   i.Close}
		sys.rateAt, sys.rateVal, sys.rateSeq = []int64{sys.t0}, []int{c.Rate}, []int{0}
		sys.maxBurst = burstOf(c.Rate, iv)
	case "leaky-bucket", "noop":
		var p gcc.Pacer
		if c.Pacer == "noop" {
			p = gcc.NewNoOpPacer()
		} else {
			p = gcc.NewLeakyBucketPacer(c.Rate)
		}
		s := hk.NewSession(nil, nil)
		s.T = sys.t
		for st := 1; st <= 2; st++ {
			// an earlier binding of the same SSRC (its writer is gone): the stream's writer is the one registered last
			p.AddStream(ssrc(st), &hk.RTPSink{})
			p.AddStream(ssrc(st), s.SinkFor(st))
		}
		sys.api = pacerAPI{icpt: p,
			write:   func(st int, h *rtp.Header, pl []byte) (int, error) { return p.Write(h, pl, nil) },
			setRate: p.SetTargetBitrate,
			close:   p.Close}
	case "cc-leaky":
		// the leaky bucket pacer as it is used in practice: inside gcc.SendSideBWE behind the cc interceptor;
		// stream 1 negotiated transport-cc (bound first), stream 2 negotiated nothing
		p := gcc.NewLeakyBucketPacer(c.Rate)
		f, err := cc.NewInterceptor(func() (cc.BandwidthEstimator, error) {
			return gcc.NewSendSideBWE(gcc.SendSideBWEInitialBitrate(c.Rate), gcc.SendSideBWEPacer(p))
		})
		if err != nil {
			return nil, err
		}
		i, err := f.NewInterceptor("pc")
		if err != nil {
			return nil, err
		}
		s := hk.NewSession(nil, nil)
		s.T = sys.t
		w := map[int]interceptor.RTPWriter{}
		// an earlier life of both streams (bound with a writer that is gone, then unbound)
		for st := 1; st <= 2; st++ {
			old := &interceptor.StreamInfo{SSRC: ssrc(st)}
			i.BindLocalStream(old, &hk.RTPSink{})
			i.UnbindLocalStream(old)
		}
		w[1] = i.BindLocalStream(&interceptor.StreamInfo{SSRC: ssrc(1), RTCPFeedback: []interceptor.RTCPFeedback{{Type: "transport-cc"}},
			RTPHeaderExtensions: []interceptor.RTPHeaderExtension{{URI: hk.TransportCCURI, ID: hk.TwccExtID}}}, s.SinkFor(1))
		w[2] = i.BindLocalStream(&interceptor.StreamInfo{SSRC: ssrc(2)}, s.SinkFor(2))
		sys.api = pacerAPI{icpt: i,
			write:   func(st int, h *rtp.Header, pl []byte) (int, error) { return w[st].Write(h, pl, nil) },
			setRate: p.SetTargetBitrate,
			close:   i.Close}
	default:
		return nil, fmt.Errorf("unknown pacer %q", c.Pacer)
	}
	return sys, nil
}

type failure struct{ key, msg string }

func (f *failure) Error() string { return f.msg }
func fail(key, format string, a ...any) error {
	return &failure{key, fmt.Sprintf(format, a...)}
}

func (sys *system) write(stream, size int) error {
	sys.seq[stream]++
	q := sys.seq[stream]
	h := rtp.Header{Version: 2, PayloadType: 96, SequenceNumber: q, Timestamp: uint32(q) * 90, SSRC: ssrc(stream), Marker: q%2 == 0}
	for i := 0; i < sizes[size][1]; i++ {
		h.CSRC = append(h.CSRC, uint32(0xA0+i))
	}
	if size == 1 {
		h.Extension, h.ExtensionProfile = true, 0xBEDE
		_ = h.SetExtension(1, []byte{byte(q), 0x5A, 0xA5})
		if q%2 == 0 {
			// the same extension with a 16-byte value on every second packet (716 bytes on the wire): the size of
			// a packet is the size of this packet, not that of an earlier one with the same layout
			_ = h.SetExtension(1, []byte{byte(q), 0x5A, 0xA5, 3, 4, 5, 6, 7, 8, 9, 10, 11, 12, 13, 14, 15})
		}
	}
	if sys.c.Pacer == "cc-leaky" && stream == 1 {
		sys.tseq++
		_ = h.SetExtension(hk.TwccExtID, []byte{byte(sys.tseq >> 8), byte(sys.tseq)})
	}
	p := make([]byte, sizes[size][0])
	for i := range p {
		p[i] = byte(int(q)*31 + i)
	}
	hc, pc := h.Clone(), append([]byte(nil), p...)
	n, err := sys.api.write(stream, &h, p)
	// "with the header and payload it had when accepted": the caller reuses what it passed
	wireHdr := h.MarshalSize()
	for j := range p {
		p[j] = 0xEE
	}
	for j := range h.CSRC {
		h.CSRC[j] = 0xEEEEEEEE
	}
	for _, id := range h.GetExtensionIDs() {
		x := h.GetExtension(id)
		for j := range x {
			x[j] = 0xEE
		}
	}
	h.SequenceNumber, h.Timestamp, h.Marker = 0xEEEE, 0xEEEEEEEE, !h.Marker
	if err != nil {
		return nil // not accepted: nothing is promised
	}
	wire := wireHdr + len(p)
	if n != wire && n != 0 {
		// the returned count is informational; not judged
		_ = n
	}
	sys.accepted[stream] = append(sys.accepted[stream], sentPkt{stream, q, hc, pc, 8 * wire, vsched.NowNanos()})
	return nil
}

// check compares what reached the transport with what was accepted: per stream a prefix (in order,
// exactly once, intact); with final=true (after the drain phase, pacer open) the whole list.
func (sys *system) check(final bool) error {
	var per [3][]hk.RTPRec
	for _, r := range sys.t.RTP {
		if r.Stream < 1 || r.Stream > 2 {
			return fail("C17:wrong-stream", "packet delivered to an unknown stream writer")
		}
		per[r.Stream] = append(per[r.Stream], r)
	}
	for st := 1; st <= 2; st++ {
		acc := sys.accepted[st]
		if len(per[st]) > len(acc) {
			return fail("C17:duplicated-or-invented-packet", "stream %d: %d packets accepted, %d delivered to its writer", st, len(acc), len(per[st]))
		}
		for i, g := range per[st] {
			w := acc[i]
			if g.Header.SequenceNumber != w.seq {
				seen := false
				for _, a := range acc {
					if a.seq == g.Header.SequenceNumber {
						seen = true
					}
				}
				if !seen {
					return fail("C17:duplicated-or-invented-packet", "stream %d: delivered packet %d was never accepted", st, g.Header.SequenceNumber)
				}
				return fail("C17:reordered-or-skipped", "stream %d: delivery %d is packet %d, acceptance order says %d", st, i, g.Header.SequenceNumber, w.seq)
			}
			gb, _ := g.Header.Marshal()
			wb, _ := w.hdr.Marshal()
			if !bytes.Equal(gb, wb) || !bytes.Equal(g.Payload, w.payload) {
				return fail("C17:packet-altered", "stream %d packet %d: header or payload differs from what was accepted:\n got %x | %x\nwant %x | %x", st, w.seq, gb, clip(g.Payload), wb, clip(w.payload))
			}
		}
		if final && !sys.closed && len(per[st]) != len(acc) {
			next := acc[len(per[st])]
			return fail(fmt.Sprintf("C17:accepted-packet-never-delivered:%s:wire-bytes-%d", sys.c.Pacer, next.bits/8),
				"stream %d: %d packets accepted but only %d delivered after draining for longer than the queue needs at the configured rate; first stuck packet %d (%d bytes on the wire, accepted at +%dms)",
				st, len(acc), len(per[st]), next.seq, next.bits/8, (next.at-sys.t0)/1e6)
		}
	}
	if sys.c.Pacer == "token-bucket" {
		// Token bucket bound, for every rate segment i (the initial rate and every SetRate): the bits released
		// from the start of the segment up to any later instant t never exceed the burst that segment allows
		// (the bucket cannot hold more than that when the segment starts) plus the integral of the configured
		// rate from the segment start to t.
		for i := range sys.rateAt {
			cum := 0.0
			burst := burstOf(sys.rateVal[i], time.Duration(sys.c.Interval)*time.Millisecond)
			for _, r := range sys.t.RTP {
				if r.Seq <= sys.rateSeq[i] {
					continue
				}
				cum += float64(8 * (r.Header.MarshalSize() + len(r.Payload)))
				allow := burst + sys.rateIntegralFrom(i, r.At)
				if cum > allow+1 {
					return fail("C17:rate-exceeded", "since the rate was set to %d bit/s at +%dms, %.0f bits had been released by +%dms; the allowance is burst %.0f + rate x time %.0f",
						sys.rateVal[i], (sys.rateAt[i]-sys.t0)/1e6, cum, (r.At-sys.t0)/1e6, burst, allow-burst)
				}
			}
		}
	}
	return nil
}

func clip(b []byte) []byte {
	if len(b) > 24 {
		return b[:24]
	}
	return b
}

func (sys *system) rateIntegralFrom(from int, t int64) float64 {
	total := 0.0
	for i := from; i < len(sys.rateAt); i++ {
		end := t
		if i+1 < len(sys.rateAt) && sys.rateAt[i+1] < t {
			end = sys.rateAt[i+1]
		}
		if end > sys.rateAt[i] {
			total += float64(sys.rateVal[i]) * float64(end-sys.rateAt[i]) / 1e9
		}
	}
	return total
}

func (sys *system) apply(sym int) (string, error) {
	iv := time.Duration(sys.c.Interval) * time.Millisecond
	switch {
	case sym < 6:
		return "w", sys.write(1, sym)
	case sym < 9:
		return "w", sys.write(2, []int{0, 2, 3}[sym-6])
	case sym == 9:
		vsched.Advance(iv)
	case sym == 10:
		vsched.Advance(10 * iv)
	case sym == 11:
		vsched.Advance(200 * iv)
	case sym <= 14 || sym >= 1000:
		var r int
		if sym >= 1000 {
			r = (sym - 1000) * 1000
		} else {
			r = rates[sym-12]
		}
		sys.api.setRate(r)
		if sys.c.Pacer == "token-bucket" {
			sys.rateAt = append(sys.rateAt, vsched.NowNanos())
			sys.rateVal = append(sys.rateVal, r)
			sys.rateSeq = append(sys.rateSeq, sys.t.SeqNow())
			if b := burstOf(r, iv); b > sys.maxBurst {
				sys.maxBurst = b
			}
		}
	case sym == 15:
		if !sys.closed {
			sys.closed = true
			_ = sys.api.close()
		}
	}
	vsched.Quiesce()
	return "a", sys.check(false)
}

// drain advances time by more than the queue needs at the slowest rate used.
func (sys *system) drain() error {
	if sys.closed {
		return sys.check(false)
	}
	bits := 0
	for st := 1; st <= 2; st++ {
		for _, p := range sys.accepted[st] {
			bits += p.bits
		}
	}
	minRate := sys.c.Rate
	for _, r := range sys.rateVal {
		if r < minRate {
			minRate = r
		}
	}
	if sys.c.Pacer != "token-bucket" {
		minRate = 100_000
	}
	d := time.Duration(float64(bits)/float64(minRate)*float64(time.Second)) + 500*time.Millisecond
	iv := time.Duration(sys.c.Interval) * time.Millisecond
	total := len(sys.accepted[1]) + len(sys.accepted[2])
	for spent := time.Duration(0); spent < d && len(sys.t.RTP) < total; spent += 20 * iv {
		vsched.Advance(20 * iv)
	}
	// a little longer: nothing may come out twice
	vsched.Advance(5 * iv)
	return sys.check(true)
}

type replay struct {
	Config  config   `json:"config"`
	History []string `json:"history"`
	Syms    []int    `json:"syms"`
}

func describe(c config, h []int) replay {
	r := replay{Config: c, Syms: h}
	for _, a := range h {
		if a >= 1000 {
			r.History = append(r.History, fmt.Sprintf("SetRate(%dk)", a-1000))
			continue
		}
		r.History = append(r.History, symNames[a])
	}
	return r
}

func exec(c config, hist []int) hk.Step {
	var st hk.Step
	res := vsched.Run(vsched.Options{Strategy: vsched.BackgroundFirst{}, MaxSteps: 5_000_000}, func() {
		sys, err := newSystem(c)
		if err != nil {
			vsched.Failf("setup: %v", err)
			return
		}
		setv := func(err error, last bool) bool {
			if err == nil {
				return false
			}
			if !last {
				st.Dead = true
				return true
			}
			key := "C17:other"
			if f, ok := err.(*failure); ok {
				key = f.key
			}
			st.Violation = &hk.Violation{Key: key, Message: err.Error(), Replay: describe(c, hist)}
			return true
		}
		for i, a := range hist {
			if sys.closed && a != 9 {
				// after Close only time passes (writes after Close are C11's subject)
				st.Dead = true
				return
			}
			out, err := sys.apply(a)
			// in a search a failing prefix was already reported as a history of its own; a scripted history is
			// executed only as a whole, so a failure at any of its steps is reported
			if setv(err, i == len(hist)-1 || len(c.Script) > 0) {
				return
			}
			st.Outcome = out
		}
		// state key before the drain (the drain is the same function of the state for every history)
		flags := []int64{int64(len(sys.t.RTP)), int64(len(sys.accepted[1])), int64(len(sys.accepted[2])), int64(sys.seq[1]), int64(sys.seq[2])}
		st.Key = hk.DeepHash(sys.api.icpt) ^ hk.EnvHash() ^ hk.HashInts(flags...)
		if setv(sys.drain(), true) {
			return
		}
		st.Nontrivial = len(sys.accepted[1])+len(sys.accepted[2]) > 0
		st.Outcome = fmt.Sprintf("%d/%d", len(sys.t.RTP), len(sys.accepted[1])+len(sys.accepted[2]))
		if !sys.closed {
			_ = sys.api.close()
		}
	})
	if st.Violation == nil && !st.Dead {
		switch {
		case len(res.Panics) > 0:
			// a crash on an outgoing packet is C02's subject; the history cannot be judged here
			st.Dead = true
		case res.StepLimit:
			st.Violation = &hk.Violation{Key: "C17:livelock", Message: "step budget exceeded: " + res.StepWhere, Replay: describe(c, hist)}
		case len(res.Failures) > 0:
			st.Violation = &hk.Violation{Key: "C17:harness", Message: res.Failures[0], Replay: describe(c, hist)}
		}
	}
	return st
}

func configs(tier string) []config {
	d := 4
	if tier == "thorough" {
		d = 5
	}
	var out []config
	for _, iv := range []int{1, 5} {
		for _, r := range []int{1_000_000, 100_000} {
			out = append(out, config{Pacer: "token-bucket", Interval: iv, Rate: r, Depth: d})
		}
	}
	out = append(out, config{Pacer: "leaky-bucket", Interval: 5, Rate: 1_000_000, Depth: d})
	out = append(out, config{Pacer: "leaky-bucket", Interval: 5, Rate: 100_000, Depth: d})
	out = append(out, config{Pacer: "noop", Interval: 5, Rate: 1_000_000, Depth: d - 1})
	out = append(out, config{Pacer: "cc-leaky", Interval: 5, Rate: 1_000_000, Depth: d - 1})
	// shard every configuration by the first symbol of the history
	var sharded []config
	for _, c := range out {
		for a := range symNames {
			c.First = a
			sharded = append(sharded, c)
		}
	}
	// scripted: a backlog of 250 packets of 700 bytes (1.4 Mbit), then a SMALL change of the rate while it
	// drains (down by 4 %, by 1 %, up by 2 %): the bound of the new segment applies from the change on
	for _, k := range []int{960, 990, 1020} {
		var h []int
		for n := 0; n < 250; n++ {
			h = append(h, 1) // 700 bytes: small enough for the bucket (burst 12000 bits) to sustain the full rate
		}
		h = append(h, 9, 1000+k)
		sharded = append(sharded, config{Pacer: "token-bucket", Interval: 5, Rate: 1_000_000, Script: h})
	}
	return sharded
}

func init() {
	hk.Register(&hk.Check{
		ID: "C17",
		Rule: "E2 explicit-state search: all histories up to the depth over 16 symbols (writes on two streams of 12..1532 bytes on the wire incl. 0/7/15 CSRCs, advance 1/10/200 pacing intervals, SetRate 100k/1M/5M, Close) on pacing.Interceptor (token bucket), gcc.LeakyBucketPacer and gcc.NoOpPacer under the virtual clock; after every step the deliveries must be a per-stream prefix of the accepted packets (exactly once, in order, intact) and, for the token bucket, cumulative released bits <= burst + integral of the rate; " +
			"every history ends with a drain phase longer than the queue needs, after which nothing accepted may be missing; non-trivial = at least one packet accepted; states distinct by deep hash of the pacer + clock",
		Assumptions: []string{"vsched model (litmus suite)", "golang.org/x/time/rate is instrumented (virtual clock) like repository code", "packets whose Write returns an error are not accepted; the byte count returned is not judged"},
		Jobs: func(tier string) []string {
			var n []string
			for _, c := range configs(tier) {
				b, _ := json.Marshal(c)
				n = append(n, string(b))
			}
			return n
		},
		Run: func(tier string, i int, deadline time.Time) *hk.JobResult {
			c := configs(tier)[i]
			r := &hk.JobResult{Exhaustive: true, Bounds: map[string]any{"depth": c.Depth, "alphabet": len(symNames)}}
			if len(c.Script) > 0 {
				st := exec(c, c.Script)
				r.Executions, r.States, r.Transitions, r.Nontrivial = 1, 1, int64(len(c.Script)), 1
				r.Outcomes = map[string]int{"scripted:" + st.Outcome: 1}
				if st.Violation != nil {
					r.Violations = append(r.Violations, *st.Violation)
				}
				return r
			}
			s := &hk.Search{Alphabet: len(symNames), Depth: c.Depth, Dedup: true, Deadline: deadline, Prefix: []int{c.First},
				Exec:     func(h []int) hk.Step { return exec(c, h) },
				Describe: func(h []int) any { return describe(c, h) }}
			s.Run().Fill(r)
			return r
		},
		Replay: func(raw json.RawMessage) string {
			var rp replay
			if err := json.Unmarshal(raw, &rp); err != nil {
				return "bad replay"
			}
			if st := exec(rp.Config, rp.Syms); st.Violation != nil {
				return st.Violation.Message
			}
			return ""
		},
		Bounds: func(tier string) map[string]any {
			return map[string]any{"configurations": len(configs(tier)), "alphabet": len(symNames)}
		},
	})
}
