package c17

import (
	"encoding/json"
	"fmt"
	"time"

	"github.com/pion/interceptor/verifh/hk"
	"github.com/pion/interceptor/vsched"
	"github.com/pion/rtp"
)

type rscen struct {
	Pacer   string `json:"pacer"`
	Lower   bool   `json:"lower_rate_while_draining,omitempty"`
	Backlog bool   `json:"write_lands_while_backlog_drains,omitempty"`
	SetRate bool   `json:"set_rate_thread"`
	Horizon int    `json:"horizon"`
	Bound   int    `json:"deviation_bound"`
}

func (c rscen) name() string { b, _ := json.Marshal(c); return string(b) }

// rbody: two writers on the SAME stream (two packets each) race the pacer goroutine, timer firings and
// optionally a rate change. Afterwards the queue is drained deterministically.
// lowerBody: five 1000-byte packets are queued at 10 Mbit/s (burst 50000 bits holds them all); a thread
// lowers the rate to 1 Mbit/s (burst 12000) while the pacer goroutine drains. From the instant SetRate has
// returned, no more than the new burst plus new rate x elapsed may be released.
func lowerBody(c rscen, ctx *hk.Ctx) {
	sys, err := newSystem(config{Pacer: c.Pacer, Interval: 5, Rate: 10_000_000})
	if err != nil {
		ctx.Fail("C17:setup", "%v", err)
		return
	}
	for n := 0; n < 5; n++ {
		h := rtp.Header{Version: 2, PayloadType: 96, SequenceNumber: uint16(n + 1), SSRC: ssrc(1)}
		if _, err := sys.api.write(1, &h, make([]byte, 988)); err != nil {
			ctx.Fail("C17:setup", "write: %v", err)
			return
		}
	}
	setSeq, setAt := -1, int64(0)
	t := vsched.GoApp("setrate", func() {
		sys.api.setRate(1_000_000)
		setSeq, setAt = sys.t.SeqNow(), vsched.NowNanos()
	})
	t.Join()
	for k := 0; k < 30 && len(sys.t.RTP) < 5; k++ {
		vsched.Advance(5 * time.Millisecond)
	}
	_ = sys.api.close()
	vsched.Quiesce()
	vsched.AcquireFinished()
	cum, worst, worstAllow, worstCum := 0.0, 0.0, 0.0, 0.0
	var worstAt int64
	after := 0
	for _, r := range sys.t.RTP {
		if r.Seq <= setSeq {
			continue
		}
		after++
		cum += float64(8 * (r.Header.MarshalSize() + len(r.Payload)))
		allow := 12000 + 1_000_000*float64(r.At-setAt)/1e9
		if cum-allow > worst {
			worst, worstAllow, worstCum, worstAt = cum-allow, allow, cum, r.At
		}
	}
	if worst > 1 {
		var tl []string
		for _, q := range sys.t.RTP {
			tl = append(tl, fmt.Sprintf("#%d@+%dus", q.Seq, (q.At-sys.t0)/1000))
		}
		over := "by-more-than-one-packet"
		if worst <= 12000 {
			over = "by-at-most-one-packet"
		}
		ctx.Fail("C17:rate-exceeded:"+over, "after SetRate(1 Mbit/s) had returned (at +%dus, transport mark #%d), %.0f bits were released within %d us; the allowance is burst 12000 + rate x time = %.0f; deliveries %v",
			(setAt-sys.t0)/1000, setSeq, worstCum, (worstAt-setAt)/1000, worstAllow, tl)
		return
	}
	if len(sys.t.RTP) != 5 {
		ctx.Fail("C17:accepted-packet-never-delivered:"+c.Pacer, "%d of 5 accepted packets delivered", len(sys.t.RTP))
		return
	}
	ctx.Outcome("released-after-setrate=%d", after)
}

// backlogBody: three 1000-byte packets are accepted first (at 1 Mbit/s one 5 ms interval pays for 625 bytes,
// so every tick runs out of budget with packets still queued); a writer then gets two more packets accepted
// while the pacer goroutine drains. All five were accepted in a known order and must leave in that order.
func backlogBody(c rscen, ctx *hk.Ctx) {
	sys, err := newSystem(config{Pacer: c.Pacer, Interval: 5, Rate: 1_000_000})
	if err != nil {
		ctx.Fail("C17:setup", "%v", err)
		return
	}
	mkp := func(q uint16) (*rtp.Header, []byte) {
		h := &rtp.Header{Version: 2, PayloadType: 96, SequenceNumber: q, SSRC: ssrc(1)}
		p := make([]byte, 988)
		p[0], p[987] = byte(q), 7
		return h, p
	}
	for q := uint16(1); q <= 3; q++ {
		h, p := mkp(q)
		if _, err := sys.api.write(1, h, p); err != nil {
			ctx.Fail("C17:setup", "write: %v", err)
			return
		}
	}
	accepted := []uint16{1, 2, 3}
	w := vsched.GoApp("writer", func() {
		for q := uint16(4); q <= 5; q++ {
			h, p := mkp(q)
			if _, err := sys.api.write(1, h, p); err == nil {
				accepted = append(accepted, q)
			}
		}
	})
	w.Join()
	for k := 0; k < 60 && len(sys.t.RTP) < len(accepted); k++ {
		vsched.Advance(5 * time.Millisecond)
	}
	_ = sys.api.close()
	vsched.Quiesce()
	vsched.AcquireFinished()
	order := ""
	for i, r := range sys.t.RTP {
		order += fmt.Sprint(r.Header.SequenceNumber, ",")
		if len(r.Payload) != 988 || r.Payload[0] != byte(r.Header.SequenceNumber) || r.Payload[987] != 7 {
			ctx.Fail("C17:packet-altered", "packet %d delivered with a payload of %d bytes starting %x", r.Header.SequenceNumber, len(r.Payload), r.Payload[:1])
			return
		}
		if i < len(accepted) && r.Header.SequenceNumber != accepted[i] {
			ctx.Fail("C17:reordered-or-skipped", "packets were accepted in the order %v and delivered in the order %s...", accepted, order)
			return
		}
	}
	if len(sys.t.RTP) != len(accepted) {
		ctx.Fail("C17:accepted-packet-never-delivered:"+c.Pacer, "%d packets accepted, %d delivered (%s)", len(accepted), len(sys.t.RTP), order)
		return
	}
	ctx.Outcome("%s", order)
}

func rbody(c rscen, ctx *hk.Ctx) {
	if c.Lower {
		lowerBody(c, ctx)
		return
	}
	if c.Backlog {
		backlogBody(c, ctx)
		return
	}
	sys, err := newSystem(config{Pacer: c.Pacer, Interval: 5, Rate: 1_000_000})
	if err != nil {
		ctx.Fail("C17:setup", "%v", err)
		return
	}
	type rec struct {
		seq uint16
		ok  bool
	}
	var logs [2][]rec
	mk := func(w int) func() {
		return func() {
			for n := 0; n < 2; n++ {
				q := uint16(10*w + n + 1)
				h := rtp.Header{Version: 2, PayloadType: 96, SequenceNumber: q, SSRC: ssrc(1)}
				p := []byte{byte(q), 1, 2, 3, 4, 5, 6, 7}
				_, err := sys.api.write(1, &h, p)
				logs[w] = append(logs[w], rec{q, err == nil})
			}
		}
	}
	ths := []*vsched.Thread{vsched.GoApp("writerA", mk(0)), vsched.GoApp("writerB", mk(1))}
	if c.SetRate {
		ths = append(ths, vsched.GoApp("setrate", func() { sys.api.setRate(5_000_000) }))
	}
	for _, t := range ths {
		t.Join()
	}
	for k := 0; k < 40 && len(sys.t.RTP) < 4; k++ {
		vsched.Advance(5 * time.Millisecond)
	}
	vsched.Advance(25 * time.Millisecond)
	_ = sys.api.close()
	vsched.Quiesce()
	vsched.AcquireFinished()
	pos := map[uint16]int{}
	for i, r := range sys.t.RTP {
		if _, dup := pos[r.Header.SequenceNumber]; dup {
			ctx.Fail("C17:duplicated-or-invented-packet", "packet %d delivered twice", r.Header.SequenceNumber)
			return
		}
		pos[r.Header.SequenceNumber] = i
		if len(r.Payload) != 8 || r.Payload[0] != byte(r.Header.SequenceNumber) || r.Payload[7] != 7 {
			ctx.Fail("C17:packet-altered", "packet %d delivered with payload %x", r.Header.SequenceNumber, r.Payload)
			return
		}
	}
	order := ""
	for w := 0; w < 2; w++ {
		last := -1
		for _, l := range logs[w] {
			if !l.ok {
				continue
			}
			p, ok := pos[l.seq]
			if !ok {
				ctx.Fail("C17:accepted-packet-never-delivered:"+c.Pacer, "packet %d was accepted but never delivered", l.seq)
				return
			}
			if p < last {
				ctx.Fail("C17:reordered-or-skipped", "packets of one writer delivered out of the order in which its Write calls returned: %v", sys.t.RTP)
				return
			}
			last = p
		}
	}
	for _, r := range sys.t.RTP {
		order += fmt.Sprint(r.Header.SequenceNumber, ",")
	}
	if len(pos) > 4 {
		ctx.Fail("C17:duplicated-or-invented-packet", "%d packets delivered, 4 written", len(pos))
	}
	ctx.Outcome("%s", order)
}

func rscenarios(tier string) []rscen {
	b := 3
	if tier == "thorough" {
		b = 4
	}
	var out []rscen
	for _, p := range []string{"token-bucket", "leaky-bucket", "noop"} {
		for _, sr := range []bool{false, true} {
			out = append(out, rscen{Pacer: p, SetRate: sr, Horizon: 2, Bound: b})
		}
	}
	out = append(out, rscen{Pacer: "token-bucket", Lower: true, Horizon: 2, Bound: b + 1})
	out = append(out, rscen{Pacer: "leaky-bucket", Backlog: true, Horizon: 2, Bound: b + 1}, rscen{Pacer: "token-bucket", Backlog: true, Horizon: 2, Bound: b + 1})
	return out
}

func rscenario(c rscen) *hk.Scenario {
	return &hk.Scenario{ID: "C17", Name: c.name(), MaxBound: c.Bound, Horizon: c.Horizon, MaxSteps: 400000, Body: func(ctx *hk.Ctx) { rbody(c, ctx) }}
}

func init() {
	hk.Register(&hk.Check{
		ID:          "C17R",
		Rule:        "E1 schedule exploration (-race): two writers on the same stream (two packets each) || optional SetRate || the pacer goroutine and up to two timer firings, then a deterministic drain; oracle: every accepted packet delivered exactly once and intact, the packets of each writer in the order its Write calls returned; outcomes = delivery orders. Scenario write_lands_while_backlog_drains: three 1000-byte packets queued (every tick runs out of budget), a writer gets two more accepted while the pacer drains; all five must leave in acceptance order",
		Assumptions: []string{"vsched model and race annotations (litmus suite)"},
		Jobs: func(tier string) []string {
			var n []string
			for _, c := range rscenarios(tier) {
				n = append(n, c.name())
			}
			return n
		},
		Run: func(tier string, i int, deadline time.Time) *hk.JobResult {
			r := &hk.JobResult{Exhaustive: true}
			rscenario(rscenarios(tier)[i]).Explore(deadline, r)
			return r
		},
		Replay: func(raw json.RawMessage) string {
			var rp hk.E1Replay
			if err := json.Unmarshal(raw, &rp); err != nil {
				return "bad replay"
			}
			var c rscen
			if err := json.Unmarshal([]byte(rp.Scenario), &c); err != nil {
				return "bad scenario"
			}
			return rscenario(c).ReplaySchedule(rp.Schedule)
		},
		Bounds: func(tier string) map[string]any { return map[string]any{"scenarios": len(rscenarios(tier))} },
	})
}
