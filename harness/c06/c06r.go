package c06

import (
	"encoding/json"
	"time"

	"github.com/pion/interceptor"
	"github.com/pion/interceptor/pkg/report"
	"github.com/pion/interceptor/verifh/hk"
	"github.com/pion/interceptor/vsched"
	"github.com/pion/rtcp"
)

// C06R: packets keep arriving while the report loop builds a report and hands it to the RTCP writer. Whatever
// the schedule, every packet belongs to exactly one reporting interval: the interval ends at the highest
// number the report itself names. On every schedule the reports of two consecutive ticks must be consistent
// with each other and with the arrivals: the cumulative loss of the last report is the true loss, and the
// fraction lost of the second report is the loss among the numbers after the highest number of the first.

type rscen struct {
	Start uint16 `json:"start"`
	Gap   int    `json:"gap"` // numbers missing between the two packets that arrive during the tick
	Bound int    `json:"deviation_bound"`
}

func (c rscen) name() string { b, _ := json.Marshal(c); return string(b) }

// yieldingSink is the innermost RTCP writer: a write is an observable event, other threads may run before it.
type yieldingSink struct{ hk.RTCPSink }

//go:norace
func (s *yieldingSink) Write(p []rtcp.Packet, a interceptor.Attributes) (int, error) {
	vsched.Yield()
	return s.RTCPSink.Write(p, a)
}

func rbody(c rscen, ctx *hk.Ctx) {
	const ssrc = 0x4444
	f, err := report.NewReceiverInterceptor(report.ReceiverNow(func() time.Time { return time.Unix(0, vsched.NowNanos()) }), report.ReceiverInterval(interval))
	if err != nil {
		ctx.Fail("C06:setup", "%v", err)
		return
	}
	i, err := f.NewInterceptor("")
	if err != nil {
		ctx.Fail("C06:setup", "%v", err)
		return
	}
	sink := &yieldingSink{}
	i.BindRTCPWriter(sink)
	feed := &hk.FeedReader{}
	rd := i.BindRemoteStream(&interceptor.StreamInfo{SSRC: ssrc, ClockRate: 90000}, feed)
	buf := make([]byte, 1500)
	read := func(q uint16) {
		feed.Next = hk.RawRTP(96, q, uint32(q)*3000, ssrc, []byte{1})
		_, _, _ = rd.Read(buf, interceptor.Attributes{})
	}
	// ten consecutive packets, nothing lost, before the first tick
	for k := 0; k < 10; k++ {
		read(c.Start + uint16(k))
	}
	vsched.Quiesce()
	vsched.SetupDone()
	a, b := c.Start+10, c.Start+10+uint16(c.Gap)+1
	th := vsched.GoApp("arrivals", func() {
		read(a)
		read(b)
	})
	vsched.Advance(interval) // first tick: loop and arrivals interleave
	th.Join()
	vsched.Quiesce()
	vsched.Advance(interval) // second tick
	vsched.Quiesce()
	_ = i.Close()
	vsched.AcquireFinished()
	var blocks []block
	for _, p := range sink.Take() {
		raw, err := p.Marshal()
		if err != nil {
			ctx.Fail("C06:concurrent:marshal", "%v", err)
			return
		}
		bs, err := decodeRR(raw)
		if err != nil {
			ctx.Fail("C06:concurrent:malformed", "%v", err)
			return
		}
		for _, x := range bs {
			if x.ssrc == ssrc {
				blocks = append(blocks, x)
			}
		}
	}
	if len(blocks) != 2 {
		ctx.Fail("C06:concurrent:report-count", "%d reception report blocks for the stream after two ticks", len(blocks))
		return
	}
	r1, r2 := blocks[0], blocks[1]
	ext := func(q uint16) uint32 {
		// the scenario starts below a wrap of the 16-bit number or not at all: one cycle at most
		if q < c.Start {
			return 1<<16 + uint32(q)
		}
		return uint32(q)
	}
	h0, ha, hb := ext(c.Start+9), ext(a), ext(b)
	lostUpTo := map[uint32]uint32{h0: 0, ha: 0, hb: uint32(c.Gap)}
	l1, ok := lostUpTo[r1.ext]
	if !ok {
		ctx.Fail("C06:concurrent:highest", "first report names highest number %d; the arrivals end at %d, %d or %d", r1.ext, h0, ha, hb)
		return
	}
	if r1.cum != l1 {
		ctx.Fail("C06:concurrent:cumulative-lost", "first report (highest %d): cumulative lost %d, %d numbers up to there never arrived", r1.ext, r1.cum, l1)
		return
	}
	if r2.ext != hb {
		ctx.Fail("C06:concurrent:highest", "second report names highest number %d, want %d", r2.ext, hb)
		return
	}
	if r2.cum != uint32(c.Gap) {
		ctx.Fail("C06:concurrent:cumulative-lost", "second report: cumulative lost %d, %d numbers never arrived (first report: highest %d, cumulative lost %d)", r2.cum, c.Gap, r1.ext, r1.cum)
		return
	}
	// first interval: the numbers after the ten initial ones up to the highest of the first report
	frac := func(lost, expected uint32) uint8 {
		if expected == 0 {
			return 0
		}
		return uint8(256 * lost / expected)
	}
	if want := frac(l1, 10+r1.ext-h0); r1.fraction != want {
		ctx.Fail("C06:concurrent:fraction-lost", "first report (highest %d): fraction lost %d, want %d (%d lost of %d expected)", r1.ext, r1.fraction, want, l1, 10+r1.ext-h0)
		return
	}
	if want := frac(uint32(c.Gap)-l1, hb-r1.ext); r2.fraction != want {
		ctx.Fail("C06:concurrent:fraction-lost", "second report: fraction lost %d, want %d: the first report ended its interval at %d, since then %d of %d expected numbers never arrived",
			r2.fraction, want, r1.ext, uint32(c.Gap)-l1, hb-r1.ext)
		return
	}
	ctx.Outcome("first-report-ends-at+%d", r1.ext-h0)
}

func rscenarios(tier string) []rscen {
	b := 3
	if tier == "thorough" {
		b = 5
	}
	return []rscen{{0, 4, b}, {65520, 4, b}, {65530, 1, b}}
}

func rscenario(c rscen) *hk.Scenario {
	return &hk.Scenario{ID: "C06", Name: c.name(), MaxBound: c.Bound, MaxSteps: 400000, Body: func(ctx *hk.Ctx) { rbody(c, ctx) }}
}

func init() {
	hk.Register(&hk.Check{
		ID: "C06R",
		Rule: "E1 schedule exploration (-race): after ten packets, two more (with 1 or 4 numbers missing between them, across the 16-bit wrap in two scenarios) arrive on a reader thread while the report loop builds the report of the first tick and hands it to the RTCP writer (a scheduling point); " +
			"on every schedule the two reports of two consecutive ticks agree with the arrivals: highest number, cumulative lost = numbers that never arrived up to the highest, fraction lost = loss among the numbers since the highest number of the previous report; outcomes name where the first report ended its interval",
		Assumptions: []string{"vsched model and race annotations (litmus suite)"},
		Jobs: func(tier string) []string {
			var n []string
			for _, c := range rscenarios(tier) {
				n = append(n, c.name())
			}
			return n
		},
		Run: func(tier string, i int, deadline time.Time) *hk.JobResult {
			r := &hk.JobResult{Exhaustive: true}
			rscenario(rscenarios(tier)[i]).Explore(deadline, r)
			return r
		},
		Replay: func(raw json.RawMessage) string {
			var rp hk.E1Replay
			if err := json.Unmarshal(raw, &rp); err != nil {
				return "bad replay"
			}
			var c rscen
			if err := json.Unmarshal([]byte(rp.Scenario), &c); err != nil {
				return "bad scenario"
			}
			return rscenario(c).ReplaySchedule(rp.Schedule)
		},
		Bounds: func(tier string) map[string]any { return map[string]any{"scenarios": len(rscenarios(tier))} },
	})
}
