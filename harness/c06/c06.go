// Package c06 decides property C06 (receiver reports follow RFC 3550 for the
// observed reception history) by explicit-state search over packet / sender
// report / tick histories driven through the public ReceiverInterceptor API
// under the virtual clock, compared with a reference model that uses unwrapped
// numbers and exact rational arithmetic.
package c06

import (
	"encoding/binary"
	"encoding/json"
	"fmt"
	"hash/fnv"
	"math/big"
	"sort"
	"time"

	"github.com/pion/interceptor"
	"github.com/pion/interceptor/pkg/report"
	"github.com/pion/interceptor/verifh/hk"
	"github.com/pion/interceptor/vsched"
	"github.com/pion/rtcp"
)

const (
	interval = 10 * time.Second // report interval; packet clock steps are far smaller
	history  = 8192             // reception history named by the property's quantifier
)

// ---------------------------------------------------------------------------
// reference model (RFC 3550 6.4.1, A.3, A.8 on unwrapped numbers)

type model struct {
	rate    int64
	started bool
	ext     int64 // highest unwrapped number received
	prevExt int64 // ext at the previous report (first number - 1 before any report)
	recv    map[int64]bool
	cum     int64
	j       *big.Rat
	lastArr int64 // ns
	lastTs  int64 // true (unwrapped) RTP timestamp of the previous arrival
	wrapped bool  // some pair of consecutive arrivals straddled a multiple of 2^32
	hasSR   bool
	lsr     uint32
	lsrAt   int64
}

func newModel(rate uint32) *model {
	return &model{rate: int64(rate), recv: map[int64]bool{}, j: new(big.Rat)}
}

func floorDiv(a, b int64) int64 {
	q := a / b
	if (a%b != 0) && ((a < 0) != (b < 0)) {
		q--
	}
	return q
}

func (m *model) packet(u, ts, now int64) {
	if !m.started {
		m.started = true
		m.ext = u
		m.prevExt = u - 1 // RFC 3550 A.3: expected = extended_max - base_seq + 1, expected_prior = 0
	} else {
		// RFC 3550 6.4.1: D(i-1,i) = (R_i - R_{i-1}) - (S_i - S_{i-1}); J += (|D| - J)/16,
		// for each packet in order of arrival. S is a 32-bit timestamp: the difference is the true one
		// as long as its magnitude is below 2^31 (which the harness guarantees).
		d := new(big.Rat).SetFrac(new(big.Int).Mul(big.NewInt(now-m.lastArr), big.NewInt(m.rate)), big.NewInt(1_000_000_000))
		d.Sub(d, new(big.Rat).SetInt64(ts-m.lastTs))
		d.Abs(d)
		d.Sub(d, m.j)
		d.Quo(d, big.NewRat(16, 1))
		m.j.Add(m.j, d)
		if floorDiv(ts, 1<<32) != floorDiv(m.lastTs, 1<<32) {
			m.wrapped = true
		}
	}
	m.recv[u] = true
	if u > m.ext {
		m.ext = u
	}
	m.lastArr, m.lastTs = now, ts
}

func (m *model) sr(ntp uint64, now int64) {
	m.hasSR = true
	m.lsr = uint32(ntp >> 16)
	m.lsrAt = now
}

// expectation at a report
type want struct {
	started    bool
	ext        uint32
	expected   int64
	lost       int64
	fraction   uint8
	cum        uint32
	jitter     int64 // floor of the exact value
	lsr        uint32
	dlsr       int64 // floor of the exact value
	cyclesSeen int64
}

func (m *model) report(now int64) want {
	w := want{started: m.started}
	if m.started {
		w.expected = m.ext - m.prevExt
		got := int64(0)
		for u := range m.recv {
			if u > m.prevExt && u <= m.ext {
				got++
			}
		}
		w.lost = w.expected - got
		if w.expected > 0 {
			w.fraction = uint8(256 * w.lost / w.expected) // lost < expected, so < 256
		}
		m.cum += w.lost
		if m.cum > 0xFFFFFF {
			m.cum = 0xFFFFFF
		}
		m.prevExt = m.ext
		w.ext = uint32(uint64(m.ext)) // cycles<<16 | seq, cycles counted from the first packet's cycle
		w.cyclesSeen = m.ext >> 16
	}
	w.cum = uint32(m.cum)
	num, den := m.j.Num(), m.j.Denom()
	w.jitter = new(big.Int).Div(num, den).Int64()
	if m.hasSR {
		w.lsr = m.lsr
		// (now-lsrAt) seconds * 65536, exact
		x := new(big.Int).Mul(big.NewInt(now-m.lsrAt), big.NewInt(65536))
		w.dlsr = x.Div(x, big.NewInt(1_000_000_000)).Int64()
	}
	return w
}

func (m *model) hash() uint64 {
	h := fnv.New64a()
	var vs []int64
	for v := range m.recv {
		vs = append(vs, v)
	}
	sort.Slice(vs, func(i, j int) bool { return vs[i] < vs[j] })
	fmt.Fprintf(h, "%v %d %d %d %s %d %d %v %d %d %v", m.started, m.ext, m.prevExt, m.cum, m.j.String(), m.lastArr, m.lastTs, m.hasSR, m.lsr, m.lsrAt, vs)
	return h.Sum64()
}

// ---------------------------------------------------------------------------
// own decoder of a marshalled receiver report (RFC 3550 6.4.2)

type block struct {
	ssrc     uint32
	fraction uint8
	cum      uint32
	ext      uint32
	jitter   uint32
	lsr      uint32
	dlsr     uint32
}

func decodeRR(b []byte) ([]block, error) {
	if len(b) < 8 {
		return nil, fmt.Errorf("receiver report of %d bytes", len(b))
	}
	if b[0]>>6 != 2 {
		return nil, fmt.Errorf("RTCP version %d", b[0]>>6)
	}
	if b[1] != 201 {
		return nil, fmt.Errorf("RTCP packet type %d, want 201 (RR)", b[1])
	}
	rc := int(b[0] & 0x1f)
	words := int(binary.BigEndian.Uint16(b[2:]))
	if (words+1)*4 != len(b) {
		return nil, fmt.Errorf("RTCP length field %d does not match %d bytes", words, len(b))
	}
	if len(b) < 8+24*rc {
		return nil, fmt.Errorf("RR with %d report blocks is only %d bytes", rc, len(b))
	}
	var out []block
	for i := 0; i < rc; i++ {
		p := b[8+24*i:]
		out = append(out, block{
			ssrc:     binary.BigEndian.Uint32(p[0:]),
			fraction: p[4],
			cum:      uint32(p[5])<<16 | uint32(p[6])<<8 | uint32(p[7]),
			ext:      binary.BigEndian.Uint32(p[8:]),
			jitter:   binary.BigEndian.Uint32(p[12:]),
			lsr:      binary.BigEndian.Uint32(p[16:]),
			dlsr:     binary.BigEndian.Uint32(p[20:]),
		})
	}
	return out, nil
}

// rawSR builds a sender report packet by hand (no report blocks).
func rawSR(ssrc uint32, ntp uint64) []byte {
	b := make([]byte, 28)
	b[0] = 0x80
	b[1] = 200
	binary.BigEndian.PutUint16(b[2:], 6)
	binary.BigEndian.PutUint32(b[4:], ssrc)
	binary.BigEndian.PutUint64(b[8:], ntp)
	binary.BigEndian.PutUint32(b[16:], 0x01020304)
	binary.BigEndian.PutUint32(b[20:], 10)
	binary.BigEndian.PutUint32(b[24:], 1000)
	return b
}

// ---------------------------------------------------------------------------
// configuration and alphabets

type streamCfg struct {
	SSRC     uint32 `json:"ssrc"`
	Rate     uint32 `json:"rate"`
	StartSeq uint16 `json:"start_seq"`
	StartTS  uint32 `json:"start_ts"`
}

type config struct {
	Kind    string      `json:"kind"` // loss, loss-r, jitter, jitter-r, sr, mixed, two, long
	Streams []streamCfg `json:"streams"`
	Depth   int         `json:"depth,omitempty"`
	Prefix  []int       `json:"prefix,omitempty"` // shard: every history starts with these symbols
	Long    string      `json:"long,omitempty"`
}

const (
	opPkt = iota
	opSR
	opAdv
	opTick
)

const (
	seqRelH = iota // offset from the highest number received
	seqFill        // lowest number of the current interval (and still in the history) not yet received, else a duplicate of the highest
	seqAtL         // the last number of the previous interval (the report boundary)
	seqAtL1        // the first number of the current interval
)

const (
	tsRelLast = iota // previous arrival's timestamp + DTs
	tsPerSeq         // start + 3000 per sequence number (a sender clock that follows the sequence)
)

type sym struct {
	Name   string
	Op     int
	Stream int
	Seq    int
	Off    int64
	TsMode int
	DTs    int64
	DClock time.Duration
	NTP    uint64
	SSRC   uint32        // SR: the SSRC it names
	More   []uint32      // SR: further sender reports in the same compound packet (SSRC, NTP = NTP+k)
	DSkew  time.Duration // the clock handed to the interceptor (ReceiverNow) steps by this much before the operation
}

const (
	ms    = time.Millisecond
	frame = 33_333_333 * time.Nanosecond // not a whole number of RTP ticks at any rate used
)

func pkt(name string, seq int, off int64, tsMode int, dts int64, dc time.Duration) sym {
	return sym{Name: name, Op: opPkt, Seq: seq, Off: off, TsMode: tsMode, DTs: dts, DClock: dc}
}

func (c config) table() []sym {
	tick := sym{Name: "T", Op: opTick}
	switch c.Kind {
	case "loss":
		return []sym{
			pkt("+1", seqRelH, 1, tsRelLast, 0, 0), pkt("+2", seqRelH, 2, tsRelLast, 0, 0), pkt("+3", seqRelH, 3, tsRelLast, 0, 0),
			pkt("dup", seqRelH, 0, tsRelLast, 0, 0), pkt("-1", seqRelH, -1, tsRelLast, 0, 0), pkt("-2", seqRelH, -2, tsRelLast, 0, 0),
			pkt("fill", seqFill, 0, tsRelLast, 0, 0), pkt("+100", seqRelH, 100, tsRelLast, 0, 0),
			pkt("+8191", seqRelH, 8191, tsRelLast, 0, 0), pkt("+8192", seqRelH, 8192, tsRelLast, 0, 0), pkt("+8193", seqRelH, 8193, tsRelLast, 0, 0),
			pkt("+32767", seqRelH, 32767, tsRelLast, 0, 0), pkt("-8191", seqRelH, -8191, tsRelLast, 0, 0),
			pkt("@L", seqAtL, 0, tsRelLast, 0, 0), pkt("@L+1", seqAtL1, 0, tsRelLast, 0, 0), tick,
		}
	case "loss-r":
		return []sym{
			pkt("+1", seqRelH, 1, tsRelLast, 0, 0), pkt("+2", seqRelH, 2, tsRelLast, 0, 0), pkt("dup", seqRelH, 0, tsRelLast, 0, 0),
			pkt("-1", seqRelH, -1, tsRelLast, 0, 0), pkt("fill", seqFill, 0, tsRelLast, 0, 0), pkt("+8193", seqRelH, 8193, tsRelLast, 0, 0),
			pkt("+32767", seqRelH, 32767, tsRelLast, 0, 0), pkt("@L", seqAtL, 0, tsRelLast, 0, 0), pkt("@L+1", seqAtL1, 0, tsRelLast, 0, 0), tick,
		}
	case "jitter":
		var t []sym
		for _, d := range []struct {
			n string
			v int64
		}{{"0", 0}, {"+3000", 3000}, {"-3000", -3000}, {"+2^31-1", 1<<31 - 1}, {"+1", 1}} {
			for _, k := range []struct {
				n string
				v time.Duration
			}{{"0", 0}, {"10ms", 10 * ms}, {"33.3ms", frame}, {"1s", time.Second}} {
				t = append(t, pkt("P(ts"+d.n+",clk+"+k.n+")", seqRelH, 1, tsRelLast, d.v, k.v))
			}
		}
		t = append(t, pkt("Pdup(ts+3000,clk+33.3ms)", seqRelH, 0, tsRelLast, 3000, frame), pkt("P-1(ts-3000,clk+10ms)", seqRelH, -1, tsRelLast, -3000, 10*ms), tick)
		return t
	case "jitter-r":
		return []sym{
			pkt("P(ts+3000,clk+0)", seqRelH, 1, tsRelLast, 3000, 0), pkt("P(ts+3000,clk+33.3ms)", seqRelH, 1, tsRelLast, 3000, frame),
			pkt("P(ts-3000,clk+33.3ms)", seqRelH, 1, tsRelLast, -3000, frame), pkt("P(ts0,clk+0)", seqRelH, 1, tsRelLast, 0, 0),
			pkt("P(ts0,clk+10ms)", seqRelH, 1, tsRelLast, 0, 10*ms), pkt("P(ts+2^31-1,clk+1s)", seqRelH, 1, tsRelLast, 1<<31-1, time.Second),
			pkt("P(ts-2^30,clk+1s)", seqRelH, 1, tsRelLast, -(1 << 30), time.Second), tick,
			// the arrival clock steps back by 15 ms before this packet
			{Name: "P(ts+3000,clk-15ms)", Op: opPkt, Seq: seqRelH, Off: 1, TsMode: tsRelLast, DTs: 3000, DSkew: -15 * ms},
		}
	case "sr":
		a, b := c.Streams[0].SSRC, c.Streams[1].SSRC
		return []sym{
			pkt("P", seqRelH, 1, tsRelLast, 3000, 10*ms),
			{Name: "SR(A,ntp1)", Op: opSR, SSRC: a, NTP: 0xDEADBEEFCAFEBABE},
			{Name: "SR(A,ntp2)", Op: opSR, SSRC: a, NTP: 0x00000001_00000000},
			{Name: "SR(B,ntp3)", Op: opSR, SSRC: b, NTP: 0x12345678_9ABCDEF0},
			{Name: "SR(unbound)", Op: opSR, SSRC: 0x7777, NTP: 0x11111111_22222222},
			{Name: "adv10ms", Op: opAdv, DClock: 10 * ms},
			{Name: "adv1s", Op: opAdv, DClock: time.Second},
			{Name: "adv2.5s+1ns", Op: opAdv, DClock: 2500*ms + 1},
			tick,
			{Name: "SR(A,ntp=0)", Op: opSR, SSRC: a, NTP: 0},
			{Name: "SR(A,ntp4)+SR(B,ntp4+1s)", Op: opSR, SSRC: a, NTP: 0xFFFFFFFF_FFFFFFFF, More: []uint32{b}},
			// a compound whose FIRST sender report is for an SSRC that is not bound
			{Name: "SR(unbound)+SR(A,ntp5+1s)", Op: opSR, SSRC: 0x7777, NTP: 0x22222222_33333333, More: []uint32{a}},
			{Name: "clock-5ms", Op: opAdv, DSkew: -5 * ms},
		}
	case "mixed":
		var t []sym
		for _, o := range []int64{1, 2, -1, 8193} {
			n := fmt.Sprintf("%+d", o)
			t = append(t, pkt("P("+n+",ts/seq,clk+33.3ms)", seqRelH, o, tsPerSeq, 0, frame), pkt("P("+n+",ts0,clk+0)", seqRelH, o, tsRelLast, 0, 0))
		}
		t = append(t, sym{Name: "SR", Op: opSR, SSRC: c.Streams[0].SSRC, NTP: 0xAABBCCDD_EEFF0011}, sym{Name: "adv1s", Op: opAdv, DClock: time.Second}, tick)
		return t
	case "two":
		var t []sym
		for k := 0; k < 2; k++ {
			p := fmt.Sprintf("s%d:", k)
			for _, s := range []sym{
				pkt(p+"P(+1,ts/seq,clk+33.3ms)", seqRelH, 1, tsPerSeq, 0, frame), pkt(p+"P(+3,ts/seq,clk+10ms)", seqRelH, 3, tsPerSeq, 0, 10*ms),
				pkt(p+"P(-1,ts0,clk+0)", seqRelH, -1, tsRelLast, 0, 0), {Name: p + "SR", Op: opSR, SSRC: c.Streams[k].SSRC, NTP: 0x0F0F0F0F_10101010 + uint64(k)<<40},
			} {
				s.Stream = k
				t = append(t, s)
			}
		}
		t = append(t, sym{Name: "adv1s", Op: opAdv, DClock: time.Second}, tick)
		return t
	}
	return nil
}

// ---------------------------------------------------------------------------
// system under test + reference

type stream struct {
	cfg   streamCfg
	feed  *hk.FeedReader
	rd    interceptor.RTPReader
	m     *model
	u0    int64
	ts0   int64
	lastU int64
}

type system struct {
	cfg      config
	icpt     interceptor.Interceptor
	sink     *hk.RTCPSink
	st       []*stream
	rtcpFeed *hk.FeedReader
	rtcpRd   interceptor.RTCPReader
	buf      []byte
	t0       int64 // virtual time at which the report ticker was created
	ticks    int64 // ticks elapsed
	outcome  string
	nontriv  bool
	skew     int64 // what the injected clock shows minus the virtual time (only ever stepped backwards)
}

// clock is the time the interceptor is given through ReceiverNow: arrival and report instants are readings of it.
func (s *system) clock() int64 { return vsched.NowNanos() + s.skew }

func newSystem(c config) (*system, error) {
	s := &system{cfg: c, sink: &hk.RTCPSink{}, buf: make([]byte, 1500), rtcpFeed: &hk.FeedReader{}}
	f, err := report.NewReceiverInterceptor(report.ReceiverNow(func() time.Time { return time.Unix(0, s.clock()) }), report.ReceiverInterval(interval))
	if err != nil {
		return nil, err
	}
	i, err := f.NewInterceptor("")
	if err != nil {
		return nil, err
	}
	s.icpt = i
	s.t0 = vsched.NowNanos()
	i.BindRTCPWriter(s.sink)
	s.rtcpRd = i.BindRTCPReader(interceptor.RTCPReaderFunc(s.rtcpFeed.Read))
	for _, sc := range c.Streams {
		st := &stream{cfg: sc, feed: &hk.FeedReader{}, m: newModel(sc.Rate), u0: int64(sc.StartSeq), ts0: int64(sc.StartTS)}
		st.rd = i.BindRemoteStream(&interceptor.StreamInfo{SSRC: sc.SSRC, ClockRate: sc.Rate}, st.feed)
		s.st = append(s.st, st)
	}
	vsched.Quiesce()
	return s, nil
}

type mismatch struct {
	key, msg string
}

func (e *mismatch) Error() string { return e.msg }

// advance moves the virtual clock by d, stopping at every report tick on the way to compare the reports written there.
func (s *system) advance(d time.Duration) error {
	for d > 0 {
		now := vsched.NowNanos()
		next := s.t0 + (s.ticks+1)*int64(interval)
		if now+int64(d) < next {
			vsched.Advance(d)
			break
		}
		step := time.Duration(next - now)
		vsched.Advance(step)
		d -= step
		s.ticks++
		if err := s.drain(true); err != nil {
			return err
		}
	}
	return s.drain(false)
}

// drain compares every receiver report written since the last call with the reference.
func (s *system) drain(atTick bool) error {
	now := s.clock()
	seen := map[uint32]int{}
	for _, p := range s.sink.Take() {
		rr, ok := p.(*rtcp.ReceiverReport)
		if !ok {
			return &mismatch{"C06:unexpected-rtcp", fmt.Sprintf("unexpected RTCP packet %T written", p)}
		}
		raw, err := rr.Marshal()
		if err != nil {
			return &mismatch{"C06:report-does-not-marshal", fmt.Sprintf("receiver report %+v does not marshal: %v", rr.Reports, err)}
		}
		blocks, err := decodeRR(raw)
		if err != nil {
			return &mismatch{"C06:report-wire-form", err.Error()}
		}
		for _, b := range blocks {
			var st *stream
			for _, x := range s.st {
				if x.cfg.SSRC == b.ssrc {
					st = x
				}
			}
			if st == nil {
				return &mismatch{"C06:report-for-unbound-ssrc", fmt.Sprintf("report block for SSRC %#x which is not bound", b.ssrc)}
			}
			seen[b.ssrc]++
			if err := s.compare(st, b, now); err != nil {
				return err
			}
		}
	}
	if atTick {
		for _, st := range s.st {
			if seen[st.cfg.SSRC] == 0 {
				return &mismatch{"C06:report-missing", fmt.Sprintf("no receiver report for SSRC %#x at the report tick %d", st.cfg.SSRC, s.ticks)}
			}
		}
	}
	return nil
}

func near(got uint32, want int64) bool {
	g := int64(got)
	return g >= want-1 && g <= want+1
}

func (s *system) compare(st *stream, b block, now int64) error {
	m := st.m
	w := m.report(now)
	ctx := fmt.Sprintf(" [SSRC %#x, interval expected=%d lost=%d, highest=%d]", b.ssrc, w.expected, w.lost, m.ext)
	if w.started && b.ext != w.ext {
		return &mismatch{"C06:extended-highest-sequence", fmt.Sprintf("extended highest sequence number %#x, reference %#x%s", b.ext, w.ext, ctx)}
	}
	if b.fraction != w.fraction || b.cum != w.cum {
		key := "C06:fraction-lost"
		if b.fraction == w.fraction {
			key = "C06:cumulative-lost"
		}
		switch {
		case w.expected >= 65536:
			key = "C06:loss-wrong-when-interval-exceeds-65535-packets"
		case w.expected > history:
			key = "C06:loss-wrong-when-interval-exceeds-history"
		}
		return &mismatch{key, fmt.Sprintf("fraction lost %d cumulative lost %d, reference fraction %d (= floor(256*%d/%d)) cumulative %d%s",
			b.fraction, b.cum, w.fraction, w.lost, w.expected, w.cum, ctx)}
	}
	if !near(b.jitter, w.jitter) {
		key := "C06:jitter"
		if m.wrapped {
			key = "C06:jitter-not-wrap-safe-at-rtp-timestamp-wrap"
		}
		f, _ := m.j.Float64()
		return &mismatch{key, fmt.Sprintf("interarrival jitter %d, reference %.3f%s", b.jitter, f, ctx)}
	}
	if b.lsr != w.lsr {
		return &mismatch{"C06:last-sender-report", fmt.Sprintf("LSR %#x, reference %#x (sender report seen: %v)%s", b.lsr, w.lsr, m.hasSR, ctx)}
	}
	if !m.hasSR && b.dlsr != 0 {
		return &mismatch{"C06:delay-since-last-sender-report", fmt.Sprintf("DLSR %d before any sender report%s", b.dlsr, ctx)}
	}
	if m.hasSR && w.dlsr >= 0 && !near(b.dlsr, w.dlsr) { // a negative delay (the clock stepped back past the sender report) is not judged
		return &mismatch{"C06:delay-since-last-sender-report", fmt.Sprintf("DLSR %d, reference %d%s", b.dlsr, w.dlsr, ctx)}
	}
	// observation class
	fr := "0"
	switch {
	case w.fraction >= 128:
		fr = "hi"
	case w.fraction > 0:
		fr = "lo"
	}
	cu := "0"
	switch {
	case w.cum == 0xFFFFFF:
		cu = "sat"
	case w.cum > 0:
		cu = "+"
	}
	cy := w.cyclesSeen
	if cy > 2 {
		cy = 2
	}
	iv := "short"
	switch {
	case w.expected >= 65536:
		iv = ">65535"
	case w.expected > history:
		iv = ">hist"
	case w.expected == 0:
		iv = "empty"
	}
	s.outcome += fmt.Sprintf("r[f=%s c=%s j=%v sr=%v cyc=%d iv=%s wrap=%v]", fr, cu, w.jitter > 0, m.hasSR, cy, iv, m.wrapped)
	if w.started && (w.lost > 0 || w.jitter > 0 || m.hasSR || w.cyclesSeen > 0) {
		s.nontriv = true
	}
	return nil
}

var errNotApplicable = fmt.Errorf("symbol not applicable")

func (s *system) apply(y sym) error {
	s.outcome = ""
	s.nontriv = false
	s.skew += int64(y.DSkew)
	switch y.Op {
	case opTick:
		now := vsched.NowNanos()
		next := s.t0 + (s.ticks+1)*int64(interval)
		return s.advance(time.Duration(next - now))
	case opAdv:
		s.outcome = "adv"
		return s.advance(y.DClock)
	case opSR:
		s.outcome = "sr"
		raw := rawSR(y.SSRC, y.NTP)
		for k, more := range y.More {
			raw = append(raw, rawSR(more, y.NTP+uint64(k+1)<<32)...)
		}
		s.rtcpFeed.Next = raw
		n, _, err := s.rtcpRd.Read(s.buf, interceptor.Attributes{})
		if err != nil || n != len(raw) {
			return &mismatch{"C06:rtcp-read", fmt.Sprintf("RTCP read returned n=%d err=%v for a %d-byte sender report", n, err, len(raw))}
		}
		now := s.clock()
		all := append([]uint32{y.SSRC}, y.More...)
		for k, ssrc := range all {
			for _, st := range s.st {
				if st.cfg.SSRC == ssrc {
					st.m.sr(y.NTP+uint64(k)<<32, now)
				}
			}
		}
		vsched.Quiesce()
		return s.drain(false)
	}
	// packet
	st := s.st[y.Stream]
	m := st.m
	var u, ts int64
	if !m.started {
		u, ts = st.u0, st.ts0
	} else {
		switch y.Seq {
		case seqRelH:
			u = m.ext + y.Off
		case seqAtL:
			u = m.prevExt
		case seqAtL1:
			u = m.prevExt + 1
		case seqFill:
			u = m.ext
			lo := m.prevExt + 1
			if lo < m.ext-history+1 {
				lo = m.ext - history + 1
			}
			for v := lo; v < m.ext; v++ {
				if !m.recv[v] {
					u = v
					break
				}
			}
		}
		// the quantifier restricts reordering to the 8192-packet history
		if u <= m.ext && m.ext-u > history-1 {
			return errNotApplicable
		}
		if u > m.ext && u-m.ext > 0x7FFF {
			return errNotApplicable
		}
		switch y.TsMode {
		case tsRelLast:
			ts = m.lastTs + y.DTs
		case tsPerSeq:
			ts = st.ts0 + 3000*(u-st.u0)
		}
		if d := ts - m.lastTs; d >= 1<<31 || d <= -(1<<31) {
			return errNotApplicable
		}
	}
	if y.DClock > 0 {
		if err := s.advance(y.DClock); err != nil {
			return err
		}
	}
	s.outcome += "p"
	st.feed.Next = hk.RawRTP(96, uint16(u), uint32(ts), st.cfg.SSRC, []byte{1, 2, 3})
	n, _, err := st.rd.Read(s.buf, interceptor.Attributes{})
	if err != nil || n != len(st.feed.Next) {
		return &mismatch{"C06:rtp-read", fmt.Sprintf("RTP read returned n=%d err=%v for a %d-byte packet", n, err, len(st.feed.Next))}
	}
	m.packet(u, ts, s.clock())
	st.lastU = u
	vsched.Quiesce()
	return s.drain(false)
}

// ---------------------------------------------------------------------------
// execution of one history

type replay struct {
	Config  config   `json:"config"`
	History []string `json:"history,omitempty"`
	Syms    []int    `json:"syms,omitempty"`
}

func describe(c config, hist []int) replay {
	t := c.table()
	r := replay{Config: c, Syms: hist}
	for _, a := range hist {
		r.History = append(r.History, t[a].Name)
	}
	return r
}

func exec(c config, table []sym, hist []int) hk.Step {
	var step hk.Step
	res := vsched.Run(vsched.Options{Strategy: vsched.BackgroundFirst{}, MaxSteps: 20_000_000}, func() {
		s, err := newSystem(c)
		if err != nil {
			vsched.Failf("setup: %v", err)
			return
		}
		for i, a := range hist {
			err := s.apply(table[a])
			if err == errNotApplicable {
				step.Dead = true
				step.Outcome = "n/a"
				break
			}
			if err != nil {
				if i == len(hist)-1 {
					key := "C06:other"
					if mm, ok := err.(*mismatch); ok {
						key = mm.key
					}
					step.Violation = &hk.Violation{Key: key, Message: err.Error(), Replay: describe(c, hist)}
				} else {
					step.Dead = true // the prefix already failed when it was explored on its own
				}
				break
			}
			if i == len(hist)-1 {
				step.Outcome = s.outcome
				step.Nontrivial = s.nontriv
			}
		}
		if step.Violation == nil && !step.Dead {
			key := hk.DeepHash(s.icpt) ^ hk.EnvHash() ^ hk.HashInts(s.skew)
			for _, st := range s.st {
				key = key*31 + st.m.hash()
			}
			step.Key = key
		}
		s.icpt.Close()
	})
	if step.Violation == nil {
		if msg := runFailure(res); msg != "" {
			step.Violation = &hk.Violation{Key: "C06:runtime", Message: msg, Replay: describe(c, hist)}
		}
	}
	return step
}

func runFailure(res *vsched.Result) string {
	switch {
	case len(res.Panics) > 0:
		return "panic: " + res.Panics[0].Value + "\n" + res.Panics[0].Stack
	case res.Deadlock:
		return fmt.Sprintf("deadlock: %+v", res.Blocked)
	case res.StepLimit:
		return "step budget exceeded (loops forever?): " + res.StepWhere
	case len(res.Failures) > 0:
		return res.Failures[0]
	case len(res.Blocked) > 0:
		return fmt.Sprintf("goroutines still alive after Close: %+v", res.Blocked)
	}
	return ""
}

// ---------------------------------------------------------------------------
// long scripted histories: saturation of the cumulative count, many cycles,
// intervals far longer than the history

type longScenario struct {
	name    string
	jumps   []int64 // forward jumps per interval
	late    bool    // after the jumps, deliver the number just below the highest (a late packet inside the history)
	reports int
}

var longScenarios = []longScenario{
	{"one +32767 jump per interval, 530 reports", []int64{32767}, false, 530},
	{"two +32767 jumps per interval, 270 reports", []int64{32767, 32767}, false, 270},
	{"three +32767 jumps per interval (98301 packets expected), 180 reports", []int64{32767, 32767, 32767}, false, 180},
	{"+5000,+5000 then the late number highest-1, 600 reports", []int64{5000, 5000}, true, 600},
	// 2^24 or more packets lost within ONE interval (the cumulative count must saturate, not wrap), and two
	// intervals of about 9.8 million each
	{"520 packets each +32767 ahead in one interval, 3 reports", repeat(32767, 520), false, 3},
	{"300 jumps of +32767 per interval, 3 reports", repeat(32767, 300), false, 3},
}

func repeat(v int64, n int) []int64 {
	out := make([]int64, n)
	for i := range out {
		out[i] = v
	}
	return out
}

func longRun(c config) (*hk.Violation, int64, string) {
	var sc *longScenario
	for i := range longScenarios {
		if longScenarios[i].name == c.Long {
			sc = &longScenarios[i]
		}
	}
	if sc == nil {
		return &hk.Violation{Key: "C06:other", Message: "unknown long scenario " + c.Long}, 0, ""
	}
	var viol *hk.Violation
	var transitions int64
	last := ""
	res := vsched.Run(vsched.Options{Strategy: vsched.BackgroundFirst{}, MaxSteps: 2_000_000_000}, func() {
		s, err := newSystem(c)
		if err != nil {
			vsched.Failf("setup: %v", err)
			return
		}
		fail := func(n int, err error) {
			key := "C06:other"
			if mm, ok := err.(*mismatch); ok {
				key = mm.key
			}
			viol = &hk.Violation{Key: key, Message: fmt.Sprintf("report %d of %q: %v", n, sc.name, err), Replay: replay{Config: c}}
		}
	outer:
		for n := 1; n <= sc.reports; n++ {
			for _, j := range sc.jumps {
				if err := s.apply(pkt("j", seqRelH, j, tsPerSeq, 0, ms)); err != nil {
					fail(n, err)
					break outer
				}
				transitions++
			}
			if sc.late {
				if err := s.apply(pkt("late", seqRelH, -1, tsRelLast, 0, ms)); err != nil {
					fail(n, err)
					break outer
				}
				transitions++
			}
			if err := s.apply(sym{Name: "T", Op: opTick}); err != nil {
				fail(n, err)
				break outer
			}
			transitions++
			last = s.outcome
		}
		s.icpt.Close()
	})
	if viol == nil {
		if msg := runFailure(res); msg != "" {
			viol = &hk.Violation{Key: "C06:runtime", Message: msg, Replay: replay{Config: c}}
		}
	}
	return viol, transitions, last
}

// ---------------------------------------------------------------------------
// job list

var (
	one90Wrap = []streamCfg{{SSRC: 0x1111, Rate: 90000, StartSeq: 65534, StartTS: 1<<32 - 3000}}
	one48Zero = []streamCfg{{SSRC: 0x1111, Rate: 48000, StartSeq: 0, StartTS: 0}} // an audio clock: loss accounting does not depend on the clock rate
	twoStr    = []streamCfg{{SSRC: 0x1111, Rate: 90000, StartSeq: 65534, StartTS: 1<<32 - 3000}, {SSRC: 0x2222, Rate: 8000, StartSeq: 0, StartTS: 0}}
)

// shard splits a search into one job per second symbol after the first packet
// (symbol 0; the first packet of a stream is the start number whatever packet
// symbol delivers it), plus one job for the histories that begin with a tick.
func shard(c config) []config {
	var out []config
	n := len(c.table())
	for i := 0; i < n; i++ {
		d := c
		d.Prefix = []int{0, i}
		out = append(out, d)
	}
	d := c
	d.Prefix = []int{n - 1}
	return append(out, d)
}

// shardFirst splits by first symbol (alphabets whose first symbols are not equivalent).
func shardFirst(c config) []config {
	var out []config
	for i := range c.table() {
		d := c
		d.Prefix = []int{i}
		out = append(out, d)
	}
	return out
}

// shard2 splits by the first two symbols.
func shard2(c config) []config {
	var out []config
	n := len(c.table())
	for i := 0; i < n; i++ {
		for j := 0; j < n; j++ {
			d := c
			d.Prefix = []int{i, j}
			out = append(out, d)
		}
	}
	return out
}

func configs(tier string) []config {
	var out []config
	th := tier == "thorough"
	// loss accounting
	for k, st := range [][]streamCfg{one90Wrap, one48Zero} {
		c := config{Kind: "loss", Streams: st, Depth: 5}
		r := config{Kind: "loss-r", Streams: st, Depth: 6}
		if th {
			c.Depth, r.Depth = 6, 7
			if k == 0 {
				c.Depth, r.Depth = 7, 8
			}
		}
		out = append(out, shard(c)...)
		out = append(out, shard(r)...)
	}
	// jitter
	starts := []uint32{1<<32 - 3000, 0, 1<<31 - 1500}
	rates := []uint32{90000, 8000}
	if th {
		rates = append(rates, 48000)
	}
	for _, ts := range starts {
		for ri, rate := range rates {
			st := []streamCfg{{SSRC: 0x1111, Rate: rate, StartSeq: 65535, StartTS: ts}}
			c := config{Kind: "jitter", Streams: st, Depth: 4}
			r := config{Kind: "jitter-r", Streams: st, Depth: 6}
			if th {
				r.Depth = 7
				if ri == 0 {
					c.Depth = 5
					if ts == 1<<32-3000 {
						c.Depth = 6
					}
				}
				out = append(out, shard(r)...)
			} else {
				out = append(out, r)
			}
			out = append(out, shard(c)...)
		}
	}
	// sender reports
	sr := config{Kind: "sr", Streams: twoStr, Depth: 6}
	if th {
		sr.Depth = 7
		out = append(out, shard2(sr)...)
	} else {
		out = append(out, shardFirst(sr)...)
	}
	// everything together on one stream, and two streams on one interceptor
	for _, st := range [][]streamCfg{one90Wrap, {{SSRC: 0x3333, Rate: 48000, StartSeq: 0, StartTS: 0}}} {
		c := config{Kind: "mixed", Streams: st, Depth: 5}
		if th {
			c.Depth = 6
		}
		out = append(out, shard(c)...)
	}
	two := config{Kind: "two", Streams: twoStr, Depth: 5}
	if th {
		two.Depth = 6
		out = append(out, shard2(two)...)
	} else {
		out = append(out, shardFirst(two)...)
	}
	for _, sc := range longScenarios {
		out = append(out, config{Kind: "long", Streams: one90Wrap, Long: sc.name})
	}
	return out
}

func jobs(tier string) []string {
	var names []string
	for _, c := range configs(tier) {
		b, _ := json.Marshal(c)
		names = append(names, string(b))
	}
	return names
}

func run(tier string, i int, deadline time.Time) *hk.JobResult {
	c := configs(tier)[i]
	r := &hk.JobResult{Exhaustive: true, Bounds: map[string]any{"depth": c.Depth, "kind": c.Kind}}
	if c.Kind == "long" {
		v, tr, last := longRun(c)
		r.Executions, r.Transitions, r.States, r.Nontrivial = 1, tr, tr, 1
		r.Outcomes = map[string]int{"long:" + last: 1}
		r.Samples = append(r.Samples, map[string]any{"config": c})
		if v != nil {
			r.Violations = append(r.Violations, *v)
		}
		return r
	}
	table := c.table()
	r.Bounds["alphabet"] = len(table)
	all := make([]int, len(table))
	for k := range all {
		all[k] = k
	}
	s := &hk.Search{Alphabet: len(table), Depth: c.Depth, Dedup: true, Deadline: deadline,
		Allowed: func(h []int) []int {
			if len(h) < len(c.Prefix) {
				return []int{c.Prefix[len(h)]}
			}
			return all
		},
		Exec:     func(h []int) hk.Step { return exec(c, table, h) },
		Describe: func(h []int) any { return describe(c, h) }}
	st := s.Run()
	st.Fill(r)
	return r
}

func replayFn(raw json.RawMessage) string {
	var rp replay
	if err := json.Unmarshal(raw, &rp); err != nil {
		return "bad replay: " + err.Error()
	}
	if rp.Config.Kind == "long" {
		v, _, _ := longRun(rp.Config)
		if v != nil {
			return v.Message
		}
		return ""
	}
	table := rp.Config.table()
	for _, a := range rp.Syms {
		if a < 0 || a >= len(table) {
			return "bad replay: symbol out of range"
		}
	}
	st := exec(rp.Config, table, rp.Syms)
	if st.Violation != nil {
		return st.Violation.Message
	}
	return ""
}

func init() {
	hk.Register(&hk.Check{
		ID: "C06",
		Rule: "E2 explicit-state search through ReceiverInterceptor (BindRemoteStream/BindRTCPReader/BindRTCPWriter, ReceiverNow = virtual clock, virtual ticker, interval 10 s): " +
			"all histories up to the stated depth over per-aspect alphabets chosen from the branch conditions of the code " +
			"(loss: +1,+2,+3,dup,-1,-2,fill,+100,+8191,+8192,+8193,+32767,-8191,@previous-report-boundary,@boundary+1,tick; " +
			"jitter: timestamp step {0,+3000,-3000,+2^31-1,+1,-2^30} x arrival step {0,10 ms,33.333333 ms,1 s} plus duplicate/late packets; " +
			"sender reports: four NTP values, another bound SSRC, an unbound SSRC, a compound packet, clock steps; mixed and two-stream product alphabets), " +
			"from sequence starts {0,65534,65535} and RTP timestamp starts {0, 2^32-3000, 2^31-1500} at clock rates {90000, 8000, 48000}; " +
			"plus six scripted long histories (hundreds of reports, hundreds of sequence cycles, cumulative loss beyond 2^24 - also within a single interval -, intervals of up to 98301 packets). " +
			"Every report block written to the RTCP writer is marshalled, decoded by the harness's own decoder and compared field by field with an RFC 3550 6.4.1/A.3/A.8 reference on unwrapped numbers " +
			"with exact rational arithmetic (jitter and DLSR within +-1 of the floor of the exact value). " +
			"A transition is non-trivial if it writes a report after at least one packet with loss, jitter, a cycle or a sender report in the history; states are distinct by deep hash of interceptor + reference + clock",
		Assumptions: []string{
			"vsched channel/timer model (litmus suite)",
			"forward jumps stay below 2^15 and reordering within the 8192-packet history (property quantifier); RTP timestamp steps and |D| stay below 2^31 so that the 32-bit difference is unambiguous",
			"interval loss = numbers of (previous highest, highest] not received by report time (set semantics: duplicates and packets of earlier intervals do not change it); first interval starts at the first packet (RFC 3550 A.3: expected = ext_max - base_seq + 1)",
			"a report with zero expected packets has fraction 0 (RFC 3550 A.3); relies on amd64 float-to-int conversion of NaN giving 0 in the implementation",
			"no expectation on the extended highest sequence number before the first packet",
		},
		Jobs:   jobs,
		Run:    run,
		Replay: replayFn,
		Bounds: func(tier string) map[string]any {
			depth := map[string]int{}
			for _, c := range configs(tier) {
				if c.Depth > depth[c.Kind] {
					depth[c.Kind] = c.Depth
				}
			}
			alpha := map[string]int{}
			for _, k := range []string{"loss", "loss-r", "jitter", "jitter-r", "sr", "mixed", "two"} {
				alpha[k] = len(config{Kind: k, Streams: twoStr}.table())
			}
			return map[string]any{"jobs": len(configs(tier)), "tier": tier, "history": history, "interval_s": 10,
				"depth_by_alphabet": depth, "alphabet_sizes": alpha, "long_scenarios": len(longScenarios)}
		},
	})
}
