package hk

import (
	"encoding/binary"
	"fmt"

	"github.com/pion/interceptor"
	"github.com/pion/interceptor/vsched"
	"github.com/pion/rtcp"
	"github.com/pion/rtp"
)

// EnvHash folds the virtual clock and the pending timer deadlines into a key.
func EnvHash() uint64 {
	h := &hasher{}
	h.mix(uint64(vsched.NowNanos()))
	for _, d := range vsched.TimerDeadlines() {
		h.mix(uint64(d))
	}
	return h.sum()
}

// HashInts hashes a sequence of integers.
func HashInts(vs ...int64) uint64 {
	h := &hasher{}
	for _, v := range vs {
		h.mix(uint64(v))
	}
	return h.sum()
}

// NackFB is the feedback list of a stream that negotiated NACK.
var NackFB = []interceptor.RTCPFeedback{{Type: "nack"}}

// RawRTP builds a minimal RTP packet (version 2, no CSRC/extension) by hand.
func RawRTP(pt uint8, seq uint16, ts, ssrc uint32, payload []byte) []byte {
	b := make([]byte, 12+len(payload))
	b[0] = 0x80
	b[1] = pt & 0x7f
	binary.BigEndian.PutUint16(b[2:], seq)
	binary.BigEndian.PutUint32(b[4:], ts)
	binary.BigEndian.PutUint32(b[8:], ssrc)
	copy(b[12:], payload)
	return b
}

// FeedReader is a mock innermost RTPReader: each Read returns the next queued packet.
type FeedReader struct {
	Next []byte
	Err  error
	Attr interceptor.Attributes
}

// Read implements interceptor.RTPReader.
//
//go:norace
func (f *FeedReader) Read(b []byte, a interceptor.Attributes) (int, interceptor.Attributes, error) {
	if f.Err != nil {
		err := f.Err
		f.Err = nil
		return 0, nil, err
	}
	if len(f.Next) > len(b) {
		return 0, nil, fmt.Errorf("short buffer")
	}
	n := copy(b, f.Next)
	return n, a, nil
}

// RTCPSink is a mock innermost RTCPWriter that records what reaches the transport.
type RTCPSink struct {
	Pkts []rtcp.Packet
	Err  error
	// Refused collects what was offered while Err was set
	Refused []rtcp.Packet
}

// Write implements interceptor.RTCPWriter.
//
//go:norace
func (s *RTCPSink) Write(pkts []rtcp.Packet, _ interceptor.Attributes) (int, error) {
	if s.Err != nil {
		s.Refused = append(s.Refused, pkts...)
		return 0, s.Err
	}
	s.Pkts = append(s.Pkts, pkts...)
	return len(pkts), nil
}

// Take returns and clears the recorded packets.
//
//go:norace
func (s *RTCPSink) Take() []rtcp.Packet {
	p := s.Pkts
	s.Pkts = nil
	return p
}

// ExpandNack decodes generic NACK FCI entries (RFC 4585 6.2.1) without using
// pion/rtcp's helpers: PID plus one number per set bit of the BLP.
func ExpandNack(n *rtcp.TransportLayerNack) []uint16 {
	var out []uint16
	for _, p := range n.Nacks {
		out = append(out, p.PacketID)
		for i := 0; i < 16; i++ {
			if uint16(p.LostPackets)&(1<<uint(i)) != 0 {
				out = append(out, p.PacketID+uint16(i)+1)
			}
		}
	}
	return out
}

// RTPSink is a mock innermost RTPWriter that snapshots what reaches the transport.
type RTPSink struct {
	Pkts []SentRTP
	Err  error
}

// SentRTP is a deep copy of a packet at the moment it reached the transport.
type SentRTP struct {
	Header  rtp.Header
	Payload []byte
	Thread  int
}

// Write implements interceptor.RTPWriter.
//
//go:norace
func (s *RTPSink) Write(h *rtp.Header, payload []byte, _ interceptor.Attributes) (int, error) {
	if s.Err != nil {
		return 0, s.Err
	}
	s.Pkts = append(s.Pkts, SentRTP{Header: h.Clone(), Payload: append([]byte(nil), payload...)})
	return h.MarshalSize() + len(payload), nil
}
