package hk

import (
	"fmt"

	"github.com/pion/logging"
)

// LogFactory is a logging.LoggerFactory whose loggers have every level enabled and format every message at
// once into Lines: what an interceptor logs is output derived from what it was given, and formatting a value
// reads it (an application that turned logging on sees exactly this).
type LogFactory struct{ Lines []string }

// NewLogger implements logging.LoggerFactory.
//
//go:norace
func (f *LogFactory) NewLogger(scope string) logging.LeveledLogger { return &recLogger{f, scope} }

type recLogger struct {
	f     *LogFactory
	scope string
}

//go:norace
func (l *recLogger) add(level, msg string) {
	l.f.Lines = append(l.f.Lines, l.scope+" "+level+": "+msg)
}

func (l *recLogger) Trace(msg string)               { l.add("TRACE", msg) }
func (l *recLogger) Tracef(format string, a ...any) { l.add("TRACE", fmt.Sprintf(format, a...)) }
func (l *recLogger) Debug(msg string)               { l.add("DEBUG", msg) }
func (l *recLogger) Debugf(format string, a ...any) { l.add("DEBUG", fmt.Sprintf(format, a...)) }
func (l *recLogger) Info(msg string)                { l.add("INFO", msg) }
func (l *recLogger) Infof(format string, a ...any)  { l.add("INFO", fmt.Sprintf(format, a...)) }
func (l *recLogger) Warn(msg string)                { l.add("WARN", msg) }
func (l *recLogger) Warnf(format string, a ...any)  { l.add("WARN", fmt.Sprintf(format, a...)) }
func (l *recLogger) Error(msg string)               { l.add("ERROR", msg) }
func (l *recLogger) Errorf(format string, a ...any) { l.add("ERROR", fmt.Sprintf(format, a...)) }
