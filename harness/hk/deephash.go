package hk

import (
	"math"
	"reflect"
	"sort"
	"strings"
	"time"
	"unsafe"
)

// DeepHash computes a canonical hash of the object graph reachable from the
// given roots, used to de-duplicate states in explicit-state search. It knows
// no field names of the code under test: it walks everything reflectively
// (unexported fields through unsafe), follows pointers with a visited table
// (so cyclic structures terminate and aliasing is part of the hash), hashes
// maps as sorted multisets, slices by length and contents, and skips what
// cannot influence future behaviour observably: function values, loggers and
// the scheduler shim's own bookkeeping (mutexes, wait groups), while queued
// channel values and sync.Map contents are included.
//
// The hash is deliberately over-fine (absolute sequence numbers and times):
// two states with equal hashes really have the same futures; the price of
// over-fineness is only time.
func DeepHash(roots ...any) uint64 {
	h := &hasher{seen: map[unsafe.Pointer]int{}}
	for _, r := range roots {
		h.value(reflect.ValueOf(r), 0)
	}
	return h.sum()
}

// DeepSize computes a deterministic retained-size measure (bytes) of the
// object graph reachable from the roots: pointer targets once, maps by
// len*(key+value size) plus contents, slices by cap*elem size plus contents
// of the first len elements, strings by length, channel models by queued
// elements; the free lists of pool models are not counted (a sync.Pool is a
// cache the collector empties). No GC, no MemStats: no noise and no threshold.
func DeepSize(roots ...any) int64 {
	h := &hasher{seen: map[unsafe.Pointer]int{}, sizing: true}
	for _, r := range roots {
		h.value(reflect.ValueOf(r), 0)
	}
	return h.size
}

type hasher struct {
	x      uint64
	seen   map[unsafe.Pointer]int
	sizing bool
	size   int64
}

func (h *hasher) mix(v uint64) {
	h.x ^= v + 0x9e3779b97f4a7c15 + (h.x << 6) + (h.x >> 2)
	h.x *= 0xff51afd7ed558ccd
	h.x ^= h.x >> 33
}

func (h *hasher) sum() uint64 { return h.x }

var timeType = reflect.TypeOf(time.Time{})

func skipType(t reflect.Type) (skip bool, special string) {
	p := t.PkgPath()
	switch {
	case strings.HasSuffix(p, "/vsched"):
		n := t.Name()
		switch {
		case strings.HasPrefix(n, "Chan["):
			return false, "chan"
		case n == "Map":
			return false, "map"
		case n == "Pool":
			return false, "pool"
		}
		return true, ""
	case p == "github.com/pion/logging", p == "log/slog", p == "log":
		return true, ""
	case p == "sync" || p == "sync/atomic":
		return true, ""
	case p == "bytes" && t.Name() == "Buffer":
		// an io.Writer the application handed to the interceptor (dump output): the application's memory
		return true, ""
	}
	return false, ""
}

func (h *hasher) value(v reflect.Value, depth int) {
	if !v.IsValid() {
		h.mix(0xdead)
		return
	}
	if depth > 50_000_000 {
		h.mix(0xdeed)
		return
	}
	t := v.Type()
	if t == timeType && (v.CanInterface() || v.CanAddr()) {
		var tt time.Time
		if v.CanInterface() {
			tt = v.Interface().(time.Time)
		} else {
			tt = reflect.NewAt(t, unsafe.Pointer(v.UnsafeAddr())).Elem().Interface().(time.Time)
		}
		if tt.IsZero() {
			h.mix(0x7a)
		} else {
			h.mix(uint64(tt.UnixNano()))
		}
		return
	}
	if skip, special := skipType(t); skip {
		return
	} else if special != "" && v.Kind() == reflect.Struct {
		h.special(v, special, depth)
		return
	}
	switch v.Kind() {
	case reflect.Bool:
		if v.Bool() {
			h.mix(1)
		} else {
			h.mix(2)
		}
	case reflect.Int, reflect.Int8, reflect.Int16, reflect.Int32, reflect.Int64:
		h.mix(uint64(v.Int()))
	case reflect.Uint, reflect.Uint8, reflect.Uint16, reflect.Uint32, reflect.Uint64, reflect.Uintptr:
		h.mix(v.Uint())
	case reflect.Float32, reflect.Float64:
		h.mix(math.Float64bits(v.Float()))
	case reflect.Complex64, reflect.Complex128:
		c := v.Complex()
		h.mix(math.Float64bits(real(c)))
		h.mix(math.Float64bits(imag(c)))
	case reflect.String:
		s := v.String()
		h.size += int64(len(s))
		h.mix(uint64(len(s)))
		for i := 0; i < len(s); i++ {
			h.mix(uint64(s[i]))
		}
	case reflect.Ptr:
		if v.IsNil() {
			h.mix(0x11)
			return
		}
		p := unsafe.Pointer(v.Pointer())
		if idx, ok := h.seen[p]; ok {
			h.mix(0x22)
			h.mix(uint64(idx))
			return
		}
		h.seen[p] = len(h.seen) + 1
		h.mix(0x33)
		h.size += int64(t.Elem().Size())
		h.value(v.Elem(), depth+1)
	case reflect.Interface:
		if v.IsNil() {
			h.mix(0x44)
			return
		}
		e := v.Elem()
		h.typeName(e.Type())
		h.value(e, depth+1)
	case reflect.Struct:
		for i := 0; i < v.NumField(); i++ {
			f := v.Field(i)
			if !f.CanInterface() && f.CanAddr() {
				f = reflect.NewAt(f.Type(), unsafe.Pointer(f.UnsafeAddr())).Elem()
			}
			h.value(f, depth+1)
		}
	case reflect.Array:
		for i := 0; i < v.Len(); i++ {
			h.value(v.Index(i), depth+1)
		}
	case reflect.Slice:
		if v.IsNil() {
			h.mix(0x55)
			return
		}
		h.mix(0x66)
		h.mix(uint64(v.Len()))
		if h.sizing {
			if v.Cap() > 0 {
				p := unsafe.Pointer(v.Slice(0, v.Cap()).Index(0).Addr().Pointer())
				if _, ok := h.seen[p]; !ok {
					h.seen[p] = len(h.seen) + 1
					h.size += int64(v.Cap()) * int64(t.Elem().Size())
				}
			}
		}
		if k := t.Elem().Kind(); k == reflect.Uint8 && v.Len() > 0 {
			// fast path for byte slices
			b := v.Bytes()
			for _, c := range b {
				h.mix(uint64(c))
			}
			return
		}
		for i := 0; i < v.Len(); i++ {
			h.value(v.Index(i), depth+1)
		}
	case reflect.Map:
		if v.IsNil() {
			h.mix(0x77)
			return
		}
		h.mix(0x88)
		h.mix(uint64(v.Len()))
		h.size += int64(v.Len()) * int64(t.Key().Size()+t.Elem().Size()+8)
		keys := v.MapKeys()
		sortKeys(keys)
		for _, k := range keys {
			h.value(k, depth+1)
			h.value(v.MapIndex(k), depth+1)
		}
	case reflect.Func:
		if v.IsNil() {
			h.mix(0x99)
		} else {
			h.mix(0xaa)
		}
	case reflect.Chan, reflect.UnsafePointer:
		// real channels do not occur in instrumented code
	}
}

func (h *hasher) typeName(t reflect.Type) {
	s := t.String()
	for i := 0; i < len(s); i++ {
		h.mix(uint64(s[i]))
	}
}

func field(v reflect.Value, name string) reflect.Value {
	f := v.FieldByName(name)
	if f.IsValid() && !f.CanInterface() && f.CanAddr() {
		f = reflect.NewAt(f.Type(), unsafe.Pointer(f.UnsafeAddr())).Elem()
	}
	return f
}

// special handles the vsched models whose contents are program state.
func (h *hasher) special(v reflect.Value, kind string, depth int) {
	switch kind {
	case "chan":
		if f := field(v, "closed"); f.IsValid() && f.Bool() {
			h.mix(0xc1)
		}
		if f := field(v, "buf"); f.IsValid() {
			h.mix(uint64(f.Len()))
			for i := 0; i < f.Len(); i++ {
				h.value(f.Index(i), depth+1)
				h.size += int64(f.Type().Elem().Size())
			}
		}
	case "map":
		ks, vs := field(v, "keys"), field(v, "vals")
		if !ks.IsValid() {
			return
		}
		// order-independent: sum of per-entry hashes (sync.Map has no order)
		var acc uint64
		for i := 0; i < ks.Len(); i++ {
			sub := &hasher{seen: h.seen, sizing: h.sizing}
			sub.value(ks.Index(i), depth+1)
			sub.value(vs.Index(i), depth+1)
			acc += sub.sum()*0x9e3779b97f4a7c15 + 1
			h.size += sub.size + 32
		}
		h.mix(uint64(ks.Len()))
		h.mix(acc)
	case "pool":
		// pooled objects are a cache the garbage collector may drop at any time: neither state nor retained memory
	}
}

func sortKeys(keys []reflect.Value) {
	if len(keys) < 2 {
		return
	}
	switch keys[0].Kind() {
	case reflect.Int, reflect.Int8, reflect.Int16, reflect.Int32, reflect.Int64:
		sort.Slice(keys, func(i, j int) bool { return keys[i].Int() < keys[j].Int() })
	case reflect.Uint, reflect.Uint8, reflect.Uint16, reflect.Uint32, reflect.Uint64, reflect.Uintptr:
		sort.Slice(keys, func(i, j int) bool { return keys[i].Uint() < keys[j].Uint() })
	case reflect.String:
		sort.Slice(keys, func(i, j int) bool { return keys[i].String() < keys[j].String() })
	default:
		// composite keys: order by their own deep hash
		hs := make([]uint64, len(keys))
		for i, k := range keys {
			hs[i] = DeepHash(k.Interface())
		}
		idx := make([]int, len(keys))
		for i := range idx {
			idx[i] = i
		}
		sort.Slice(idx, func(a, b int) bool { return hs[idx[a]] < hs[idx[b]] })
		out := make([]reflect.Value, len(keys))
		for i, j := range idx {
			out[i] = keys[j]
		}
		copy(keys, out)
	}
}
