package hk

import (
	"encoding/json"
	"fmt"
	"io"
	"os"
	"sort"
	"strings"
	"time"

	"github.com/pion/interceptor/vsched"
)

// Ctx is handed to the body of a schedule-exploration scenario.
type Ctx struct {
	key, msg string
	outcome  []string
}

// Fail records a property violation of class key for this execution (first one wins).
func (c *Ctx) Fail(key, format string, a ...any) {
	if c.key == "" {
		c.key = key
		c.msg = fmt.Sprintf(format, a...)
	}
}

// Failed reports whether the execution already failed.
func (c *Ctx) Failed() bool { return c.key != "" }

// Outcome adds a component to the observed outcome of the execution.
func (c *Ctx) Outcome(format string, a ...any) {
	c.outcome = append(c.outcome, fmt.Sprintf(format, a...))
}

// Scenario is a closed concurrent harness explored over all schedules up to a
// preemption bound.
type Scenario struct {
	ID       string // property id, prefix of violation keys
	Name     string
	MaxBound int
	Horizon  int // number of timer firings the explorer may schedule
	MaxSteps int
	// Body runs on managed thread 0: build the system, start application
	// threads with vsched.GoApp, Join them, evaluate the oracle through ctx.
	Body func(ctx *Ctx)
	// NoLeakCheck disables the "goroutines alive after the body" check (the body does it itself).
	NoLeakCheck bool
}

// E1Replay is the replay description of a schedule-exploration violation.
type E1Replay struct {
	Scenario string `json:"scenario"`
	Schedule []int  `json:"schedule"`
	Bound    int    `json:"deviation_bound"`
}

func (sc *Scenario) runOnce(s vsched.Strategy) (*vsched.Result, string, string, string) {
	ctx := &Ctx{}
	maxSteps := sc.MaxSteps
	if maxSteps == 0 {
		maxSteps = 100000
	}
	res := vsched.Run(vsched.Options{Strategy: s, Horizon: sc.Horizon, MaxSteps: maxSteps, TrackHB: true}, func() { sc.Body(ctx) })
	key, msg := ctx.key, ctx.msg
	switch {
	case len(res.Panics) > 0:
		p := res.Panics[0]
		key = sc.ID + ":panic:" + topFrame(p.Stack)
		msg = fmt.Sprintf("panic in goroutine %s: %s\n%s", p.Name, p.Value, p.Stack)
	case res.StepLimit:
		key = sc.ID + ":livelock"
		msg = "step budget exceeded: " + res.StepWhere
	case res.Deadlock:
		key = sc.ID + ":deadlock:" + blockedSummary(res.Blocked)
		msg = fmt.Sprintf("deadlock: the harness thread can never continue; blocked goroutines: %s", describeBlocked(res.Blocked))
	case res.Races > 0:
		rep := RaceReport()
		key = sc.ID + ":race:" + raceKey(rep)
		msg = "data race reported by the race detector on this schedule:\n" + rep
	case len(res.Failures) > 0 && key == "":
		key = sc.ID + ":harness"
		msg = res.Failures[0]
	}
	if key == "" && !sc.NoLeakCheck {
		var leaked []vsched.ThreadInfo
		for _, b := range res.Blocked {
			if !b.App {
				leaked = append(leaked, b)
			}
		}
		if len(leaked) > 0 {
			key = sc.ID + ":goroutine-leak:" + blockedSummary(leaked)
			msg = "goroutines started by the code under test still alive when the scenario ended: " + describeBlocked(leaked)
		}
	}
	out := strings.Join(ctx.outcome, "|")
	if key != "" {
		out = "VIOLATION:" + key
	}
	return res, out, key, msg
}

func describeBlocked(l []vsched.ThreadInfo) string {
	var s []string
	for _, b := range l {
		s = append(s, fmt.Sprintf("%s(#%d, %s)", b.Name, b.ID, b.Why))
	}
	return strings.Join(s, ", ")
}

func blockedSummary(l []vsched.ThreadInfo) string {
	var s []string
	for _, b := range l {
		if !b.App {
			s = append(s, b.Name+"/"+b.Why)
		}
	}
	if len(s) == 0 {
		for _, b := range l {
			s = append(s, b.Name+"/"+b.Why)
		}
	}
	sort.Strings(s)
	if len(s) > 3 {
		s = s[:3]
	}
	return strings.Join(s, ",")
}

func topFrame(stack string) string {
	for _, l := range strings.Split(stack, "\n") {
		l = strings.TrimSpace(l)
		if strings.HasPrefix(l, "github.com/pion/") && !strings.Contains(l, "/verifh/") {
			if i := strings.LastIndex(l, "("); i > 0 {
				l = l[:i]
			}
			return strings.TrimPrefix(l, "github.com/pion/interceptor/")
		}
	}
	return "?"
}

// Explore runs the scenario over all schedules within its bound and fills a job result.
func (sc *Scenario) Explore(deadline time.Time, r *JobResult) {
	st := vsched.Explore(vsched.ExploreConfig{MaxBound: sc.MaxBound, Deadline: deadline, Prune: os.Getenv("VERIF_NOPRUNE") == "", Run: sc.runOnce})
	r.Executions += int64(st.Executions)
	r.States += int64(st.States)
	r.Transitions += st.Points
	r.Nontrivial += int64(st.Executions)
	if r.Outcomes == nil {
		r.Outcomes = map[string]int{}
	}
	for k, v := range st.Outcomes {
		r.Outcomes[sc.Name+":"+k] += v
	}
	for _, v := range st.Violations {
		r.Violations = append(r.Violations, Violation{Key: v.Key, Message: sc.Name + ": " + v.Message,
			Replay: E1Replay{Scenario: sc.Name, Schedule: v.Schedule, Bound: sc.MaxBound}})
	}
	if r.Bounds == nil {
		r.Bounds = map[string]any{}
	}
	r.Bounds[sc.Name] = map[string]any{"schedules": st.Executions, "decisions": st.Points, "hb_states": st.States, "pruned": st.Pruned,
		"deviation_bound_completed": st.BoundDone, "all_interleavings": st.Unbounded, "horizon": sc.Horizon,
		"distinct_outcomes": len(st.Outcomes), "max_decisions": st.MaxDecisions, "first_schedule_decisions": st.FirstTrace}
	if st.TimedOut || !st.Complete {
		r.Exhaustive = false
		r.Notes = append(r.Notes, fmt.Sprintf("%s: deadline reached; deviation bound fully covered: %d", sc.Name, st.BoundDone))
	}
	if len(st.Outcomes) <= 1 && st.Executions > 4 && len(st.Violations) == 0 {
		r.Notes = append(r.Notes, fmt.Sprintf("%s: VACUITY WARNING: %d schedules, one outcome", sc.Name, st.Executions))
	}
	if len(r.Samples) < 2 {
		r.Samples = append(r.Samples, map[string]any{"scenario": sc.Name, "schedules": st.Executions, "outcomes": firstKeys(st.Outcomes, 6)})
	}
}

func firstKeys(m map[string]int, n int) []string {
	var l []string
	for k := range m {
		l = append(l, k)
	}
	sort.Strings(l)
	if len(l) > n {
		l = l[:n]
	}
	return l
}

// ReplaySchedule re-executes one recorded schedule of the scenario.
func (sc *Scenario) ReplaySchedule(schedule []int) string {
	rp := &vsched.Replay{Prefix: schedule}
	_, _, key, msg := sc.runOnce(rp)
	if rp.Diverged != "" {
		return "UNREPRODUCIBLE: " + rp.Diverged
	}
	if key != "" {
		return key + ": " + msg
	}
	return ""
}

// ReplayE1 finds the scenario named in a replay description and re-executes it.
func ReplayE1(raw json.RawMessage, scenarios []*Scenario) string {
	var rp E1Replay
	if err := json.Unmarshal(raw, &rp); err != nil {
		return "bad replay: " + err.Error()
	}
	for _, sc := range scenarios {
		if sc.Name == rp.Scenario {
			return sc.ReplaySchedule(rp.Schedule)
		}
	}
	return "unknown scenario " + rp.Scenario
}

var raceLogOff int64

// RaceReport returns the race detector output produced since the last call.
// Workers run with GORACE=log_path=$VERIF_RACE_LOG, so reports are in $VERIF_RACE_LOG.<pid>.
func RaceReport() string {
	base := os.Getenv("VERIF_RACE_LOG")
	if base == "" {
		return "(race log not captured)"
	}
	f, err := os.Open(fmt.Sprintf("%s.%d", base, os.Getpid()))
	if err != nil {
		return "(race log unreadable: " + err.Error() + ")"
	}
	defer f.Close()
	if fi, err := f.Stat(); err == nil && raceLogOff > fi.Size() {
		raceLogOff = 0
	}
	// only what this execution appended (reports are not de-duplicated by the detector: the log grows with
	// every schedule on which a race is reported)
	if _, err := f.Seek(raceLogOff, io.SeekStart); err != nil {
		return "(race log unreadable: " + err.Error() + ")"
	}
	b, err := io.ReadAll(f)
	if err != nil {
		return "(race log unreadable: " + err.Error() + ")"
	}
	raceLogOff += int64(len(b))
	s := string(b)
	// keep the first report, trimmed
	if i := strings.Index(s, "WARNING: DATA RACE"); i >= 0 {
		s = s[i:]
	}
	if i := strings.Index(s[1:], "WARNING: DATA RACE"); i >= 0 {
		s = s[:i+1]
	}
	lines := strings.Split(s, "\n")
	var out []string
	for _, l := range lines {
		if strings.Contains(l, "/vsched.") || strings.Contains(l, "/vsched/") {
			continue
		}
		out = append(out, l)
		if len(out) > 60 {
			break
		}
	}
	return strings.Join(out, "\n")
}

// raceKey names a race by the innermost repository frames of its two accesses.
func raceKey(rep string) string {
	var fr []string
	sections := strings.Split(rep, "\n\n")
	for _, sec := range sections {
		t := strings.TrimSpace(sec)
		if !(strings.HasPrefix(t, "WARNING") || strings.HasPrefix(t, "Read at") || strings.HasPrefix(t, "Write at") ||
			strings.HasPrefix(t, "Previous read at") || strings.HasPrefix(t, "Previous write at")) {
			continue
		}
		for _, l := range strings.Split(sec, "\n") {
			l = strings.TrimSpace(l)
			if strings.HasPrefix(l, "github.com/pion/") {
				if i := strings.LastIndex(l, "("); i > 0 {
					l = l[:i]
				}
				l = strings.TrimPrefix(l, "github.com/pion/interceptor/")
				// closures are numbered by the compiler; keep the enclosing function
				if i := strings.Index(l, ".func"); i > 0 {
					l = l[:i]
				}
				fr = append(fr, l)
				break
			}
		}
	}
	sort.Strings(fr)
	if len(fr) == 0 {
		return "?"
	}
	return strings.Join(fr, "|")
}
