package hk

import (
	"fmt"
	"io"

	"github.com/pion/interceptor"
	"github.com/pion/interceptor/vsched"
	"github.com/pion/rtcp"
	"github.com/pion/rtp"
)

// ErrInjected is the sentinel error injected into the mock transport.
// It wraps io.ErrClosedPipe, what a closed transport returns: code that singles that error out is exercised too.
var ErrInjected = fmt.Errorf("verif: injected transport error: %w", io.ErrClosedPipe)

// RTPRec is one packet that reached the innermost RTP writer (deep copy at call time).
type RTPRec struct {
	Stream  int
	Header  rtp.Header
	Payload []byte
	Thread  int
	App     bool  // written on an application thread (false: on a goroutine the code under test started)
	At      int64 // virtual time
	Seq     int   // global order of arrival at the transport
}

// RTCPRec is one batch that reached the innermost RTCP writer.
type RTCPRec struct {
	Pkts   []rtcp.Packet
	Raw    [][]byte // each packet marshalled at call time
	Thread int
	App    bool
	At     int64
	Seq    int
}

// Transport is the mock network below the interceptor(s): it records what
// reaches it and can be told to fail. All recording methods are //go:norace
// so that the harness's own bookkeeping neither reports nor hides races.
type Transport struct {
	RTP          []RTPRec
	RTCP         []RTCPRec
	seq          int
	FailRTPWrite int  // fail the n-th next RTP write (1 = next); 0 = never
	FailAllRTP   bool // every RTP write fails
	Attempts     int  // RTP writes that reached the transport, failed ones included
	FailRTCP     bool
	FailRTCPOnce int
	// AllRTCP is every RTCP packet (wire bytes) that ever reached the transport; Take* does not clear it.
	AllRTCP [][]byte
}

type rtpSink struct {
	t      *Transport
	stream int
}

//go:norace
func (s *rtpSink) Write(h *rtp.Header, payload []byte, _ interceptor.Attributes) (int, error) {
	// a write to the transport is an observable event: other threads may run before it (a lock released just
	// before the write, for instance, may let a Close complete first)
	vsched.Yield()
	t := s.t
	t.Attempts++
	if t.FailAllRTP {
		return 0, ErrInjected
	}
	if t.FailRTPWrite > 0 {
		t.FailRTPWrite--
		if t.FailRTPWrite == 0 {
			return 0, ErrInjected
		}
	}
	t.seq++
	t.RTP = append(t.RTP, RTPRec{Stream: s.stream, Header: h.Clone(), Payload: append([]byte(nil), payload...),
		Thread: vsched.CurrentID(), App: vsched.CurrentIsApp(), At: vsched.NowNanos(), Seq: t.seq})
	return h.MarshalSize() + len(payload), nil
}

type rtcpSink struct{ t *Transport }

//go:norace
func (s *rtcpSink) Write(pkts []rtcp.Packet, _ interceptor.Attributes) (int, error) {
	vsched.Yield() // an observable event, see rtpSink.Write
	t := s.t
	if t.FailRTCP {
		return 0, ErrInjected
	}
	if t.FailRTCPOnce > 0 {
		t.FailRTCPOnce--
		if t.FailRTCPOnce == 0 {
			return 0, ErrInjected
		}
	}
	t.seq++
	rec := RTCPRec{Thread: vsched.CurrentID(), App: vsched.CurrentIsApp(), At: vsched.NowNanos(), Seq: t.seq}
	n := 0
	for _, p := range pkts {
		rec.Pkts = append(rec.Pkts, p)
		b, err := p.Marshal()
		if err != nil {
			b = nil
		}
		rec.Raw = append(rec.Raw, b)
		t.AllRTCP = append(t.AllRTCP, b)
		n += len(b)
	}
	t.RTCP = append(t.RTCP, rec)
	return n, nil
}

// feed is a mock innermost reader returning the bytes queued by the harness.
type feed struct {
	next    []byte
	fail    bool
	scratch bool // leave the previous packet's bytes beyond n in the caller's buffer (always true: we only write n bytes)
}

//go:norace
func (f *feed) read(b []byte) (int, error) {
	if f.fail {
		// a read that fails after it has delivered bytes (io.Reader allows n > 0 together with an error, e.g. a
		// truncated datagram): the bytes are in the buffer, the call failed
		f.fail = false
		n := copy(b, f.next)
		return n, ErrInjected
	}
	if len(f.next) > len(b) {
		return 0, fmt.Errorf("verif: buffer too short")
	}
	n := 0
	for i := 0; i < len(f.next); i++ {
		b[i] = f.next[i]
		n++
	}
	return n, nil
}

// rtpFeed serves the innermost reads of one remote stream. Concurrent readers
// of the same stream each register their next packet in their own slot.
type rtpFeed struct {
	feed
	slots [8]struct {
		tid  int
		next []byte
		used bool
	}
}

//go:norace
func (f *rtpFeed) Read(b []byte, a interceptor.Attributes) (int, interceptor.Attributes, error) {
	tid := vsched.CurrentID()
	for i := range f.slots {
		if f.slots[i].used && f.slots[i].tid == tid {
			raw := f.slots[i].next
			if len(raw) > len(b) {
				return 0, nil, fmt.Errorf("verif: buffer too short")
			}
			for j := 0; j < len(raw); j++ {
				b[j] = raw[j]
			}
			return len(raw), a, nil
		}
	}
	n, err := f.read(b)
	if err != nil {
		// the bytes delivered by a failing read stay visible to the chain (n > 0 together with the error)
		return n, nil, err
	}
	return n, a, nil
}

// ReadRTPConcurrent is ReadRTP for several threads reading the same stream at
// once: each calling thread uses its own buffer and its own feed slot.
//
//go:norace
func (r *Remote) ReadRTPConcurrent(slot int, raw []byte, buf []byte) (int, interceptor.Attributes, error) {
	r.feed.slots[slot].tid = vsched.CurrentID()
	r.feed.slots[slot].next = raw
	r.feed.slots[slot].used = true
	return r.R.Read(buf, interceptor.Attributes{})
}

type rtcpFeedT struct{ feed }

//go:norace
func (f *rtcpFeedT) Read(b []byte, a interceptor.Attributes) (int, interceptor.Attributes, error) {
	n, err := f.read(b)
	if err != nil {
		// the bytes delivered by a failing read stay visible to the chain (n > 0 together with the error)
		return n, nil, err
	}
	return n, a, nil
}

// Local is a bound local stream.
type Local struct {
	K    int
	Info *interceptor.StreamInfo
	W    interceptor.RTPWriter
}

// Remote is a bound remote stream.
type Remote struct {
	K    int
	Info *interceptor.StreamInfo
	R    interceptor.RTPReader
	feed *rtpFeed
	Buf  []byte
}

// Session binds an interceptor (or chain) to the mock transport.
type Session struct {
	I       interceptor.Interceptor
	X       *Extra
	T       *Transport
	RTCPW   interceptor.RTCPWriter
	RTCPR   interceptor.RTCPReader
	rtcpIn  *rtcpFeedT
	RTCPBuf []byte
	Locals  map[int]*Local
	Remotes map[int]*Remote
}

// NewSession wraps an interceptor; nothing is bound yet.
func NewSession(i interceptor.Interceptor, x *Extra) *Session {
	if i == nil {
		i = &interceptor.NoOp{}
	}
	if x == nil {
		x = &Extra{}
	}
	return &Session{I: i, X: x, T: &Transport{}, Locals: map[int]*Local{}, Remotes: map[int]*Remote{}, RTCPBuf: make([]byte, 1500)}
}

// BindRTCPWriter binds the transport's RTCP writer.
func (s *Session) BindRTCPWriter() { s.RTCPW = s.I.BindRTCPWriter(&rtcpSink{s.T}) }

// BindRTCPReader binds an RTCP reader fed by FeedRTCP.
func (s *Session) BindRTCPReader() {
	s.rtcpIn = &rtcpFeedT{}
	s.RTCPR = s.I.BindRTCPReader(s.rtcpIn)
}

// NewRTCPReader binds an additional, independent RTCP read loop.
func (s *Session) NewRTCPReader() (interceptor.RTCPReader, func([]byte)) {
	f := &rtcpFeedT{}
	r := s.I.BindRTCPReader(f)
	return r, func(b []byte) { f.next = b }
}

// BindLocal binds local stream k.
func (s *Session) BindLocal(k int, negotiated bool) *Local {
	l := &Local{K: k, Info: StreamInfo(true, k, negotiated)}
	l.W = s.I.BindLocalStream(l.Info, &rtpSink{s.T, k})
	s.Locals[k] = l
	return l
}

// BindRemote binds remote stream k.
func (s *Session) BindRemote(k int, negotiated bool) *Remote {
	r := &Remote{K: k, Info: StreamInfo(false, k, negotiated), feed: &rtpFeed{}, Buf: make([]byte, 1500)}
	r.R = s.I.BindRemoteStream(r.Info, r.feed)
	s.Remotes[k] = r
	return r
}

// NewLocal binds local stream k without registering it in the session (safe to
// call from a thread racing other users of the session).
func (s *Session) NewLocal(k int, negotiated bool) *Local {
	l := &Local{K: k, Info: StreamInfo(true, k, negotiated)}
	l.W = s.I.BindLocalStream(l.Info, &rtpSink{s.T, k})
	return l
}

// NewRemote binds remote stream k without registering it in the session.
func (s *Session) NewRemote(k int, negotiated bool) *Remote {
	r := &Remote{K: k, Info: StreamInfo(false, k, negotiated), feed: &rtpFeed{}, Buf: make([]byte, 1500)}
	r.R = s.I.BindRemoteStream(r.Info, r.feed)
	return r
}

// SinkFor returns the transport's RTP writer for stream k (for components that take writers directly).
func (s *Session) SinkFor(k int) interceptor.RTPWriter { return &rtpSink{s.T, k} }

// BindAll binds RTCP writer and reader, local streams 1 (negotiated) and 2 (plain), remote streams 1 and 2.
func (s *Session) BindAll() {
	s.BindRTCPWriter()
	s.BindRTCPReader()
	s.BindLocal(1, true)
	s.BindLocal(2, false)
	s.BindRemote(1, true)
	s.BindRemote(2, false)
}

// ReadRTP delivers raw as the next incoming packet of remote stream k.
func (r *Remote) ReadRTP(raw []byte) (int, interceptor.Attributes, error) {
	r.feed.next = raw
	return r.R.Read(r.Buf, interceptor.Attributes{})
}

// FailNextRead makes the next innermost read of the stream fail.
func (r *Remote) FailNextRead() { r.feed.fail = true }

// ReadRTCP delivers raw as the next incoming RTCP compound packet.
func (s *Session) ReadRTCP(raw []byte) (int, interceptor.Attributes, error) {
	s.rtcpIn.next = raw
	return s.RTCPR.Read(s.RTCPBuf, interceptor.Attributes{})
}

// FailNextRTCPRead makes the next innermost RTCP read fail.
func (s *Session) FailNextRTCPRead() { s.rtcpIn.fail = true }

// SeqNow returns the number of batches/packets that have reached the transport so far.
//
//go:norace
func (t *Transport) SeqNow() int { return t.seq }

// TakeRTP returns and clears the RTP packets recorded at the transport.
//
//go:norace
func (t *Transport) TakeRTP() []RTPRec {
	r := t.RTP
	t.RTP = nil
	return r
}

// TakeRTCP returns and clears the RTCP batches recorded at the transport.
//
//go:norace
func (t *Transport) TakeRTCP() []RTCPRec {
	r := t.RTCP
	t.RTCP = nil
	return r
}

// Shape builds the application packet of a given header shape for stream ssrc:
// 0 plain 100 B; 1 marker + 2 CSRC, empty payload; 2 15 CSRC, 1460 B; 3 one-byte
// extension (other id present), 1 B; 4 two-byte extension profile, 1459 B; 5 PaddingSize 4, 7 B.
func Shape(shape int, ssrc uint32, seq uint16, ts uint32) (rtp.Header, []byte) {
	h := rtp.Header{Version: 2, PayloadType: 96, SequenceNumber: seq, Timestamp: ts, SSRC: ssrc}
	var n int
	switch shape {
	case 0:
		n = 100
	case 1:
		h.Marker = true
		h.CSRC = []uint32{0x11111111, 0x22222222}
		n = 0
	case 2:
		for i := 0; i < 15; i++ {
			h.CSRC = append(h.CSRC, uint32(0x100+i))
		}
		n = 1460
	case 3:
		h.Extension, h.ExtensionProfile = true, 0xBEDE
		_ = h.SetExtension(1, []byte{'m', 'i', 'd'})
		n = 1
	case 4:
		h.Extension, h.ExtensionProfile = true, 0x1000
		_ = h.SetExtension(1, []byte{'m'})
		_ = h.SetExtension(20, []byte{1, 2, 3, 4, 5})
		n = 1459
	case 5:
		h.Padding, h.PaddingSize = true, 4
		n = 7
	}
	p := make([]byte, n)
	for i := range p {
		p[i] = byte(int(seq) + i*7 + shape)
	}
	return h, p
}

// MarshalRTP serialises header+payload (+padding) to wire bytes.
func MarshalRTP(h rtp.Header, payload []byte) []byte {
	p := rtp.Packet{Header: h, Payload: payload}
	b, err := p.Marshal()
	if err != nil {
		panic(err)
	}
	return b
}
