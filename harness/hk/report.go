// Package hk is the harness kit: job distribution, search drivers, reflective
// state hashing, packet shapes and mocks shared by the per-property harnesses.
package hk

import (
	"encoding/json"
	"fmt"
	"os"
	"os/exec"
	"sort"
	"strconv"
	"sync"
	"time"
)

// Violation is one failing case with everything needed to replay it.
type Violation struct {
	Key     string `json:"key"`     // class of the failure (matched against known findings)
	Message string `json:"message"` // observed vs expected
	Replay  any    `json:"replay"`  // harness-specific replay description (job, history/schedule)
}

// JobResult is what one job (one shard of a check) reports.
type JobResult struct {
	Job         int            `json:"job"`
	Name        string         `json:"name"`
	States      int64          `json:"states"`
	Transitions int64          `json:"transitions"`
	Executions  int64          `json:"executions"`
	Nontrivial  int64          `json:"nontrivial"`
	Outcomes    map[string]int `json:"outcomes,omitempty"` // observed outcome classes (bounded)
	Violations  []Violation    `json:"violations,omitempty"`
	Samples     []any          `json:"samples,omitempty"`
	Exhaustive  bool           `json:"exhaustive"`
	Bounds      map[string]any `json:"bounds,omitempty"`
	Notes       []string       `json:"notes,omitempty"`
	Error       string         `json:"error,omitempty"` // infrastructure failure (not a violation)
	WallS       float64        `json:"wall_s"`
}

// Report is the merged result of a check, printed by the harness binary and
// post-processed by the verif CLI (known findings, evidence, exit code).
type Report struct {
	Property    string         `json:"property"`
	Tier        string         `json:"tier"`
	Seed        int64          `json:"seed"`
	Jobs        int            `json:"jobs"`
	States      int64          `json:"states"`
	Transitions int64          `json:"transitions"`
	Executions  int64          `json:"executions"`
	Nontrivial  int64          `json:"nontrivial"`
	Outcomes    int            `json:"distinct_outcomes"`
	Violations  []Violation    `json:"violations"`
	Samples     []any          `json:"samples"`
	Exhaustive  bool           `json:"exhaustive"`
	Bounds      map[string]any `json:"bounds"`
	Rule        string         `json:"rule"`
	Assumptions []string       `json:"assumptions"`
	Notes       []string       `json:"notes"`
	Errors      []string       `json:"errors"`
	Race        bool           `json:"race_build"`
	WallS       float64        `json:"wall_s"`
}

// Check describes a property harness.
type Check struct {
	ID          string
	Rule        string
	Assumptions []string
	// Jobs returns the number of independent jobs for a tier and a name for each.
	Jobs func(tier string) []string
	// Run executes job i.
	Run func(tier string, i int, deadline time.Time) *JobResult
	// Replay re-executes a violation's replay description and returns the message observed ("" = passes).
	Replay func(replay json.RawMessage) string
	Bounds func(tier string) map[string]any
}

var registry = map[string]*Check{}

// Register adds a check.
func Register(c *Check) { registry[c.ID] = c }

// Lookup finds a check.
func Lookup(id string) *Check { return registry[id] }

// IDs lists registered checks.
func IDs() []string {
	var l []string
	for k := range registry {
		l = append(l, k)
	}
	sort.Strings(l)
	return l
}

// Deadline returns the wall-clock deadline from VERIF_DEADLINE (unix seconds), zero if none.
func Deadline() time.Time {
	if v := os.Getenv("VERIF_DEADLINE"); v != "" {
		if n, err := strconv.ParseInt(v, 10, 64); err == nil {
			return time.Unix(n, 0)
		}
	}
	return time.Time{}
}

// RunJobProcess is the entry point of a worker process: run one job, print its JSON.
func RunJobProcess(id, tier string, job int) int {
	c := Lookup(id)
	if c == nil {
		fmt.Fprintln(os.Stderr, "unknown check", id)
		return 2
	}
	start := time.Now()
	r := c.Run(tier, job, Deadline())
	r.Job = job
	r.WallS = time.Since(start).Seconds()
	enc := json.NewEncoder(os.Stdout)
	if err := enc.Encode(r); err != nil {
		fmt.Fprintln(os.Stderr, err)
		return 2
	}
	return 0
}

// RunCheck runs all jobs of a check in worker subprocesses and merges them.
func RunCheck(id, tier string, workers int, seed int64, race bool) *Report {
	c := Lookup(id)
	rep := &Report{Property: id, Tier: tier, Seed: seed, Exhaustive: true, Race: race}
	if c == nil {
		rep.Errors = append(rep.Errors, "unknown check "+id)
		rep.Exhaustive = false
		return rep
	}
	rep.Rule = c.Rule
	rep.Assumptions = c.Assumptions
	if c.Bounds != nil {
		rep.Bounds = c.Bounds(tier)
	}
	names := c.Jobs(tier)
	rep.Jobs = len(names)
	start := time.Now()
	order := make([]int, len(names))
	for i := range order {
		order[i] = i
	}
	if seed != 0 {
		// the seed only permutes the order in which shards are started
		x := uint64(seed)
		for i := len(order) - 1; i > 0; i-- {
			x = x*6364136223846793005 + 1442695040888963407
			j := int((x >> 33) % uint64(i+1))
			order[i], order[j] = order[j], order[i]
		}
	}
	results := make([]*JobResult, len(names))
	var mu sync.Mutex
	next := 0
	stop := false
	failFast := os.Getenv("VERIF_FAILFAST") == "1"
	var wg sync.WaitGroup
	for w := 0; w < workers; w++ {
		wg.Add(1)
		go func() {
			defer wg.Done()
			for {
				mu.Lock()
				if next >= len(order) || stop {
					mu.Unlock()
					return
				}
				i := order[next]
				next++
				mu.Unlock()
				r := runWorker(id, tier, i, names[i])
				results[i] = r
				if failFast && r != nil && len(r.Violations) > 0 {
					// mutation sweeps only: no further shards are started once one reported a violation
					mu.Lock()
					stop = true
					mu.Unlock()
				}
			}
		}()
	}
	wg.Wait()
	outcomes := map[string]bool{}
	for _, r := range results {
		if r == nil {
			continue
		}
		rep.States += r.States
		rep.Transitions += r.Transitions
		rep.Executions += r.Executions
		rep.Nontrivial += r.Nontrivial
		for o := range r.Outcomes {
			outcomes[o] = true
		}
		rep.Violations = append(rep.Violations, r.Violations...)
		if len(rep.Samples) < 6 && len(r.Samples) > 0 {
			rep.Samples = append(rep.Samples, r.Samples[0])
		}
		if !r.Exhaustive {
			rep.Exhaustive = false
		}
		for _, n := range r.Notes {
			if len(rep.Notes) < 40 {
				rep.Notes = append(rep.Notes, r.Name+": "+n)
			}
		}
		if r.Error != "" {
			rep.Errors = append(rep.Errors, r.Name+": "+r.Error)
			rep.Exhaustive = false
		}
	}
	if stop {
		rep.Exhaustive = false
		rep.Notes = append(rep.Notes, "VERIF_FAILFAST: stopped starting shards after the first violation")
	}
	rep.Outcomes = len(outcomes)
	rep.WallS = time.Since(start).Seconds()
	return rep
}

func runWorker(id, tier string, i int, name string) *JobResult {
	cmd := exec.Command(os.Args[0], "job", id, tier, strconv.Itoa(i))
	logDir, _ := os.MkdirTemp("", "verif-race-")
	defer os.RemoveAll(logDir)
	cmd.Env = append(os.Environ(), "GOMAXPROCS=2", "GORACE=halt_on_error=0 exitcode=0 suppress_equal_stacks=0 suppress_equal_addresses=0 log_path="+logDir+"/race", "VERIF_RACE_LOG="+logDir+"/race")
	var stderr limitedBuf
	cmd.Stderr = &stderr
	out, err := cmd.Output()
	r := &JobResult{Job: i, Name: name}
	if err != nil {
		r.Error = fmt.Sprintf("worker failed: %v; stderr: %s", err, stderr.String())
		return r
	}
	if jerr := json.Unmarshal(out, r); jerr != nil {
		r.Error = fmt.Sprintf("worker output not JSON: %v; stdout: %.300s; stderr: %s", jerr, out, stderr.String())
		return r
	}
	r.Name = name
	if len(r.Violations) > 0 && stderr.Len() > 0 {
		r.Notes = append(r.Notes, "stderr: "+stderr.String())
	}
	return r
}

type limitedBuf struct{ b []byte }

func (l *limitedBuf) Write(p []byte) (int, error) {
	if len(l.b) < 8000 {
		n := 8000 - len(l.b)
		if n > len(p) {
			n = len(p)
		}
		l.b = append(l.b, p[:n]...)
	}
	return len(p), nil
}
func (l *limitedBuf) String() string { return string(l.b) }
func (l *limitedBuf) Len() int       { return len(l.b) }
