package hk

import (
	"encoding/binary"

	"github.com/pion/rtcp"
)

func mustMarshal(pkts ...rtcp.Packet) []byte {
	b, err := rtcp.Marshal(pkts)
	if err != nil {
		panic(err)
	}
	return b
}

// RawSR is a sender report from ssrc.
func RawSR(ssrc uint32, ntp uint64, rtpTime uint32) []byte {
	return mustMarshal(&rtcp.SenderReport{SSRC: ssrc, NTPTime: ntp, RTPTime: rtpTime, PacketCount: 10, OctetCount: 1000})
}

// RawRR is a receiver report about media ssrc.
func RawRR(sender, media uint32, lastSeq uint32, lsr, dlsr uint32) []byte {
	return mustMarshal(&rtcp.ReceiverReport{SSRC: sender, Reports: []rtcp.ReceptionReport{{SSRC: media, LastSequenceNumber: lastSeq,
		FractionLost: 10, TotalLost: 3, Jitter: 7, LastSenderReport: lsr, Delay: dlsr}}})
}

// RawNACK is a generic NACK for the given numbers of media (one FCI entry per number).
func RawNACK(media uint32, seqs ...uint16) []byte {
	n := &rtcp.TransportLayerNack{SenderSSRC: 0x99, MediaSSRC: media}
	for _, q := range seqs {
		n.Nacks = append(n.Nacks, rtcp.NackPair{PacketID: q})
	}
	return mustMarshal(n)
}

// RawNACKPair is a generic NACK with one FCI entry: pid and the bitmask of the 16 numbers that follow it.
func RawNACKPair(media uint32, pid, blp uint16) []byte {
	return mustMarshal(&rtcp.TransportLayerNack{SenderSSRC: 0x99, MediaSSRC: media, Nacks: []rtcp.NackPair{{PacketID: pid, LostPackets: rtcp.PacketBitmap(blp)}}})
}

// RawPLI is a picture loss indication for media.
func RawPLI(media uint32) []byte {
	return mustMarshal(&rtcp.PictureLossIndication{SenderSSRC: 0x99, MediaSSRC: media})
}

// BuildTWCC serialises a transport-cc feedback packet by hand
// (draft-holmer-rmcat-transport-wide-cc-extensions-01 section 3.1): the chunk
// words and delta bytes are written exactly as given, then padded to 32 bits.
func BuildTWCC(sender, media uint32, base, count uint16, refTime uint32, fbCount uint8, chunks []uint16, deltas []byte) []byte {
	b := make([]byte, 20, 20+2*len(chunks)+len(deltas)+4)
	b[0] = 0x80 | 15
	b[1] = 205
	binary.BigEndian.PutUint32(b[4:], sender)
	binary.BigEndian.PutUint32(b[8:], media)
	binary.BigEndian.PutUint16(b[12:], base)
	binary.BigEndian.PutUint16(b[14:], count)
	b[16], b[17], b[18] = byte(refTime>>16), byte(refTime>>8), byte(refTime)
	b[19] = fbCount
	for _, c := range chunks {
		b = append(b, byte(c>>8), byte(c))
	}
	b = append(b, deltas...)
	if pad := (4 - len(b)%4) % 4; pad > 0 {
		for i := 0; i < pad-1; i++ {
			b = append(b, 0)
		}
		b = append(b, byte(pad))
		b[0] |= 0x20
	}
	binary.BigEndian.PutUint16(b[2:], uint16(len(b)/4-1))
	return b
}

// RawTWCC is a well-formed transport-cc feedback: count packets from base, all received with 1 ms (small) deltas.
func RawTWCC(media uint32, base uint16, count int, fbCount uint8) []byte {
	deltas := make([]byte, count)
	for i := range deltas {
		deltas[i] = 4 // 4 x 250 us
	}
	return BuildTWCC(0x99, media, base, uint16(count), 1, fbCount, []uint16{0x2000 | uint16(count)}, deltas)
}

// RawCCFB is a well-formed RFC 8888 report: count packets from begin, all received.
func RawCCFB(media uint32, begin uint16, count int, ts uint32) []byte {
	r := &rtcp.CCFeedbackReport{SenderSSRC: 0x99, ReportTimestamp: ts}
	blk := rtcp.CCFeedbackReportBlock{MediaSSRC: media, BeginSequence: begin}
	for i := 0; i < count; i++ {
		blk.MetricBlocks = append(blk.MetricBlocks, rtcp.CCFeedbackMetricBlock{Received: true, ArrivalTimeOffset: uint16(10 + i)})
	}
	r.ReportBlocks = []rtcp.CCFeedbackReportBlock{blk}
	b, err := r.Marshal()
	if err != nil {
		panic(err)
	}
	return b
}

// NamedSSRCs lists the media/source SSRCs an RTCP packet (one packet, wire
// bytes) reports about, decoded by hand: SR (own SSRC and report blocks), RR
// (report blocks), generic NACK / transport-cc / PLI / FIR (media SSRC or FCI
// SSRC), RFC 8888 CCFB (every report block).
func NamedSSRCs(raw []byte) []uint32 {
	if len(raw) < 8 {
		return nil
	}
	fmtOrCount := int(raw[0] & 0x1f)
	pt := raw[1]
	u32 := func(off int) uint32 {
		if off+4 > len(raw) {
			return 0
		}
		return binary.BigEndian.Uint32(raw[off:])
	}
	var out []uint32
	switch pt {
	case 200: // SR
		out = append(out, u32(4))
		for i := 0; i < fmtOrCount; i++ {
			out = append(out, u32(28+24*i))
		}
	case 201: // RR
		for i := 0; i < fmtOrCount; i++ {
			out = append(out, u32(8+24*i))
		}
	case 205: // RTPFB
		switch fmtOrCount {
		case 11: // CCFB
			end := len(raw) - 4
			off := 8
			for off+8 <= end {
				out = append(out, u32(off))
				n := int(binary.BigEndian.Uint16(raw[off+6:]))
				off += 8 + 2*n
				if n%2 == 1 {
					off += 2
				}
			}
		default:
			out = append(out, u32(8))
		}
	case 206: // PSFB
		if fmtOrCount == 4 { // FIR: SSRC in the FCI
			for off := 12; off+8 <= len(raw); off += 8 {
				out = append(out, u32(off))
			}
		} else {
			out = append(out, u32(8))
		}
	}
	return out
}

// RawXRDLRR is an extended report from sender carrying one DLRR sub-block addressed to ssrc.
func RawXRDLRR(sender, ssrc, lastRR, dlrr uint32) []byte {
	return mustMarshal(&rtcp.ExtendedReport{SenderSSRC: sender, Reports: []rtcp.ReportBlock{
		&rtcp.DLRRReportBlock{Reports: []rtcp.DLRRReport{{SSRC: ssrc, LastRR: lastRR, DLRR: dlrr}}}}})
}
