package hk

import (
	"fmt"
	"time"
)

// Step is the result of executing one history on a fresh instance.
type Step struct {
	Key        uint64 // canonical state key after the history (0 = do not de-duplicate)
	Outcome    string // observation class of the last transition (for distinct-outcome counting)
	Violation  *Violation
	Nontrivial bool
	Dead       bool // the state has no future worth exploring (e.g. closed)
}

// Search is explicit-state search over operation sequences whose transition
// function is the real code: a state is the history that reaches it; the
// successor of h under op a is obtained by replaying h+[a] on a fresh instance.
type Search struct {
	Alphabet int
	Depth    int
	Exec     func(hist []int) Step
	Dedup    bool
	Deadline time.Time
	// SampleEvery keeps the i-th explored history as an evidence sample.
	Describe func(hist []int) any
	// MaxViolations stops collecting after this many distinct keys (default 8).
	MaxViolations int
	// Allowed restricts the successor symbols of a history (nil = all).
	Allowed func(hist []int) []int
	// Prefix, if set, shards the search: only histories that start with it are
	// explored (the prefix itself is explored by the shard with the empty prefix...
	// callers enumerate all first symbols as shards, so together they cover everything).
	Prefix []int
}

// SearchStats summarises a search.
type SearchStats struct {
	States      int64
	Transitions int64
	Executions  int64
	Nontrivial  int64
	Outcomes    map[string]int
	Violations  []Violation
	Samples     []any
	Exhaustive  bool
	DepthDone   int
}

// Run performs breadth-first search to the configured depth.
func (s *Search) Run() *SearchStats {
	st := &SearchStats{Outcomes: map[string]int{}, Exhaustive: true}
	if s.MaxViolations == 0 {
		s.MaxViolations = 8
	}
	seen := map[uint64]struct{}{}
	vkeys := map[string]bool{}
	frontier := [][]int{{}}
	st.States = 1
	start := 1
	if len(s.Prefix) > 0 {
		// the prefix history is executed (and judged) as a history of its own first
		r := s.Exec(s.Prefix)
		st.Executions++
		st.Transitions++
		if r.Nontrivial {
			st.Nontrivial++
		}
		st.Outcomes[r.Outcome]++
		if r.Violation != nil {
			st.Violations = append(st.Violations, *r.Violation)
			return st
		}
		if r.Dead {
			return st
		}
		if r.Key != 0 {
			seen[r.Key] = struct{}{}
		}
		frontier = [][]int{append([]int(nil), s.Prefix...)}
		start = len(s.Prefix) + 1
	}
	for depth := start; depth <= s.Depth; depth++ {
		var next [][]int
		for _, h := range frontier {
			syms := allSyms(s.Alphabet)
			if s.Allowed != nil {
				syms = s.Allowed(h)
			}
			for _, a := range syms {
				if !s.Deadline.IsZero() && st.Executions%64 == 0 && time.Now().After(s.Deadline) {
					st.Exhaustive = false
					return st
				}
				nh := make([]int, len(h)+1)
				copy(nh, h)
				nh[len(h)] = a
				r := s.Exec(nh)
				st.Executions++
				st.Transitions++
				if r.Nontrivial {
					st.Nontrivial++
				}
				if len(st.Outcomes) < 4096 || st.Outcomes[r.Outcome] > 0 {
					st.Outcomes[r.Outcome]++
				}
				if s.Describe != nil && (st.Executions == 1 || st.Executions == 1000 || st.Executions == 100000) && len(st.Samples) < 3 {
					st.Samples = append(st.Samples, s.Describe(nh))
				}
				if r.Violation != nil {
					if !vkeys[r.Violation.Key] && len(vkeys) < s.MaxViolations {
						vkeys[r.Violation.Key] = true
						st.Violations = append(st.Violations, *r.Violation)
					}
					// a violating state is not extended: its futures are not meaningful
					continue
				}
				if r.Dead {
					continue
				}
				if s.Dedup && r.Key != 0 {
					if _, ok := seen[r.Key]; ok {
						continue
					}
					seen[r.Key] = struct{}{}
				}
				st.States++
				if depth < s.Depth {
					next = append(next, nh)
				}
			}
		}
		st.DepthDone = depth
		frontier = next
		if len(frontier) == 0 {
			break
		}
	}
	return st
}

func allSyms(n int) []int {
	l := make([]int, n)
	for i := range l {
		l[i] = i
	}
	return l
}

// Fill copies search statistics into a job result.
func (st *SearchStats) Fill(r *JobResult) {
	r.States += st.States
	r.Transitions += st.Transitions
	r.Executions += st.Executions
	r.Nontrivial += st.Nontrivial
	if r.Outcomes == nil {
		r.Outcomes = map[string]int{}
	}
	for k, v := range st.Outcomes {
		if len(r.Outcomes) < 4096 || r.Outcomes[k] > 0 {
			r.Outcomes[k] += v
		}
	}
	r.Violations = append(r.Violations, st.Violations...)
	if len(r.Samples) < 3 {
		r.Samples = append(r.Samples, st.Samples...)
	}
	if !st.Exhaustive {
		r.Exhaustive = false
		r.Notes = append(r.Notes, fmt.Sprintf("deadline reached; depth fully covered: %d", st.DepthDone-1))
	}
}
