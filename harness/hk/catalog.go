package hk

import (
	"bytes"
	"fmt"
	"time"

	"github.com/pion/interceptor"
	"github.com/pion/interceptor/pkg/cc"
	"github.com/pion/interceptor/pkg/flexfec"
	"github.com/pion/interceptor/pkg/gcc"
	"github.com/pion/interceptor/pkg/intervalpli"
	"github.com/pion/interceptor/pkg/jitterbuffer"
	"github.com/pion/interceptor/pkg/nack"
	"github.com/pion/interceptor/pkg/pacing"
	"github.com/pion/interceptor/pkg/packetdump"
	"github.com/pion/interceptor/pkg/report"
	"github.com/pion/interceptor/pkg/rfc8888"
	"github.com/pion/interceptor/pkg/rtpfb"
	"github.com/pion/interceptor/pkg/stats"
	"github.com/pion/interceptor/pkg/twcc"
	"github.com/pion/interceptor/vsched"
	"github.com/pion/rtp"
)

// TransportCCURI is the header extension URI of transport-wide congestion control.
const TransportCCURI = "http://www.ietf.org/id/draft-holmer-rmcat-transport-wide-cc-extensions-01"

// dumpFilter selects the packets a dump keeps by their contents ("key frames only" style): everything whose
// payload does not start with the byte a scribbling caller writes, and whose timestamp is not the scribbled one.
func dumpFilter(p *rtp.Packet) bool {
	return (len(p.Payload) == 0 || p.Payload[0] != 0xEE) && p.Timestamp != 0xEEEEEEEE
}

// TwccExtID is the header extension id negotiated for transport-cc on negotiated streams.
const TwccExtID = 5

// ReportInterval is the timer interval every periodic interceptor is configured with (or has by default scaled to).
const ReportInterval = 100 * time.Millisecond

// Extra carries the side channels of an interceptor instance.
type Extra struct {
	DumpRTP, DumpRTCP *bytes.Buffer
	Stats             stats.Getter
	BWE               *gcc.SendSideBWE
	Pacing            *pacing.InterceptorFactory
	PacingID          string
	Interval          time.Duration // period of the interceptor's own timer (0 = none)
	Log               *LogFactory   // set when the variant turns logging on
}

// Kind describes one interceptor factory of the library.
type Kind struct {
	Name      string
	Buffering bool // delays or re-times application packets: excluded from pass-through checks
	Variants  int  // number of option settings New understands (>=1)
	New       func(variant int) (interceptor.Interceptor, *Extra, error)
}

func mk(f interceptor.Factory, err error, x *Extra) (interceptor.Interceptor, *Extra, error) {
	if err != nil {
		return nil, nil, err
	}
	i, err := f.NewInterceptor("pc")
	if x == nil {
		x = &Extra{}
	}
	return i, x, err
}

// Kinds lists every interceptor of the library. All constructors must be
// called inside vsched.Run (several start goroutines on construction).
func Kinds() []*Kind {
	return []*Kind{
		{Name: "nack-generator", Variants: 3, New: func(v int) (interceptor.Interceptor, *Extra, error) {
			opts := []nack.GeneratorOption{nack.GeneratorInterval(ReportInterval), nack.GeneratorSize(64)}
			switch v {
			case 1:
				opts = append(opts, nack.GeneratorSkipLastN(1), nack.GeneratorMaxNacksPerPacket(1))
			case 2:
				opts = append(opts, nack.GeneratorSize(128), nack.GeneratorSkipLastN(2))
			}
			f, err := nack.NewGeneratorInterceptor(opts...)
			return mk(f, err, &Extra{Interval: ReportInterval})
		}},
		{Name: "nack-responder", Variants: 3, New: func(v int) (interceptor.Interceptor, *Extra, error) {
			opts := []nack.ResponderOption{nack.ResponderSize(8)}
			switch v {
			case 1:
				opts = []nack.ResponderOption{nack.ResponderSize(1)}
			case 2:
				opts = append(opts, nack.DisableCopy())
			}
			f, err := nack.NewResponderInterceptor(opts...)
			return mk(f, err, nil)
		}},
		{Name: "receiver-report", Variants: 1, New: func(v int) (interceptor.Interceptor, *Extra, error) {
			f, err := report.NewReceiverInterceptor(report.ReceiverInterval(ReportInterval), report.ReceiverNow(vsched.Now))
			return mk(f, err, &Extra{Interval: ReportInterval})
		}},
		{Name: "sender-report", Variants: 2, New: func(v int) (interceptor.Interceptor, *Extra, error) {
			opts := []report.SenderOption{report.SenderInterval(ReportInterval), report.SenderNow(vsched.Now)}
			if v == 1 {
				opts = append(opts, report.SenderUseLatestPacket())
			}
			f, err := report.NewSenderInterceptor(opts...)
			return mk(f, err, &Extra{Interval: ReportInterval})
		}},
		{Name: "twcc-sender", Variants: 2, New: func(v int) (interceptor.Interceptor, *Extra, error) {
			x := &Extra{Interval: ReportInterval}
			opts := []twcc.Option{twcc.SendInterval(ReportInterval)}
			if v == 1 {
				// logging turned on (every level): what is logged is part of what the interceptor emits
				x.Log = &LogFactory{}
				opts = append(opts, twcc.WithLoggerFactory(x.Log))
			}
			f, err := twcc.NewSenderInterceptor(opts...)
			return mk(f, err, x)
		}},
		{Name: "twcc-header-extension", Variants: 1, New: func(v int) (interceptor.Interceptor, *Extra, error) {
			f, err := twcc.NewHeaderExtensionInterceptor()
			return mk(f, err, nil)
		}},
		{Name: "rfc8888", Variants: 1, New: func(v int) (interceptor.Interceptor, *Extra, error) {
			f, err := rfc8888.NewSenderInterceptor(rfc8888.SendInterval(ReportInterval), rfc8888.SenderNow(vsched.Now))
			return mk(f, err, &Extra{Interval: ReportInterval})
		}},
		{Name: "rtpfb", Variants: 1, New: func(v int) (interceptor.Interceptor, *Extra, error) {
			f, err := rtpfb.NewInterceptor()
			return mk(f, err, nil)
		}},
		{Name: "stats", Variants: 1, New: func(v int) (interceptor.Interceptor, *Extra, error) {
			f, err := stats.NewInterceptor(stats.SetNowFunc(vsched.Now))
			if err != nil {
				return nil, nil, err
			}
			x := &Extra{}
			f.OnNewPeerConnection(func(_ string, g stats.Getter) { x.Stats = g })
			return mk(f, nil, x)
		}},
		{Name: "packetdump-receiver", Variants: 3, New: func(v int) (interceptor.Interceptor, *Extra, error) {
			x := &Extra{DumpRTP: &bytes.Buffer{}, DumpRTCP: &bytes.Buffer{}}
			if v == 0 {
				// both dumps go to one writer that is not safe for concurrent use (the default is os.Stdout for both)
				x.DumpRTCP = x.DumpRTP
			}
			opts := []packetdump.PacketDumperOption{packetdump.RTPWriter(x.DumpRTP), packetdump.RTCPWriter(x.DumpRTCP)}
			if v == 1 {
				opts = append(opts, packetdump.RTPBinaryFormatter(dumpBinary))
			}
			if v == 2 {
				// default text format with a filter that looks at the packet's contents
				opts = append(opts, packetdump.RTPFilter(dumpFilter))
			}
			f, err := packetdump.NewReceiverInterceptor(opts...)
			return mk(f, err, x)
		}},
		{Name: "packetdump-sender", Variants: 3, New: func(v int) (interceptor.Interceptor, *Extra, error) {
			x := &Extra{DumpRTP: &bytes.Buffer{}, DumpRTCP: &bytes.Buffer{}}
			if v == 0 {
				// both dumps go to one writer that is not safe for concurrent use (the default is os.Stdout for both)
				x.DumpRTCP = x.DumpRTP
			}
			opts := []packetdump.PacketDumperOption{packetdump.RTPWriter(x.DumpRTP), packetdump.RTCPWriter(x.DumpRTCP)}
			if v == 1 {
				opts = append(opts, packetdump.RTPBinaryFormatter(dumpBinary))
			}
			if v == 2 {
				// default text format with a filter that looks at the packet's contents
				opts = append(opts, packetdump.RTPFilter(dumpFilter))
			}
			f, err := packetdump.NewSenderInterceptor(opts...)
			return mk(f, err, x)
		}},
		{Name: "intervalpli", Variants: 1, New: func(v int) (interceptor.Interceptor, *Extra, error) {
			f, err := intervalpli.NewReceiverInterceptor(intervalpli.GeneratorInterval(ReportInterval))
			return mk(f, err, &Extra{Interval: ReportInterval})
		}},
		{Name: "flexfec", Variants: 3, New: func(v int) (interceptor.Interceptor, *Extra, error) {
			k, n := uint32(2), uint32(1)
			switch v {
			case 1:
				k, n = 1, 1
			case 2:
				k, n = 3, 2 // a batch completes within three writes
			}
			f, err := flexfec.NewFecInterceptor(flexfec.NumMediaPackets(k), flexfec.NumFECPackets(n))
			return mk(f, err, nil)
		}},
		{Name: "cc-gcc-noop-pacer", Variants: 1, New: func(v int) (interceptor.Interceptor, *Extra, error) {
			x := &Extra{}
			f, err := cc.NewInterceptor(func() (cc.BandwidthEstimator, error) {
				b, err := gcc.NewSendSideBWE(gcc.SendSideBWEPacer(gcc.NewNoOpPacer()))
				x.BWE = b
				return b, err
			})
			return mk(f, err, x)
		}},
		{Name: "cc-gcc-leaky-bucket", Buffering: true, Variants: 1, New: func(v int) (interceptor.Interceptor, *Extra, error) {
			x := &Extra{Interval: 5 * time.Millisecond}
			f, err := cc.NewInterceptor(func() (cc.BandwidthEstimator, error) {
				// the rate stays above what the workloads offer (at most two packets of 112 bytes per
				// millisecond): a pacer that is offered more than it may send queues without bound by design
				b, err := gcc.NewSendSideBWE(gcc.SendSideBWEInitialBitrate(4_000_000), gcc.SendSideBWEMinBitrate(3_000_000))
				x.BWE = b
				return b, err
			})
			return mk(f, err, x)
		}},
		{Name: "pacing", Buffering: true, Variants: 1, New: func(v int) (interceptor.Interceptor, *Extra, error) {
			f := pacing.NewInterceptor(pacing.InitialRate(4_000_000), pacing.Interval(5*time.Millisecond))
			x := &Extra{Pacing: f, PacingID: "pc", Interval: 5 * time.Millisecond}
			return mk(f, nil, x)
		}},
		{Name: "jitterbuffer", Buffering: true, Variants: 1, New: func(v int) (interceptor.Interceptor, *Extra, error) {
			f, err := jitterbuffer.NewInterceptor()
			return mk(f, err, nil)
		}},
	}
}

// dumpBinary is a binary dump format that writes the whole packet (header, CSRCs, extensions, payload).
func dumpBinary(pkt *rtp.Packet, _ interceptor.Attributes) ([]byte, error) {
	b, err := pkt.Marshal()
	if err != nil {
		return nil, err
	}
	return append([]byte{byte(len(b) >> 8), byte(len(b))}, b...), nil
}

// chainKind is the chain of all pass-through interceptors (default variants) in catalog order.
func chainKind() *Kind {
	return &Kind{Name: "chain", Variants: 1, New: func(int) (interceptor.Interceptor, *Extra, error) {
		var members []interceptor.Interceptor
		x := &Extra{Interval: ReportInterval}
		for _, k := range Kinds() {
			if k.Buffering {
				continue
			}
			m, mx, err := k.New(0)
			if err != nil {
				return nil, nil, err
			}
			if mx.Stats != nil {
				x.Stats = mx.Stats
			}
			if mx.BWE != nil {
				x.BWE = mx.BWE
			}
			members = append(members, m)
		}
		return interceptor.NewChain(members), x, nil
	}}
}

// KindByName finds a kind ("chain" = the chain of all pass-through interceptors).
func KindByName(name string) *Kind {
	if name == "chain" {
		return chainKind()
	}
	for _, k := range Kinds() {
		if k.Name == name {
			return k
		}
	}
	panic(fmt.Sprintf("unknown interceptor kind %q", name))
}

// StreamInfo builds the description of stream k. Negotiated streams have NACK,
// PLI, transport-cc (extension id 5), RTX and FEC; others have nothing.
func StreamInfo(local bool, k int, negotiated bool) *interceptor.StreamInfo {
	base := uint32(0x2000)
	if local {
		base = 0x1000
	}
	info := &interceptor.StreamInfo{ID: fmt.Sprintf("s%d", k), SSRC: base + uint32(k), PayloadType: 96, ClockRate: 90000, MimeType: "video/VP8"}
	if negotiated {
		info.RTCPFeedback = []interceptor.RTCPFeedback{{Type: "nack"}, {Type: "nack", Parameter: "pli"}, {Type: "transport-cc"}, {Type: "ccfb"}}
		info.RTPHeaderExtensions = []interceptor.RTPHeaderExtension{{URI: "urn:ietf:params:rtp-hdrext:sdes:mid", ID: 1}, {URI: TransportCCURI, ID: TwccExtID}}
		info.SSRCRetransmission = info.SSRC + 0x100
		info.PayloadTypeRetransmission = 97
		info.SSRCForwardErrorCorrection = info.SSRC + 0x200
		info.PayloadTypeForwardErrorCorrection = 98
	}
	return info
}
