// Package dbg holds throw-away diagnostics (not part of any check).
package dbg

import (
	"fmt"

	"github.com/pion/interceptor/pkg/rtpfb"
	"github.com/pion/interceptor/verifh/hk"
	"github.com/pion/interceptor/vsched"
)

// Run executes the diagnostic named by arg.
func Run(arg string) {
	res := vsched.Run(vsched.Options{Strategy: vsched.BackgroundFirst{}}, func() {
		k := hk.KindByName("rtpfb")
		i, x, err := k.New(0)
		fmt.Println("new", err)
		s := hk.NewSession(i, x)
		s.BindRTCPWriter()
		s.BindRTCPReader()
		l1 := s.BindLocal(1, true)
		for q := uint16(100); q < 102; q++ {
			h, p := hk.Shape(0, l1.Info.SSRC, q, uint32(q)*3000)
			fmt.Println("setext", h.SetExtension(hk.TwccExtID, []byte{0, byte(q)}))
			n, err := l1.W.Write(&h, p, nil)
			fmt.Println("write", n, err)
		}
		raw := hk.RawTWCC(l1.Info.SSRC, 100, 3, 1)
		n, attr, err := s.ReadRTCP(raw)
		fmt.Println("read", n, err, len(raw))
		if attr != nil {
			fmt.Printf("report: %+v\n", attr.Get(rtpfb.CCFBAttributesKey))
		}
	})
	fmt.Printf("%+v\n", *res)
}
