package c19

import (
	"encoding/json"
	"time"

	"github.com/pion/interceptor/verifh/hk"
	"github.com/pion/interceptor/vsched"
	"github.com/pion/rtcp"
)

// rscen: concurrent traffic through one stats interceptor; counters are commutative, so whatever the
// interleaving the totals must equal the recount of what passed.
type rscen struct {
	Threads []string `json:"threads"`
	Bound   int      `json:"deviation_bound"`
}

func (c rscen) name() string { b, _ := json.Marshal(c); return string(b) }

func rbody(c rscen, ctx *hk.Ctx) {
	i, x, err := hk.KindByName("stats").New(0)
	if err != nil {
		ctx.Fail("C19:setup", "%v", err)
		return
	}
	s := hk.NewSession(i, x)
	s.BindRTCPWriter()
	s.BindRTCPReader()
	l1 := s.BindLocal(1, true)
	r1 := s.BindRemote(1, true)
	var lb, lc *hk.Local
	for _, name := range c.Threads {
		if name == "rtcp-in-bc" {
			lb, lc = s.BindLocal(2, true), s.BindLocal(3, true)
		}
	}
	vsched.Quiesce()
	sent, recv, nackIn, pliOut := 0, 0, 0, 0
	var ths []*vsched.Thread
	for slot, name := range c.Threads {
		slot := slot
		switch name {
		case "w":
			sent += 2
			ths = append(ths, vsched.GoApp("w", func() {
				for n := 0; n < 2; n++ {
					h, p := hk.Shape(0, l1.Info.SSRC, uint16(10*slot+n+1), 1)
					_, _ = l1.W.Write(&h, p, nil)
				}
			}))
		case "r":
			recv += 2
			ths = append(ths, vsched.GoApp("r", func() {
				buf := make([]byte, 1500)
				for n := 0; n < 2; n++ {
					h, p := hk.Shape(0, r1.Info.SSRC, uint16(10*slot+n+1), 1)
					_, _, _ = r1.ReadRTPConcurrent(slot, hk.MarshalRTP(h, p), buf)
				}
			}))
		case "rtcp-in":
			nackIn++
			rd, set := s.NewRTCPReader()
			ths = append(ths, vsched.GoApp("rtcp-in", func() {
				// a compound whose first part is addressed to another stream, then a NACK for the local stream
				set(append(hk.RawNACK(0x7777, 5), hk.RawNACK(l1.Info.SSRC, 1)...))
				buf := make([]byte, 1500)
				_, _, _ = rd.Read(buf, nil)
			}))
		case "rtcp-out-sr":
			pliOut++
			ths = append(ths, vsched.GoApp("rtcp-out-sr", func() {
				// an outgoing compound with a sender report and a receiver reference time (both are remembered
				// by the recorder for round-trip computations) and a PLI
				_, _ = s.RTCPW.Write([]rtcp.Packet{
					&rtcp.SenderReport{SSRC: l1.Info.SSRC, NTPTime: 0xe000000000000000, RTPTime: 1, PacketCount: 1, OctetCount: 1},
					&rtcp.ExtendedReport{SenderSSRC: l1.Info.SSRC, Reports: []rtcp.ReportBlock{&rtcp.ReceiverReferenceTimeReportBlock{NTPTimestamp: 0xe000000000000000}}},
					&rtcp.PictureLossIndication{SenderSSRC: 1, MediaSSRC: r1.Info.SSRC},
				}, nil)
			}))
		case "rtcp-in-rr":
			rd, set := s.NewRTCPReader()
			ths = append(ths, vsched.GoApp("rtcp-in-rr", func() {
				// a receiver report and a DLRR: the recorder looks up the remembered sender reports / reference times
				set(append(hk.RawRR(0x99, l1.Info.SSRC, 1, 0xe0000000>>0, 1), hk.RawXRDLRR(r1.Info.SSRC, r1.Info.SSRC, 0xe0000000, 1)...))
				buf := make([]byte, 1500)
				_, _, _ = rd.Read(buf, nil)
			}))
		case "rtcp-in-bc":
			// two more local streams B and C are bound; one compound carries a NACK for each of them
			rd, set := s.NewRTCPReader()
			ths = append(ths, vsched.GoApp("rtcp-in-bc", func() {
				set(append(hk.RawNACK(lb.Info.SSRC, 1), hk.RawNACK(lc.Info.SSRC, 1)...))
				buf := make([]byte, 1500)
				_, _, _ = rd.Read(buf, nil)
			}))
		case "unbind-l1":
			ths = append(ths, vsched.GoApp("unbind-l1", func() { s.I.UnbindLocalStream(l1.Info) }))
		case "rtcp-out":
			pliOut++
			ths = append(ths, vsched.GoApp("rtcp-out", func() {
				_, _ = s.RTCPW.Write([]rtcp.Packet{&rtcp.PictureLossIndication{SenderSSRC: 1, MediaSSRC: r1.Info.SSRC}}, nil)
			}))
		}
	}
	for _, t := range ths {
		t.Join()
	}
	vsched.Quiesce()
	if lb != nil {
		// the streams that stay bound while another one is unbound: each saw exactly one NACK
		for _, l := range []*hk.Local{lb, lc} {
			st := x.Stats.Get(l.Info.SSRC)
			if st == nil {
				ctx.Fail("C19:get-nil-for-bound-stream", "Get returned nil for a bound stream")
				return
			}
			if st.OutboundRTPStreamStats.NACKCount != 1 {
				ctx.Fail("C19:concurrent:nack-count-wrong-while-another-stream-is-unbound", "stream %#x: NACKCount = %d after one compound with one NACK for it (another stream was unbound meanwhile)", l.Info.SSRC, st.OutboundRTPStreamStats.NACKCount)
				return
			}
		}
		_ = i.Close()
		ctx.Outcome("ok-bc")
		return
	}
	lo := x.Stats.Get(l1.Info.SSRC)
	ri := x.Stats.Get(r1.Info.SSRC)
	if lo == nil || ri == nil {
		ctx.Fail("C19:get-nil-for-bound-stream", "Get returned nil for a bound stream")
		return
	}
	if int(lo.OutboundRTPStreamStats.PacketsSent) != sent {
		ctx.Fail("C19:concurrent:packets-sent-lost-update", "PacketsSent = %d, %d packets were written", lo.OutboundRTPStreamStats.PacketsSent, sent)
		return
	}
	if int(lo.OutboundRTPStreamStats.NACKCount) != nackIn {
		ctx.Fail("C19:concurrent:nack-count-lost-update", "outbound NACKCount = %d, %d NACKs addressed to the stream were read", lo.OutboundRTPStreamStats.NACKCount, nackIn)
		return
	}
	if int(ri.InboundRTPStreamStats.PacketsReceived) != recv {
		ctx.Fail("C19:concurrent:packets-received-lost-update", "PacketsReceived = %d, %d packets were read", ri.InboundRTPStreamStats.PacketsReceived, recv)
		return
	}
	if int(ri.InboundRTPStreamStats.PLICount) != pliOut {
		ctx.Fail("C19:concurrent:pli-count-lost-update", "inbound PLICount = %d, %d PLIs for the stream were written", ri.InboundRTPStreamStats.PLICount, pliOut)
		return
	}
	_ = i.Close()
	ctx.Outcome("ok")
}

func rscenarios(tier string) []rscen {
	b := 3
	if tier == "thorough" {
		b = 4
	}
	return []rscen{
		{[]string{"w", "rtcp-in"}, b},
		{[]string{"w", "w", "rtcp-in"}, b},
		{[]string{"r", "rtcp-out"}, b},
		{[]string{"r", "rtcp-in", "rtcp-out"}, b},
		{[]string{"w", "r", "rtcp-in"}, b},
		{[]string{"w", "rtcp-out"}, b},
		{[]string{"w", "rtcp-out-sr", "rtcp-in-rr"}, b},
		{[]string{"r", "rtcp-out-sr", "rtcp-in-rr"}, b},
		{[]string{"rtcp-in-bc", "unbind-l1"}, b},
	}
}

func rscenario(c rscen) *hk.Scenario {
	return &hk.Scenario{ID: "C19", Name: c.name(), MaxBound: c.Bound, MaxSteps: 400000, Body: func(ctx *hk.Ctx) { rbody(c, ctx) }}
}

func init() {
	hk.Register(&hk.Check{
		ID:          "C19R",
		Rule:        "E1 schedule exploration (-race): writers, readers, an RTCP read loop (compound: NACK for another stream, then NACK for the bound stream) and an RTCP writer run concurrently through one stats interceptor; the counters are commutative, so on every schedule PacketsSent, PacketsReceived, NACKCount and PLICount must equal the recount of what passed (no lost update); every schedule is non-trivial",
		Assumptions: []string{"vsched model and race annotations (litmus suite)"},
		Jobs: func(tier string) []string {
			var n []string
			for _, c := range rscenarios(tier) {
				n = append(n, c.name())
			}
			return n
		},
		Run: func(tier string, i int, deadline time.Time) *hk.JobResult {
			r := &hk.JobResult{Exhaustive: true}
			rscenario(rscenarios(tier)[i]).Explore(deadline, r)
			return r
		},
		Replay: func(raw json.RawMessage) string {
			var rp hk.E1Replay
			if err := json.Unmarshal(raw, &rp); err != nil {
				return "bad replay"
			}
			var c rscen
			if err := json.Unmarshal([]byte(rp.Scenario), &c); err != nil {
				return "bad scenario"
			}
			return rscenario(c).ReplaySchedule(rp.Schedule)
		},
		Bounds: func(tier string) map[string]any { return map[string]any{"scenarios": len(rscenarios(tier))} },
	})
}
