package c19

import (
	"fmt"
	"math"

	"github.com/pion/interceptor/verifh/hk"
)

// The reference model: a recount per SSRC, written from the property
// statement. True (unwrapped, possibly negative) 64-bit sequence numbers,
// integer nanoseconds, nothing modulo anything.

const ntpEpochOffset = 2208988800 // seconds between 1900-01-01 and 1970-01-01

// toNTP converts Unix nanoseconds to a 64-bit NTP timestamp (32.32 fixed point), exactly (floor).
func toNTP(unixNs int64) uint64 {
	sec := unixNs / 1e9
	ns := unixNs % 1e9
	if ns < 0 {
		ns += 1e9
		sec--
	}
	frac := (uint64(ns) << 32) / 1e9
	return uint64(sec+ntpEpochOffset)<<32 | frac
}

// fromNTP converts a 64-bit NTP timestamp to Unix nanoseconds (floor).
func fromNTP(t uint64) int64 {
	sec := int64(t>>32) - ntpEpochOffset
	frac := t & 0xFFFFFFFF
	return sec*1e9 + int64((frac*1e9)>>32)
}

// mid32 is the middle 32 bits of an NTP timestamp (the LSR / LRR format).
func mid32(t uint64) uint32 { return uint32(t >> 16) }

// q16ToNs converts a 16.16 fixed-point number of seconds (DLSR / DLRR) to nanoseconds (floor).
func q16ToNs(d uint32) int64 { return int64((uint64(d) * 1e9) >> 16) }

// streamModel is the recount for one SSRC.
type streamModel struct {
	clockRate float64

	// packets received for this SSRC
	inN, inBytes, inHdr uint64
	inStarted           bool
	inFirst, inMax      int64 // true sequence numbers of the first packet / the highest seen
	// feedback we sent about this SSRC (outgoing RTCP addressed to it)
	inNack, inPli, inFir uint32

	// packets sent for this SSRC
	outN, outBytes, outHdr uint64
	outStarted             bool
	outFirst16             uint16 // sequence number of the first packet sent
	// feedback received about this SSRC (incoming RTCP addressed to it)
	outNack, outPli, outFir uint32

	// remote-inbound figures: from the most recent incoming reception report block about this SSRC
	riSeen    bool
	riRecvOK  bool // packets received is determined (a packet had been sent and the formula is non-negative)
	riRecv    uint64
	riLost    int64
	riJitter  uint32 // raw, RTP units
	riFL      uint8
	riRTT     int64 // ns, last measurement
	riTotal   int64
	riN       uint64
	srSentNTP []uint64 // NTP timestamps of sender reports sent by this SSRC, oldest first

	// remote-outbound figures: from the most recent incoming sender report sent by this SSRC
	roPkts, roBytes uint64
	roTS            int64 // Unix ns of the SR's NTP timestamp
	roReports       uint64
	roRTT           int64
	roTotal         int64
	roN             uint64
}

// model is the reference state of the whole system plus the generator state of the harness.
type model struct {
	st   [2]streamModel
	rrtr []uint64 // NTP timestamps of receiver reference time reports sent, oldest first

	// generator state (not part of the reference, but part of the state key)
	genH       [2][3]int64 // [dir][ssrc index] highest true sequence number generated
	genFirst   [2][3]int64
	genStarted [2][3]bool
	srInCount  int64
	// classification only: a variant of the recount that reproduces one known defect mechanism
	variant int
	frozen  [2]bool
	scratch streamModel

	genBelowZero [2]bool // an inbound packet of that SSRC had a true sequence number below zero (older than the first, first < distance)
}

func newModel() *model {
	m := &model{}
	m.st[0].clockRate = clockRates[0]
	m.st[1].clockRate = clockRates[1]
	return m
}

// reception report block contents (an input chosen by the harness).
type rrBlock struct {
	fl     uint8
	lost   uint32
	ext    uint32
	jitter uint32
	lsr    uint32
	dlsr   uint32
}

func (s *streamModel) recvRTP(v int64, size, hdr int) {
	s.inN++
	s.inBytes += uint64(size)
	s.inHdr += uint64(hdr)
	if !s.inStarted {
		s.inStarted, s.inFirst, s.inMax = true, v, v
	}
	if v > s.inMax {
		s.inMax = v
	}
}

// lost is expected-minus-received over the unwrapped sequence range (RFC 3550 A.3).
func (s *streamModel) lost() int64 {
	if !s.inStarted {
		return 0
	}
	return (s.inMax - s.inFirst + 1) - int64(s.inN)
}

func (s *streamModel) sendRTP(seq uint16, size, hdr int) {
	s.outN++
	s.outBytes += uint64(size)
	s.outHdr += uint64(hdr)
	if !s.outStarted {
		s.outStarted, s.outFirst16 = true, seq
	}
}

// receptionReport applies an incoming reception report block about this SSRC that arrived at nowNs.
func (s *streamModel) receptionReport(b rrBlock, nowNs int64) {
	s.riSeen = true
	s.riLost = int64(b.lost)
	s.riJitter = b.jitter
	s.riFL = b.fl
	// packets received by the remote end = extended highest - first sent + 1 - cumulative lost
	s.riRecvOK = false
	if s.outStarted {
		if r := int64(b.ext) - int64(s.outFirst16) + 1 - int64(b.lost); r >= 0 {
			s.riRecvOK, s.riRecv = true, uint64(r)
		}
	}
	// RFC 3550 6.4.1: RTT = A - LSR - DLSR, valid only if the block echoes a sender report of ours
	if b.lsr != 0 && b.dlsr != 0 {
		for i := len(s.srSentNTP) - 1; i >= 0; i-- {
			if mid32(s.srSentNTP[i]) == b.lsr {
				s.riRTT = nowNs - q16ToNs(b.dlsr) - fromNTP(s.srSentNTP[i])
				s.riTotal += s.riRTT
				s.riN++
				break
			}
		}
	}
}

// senderReport applies an incoming sender report sent by this SSRC.
func (s *streamModel) senderReport(ntp uint64, pkts, octets uint32) {
	s.roPkts, s.roBytes = uint64(pkts), uint64(octets)
	s.roTS = fromNTP(ntp)
	s.roReports++
}

// dlrr applies an incoming DLRR sub-block addressed to this SSRC (RFC 3611 4.5): RTT = A - LRR - DLRR.
func (s *streamModel) dlrr(lrr, dlrr uint32, rrtrSent []uint64, nowNs int64, perDuplicate bool) {
	if lrr == 0 || dlrr == 0 {
		return
	}
	for i := len(rrtrSent) - 1; i >= 0; i-- {
		if mid32(rrtrSent[i]) == lrr {
			s.roRTT = nowNs - q16ToNs(dlrr) - fromNTP(rrtrSent[i])
			s.roTotal += s.roRTT
			s.roN++
			if !perDuplicate {
				return
			}
		}
	}
}

// refHash hashes the reference part of one stream (used for the state key and to detect "the op was recorded").
func (s *streamModel) groups() [6]uint64 {
	b2i := func(b bool) int64 {
		if b {
			return 1
		}
		return 0
	}
	var g [6]uint64
	g[0] = hk.HashInts(int64(s.inN), int64(s.inBytes), int64(s.inHdr), b2i(s.inStarted), s.inFirst, s.inMax)
	g[1] = hk.HashInts(int64(s.outN), int64(s.outBytes), int64(s.outHdr), b2i(s.outStarted), int64(s.outFirst16))
	g[2] = hk.HashInts(int64(s.inNack), int64(s.inPli), int64(s.inFir))
	g[3] = hk.HashInts(int64(s.outNack), int64(s.outPli), int64(s.outFir))
	ri := []int64{b2i(s.riSeen), b2i(s.riRecvOK), int64(s.riRecv), s.riLost, int64(s.riJitter), int64(s.riFL), s.riRTT, s.riTotal, int64(s.riN)}
	for _, t := range s.srSentNTP {
		ri = append(ri, int64(t))
	}
	g[4] = hk.HashInts(ri...)
	g[5] = hk.HashInts(int64(s.roPkts), int64(s.roBytes), s.roTS, int64(s.roReports), s.roRTT, s.roTotal, int64(s.roN))
	return g
}

func (m *model) hash() uint64 {
	var vs []int64
	for i := range m.st {
		for _, g := range m.st[i].groups() {
			vs = append(vs, int64(g))
		}
	}
	for _, t := range m.rrtr {
		vs = append(vs, int64(t))
	}
	vs = append(vs, -1)
	for d := 0; d < 2; d++ {
		for k := 0; k < 3; k++ {
			if m.genStarted[d][k] {
				vs = append(vs, m.genH[d][k], m.genFirst[d][k])
			} else {
				vs = append(vs, -7, -7)
			}
		}
	}
	vs = append(vs, m.srInCount)
	for _, b := range m.genBelowZero {
		if b {
			vs = append(vs, 1)
		} else {
			vs = append(vs, 0)
		}
	}
	return hk.HashInts(vs...)
}

// observed is what Get(ssrc) reported, flattened to the fields the statement covers.
type observed struct {
	inN, inBytes, inHdr     uint64
	inLost                  int64
	inNack, inPli, inFir    uint32
	outN, outBytes, outHdr  uint64
	outNack, outPli, outFir uint32
	riRecv                  uint64
	riLost                  int64
	riJitter, riFL          float64
	riRTT, riTotal          int64
	riN                     uint64
	roPkts, roBytes         uint64
	roTS                    int64
	roTSZero                bool
	roReports               uint64
	roRTT, roTotal          int64
	roN                     uint64
}

type diff struct {
	field     string
	got, want string
}

const durTol = 1000 // ns: durations and timestamps are compared within 1 microsecond

func nearDur(a, b, tol int64) bool {
	d := a - b
	if d < 0 {
		d = -d
	}
	return d <= tol
}

func nearF(a, b float64) bool {
	return math.Abs(a-b) <= 1e-12*math.Max(1, math.Abs(b))
}

// compare returns the fields in which the observation differs from the recount.
func (s *streamModel) compare(o *observed) []diff {
	var ds []diff
	u := func(name string, got, want uint64) {
		if got != want {
			ds = append(ds, diff{name, fmt.Sprint(got), fmt.Sprint(want)})
		}
	}
	i := func(name string, got, want int64) {
		if got != want {
			ds = append(ds, diff{name, fmt.Sprint(got), fmt.Sprint(want)})
		}
	}
	d := func(name string, got, want, tol int64) {
		if !nearDur(got, want, tol) {
			ds = append(ds, diff{name, fmt.Sprintf("%dns", got), fmt.Sprintf("%dns", want)})
		}
	}
	f := func(name string, got, want float64) {
		if !nearF(got, want) {
			ds = append(ds, diff{name, fmt.Sprint(got), fmt.Sprint(want)})
		}
	}
	u("Inbound.PacketsReceived", o.inN, s.inN)
	u("Inbound.BytesReceived", o.inBytes, s.inBytes)
	u("Inbound.HeaderBytesReceived", o.inHdr, s.inHdr)
	i("Inbound.PacketsLost", o.inLost, s.lost())
	u("Inbound.NACKCount", uint64(o.inNack), uint64(s.inNack))
	u("Inbound.PLICount", uint64(o.inPli), uint64(s.inPli))
	u("Inbound.FIRCount", uint64(o.inFir), uint64(s.inFir))
	u("Outbound.PacketsSent", o.outN, s.outN)
	u("Outbound.BytesSent", o.outBytes, s.outBytes)
	u("Outbound.HeaderBytesSent", o.outHdr, s.outHdr)
	u("Outbound.NACKCount", uint64(o.outNack), uint64(s.outNack))
	u("Outbound.PLICount", uint64(o.outPli), uint64(s.outPli))
	u("Outbound.FIRCount", uint64(o.outFir), uint64(s.outFir))
	if s.riRecvOK {
		u("RemoteInbound.PacketsReceived", o.riRecv, s.riRecv)
	} else if !s.riSeen {
		u("RemoteInbound.PacketsReceived", o.riRecv, 0)
	}
	i("RemoteInbound.PacketsLost", o.riLost, s.riLost)
	f("RemoteInbound.Jitter", o.riJitter, float64(s.riJitter)/s.clockRate)
	f("RemoteInbound.FractionLost", o.riFL, float64(s.riFL)/256)
	u("RemoteInbound.RoundTripTimeMeasurements", o.riN, s.riN)
	d("RemoteInbound.RoundTripTime", o.riRTT, s.riRTT, durTol)
	d("RemoteInbound.TotalRoundTripTime", o.riTotal, s.riTotal, durTol*int64(s.riN+1))
	u("RemoteOutbound.PacketsSent", o.roPkts, s.roPkts)
	u("RemoteOutbound.BytesSent", o.roBytes, s.roBytes)
	u("RemoteOutbound.ReportsSent", o.roReports, s.roReports)
	if s.roReports == 0 {
		if !o.roTSZero {
			ds = append(ds, diff{"RemoteOutbound.RemoteTimeStamp", fmt.Sprintf("%dns", o.roTS), "zero time (no sender report from this SSRC)"})
		}
	} else {
		d("RemoteOutbound.RemoteTimeStamp", o.roTS, s.roTS, durTol)
	}
	u("RemoteOutbound.RoundTripTimeMeasurements", o.roN, s.roN)
	d("RemoteOutbound.RoundTripTime", o.roRTT, s.roRTT, durTol)
	d("RemoteOutbound.TotalRoundTripTime", o.roTotal, s.roTotal, durTol*int64(s.roN+1))
	return ds
}

// Variants of the recount used only to name the mechanism of a mismatch (never to accept one); a bit mask.
const (
	vSkipAfterXR      = 1 << iota // the rest of an incoming compound packet is not recorded for a stream once an XR addressed to it was seen
	vFIRMediaZero                 // incoming FIR with media SSRC 0 is not counted
	vSRInfoToReported             // the sender info of an incoming SR is also recorded for the stream its report block is about
	vDLRRPerDuplicate             // a DLRR sub-block is counted once per stored RRTR with that timestamp
	nVariants         = 4
)

var variantKey = [nVariants]string{"rest-of-compound-skipped-after-incoming-XR", "incoming-FIR-with-media-ssrc-zero-not-counted",
	"sender-info-of-SR-attributed-to-reported-ssrc", "DLRR-counted-once-per-RRTR-with-equal-timestamp"}

// in returns the stream an incoming RTCP element updates (a scratch copy while the stream is frozen in a variant).
func (m *model) in(y int) *streamModel {
	if m.frozen[y] {
		m.scratch = m.st[y]
		return &m.scratch
	}
	return &m.st[y]
}

func (m *model) freezeAfterXR(y int) {
	if m.variant&vSkipAfterXR != 0 {
		m.frozen[y] = true
	}
}

// clone copies the model deeply.
func (m *model) clone() *model {
	c := *m
	for i := range c.st {
		c.st[i].srSentNTP = append([]uint64(nil), m.st[i].srSentNTP...)
	}
	c.rrtr = append([]uint64(nil), m.rrtr...)
	return &c
}
