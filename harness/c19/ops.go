package c19

import (
	"fmt"
	"time"
)

// SSRC indices: 0 = A, 1 = B (both bound as local and remote stream), 2 = U (never bound).
var ssrcs = [3]uint32{0x0A0A0A01, 0x0B0B0B02, 0x0C0C0C03}
var ssrcName = [3]string{"A", "B", "U"}
var clockRates = [2]float64{90000, 48000}

const (
	remoteSSRC = 0x99990000 // sender of receiver reports / feedback from the remote end (never bound)
	localRRSrc = 0x77770000 // sender of our receiver-side reports (never bound)
)

const (
	dirIn  = 0
	dirOut = 1
)

var dirName = [2]string{"in", "out"}

// sequence-number steps relative to the highest true number generated so far on that (direction, SSRC)
var deltas = []int64{+1, +2, 0, -1, -2, +300, +0x7FFD} // every step stays within 2^15-1 of the previous packet (which is at most 2 below the highest)

// RTCP element types
const (
	eSR    = iota // sender report from X, no report blocks
	eSRr          // sender report from X with a reception report block about the other bound SSRC
	eRR           // receiver report from the remote end with a block about X (Var: 0 echoes the latest SR, 1 the one before, 2 the fifth latest, 3 the latest with DLSR 0)
	eDLRR         // XR with a DLRR block addressed to X (Var: 0 echoes the latest RRTR, 1 the one before, 2 the fifth latest, 3 the latest with DLRR 0)
	eRRTR         // XR with a receiver reference time block
	eNACK         // generic NACK for media SSRC X
	ePLI          // PLI for media SSRC X
	eFIR          // FIR, media SSRC field X and one FCI entry for X (as pion/rtcp users build it)
	eFIR0         // FIR, media SSRC field 0 and one FCI entry for X (RFC 5104 4.3.1.2)
	eFIR2         // FIR, media SSRC field 0, FCI entries for A and for B
	eRR2          // receiver report from the remote end with two blocks: about B, then about A (both echo the latest SR)
	eDLRR2        // XR: an RRTR block, then one DLRR block with sub-blocks for B and for A
)

var elemName = []string{"SR", "SRr", "RR", "DLRR", "RRTR", "NACK", "PLI", "FIR", "FIR0", "FIR2", "RR(B+A)", "XR(RRTR,DLRR(B+A))"}

type elem struct {
	T   int `json:"t"`
	X   int `json:"x"`
	Var int `json:"v,omitempty"`
}

func (e elem) String() string {
	switch e.T {
	case eRRTR, eFIR2, eRR2, eDLRR2:
		return elemName[e.T]
	case eSRr:
		return fmt.Sprintf("SR(%s,block:%s)", ssrcName[e.X], ssrcName[1-e.X])
	case eRR, eDLRR:
		if e.Var == 1 {
			return fmt.Sprintf("%s(%s,prev)", elemName[e.T], ssrcName[e.X])
		}
		if e.Var == 2 {
			return fmt.Sprintf("%s(%s,5th-latest)", elemName[e.T], ssrcName[e.X])
		}
		if e.Var == 3 {
			return fmt.Sprintf("%s(%s,delay0)", elemName[e.T], ssrcName[e.X])
		}
	}
	return fmt.Sprintf("%s(%s)", elemName[e.T], ssrcName[e.X])
}

const (
	kRTP = iota
	kRTCP
	kAdv
	kUnbind // one of the two bindings of an SSRC (Dir says which) is unbound; the SSRC stays bound through the other
)

// op is one symbol of an alphabet.
type op struct {
	Kind  int           `json:"k"`
	Dir   int           `json:"d,omitempty"`
	Via   int           `json:"via,omitempty"`   // RTP: the bound stream (0/1) whose reader/writer carries the packet
	SSRC  int           `json:"ssrc,omitempty"`  // RTP: SSRC index in the header (Via, or 2 = unbound)
	Delta int           `json:"delta,omitempty"` // RTP: index into deltas
	Shape int           `json:"shape,omitempty"` // RTP: 0 = 12-byte header + 3 bytes, 1 = 2 CSRCs + one-byte extension + 200 bytes, 2 = 12 + 200, 3 = ext + 3
	Elems []elem        `json:"e,omitempty"`
	D     time.Duration `json:"adv,omitempty"`
}

func (o op) String() string {
	switch o.Kind {
	case kRTP:
		return fmt.Sprintf("%s-rtp(%s via %s,%+d,shape%d)", dirName[o.Dir], ssrcName[o.SSRC], ssrcName[o.Via], deltas[o.Delta], o.Shape)
	case kRTCP:
		s := dirName[o.Dir] + "-rtcp["
		for i, e := range o.Elems {
			if i > 0 {
				s += ","
			}
			s += e.String()
		}
		return s + "]"
	}
	if o.Kind == kUnbind {
		return fmt.Sprintf("unbind-%s-stream(%s)", dirName[o.Dir], ssrcName[o.Via])
	}
	return fmt.Sprintf("advance(%v)", o.D)
}

func rtpS(dir, x, delta, shape int) op {
	return op{Kind: kRTP, Dir: dir, Via: x, SSRC: x, Delta: delta, Shape: shape}
}
func rtpU(dir int) op               { return op{Kind: kRTP, Dir: dir, Via: 0, SSRC: 2, Delta: 0, Shape: 0} }
func rtcpOp(dir int, es ...elem) op { return op{Kind: kRTCP, Dir: dir, Elems: es} }
func adv(d time.Duration) op        { return op{Kind: kAdv, D: d} }

const (
	advLong  = 1234567891 * time.Nanosecond
	advShort = 20 * time.Millisecond
	advWhole = 2 * time.Second // a whole number of seconds: the NTP fractions of two instants coincide
)

// allElems is the full element set of the compound-packet families.
func allElems() []elem {
	var es []elem
	for x := 0; x < 2; x++ {
		es = append(es, elem{T: eSR, X: x}, elem{T: eSRr, X: x},
			elem{T: eRR, X: x}, elem{T: eRR, X: x, Var: 1},
			elem{T: eDLRR, X: x}, elem{T: eDLRR, X: x, Var: 1},
			elem{T: eNACK, X: x}, elem{T: ePLI, X: x}, elem{T: eFIR, X: x}, elem{T: eFIR0, X: x})
	}
	es = append(es, elem{T: eRRTR}, elem{T: eFIR2}, elem{T: eRR2}, elem{T: eDLRR2}, elem{T: eNACK, X: 2}, elem{T: eRR, X: 2}, elem{T: eDLRR, X: 2})
	return es
}

// coreElems is a reduced element set centred on A with B as the non-matching stream.
func coreElems() []elem {
	return []elem{
		{T: eSR, X: 0}, {T: eSRr, X: 1}, {T: eRR, X: 0}, {T: eDLRR, X: 0}, {T: eRRTR},
		{T: eNACK, X: 0}, {T: eNACK, X: 1}, {T: ePLI, X: 0}, {T: eFIR0, X: 0}, {T: eFIR, X: 0},
		{T: eRR, X: 1}, {T: eDLRR, X: 1},
	}
}

// compounds returns every ordered list of length 1 and 2 over es, in both directions.
func compounds(es []elem) []op {
	var out []op
	for dir := 0; dir < 2; dir++ {
		for _, a := range es {
			out = append(out, rtcpOp(dir, a))
		}
	}
	for dir := 0; dir < 2; dir++ {
		for _, a := range es {
			for _, b := range es {
				out = append(out, rtcpOp(dir, a, b))
			}
		}
	}
	return out
}

// family is one exhaustive search: all histories of Alpha-symbols up to Depth after Prefix.
type family struct {
	Name   string
	Clock  int64 // Unix ns at which the virtual clock starts (0: the scheduler's default)
	Start  int64 // first true sequence number on every (direction, SSRC)
	Prefix []op
	Alpha  []op
	Depth  int
	Shards int
	Dedup  bool
}

func warmPrefix() []op {
	return []op{
		rtpS(dirOut, 0, 0, 0), rtpS(dirOut, 1, 0, 1), rtpS(dirIn, 0, 0, 1), rtpS(dirIn, 1, 0, 0),
		rtcpOp(dirOut, elem{T: eSR, X: 0}), rtcpOp(dirOut, elem{T: eSR, X: 1}), rtcpOp(dirOut, elem{T: eRRTR}),
		adv(advLong),
		rtcpOp(dirOut, elem{T: eSR, X: 0}), rtcpOp(dirOut, elem{T: eRRTR}),
		adv(advShort),
	}
}

func families(tier string) []family {
	thorough := tier == "thorough"
	var fs []family

	// F1: every compound packet (length <= 2 over the full element set, both directions) on a cold and on a warmed-up system
	fs = append(fs, family{Name: "compound-all-after-warmup", Start: 1000, Prefix: warmPrefix(), Alpha: compounds(allElems()), Depth: 1})
	fs = append(fs, family{Name: "compound-all-cold", Start: 1000, Alpha: compounds(allElems()), Depth: 1})
	// F1b: two compound packets in a row
	if thorough {
		fs = append(fs, family{Name: "compound-all-x2-after-warmup", Start: 1000, Prefix: warmPrefix(), Alpha: compounds(allElems()), Depth: 2, Shards: 12, Dedup: true})
	} else {
		fs = append(fs, family{Name: "compound-core-x2-after-warmup", Start: 1000, Prefix: warmPrefix(), Alpha: compounds(coreElems()), Depth: 2, Shards: 2, Dedup: true})
	}

	// F2: RTP counting, both directions, both streams, header shapes, from several starting sequence numbers
	var rtpAll []op
	for dir := 0; dir < 2; dir++ {
		for x := 0; x < 2; x++ {
			for d := 0; d < 5; d++ {
				for sh := 0; sh < 2; sh++ {
					rtpAll = append(rtpAll, rtpS(dir, x, d, sh))
				}
			}
		}
		rtpAll = append(rtpAll, rtpU(dir))
	}
	rtpAll = append(rtpAll, rtcpOp(dirIn, elem{T: eRR, X: 0}), rtcpOp(dirIn, elem{T: eRR, X: 1}))
	for i, st := range []int64{0, 65534, 1, 32767} {
		d := pick(thorough, 5, 4)
		if i >= 2 {
			d--
		}
		fs = append(fs, family{Name: fmt.Sprintf("rtp-all-start%d", st), Start: st, Alpha: rtpAll, Depth: d, Shards: pick(thorough, 8, 4), Dedup: true})
	}
	// F2a: one inbound stream, deep (loss over the unwrapped range: gaps, fills, duplicates, reordering, wrap, half-range jump)
	var inDeep []op
	for d := range deltas {
		inDeep = append(inDeep, rtpS(dirIn, 0, d, 0))
	}
	inDeep = append(inDeep, rtpS(dirIn, 0, 0, 3), rtpS(dirIn, 1, 0, 2), rtpS(dirOut, 0, 0, 0), rtpU(dirIn))
	for i, st := range []int64{0, 65534, 1, 65535, 32767, 65236} {
		d := pick(thorough, 6, 5)
		if i < 2 {
			d++
		}
		fs = append(fs, family{Name: fmt.Sprintf("rtp-inbound-deep-start%d", st), Start: st, Alpha: inDeep, Depth: d, Shards: pick(d == 7, 9, pick(d == 6, 2, 1)), Dedup: true})
	}
	// F2b: one outbound stream with reception reports (remote packets received uses the first sent number)
	var outDeep []op
	for d := 0; d < 6; d++ {
		outDeep = append(outDeep, rtpS(dirOut, 1, d, 0))
	}
	outDeep = append(outDeep, rtpS(dirOut, 1, 0, 1), rtpS(dirOut, 0, 0, 2), rtpU(dirOut),
		rtcpOp(dirIn, elem{T: eRR, X: 1}), rtcpOp(dirIn, elem{T: eRR, X: 1, Var: 1}), rtcpOp(dirIn, elem{T: eSRr, X: 0}), rtcpOp(dirIn, elem{T: eRR, X: 0}))
	for _, st := range []int64{0, 65534, 65535} {
		fs = append(fs, family{Name: fmt.Sprintf("rtp-outbound-reports-start%d", st), Start: st, Alpha: outDeep, Depth: pick(thorough, 7, 6), Shards: pick(thorough, 4, 2), Dedup: true})
	}

	// F3: remote figures and round-trip times: reports, echoes of the latest / previous SR and RRTR, clock steps
	rt := []op{
		rtpS(dirOut, 0, 0, 0), rtpS(dirOut, 1, 1, 0),
		rtcpOp(dirOut, elem{T: eSR, X: 0}), rtcpOp(dirOut, elem{T: eSR, X: 1}), rtcpOp(dirOut, elem{T: eSRr, X: 0}),
		rtcpOp(dirOut, elem{T: eRRTR}),
		adv(advLong), adv(advShort), adv(advWhole),
		rtcpOp(dirIn, elem{T: eRR, X: 0}), rtcpOp(dirIn, elem{T: eRR, X: 0, Var: 1}), rtcpOp(dirIn, elem{T: eRR, X: 1}),
		rtcpOp(dirIn, elem{T: eSR, X: 1}), rtcpOp(dirIn, elem{T: eSRr, X: 1}),
		rtcpOp(dirIn, elem{T: eDLRR, X: 0}), rtcpOp(dirIn, elem{T: eDLRR, X: 0, Var: 1}), rtcpOp(dirIn, elem{T: eDLRR, X: 1}),
		rtcpOp(dirIn, elem{T: eDLRR, X: 0}, elem{T: eDLRR, X: 1}),
		rtcpOp(dirIn, elem{T: eRR, X: 0}, elem{T: eRR, X: 1}),
		rtcpOp(dirIn, elem{T: eRR2}), rtcpOp(dirIn, elem{T: eDLRR2}),
		rtcpOp(dirIn, elem{T: eRR, X: 0, Var: 3}), rtcpOp(dirIn, elem{T: eDLRR, X: 0, Var: 3}),
	}
	fs = append(fs, family{Name: "remote-figures", Start: 65535, Alpha: rt, Depth: pick(thorough, 6, 5), Shards: pick(thorough, 21, 7), Dedup: true})
	if thorough {
		// depth 6 on stream A alone
		fs = append(fs, family{Name: "remote-figures-A-deep", Start: 65535,
			Alpha: []op{rt[0], rt[2], rt[5], rt[6], rt[7], rt[8], rt[9], rt[10], rt[13], rt[14], rt[15]}, Depth: 7, Shards: 11, Dedup: true})
	}
	// F3c: the same figures when the middle 32 bits of the NTP time (LSR, LRR) wrap between the reports: the clock
	// starts 2.5 s before an instant whose NTP seconds are a multiple of 65536
	lw := []op{rt[0], rt[2], rt[5], rt[6], rt[8], rt[9], rt[10], rt[13], rt[15], rt[16]}
	fs = append(fs, family{Name: "remote-figures-across-lsr-wrap", Clock: 1_700_036_989_500_000_000, Start: 100, Alpha: lw, Depth: pick(thorough, 6, 5), Shards: pick(thorough, 10, 5), Dedup: true})
	// F3b: echoes of the fifth latest sender report / receiver reference time (four of each sent at distinct instants before)
	var wp []op
	for k := 0; k < 4; k++ {
		wp = append(wp, rtcpOp(dirOut, elem{T: eSR, X: 0}), rtcpOp(dirOut, elem{T: eRRTR}), adv(advLong))
	}
	win := []op{
		rtcpOp(dirOut, elem{T: eSR, X: 0}), rtcpOp(dirOut, elem{T: eRRTR}), adv(advShort),
		rtcpOp(dirIn, elem{T: eRR, X: 0, Var: 2}), rtcpOp(dirIn, elem{T: eRR, X: 0}),
		rtcpOp(dirIn, elem{T: eDLRR, X: 0, Var: 2}), rtcpOp(dirIn, elem{T: eDLRR, X: 0}),
		rtcpOp(dirOut, elem{T: eSR, X: 0}, elem{T: eSR, X: 1}),
	}
	fs = append(fs, family{Name: "echo-of-fifth-latest-report", Start: 5, Prefix: wp, Alpha: win, Depth: pick(thorough, 6, 4), Shards: pick(thorough, 4, 1), Dedup: true})

	// F4: everything mixed: RTP both ways, single RTCP elements both ways, a few compounds, clock
	var mix []op
	for dir := 0; dir < 2; dir++ {
		for x := 0; x < 2; x++ {
			mix = append(mix, rtpS(dir, x, 0, x), rtpS(dir, x, 3, 1-x))
		}
		mix = append(mix, rtpU(dir))
	}
	for dir := 0; dir < 2; dir++ {
		for _, e := range coreElems() {
			mix = append(mix, rtcpOp(dir, e))
		}
	}
	mix = append(mix,
		rtcpOp(dirIn, elem{T: eDLRR, X: 0}, elem{T: eNACK, X: 0}),
		rtcpOp(dirIn, elem{T: eNACK, X: 1}, elem{T: eNACK, X: 0}),
		rtcpOp(dirIn, elem{T: eSRr, X: 1}, elem{T: ePLI, X: 0}),
		rtcpOp(dirOut, elem{T: eRRTR}, elem{T: eNACK, X: 0}),
		rtcpOp(dirOut, elem{T: eSR, X: 0}, elem{T: eFIR2}),
		adv(advLong))
	// F5: every SSRC is bound twice (as a local and as a remote stream); one of the two bindings is unbound and
	// the other keeps carrying traffic: the recount goes on (traffic through an unbound stream is not generated)
	ub := []op{
		rtpS(dirOut, 0, 0, 0), rtpS(dirOut, 1, 0, 1), rtpS(dirIn, 0, 0, 1), rtpS(dirIn, 1, 2, 0),
		{Kind: kUnbind, Dir: dirIn, Via: 0}, {Kind: kUnbind, Dir: dirOut, Via: 1},
		rtcpOp(dirIn, elem{T: eRR, X: 0}), rtcpOp(dirIn, elem{T: eNACK, X: 0}), rtcpOp(dirOut, elem{T: ePLI, X: 1}), rtcpOp(dirOut, elem{T: eSR, X: 0}),
	}
	fs = append(fs, family{Name: "unbind-one-of-two-bindings", Start: 65534, Alpha: ub, Depth: pick(thorough, 6, 5), Shards: pick(thorough, 4, 2), Dedup: true})
	fs = append(fs, family{Name: "mixed", Start: 65535, Alpha: mix, Depth: pick(thorough, 5, 4), Shards: pick(thorough, 40, 10), Dedup: true})
	return fs
}

func pick(c bool, a, b int) int {
	if c {
		return a
	}
	return b
}
