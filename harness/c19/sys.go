package c19

import (
	"encoding/binary"
	"fmt"
	"time"

	"github.com/pion/interceptor"
	"github.com/pion/interceptor/pkg/stats"
	"github.com/pion/interceptor/verifh/hk"
	"github.com/pion/interceptor/vsched"
	"github.com/pion/rtcp"
	"github.com/pion/rtp"
)

// rtcpFeed is the innermost RTCP reader: each Read returns the queued bytes.
type rtcpFeed struct{ next []byte }

//go:norace
func (f *rtcpFeed) Read(b []byte, a interceptor.Attributes) (int, interceptor.Attributes, error) {
	if len(f.next) > len(b) {
		return 0, nil, fmt.Errorf("short buffer")
	}
	return copy(b, f.next), a, nil
}

// system is one stats interceptor with A and B bound as local and as remote stream.
type system struct {
	icpt     interceptor.Interceptor
	getter   stats.Getter
	feed     [2]*hk.FeedReader
	rd       [2]interceptor.RTPReader
	rtpSink  *hk.RTPSink
	wr       [2]interceptor.RTPWriter
	rtcpIn   *rtcpFeed
	rtcpRd   interceptor.RTCPReader
	rtcpSink *hk.RTCPSink
	rtcpWr   interceptor.RTCPWriter
	buf      []byte
	m        *model
	start    int64
	infos    [2]*interceptor.StreamInfo
	unbound  [2][2]bool       // [direction][stream]
	lastEff  []func(m *model) // model updates of the last RTCP symbol (re-applied to variants when classifying a mismatch)
}

func newSystem(start int64) (*system, error) {
	f, err := stats.NewInterceptor(stats.SetNowFunc(func() time.Time { return vsched.Now() }))
	if err != nil {
		return nil, err
	}
	s := &system{buf: make([]byte, 1500), m: newModel(), start: start, rtpSink: &hk.RTPSink{}, rtcpSink: &hk.RTCPSink{}, rtcpIn: &rtcpFeed{}}
	f.OnNewPeerConnection(func(_ string, g stats.Getter) { s.getter = g })
	s.icpt, err = f.NewInterceptor("pc")
	if err != nil {
		return nil, err
	}
	if s.getter == nil {
		return nil, fmt.Errorf("OnNewPeerConnection callback was not called")
	}
	s.rtcpRd = s.icpt.BindRTCPReader(s.rtcpIn)
	s.rtcpWr = s.icpt.BindRTCPWriter(s.rtcpSink)
	for k := 0; k < 2; k++ {
		info := &interceptor.StreamInfo{SSRC: ssrcs[k], ClockRate: uint32(clockRates[k]), PayloadType: 96}
		s.infos[k] = info
		s.feed[k] = &hk.FeedReader{}
		s.wr[k] = s.icpt.BindLocalStream(info, s.rtpSink)
		s.rd[k] = s.icpt.BindRemoteStream(info, s.feed[k])
	}
	// the recorders become active on their own goroutines
	vsched.Quiesce()
	return s, nil
}

// payload sizes and header shapes
func shapeOf(shape int) (ext bool, payload int) {
	switch shape {
	case 0:
		return false, 3
	case 1:
		return true, 200
	case 2:
		return false, 200
	}
	return true, 3
}

// rawRTP builds the packet by hand (version 2; shape with extension: 2 CSRCs and a one-byte-header extension block of one word).
// extValue is the value of header extension 1 of the packet with this sequence number: one byte on even
// numbers, six on odd ones (same layout - profile, number of extensions, CSRCs -, different header size).
func extValue(seq uint16) []byte {
	if seq%2 == 0 {
		return []byte{0xAA}
	}
	return []byte{0xAA, 2, 3, 4, 5, 6}
}

func rawRTP(ext bool, payload int, seq uint16, ts, ssrc uint32) []byte {
	var b []byte
	if !ext {
		b = make([]byte, 12)
		b[0] = 0x80
	} else {
		v := extValue(seq)
		words := (1 + len(v) + 3) / 4
		b = make([]byte, 12+8+4+4*words)
		b[0] = 0x80 | 0x10 | 2
		binary.BigEndian.PutUint32(b[12:], 0x11111111)
		binary.BigEndian.PutUint32(b[16:], 0x22222222)
		b[20], b[21], b[22], b[23] = 0xBE, 0xDE, 0x00, byte(words)
		b[24] = 0x10 | byte(len(v)-1) // id 1
		copy(b[25:], v)
	}
	b[1] = 96
	binary.BigEndian.PutUint16(b[2:], seq)
	binary.BigEndian.PutUint32(b[4:], ts)
	binary.BigEndian.PutUint32(b[8:], ssrc)
	for i := 0; i < payload; i++ {
		b = append(b, byte(i+1)|1)
	}
	return b
}

// rtpHeaderLen is the harness's own RTP header length computation from wire bytes.
func rtpHeaderLen(b []byte) int {
	n := 12 + 4*int(b[0]&0x0f)
	if b[0]&0x10 != 0 {
		n += 4 + 4*int(binary.BigEndian.Uint16(b[n+2:]))
	}
	return n
}

// nextSeq picks the true sequence number for an RTP symbol.
func (s *system) nextSeq(dir, x, delta int) int64 {
	m := s.m
	if !m.genStarted[dir][x] {
		m.genStarted[dir][x] = true
		m.genH[dir][x] = s.start
		m.genFirst[dir][x] = s.start
		return s.start
	}
	v := m.genH[dir][x] + deltas[delta]
	if v > m.genH[dir][x] {
		m.genH[dir][x] = v
	}
	return v
}

func (s *system) doRTP(o op) error {
	if s.unbound[o.Dir][o.Via] {
		return nil // no traffic through a stream that was unbound
	}
	v := s.nextSeq(o.Dir, o.SSRC, o.Delta)
	ext, plen := shapeOf(o.Shape)
	seq := uint16(v)
	ts := uint32(v * 960)
	ssrc := ssrcs[o.SSRC]
	wire := rawRTP(ext, plen, seq, ts, ssrc)
	hl := rtpHeaderLen(wire)
	if o.Dir == dirIn {
		s.feed[o.Via].Next = wire
		n, _, err := s.rd[o.Via].Read(s.buf, interceptor.Attributes{})
		if err != nil {
			return fmt.Errorf("RTP read: %v", err)
		}
		if n != len(wire) {
			return fmt.Errorf("RTP read returned %d bytes, transport gave %d", n, len(wire))
		}
		if o.SSRC < 2 {
			s.m.st[o.SSRC].recvRTP(v, len(wire), hl)
			if v < 0 {
				s.m.genBelowZero[o.SSRC] = true
			}
		}
		return nil
	}
	h := &rtp.Header{Version: 2, PayloadType: 96, SequenceNumber: seq, Timestamp: ts, SSRC: ssrc}
	if ext {
		h.CSRC = []uint32{0x11111111, 0x22222222}
		if err := h.SetExtension(1, extValue(seq)); err != nil {
			return err
		}
	}
	// what the header looks like on the wire decides the expected header size
	hb, err := h.Marshal()
	if err != nil {
		return err
	}
	if rtpHeaderLen(hb) != len(hb) || len(hb) != hl {
		return fmt.Errorf("harness: header shapes disagree (%d vs %d)", len(hb), hl)
	}
	if _, err := s.wr[o.Via].Write(h, wire[hl:], interceptor.Attributes{}); err != nil {
		return fmt.Errorf("RTP write: %v", err)
	}
	if o.SSRC < 2 {
		s.m.st[o.SSRC].sendRTP(seq, len(wire), hl)
	}
	return nil
}

// extHighest is the extended highest sequence number a remote receiver of our stream x would report.
func (s *system) extHighest(x int) uint32 {
	m := s.m
	if x > 1 || !m.genStarted[dirOut][x] {
		return 0
	}
	first16 := int64(uint16(m.genFirst[dirOut][x]))
	return uint32(first16 + m.genH[dirOut][x] - m.genFirst[dirOut][x])
}

func nth(l []uint64, fromEnd int) (uint64, bool) {
	if len(l) <= fromEnd {
		return 0, false
	}
	return l[len(l)-1-fromEnd], true
}

func (s *system) block(e elem) rrBlock {
	var sent []uint64
	if e.X < 2 {
		sent = s.m.st[e.X].srSentNTP
	}
	b := rrBlock{ext: s.extHighest(e.X)}
	if e.Var == 0 || e.Var == 3 {
		b.fl, b.lost, b.jitter = 64, 1, 900
		if t, ok := nth(sent, 0); ok {
			b.lsr, b.dlsr = mid32(t), 0x8000
		}
		if e.Var == 3 {
			// the remote end answers in the same instant: DLSR 0 means "no round trip time available" (WebRTC-stats)
			b.fl, b.lost, b.jitter, b.dlsr = 32, 2, 450, 0
		}
	} else {
		// the sender report before the latest one (Var 1) or the fifth latest (Var 2); an echo of nothing if there is none
		b.fl, b.lost, b.jitter = 128, 3, 4800
		b.lsr, b.dlsr = 0xDEADBEEF, 0x18000
		if t, ok := nth(sent, 1+3*(e.Var-1)); ok {
			b.lsr = mid32(t)
		}
	}
	return b
}

func (b rrBlock) pkt(ssrc uint32) rtcp.ReceptionReport {
	return rtcp.ReceptionReport{SSRC: ssrc, FractionLost: b.fl, TotalLost: b.lost, LastSequenceNumber: b.ext, Jitter: b.jitter,
		LastSenderReport: b.lsr, Delay: b.dlsr}
}

// build turns the elements into pion/rtcp packets and returns the model updates to perform, in order.
func (s *system) build(o op, nowNs int64) ([]rtcp.Packet, []func(m *model)) {
	var pkts []rtcp.Packet
	var eff []func(m *model)
	m := s.m
	in := o.Dir == dirIn
	nSR := m.srInCount
	for _, e := range o.Elems {
		e := e
		x := e.X
		switch e.T {
		case eSR, eSRr:
			ntp := toNTP(nowNs)
			sr := &rtcp.SenderReport{SSRC: ssrcs[x], RTPTime: 12345}
			if in {
				ntp = toNTP(nowNs - 37_000_123) // the remote sender's clock
				nSR++
				// the sender's 32-bit counters wrap between its first and its second report (RFC 3550 6.4.1:
				// about 4 GiB sent): the most recent report is the one with the smaller figures
				sr.PacketCount = uint32(0xFFFFFFF8 + 7*nSR + int64(x))
				sr.OctetCount = uint32(0xFFFFFFF0 + 13*nSR)
			} else {
				sr.PacketCount, sr.OctetCount = 5, 500
			}
			sr.NTPTime = ntp
			var blk rrBlock
			if e.T == eSRr {
				blk = s.block(elem{T: eRR, X: 1 - x})
				sr.Reports = []rtcp.ReceptionReport{blk.pkt(ssrcs[1-x])}
			}
			pkts = append(pkts, sr)
			pc, oc := sr.PacketCount, sr.OctetCount
			if in {
				eff = append(eff, func(m *model) {
					m.srInCount++
					m.in(x).senderReport(ntp, pc, oc)
					if e.T == eSRr {
						if m.variant&vSRInfoToReported != 0 {
							m.in(1-x).senderReport(ntp, pc, oc)
						}
						m.in(1-x).receptionReport(blk, nowNs)
					}
				})
			} else {
				eff = append(eff, func(m *model) { m.st[x].srSentNTP = append(m.st[x].srSentNTP, ntp) })
			}
		case eRR:
			blk := s.block(e)
			src := uint32(remoteSSRC)
			if !in {
				src = localRRSrc
			}
			pkts = append(pkts, &rtcp.ReceiverReport{SSRC: src, Reports: []rtcp.ReceptionReport{blk.pkt(ssrcs[x])}})
			if in && x < 2 {
				eff = append(eff, func(m *model) { m.in(x).receptionReport(blk, nowNs) })
			}
		case eRR2:
			src := uint32(remoteSSRC)
			if !in {
				src = localRRSrc
			}
			bb, ba := s.block(elem{T: eRR, X: 1}), s.block(elem{T: eRR, X: 0})
			pkts = append(pkts, &rtcp.ReceiverReport{SSRC: src, Reports: []rtcp.ReceptionReport{bb.pkt(ssrcs[1]), ba.pkt(ssrcs[0])}})
			if in {
				eff = append(eff, func(m *model) {
					m.in(1).receptionReport(bb, nowNs)
					m.in(0).receptionReport(ba, nowNs)
				})
			}
		case eDLRR2:
			var lrr, d uint32
			if t, ok := nth(m.rrtr, 0); ok {
				lrr, d = mid32(t), 0x4000
			}
			src := uint32(remoteSSRC)
			if !in {
				src = localRRSrc
			}
			pkts = append(pkts, &rtcp.ExtendedReport{SenderSSRC: src, Reports: []rtcp.ReportBlock{
				&rtcp.ReceiverReferenceTimeReportBlock{NTPTimestamp: toNTP(nowNs - 37_000_123)},
				&rtcp.DLRRReportBlock{Reports: []rtcp.DLRRReport{{SSRC: ssrcs[1], LastRR: lrr, DLRR: d}, {SSRC: ssrcs[0], LastRR: lrr, DLRR: d + 0x100}}}}})
			if in {
				eff = append(eff, func(m *model) {
					m.in(1).dlrr(lrr, d, m.rrtr, nowNs, m.variant&vDLRRPerDuplicate != 0)
					m.in(0).dlrr(lrr, d+0x100, m.rrtr, nowNs, m.variant&vDLRRPerDuplicate != 0)
					m.freezeAfterXR(0)
					m.freezeAfterXR(1)
				})
			} else {
				// an outgoing XR carrying an RRTR block is a receiver reference time report of ours
				ntp := toNTP(nowNs - 37_000_123)
				eff = append(eff, func(m *model) { m.rrtr = append(m.rrtr, ntp) })
			}
		case eDLRR:
			var lrr, d uint32
			if e.Var == 0 || e.Var == 3 {
				if t, ok := nth(m.rrtr, 0); ok {
					lrr, d = mid32(t), 0x4000
				}
				if e.Var == 3 {
					d = 0
				}
			} else {
				lrr, d = 0xDEADBEEF, 0x14000
				if t, ok := nth(m.rrtr, 1+3*(e.Var-1)); ok {
					lrr = mid32(t)
				}
			}
			pkts = append(pkts, &rtcp.ExtendedReport{SenderSSRC: ssrcs[x], Reports: []rtcp.ReportBlock{
				&rtcp.DLRRReportBlock{Reports: []rtcp.DLRRReport{{SSRC: ssrcs[x], LastRR: lrr, DLRR: d}}}}})
			if in && x < 2 {
				eff = append(eff, func(m *model) {
					m.in(x).dlrr(lrr, d, m.rrtr, nowNs, m.variant&vDLRRPerDuplicate != 0)
					m.freezeAfterXR(x)
				})
			}
		case eRRTR:
			ntp := toNTP(nowNs)
			src := uint32(localRRSrc)
			if in {
				src = remoteSSRC
				ntp = toNTP(nowNs - 37_000_123)
			}
			pkts = append(pkts, &rtcp.ExtendedReport{SenderSSRC: src, Reports: []rtcp.ReportBlock{
				&rtcp.ReceiverReferenceTimeReportBlock{NTPTimestamp: ntp}}})
			if !in {
				eff = append(eff, func(m *model) { m.rrtr = append(m.rrtr, ntp) })
			}
		case eNACK, ePLI, eFIR, eFIR0, eFIR2:
			src := uint32(remoteSSRC)
			if !in {
				src = localRRSrc
			}
			targets := []int{x}
			switch e.T {
			case eNACK:
				pkts = append(pkts, &rtcp.TransportLayerNack{SenderSSRC: src, MediaSSRC: ssrcs[x], Nacks: []rtcp.NackPair{{PacketID: 7, LostPackets: 5}}})
			case ePLI:
				pkts = append(pkts, &rtcp.PictureLossIndication{SenderSSRC: src, MediaSSRC: ssrcs[x]})
			case eFIR:
				pkts = append(pkts, &rtcp.FullIntraRequest{SenderSSRC: src, MediaSSRC: ssrcs[x], FIR: []rtcp.FIREntry{{SSRC: ssrcs[x], SequenceNumber: 1}}})
			case eFIR0:
				pkts = append(pkts, &rtcp.FullIntraRequest{SenderSSRC: src, MediaSSRC: 0, FIR: []rtcp.FIREntry{{SSRC: ssrcs[x], SequenceNumber: 2}}})
			case eFIR2:
				pkts = append(pkts, &rtcp.FullIntraRequest{SenderSSRC: src, MediaSSRC: 0, FIR: []rtcp.FIREntry{{SSRC: ssrcs[0], SequenceNumber: 3}, {SSRC: ssrcs[1], SequenceNumber: 4}}})
				targets = []int{0, 1}
			}
			t := e.T
			eff = append(eff, func(m *model) {
				for _, y := range targets {
					if y > 1 {
						continue
					}
					st := &m.st[y]
					if in {
						st = m.in(y)
						if m.variant&vFIRMediaZero != 0 && (t == eFIR0 || t == eFIR2) {
							continue
						}
					}
					switch {
					case t == eNACK && in:
						st.outNack++
					case t == eNACK:
						st.inNack++
					case t == ePLI && in:
						st.outPli++
					case t == ePLI:
						st.inPli++
					case in:
						st.outFir++
					default:
						st.inFir++
					}
				}
			})
		}
	}
	return pkts, eff
}

func (s *system) doRTCP(o op) error {
	nowNs := vsched.NowNanos()
	pkts, eff := s.build(o, nowNs)
	if o.Dir == dirIn {
		raw, err := rtcp.Marshal(pkts)
		if err != nil {
			return fmt.Errorf("harness: marshal: %v", err)
		}
		s.rtcpIn.next = raw
		n, _, err := s.rtcpRd.Read(s.buf, interceptor.Attributes{})
		if err != nil {
			return fmt.Errorf("RTCP read: %v", err)
		}
		if n != len(raw) {
			return fmt.Errorf("RTCP read returned %d bytes, transport gave %d", n, len(raw))
		}
	} else {
		if _, err := s.rtcpWr.Write(pkts, interceptor.Attributes{}); err != nil {
			return fmt.Errorf("RTCP write: %v", err)
		}
		s.rtcpSink.Take()
	}
	s.lastEff = eff
	applyEffects(s.m, eff)
	return nil
}

func applyEffects(m *model, eff []func(m *model)) {
	for _, f := range eff {
		f(m)
	}
	m.frozen = [2]bool{}
}

// apply performs one symbol and lets the interceptor's goroutines settle.
func (s *system) apply(o op) error {
	var err error
	switch o.Kind {
	case kRTP:
		err = s.doRTP(o)
		s.rtpSink.Pkts = s.rtpSink.Pkts[:0]
	case kRTCP:
		err = s.doRTCP(o)
	case kAdv:
		vsched.Advance(o.D)
	case kUnbind:
		if !s.unbound[o.Dir][o.Via] {
			s.unbound[o.Dir][o.Via] = true
			if o.Dir == dirIn {
				s.icpt.UnbindRemoteStream(s.infos[o.Via])
			} else {
				s.icpt.UnbindLocalStream(s.infos[o.Via])
			}
		}
	}
	vsched.Quiesce()
	return err
}

func observe(st *stats.Stats) *observed {
	return &observed{
		inN: st.InboundRTPStreamStats.PacketsReceived, inBytes: st.BytesReceived, inHdr: st.HeaderBytesReceived,
		inLost: st.InboundRTPStreamStats.PacketsLost,
		inNack: st.InboundRTPStreamStats.NACKCount, inPli: st.InboundRTPStreamStats.PLICount, inFir: st.InboundRTPStreamStats.FIRCount,
		outN: st.OutboundRTPStreamStats.PacketsSent, outBytes: st.OutboundRTPStreamStats.BytesSent, outHdr: st.HeaderBytesSent,
		outNack: st.OutboundRTPStreamStats.NACKCount, outPli: st.OutboundRTPStreamStats.PLICount, outFir: st.OutboundRTPStreamStats.FIRCount,
		riRecv: st.RemoteInboundRTPStreamStats.PacketsReceived, riLost: st.RemoteInboundRTPStreamStats.PacketsLost,
		riJitter: st.RemoteInboundRTPStreamStats.Jitter, riFL: st.FractionLost,
		riRTT: int64(st.RemoteInboundRTPStreamStats.RoundTripTime), riTotal: int64(st.RemoteInboundRTPStreamStats.TotalRoundTripTime),
		riN:    st.RemoteInboundRTPStreamStats.RoundTripTimeMeasurements,
		roPkts: st.RemoteOutboundRTPStreamStats.PacketsSent, roBytes: st.RemoteOutboundRTPStreamStats.BytesSent,
		roTS: st.RemoteTimeStamp.UnixNano(), roTSZero: st.RemoteTimeStamp.IsZero(), roReports: st.ReportsSent,
		roRTT: int64(st.RemoteOutboundRTPStreamStats.RoundTripTime), roTotal: int64(st.RemoteOutboundRTPStreamStats.TotalRoundTripTime),
		roN: st.RemoteOutboundRTPStreamStats.RoundTripTimeMeasurements,
	}
}

type streamDiff struct {
	x  int
	ds []diff
}

// query compares Get for every SSRC with the recount.
func (s *system) query() ([]streamDiff, [2]*observed, error) {
	var out []streamDiff
	var obs [2]*observed
	for x := 0; x < 2; x++ {
		st := s.getter.Get(ssrcs[x])
		if st == nil {
			return nil, obs, fmt.Errorf("Get(%s) returned nil for a bound stream", ssrcName[x])
		}
		obs[x] = observe(st)
		if ds := s.m.st[x].compare(obs[x]); len(ds) > 0 {
			out = append(out, streamDiff{x, ds})
		}
	}
	for _, u := range []uint32{ssrcs[2], remoteSSRC, localRRSrc, 0} {
		if st := s.getter.Get(u); st != nil {
			return nil, obs, fmt.Errorf("Get(%#x) returned statistics for an SSRC that was never bound", u)
		}
	}
	return out, obs, nil
}
