// Package c19 decides property C19 (stream statistics equal a recount of the
// observed traffic) by explicit-state search over histories of RTP packets,
// RTCP compound packets and clock steps driven through the public seams of
// the stats interceptor (Bind* readers/writers, Getter.Get).
package c19

import (
	"encoding/json"
	"fmt"
	"runtime/debug"
	"strings"
	"time"

	"github.com/pion/interceptor/verifh/hk"
	"github.com/pion/interceptor/vsched"
)

type replay struct {
	Tier    string   `json:"tier"`
	Family  string   `json:"family"`
	Start   int64    `json:"start"`
	Clock   int64    `json:"clock_start_unix_ns,omitempty"`
	Syms    []int    `json:"syms"`
	History []string `json:"history"`
	Ops     []op     `json:"ops"` // prefix + history, self-contained
}

func describe(tier string, f *family, hist []int) replay {
	var ops []op
	ops = append(ops, f.Prefix...)
	for _, a := range hist {
		ops = append(ops, f.Alpha[a])
	}
	return describeOps(tier, f, hist, ops)
}

// describeOps records the symbols executed up to and including the failing one.
func describeOps(tier string, f *family, hist []int, ops []op) replay {
	r := replay{Tier: tier, Family: f.Name, Start: f.Start, Clock: f.Clock, Syms: hist}
	r.Ops = append(r.Ops, ops...)
	for _, o := range r.Ops {
		r.History = append(r.History, o.String())
	}
	return r
}

// situation names the mechanism of a mismatch. For RTCP symbols it re-applies the symbol to variants of the
// recount that each reproduce one known defect mechanism; a name is given only if a variant explains the
// whole observation of both streams exactly. This never accepts a mismatch, it only names it.
func situation(s *system, before *model, o op, sds []streamDiff, obs [2]*observed) string {
	if o.Kind == kRTCP && o.Dir == dirIn {
		// subsets of the mechanisms, fewest first
		for bits := 1; bits <= nVariants; bits++ {
			for v := 1; v < 1<<nVariants; v++ {
				if popcount(v) != bits {
					continue
				}
				c := before.clone()
				c.variant = v
				applyEffects(c, s.lastEff)
				if len(c.st[0].compare(obs[0])) == 0 && len(c.st[1].compare(obs[1])) == 0 {
					var names []string
					for k := 0; k < nVariants; k++ {
						if v&(1<<k) != 0 {
							names = append(names, variantKey[k])
						}
					}
					// several mechanisms at once: the class is the first one (each has simpler witnesses of its own)
					return names[0]
				}
			}
		}
	}
	if o.Kind == kRTP && o.Dir == dirIn && len(sds) == 1 && len(sds[0].ds) == 1 && sds[0].ds[0].field == "Inbound.PacketsLost" {
		// some packet was older than the first one by more than the first one's distance from zero
		x := sds[0].x
		if s.m.genBelowZero[x] && obs[x].inLost-s.m.st[x].lost() > 32768 {
			return "packet-reordered-before-the-first-unwraps-upwards-near-zero"
		}
	}
	return "mismatch:" + sds[0].ds[0].field
}

func popcount(v int) int {
	n := 0
	for ; v != 0; v &= v - 1 {
		n++
	}
	return n
}

func message(o op, sds []streamDiff) string {
	var b strings.Builder
	fmt.Fprintf(&b, "after %s: ", o.String())
	for i, sd := range sds {
		if i > 0 {
			b.WriteString("; ")
		}
		fmt.Fprintf(&b, "Get(%s):", ssrcName[sd.x])
		for _, d := range sd.ds {
			fmt.Fprintf(&b, " %s=%s (recount %s)", d.field, d.got, d.want)
		}
	}
	return b.String()
}

// exec runs prefix + history on a fresh interceptor, comparing Get with the recount after every symbol.
func exec(tier string, f *family, hist []int) hk.Step {
	var step hk.Step
	ops := make([]op, 0, len(f.Prefix)+len(hist))
	ops = append(ops, f.Prefix...)
	for _, a := range hist {
		ops = append(ops, f.Alpha[a])
	}
	res := vsched.Run(vsched.Options{Strategy: vsched.BackgroundFirst{}, MaxSteps: 1_000_000}, func() {
		if f.Clock != 0 {
			vsched.SetNow(f.Clock)
		}
		s, err := newSystem(f.Start)
		if err != nil {
			vsched.Failf("setup: %v", err)
			return
		}
		defer s.icpt.Close()
		fail := func(i int, key, msg string) {
			if i == len(ops)-1 || i < len(f.Prefix) {
				step.Violation = &hk.Violation{Key: key, Message: msg, Replay: describeOps(tier, f, hist, ops[:i+1])}
			} else {
				step.Dead = true // this prefix already failed when it was explored as a history of its own
			}
		}
		if sds, _, err := s.query(); err != nil || len(sds) > 0 {
			fail(-1, "C19:fresh-interceptor", fmt.Sprintf("before any traffic: %v %v", err, sds))
			return
		}
		for i, o := range ops {
			var before [2][6]uint64
			last := i == len(ops)-1
			if last {
				before = [2][6]uint64{s.m.st[0].groups(), s.m.st[1].groups()}
			}
			mb := s.m.clone()
			if err := s.apply(o); err != nil {
				fail(i, "C19:transport-error", fmt.Sprintf("after %s: %v", o.String(), err))
				return
			}
			sds, obs, err := s.query()
			if err != nil {
				fail(i, "C19:get-nil-or-unbound", fmt.Sprintf("after %s: %v", o.String(), err))
				return
			}
			if len(sds) > 0 {
				fail(i, "C19:"+situation(s, mb, o, sds, obs), message(o, sds))
				return
			}
			if last {
				after := [2][6]uint64{s.m.st[0].groups(), s.m.st[1].groups()}
				out := ""
				for x := 0; x < 2; x++ {
					mask := 0
					for g := 0; g < 6; g++ {
						if before[x][g] != after[x][g] {
							mask |= 1 << g
						}
					}
					out += fmt.Sprintf("%s:%02x ", ssrcName[x], mask)
					if mask != 0 {
						step.Nontrivial = true
					}
				}
				step.Outcome = out
			}
		}
		step.Key = hk.DeepHash(s.icpt) ^ hk.EnvHash() ^ s.m.hash()
	})
	if step.Violation == nil {
		if msg := runFailure(res); msg != "" {
			step.Violation = &hk.Violation{Key: "C19:runtime", Message: msg, Replay: describe(tier, f, hist)}
		}
	}
	return step
}

func runFailure(res *vsched.Result) string {
	switch {
	case len(res.Panics) > 0:
		return "panic: " + res.Panics[0].Value + "\n" + res.Panics[0].Stack
	case res.Deadlock:
		return fmt.Sprintf("deadlock: %+v", res.Blocked)
	case res.StepLimit:
		return "step budget exceeded (loops forever?): " + res.StepWhere
	case len(res.Failures) > 0:
		return res.Failures[0]
	case len(res.Blocked) > 0:
		return fmt.Sprintf("goroutines still alive after Close: %+v", res.Blocked)
	}
	return ""
}

type jobSpec struct {
	Family string `json:"family"`
	Shard  int    `json:"shard"`
	Of     int    `json:"of"`
	Depth  int    `json:"depth"`
	Alpha  int    `json:"alphabet"`
	Start  int64  `json:"start"`
	fam    int
}

func jobSpecs(tier string) []jobSpec {
	var js []jobSpec
	for i, f := range families(tier) {
		n := f.Shards
		if n < 1 || f.Depth < 2 {
			n = 1
		}
		for k := 0; k < n; k++ {
			js = append(js, jobSpec{Family: f.Name, Shard: k, Of: n, Depth: f.Depth, Alpha: len(f.Alpha), Start: f.Start, fam: i})
		}
	}
	return js
}

func jobs(tier string) []string {
	var names []string
	for _, j := range jobSpecs(tier) {
		b, _ := json.Marshal(j)
		names = append(names, string(b))
	}
	return names
}

func run(tier string, i int, deadline time.Time) *hk.JobResult {
	debug.SetGCPercent(1000) // executions are short-lived and small; the default GC pacing dominates the run time
	j := jobSpecs(tier)[i]
	f := families(tier)[j.fam]
	r := &hk.JobResult{Exhaustive: true, Bounds: map[string]any{"family": f.Name, "depth": f.Depth, "alphabet": len(f.Alpha),
		"prefix": len(f.Prefix), "start_seq": f.Start, "shard": fmt.Sprintf("%d/%d (first symbol mod %d)", j.Shard, j.Of, j.Of)}}
	all := make([]int, len(f.Alpha))
	for k := range all {
		all[k] = k
	}
	var first []int
	for k := range all {
		if k%j.Of == j.Shard {
			first = append(first, k)
		}
	}
	s := &hk.Search{Alphabet: len(f.Alpha), Depth: f.Depth, Dedup: f.Dedup, Deadline: deadline, MaxViolations: 12,
		Allowed: func(h []int) []int {
			if len(h) == 0 {
				return first
			}
			return all
		},
		Exec:     func(h []int) hk.Step { return exec(tier, &f, h) },
		Describe: func(h []int) any { return describe(tier, &f, h).History }}
	st := s.Run()
	st.Fill(r)
	return r
}

func replayFn(raw json.RawMessage) string {
	var rp replay
	if err := json.Unmarshal(raw, &rp); err != nil {
		return "bad replay: " + err.Error()
	}
	// self-contained: the ops are replayed as an alphabet of their own
	f := family{Name: rp.Family, Start: rp.Start, Clock: rp.Clock, Alpha: rp.Ops}
	hist := make([]int, len(rp.Ops))
	for i := range hist {
		hist[i] = i
	}
	st := exec(rp.Tier, &f, hist)
	if st.Violation != nil {
		return st.Violation.Message
	}
	if st.Dead {
		return "a proper prefix of the history already fails"
	}
	return ""
}

func init() {
	hk.Register(&hk.Check{
		ID: "C19",
		Rule: "E2 explicit-state search through one stats interceptor with SSRC A (90 kHz) and B (48 kHz) each bound as local and as remote stream and SSRC U never bound. " +
			"Symbols: incoming/outgoing RTP for A, B, U (sequence steps +1,+2,0,-1,-2,+300 relative to the highest generated, from start numbers 0, 1, 32767, 65236, 65534, 65535; header shapes 12 bytes and 2 CSRC + one-byte extension; payload 3 and 200 bytes); " +
			"incoming/outgoing RTCP compound packets = all ordered lists of length <= 2 over {SR(X), SR(X with block about the other), RR(X) echoing the latest / the previous SR, XR-DLRR(X) echoing the latest / the previous RRTR, XR-RRTR, NACK(X), PLI(X), FIR(X) pion style, FIR(X) RFC 5104 style, FIR(A+B), NACK(U), RR(U), DLRR(U)}; clock steps 20 ms and 1.234567891 s. " +
			"Families: every compound on a cold and a warmed-up system; pairs of compounds; RTP-only product alphabet; one inbound stream deep; one outbound stream with reports deep; remote figures / RTT; everything mixed. " +
			"After every symbol Get(A), Get(B) are compared field by field with a per-SSRC recount (durations and timestamps within 1 us, floats within 1e-12) and Get of four never-bound SSRCs must be nil. " +
			"A transition is non-trivial if the symbol changed the recount of at least one SSRC; states are distinct by deep hash of the interceptor + recount + generator + clock",
		Assumptions: []string{"vsched scheduler model (litmus suite): recorders are started by Quiesce before the first packet",
			"inbound Jitter and LastPacketReceivedTimestamp are not covered by the statement and are not compared",
			"input packets are built with pion/rtcp and pion/rtp marshalling; the expectation is computed from the harness's own symbolic description, RTP header sizes by the harness's own parser of the wire bytes",
			"a DLRR sub-block is addressed to the SSRC in its SSRC field; an RRTR has no addressee; an SR belongs to its sender SSRC; FIR is addressed through its FCI entries (RFC 5104)",
			"reception reports never echo a sender report older than the last two sent; cumulative loss is non-negative; RemoteInbound.PacketsReceived is left free while no packet was sent or the formula is negative"},
		Jobs:   jobs,
		Run:    run,
		Replay: replayFn,
		Bounds: func(tier string) map[string]any {
			b := map[string]any{"tier": tier}
			for _, f := range families(tier) {
				b[f.Name] = map[string]any{"alphabet": len(f.Alpha), "depth": f.Depth, "prefix": len(f.Prefix), "start_seq": f.Start}
			}
			return b
		},
	})
}
