// Package c13 decides property C13 (caller-owned buffers are not retained or
// modified after a call returns): a differential explicit-state search (every
// history once with fresh allocations per call, once with a single
// header/payload/read buffer reused and scribbled right after each call
// returns, before any background goroutine runs) plus schedule exploration of
// the scribbling caller racing the interceptor's goroutines under -race.
package c13

import (
	"bytes"
	"encoding/json"
	"fmt"
	"strings"
	"time"

	"github.com/pion/interceptor"
	"github.com/pion/interceptor/verifh/hk"
	"github.com/pion/interceptor/vsched"
	"github.com/pion/rtcp"
	"github.com/pion/rtp"
)

type config struct {
	Kind    string `json:"kind"`
	Variant int    `json:"variant"`
	Depth   int    `json:"depth"`
}

var symNames = []string{"W(shape0)", "W(shape3:one-byte-ext)", "W(shape1:csrc)", "R(shape0)", "R(shape4:two-byte-ext)", "RTCP(NACK all sent)", "RTCP(TWCC)", "WriteRTCP(PLI)", "Tick", "Drain(1s)", "W(shape0, 1461-byte payload)"}

// emitted is everything observable that derives from packet contents.
type emitted struct {
	rtp   []string
	rtcp  []string
	dumpR string
	dumpC string
	stats string
	log   string
	err   string
}

func (e *emitted) String() string {
	return fmt.Sprintf("rtp=%v\nrtcp=%v\ndump-rtp=%q\ndump-rtcp=%q\nstats=%s\nlog=%q", e.rtp, e.rtcp, e.dumpR, e.dumpC, e.stats, e.log)
}

// run executes a history; reuse selects the scribbling caller.
func run(c config, hist []int, reuse bool) (*emitted, *vsched.Result) {
	em := &emitted{}
	res := vsched.Run(vsched.Options{Strategy: vsched.AppFirst{}, MaxSteps: 2_000_000}, func() {
		k := hk.KindByName(c.Kind)
		i, x, err := k.New(c.Variant)
		if err != nil {
			vsched.Failf("setup: %v", err)
			return
		}
		s := hk.NewSession(i, x)
		s.BindAll()
		l1, r1 := s.Locals[1], s.Remotes[1]
		// the reused caller-owned objects
		hdr := &rtp.Header{}
		payload := make([]byte, 0, 1500) // 1461 is the largest payload written
		rbuf := make([]byte, 1500)
		rtcpBuf := make([]byte, 1500)
		var sent []uint16
		wseq, rseq := uint16(65534), uint16(65531) // the numbers wrap inside every history of three or more packets
		jb := c.Kind == "jitterbuffer"
		if jb {
			// playout starts after 50 packets: a run of 52 numbers of which the second one is late
			for j := 0; j < 52; j++ {
				if j == 1 {
					continue
				}
				h, p := hk.Shape(0, r1.Info.SSRC, 40000+uint16(j), uint32(j)*3000)
				readOne(em, r1, hk.MarshalRTP(h, p), reuse, rbuf)
			}
			rseq = 40051
		}
		for _, a := range hist {
			switch a {
			case 0, 1, 2, 10:
				shape := []int{0, 3, 1}[a%10]
				wseq++
				ssrc := l1.Info.SSRC
				if a == 2 && wseq%2 == 0 {
					// a repair packet the application builds itself: written on the stream's writer with the
					// stream's RTX SSRC (every other packet of this shape; the first write of a history is odd)
					ssrc = l1.Info.SSRCRetransmission
				}
				h, p := hk.Shape(shape, ssrc, wseq, uint32(wseq)*3000)
				if ssrc != l1.Info.SSRC {
					p = make([]byte, 50) // the shape itself has no payload
					for j := range p {
						p[j] = byte(j*5) ^ byte(wseq)
					}
				}
				if a == 10 {
					// one byte more than the 1460-byte buffers the pacers and the responder pool
					p = make([]byte, 1461)
					for j := range p {
						p[j] = byte(j*7) ^ byte(wseq)
					}
				}
				_ = h.SetExtension(hk.TwccExtID, []byte{byte(wseq >> 8), byte(wseq)})
				if a == 1 && wseq%2 == 0 {
					// the same extension with a longer value on every second packet of this shape: same layout
					// (profile, number of extensions), different size
					_ = h.SetExtension(1, []byte{'m', 'i', 'd', '-', 'l', 'o', 'n', 'g', 'e', 'r'})
				}
				sent = append(sent, wseq)
				if reuse {
					copyHeaderInto(hdr, &h)
					payload = append(payload[:0], p...)
					want := append([]byte(nil), payload...)
					_, _ = l1.W.Write(hdr, payload, interceptor.Attributes{})
					if !bytes.Equal(payload, want) {
						em.err = fmt.Sprintf("payload modified during Write of packet %d", wseq)
					}
					scribbleHeader(hdr)
					for j := range payload {
						payload[j] = 0xEE
					}
				} else {
					pc := append([]byte(nil), p...)
					_, _ = l1.W.Write(&h, pc, interceptor.Attributes{})
					if !bytes.Equal(pc, p) {
						em.err = fmt.Sprintf("payload modified during Write of packet %d", wseq)
					}
				}
			case 3, 4:
				shape := []int{0, 4}[a-3]
				rseq += 2
				h, p := hk.Shape(shape, r1.Info.SSRC, rseq, uint32(rseq)*3000)
				_ = h.SetExtension(hk.TwccExtID, []byte{byte(rseq >> 8), byte(rseq)})
				if a == 3 && rseq%4 == 3 {
					// a transport-cc element of one byte (legal RFC 8285, not a transport-cc number)
					_ = h.SetExtension(hk.TwccExtID, []byte{byte(rseq) | 0x80})
				}
				raw := hk.MarshalRTP(h, p)
				readOne(em, r1, raw, reuse, rbuf)
			case 5:
				raw := hk.RawNACK(l1.Info.SSRC, sent...)
				if len(sent) == 0 {
					raw = hk.RawNACK(l1.Info.SSRC, 1)
				}
				readRTCP(s, raw, reuse, rtcpBuf)
			case 6:
				readRTCP(s, hk.RawTWCC(l1.Info.SSRC, 65535, 3, 1), reuse, rtcpBuf)
			case 7:
				pli := &rtcp.PictureLossIndication{SenderSSRC: 7, MediaSSRC: r1.Info.SSRC}
				// RTCP packet objects are not among the buffers the property lets the caller reuse: not scribbled
				_, _ = s.RTCPW.Write([]rtcp.Packet{pli}, interceptor.Attributes{})
			case 8:
				vsched.Advance(hk.ReportInterval)
			case 9:
				vsched.Advance(time.Second)
			}
			vsched.Quiesce()
		}
		if jb {
			// the late number arrives, then every number the history skipped and a run of 60 more: everything
			// that was buffered meanwhile is played out
			h, p := hk.Shape(0, r1.Info.SSRC, 40001, 3000)
			readOne(em, r1, hk.MarshalRTP(h, p), reuse, rbuf)
			for q := uint16(40052); q != rseq+61; q++ {
				h, p := hk.Shape(0, r1.Info.SSRC, q, uint32(q)*3000)
				readOne(em, r1, hk.MarshalRTP(h, p), reuse, rbuf)
			}
		}
		// drain: everything queued must come out
		vsched.Advance(2 * time.Second)
		if x.Stats != nil {
			em.stats = fmt.Sprintf("%+v | %+v", deref(x.Stats.Get(l1.Info.SSRC)), deref(x.Stats.Get(r1.Info.SSRC)))
		}
		_ = i.Close()
		vsched.Quiesce()
		for _, r := range s.T.RTP {
			if r.Header.SSRC == l1.Info.SSRCRetransmission {
				// the RTX stream's own sequence numbers come from pion/randutil and are not constrained
				r.Header.SequenceNumber = 0
			}
			b, _ := r.Header.Marshal()
			em.rtp = append(em.rtp, fmt.Sprintf("s%d:%x|%x|pad%d", r.Stream, b, r.Payload, r.Header.PaddingSize))
		}
		for _, r := range s.T.RTCP {
			for _, raw := range r.Raw {
				em.rtcp = append(em.rtcp, fmt.Sprintf("%x", raw))
			}
		}
		if x.DumpRTP != nil {
			em.dumpR, em.dumpC = x.DumpRTP.String(), x.DumpRTCP.String()
		}
		if x.Log != nil {
			em.log = strings.Join(x.Log.Lines, "\n")
		}
	})
	return em, res
}

// readOne delivers one incoming packet; what Read hands to the application is part of what is emitted.
func readOne(em *emitted, r1 *hk.Remote, raw []byte, reuse bool, rbuf []byte) {
	if reuse {
		r1.Buf = rbuf
	} else {
		r1.Buf = make([]byte, 1500)
	}
	n, _, err := r1.ReadRTP(raw)
	if err == nil && n >= 0 && n <= len(r1.Buf) {
		em.rtp = append(em.rtp, fmt.Sprintf("read:%x", r1.Buf[:n]))
	} else {
		em.rtp = append(em.rtp, fmt.Sprintf("read-error:%v", err != nil))
	}
	if reuse {
		for j := range rbuf {
			rbuf[j] = 0xDD
		}
	}
}

func deref[T any](p *T) any {
	if p == nil {
		return nil
	}
	return *p
}

func readRTCP(s *hk.Session, raw []byte, reuse bool, buf []byte) {
	if reuse {
		s.RTCPBuf = buf
		_, _, _ = s.ReadRTCP(raw)
		for j := range buf {
			buf[j] = 0xCC
		}
		return
	}
	s.RTCPBuf = make([]byte, 1500)
	_, _, _ = s.ReadRTCP(raw)
}

// copyHeaderInto overwrites *dst with a deep copy of src that reuses dst's slices where they are large enough.
func copyHeaderInto(dst, src *rtp.Header) {
	csrc := append(dst.CSRC[:0], src.CSRC...)
	*dst = src.Clone()
	dst.CSRC = csrc
}

// scribbleHeader changes every field and every slice element of the caller's header in place.
func scribbleHeader(h *rtp.Header) {
	for j := range h.CSRC {
		h.CSRC[j] = 0xEEEEEEEE
	}
	for _, id := range h.GetExtensionIDs() {
		p := h.GetExtension(id)
		for j := range p {
			p[j] = 0xEE
		}
	}
	h.Marker = !h.Marker
	h.PayloadType = 0x7E
	h.SequenceNumber = 0xEEEE
	h.Timestamp = 0xEEEEEEEE
	h.SSRC = 0xEEEEEEEE
}

type replay struct {
	Config  config   `json:"config"`
	History []string `json:"history"`
	Syms    []int    `json:"syms"`
}

func describe(c config, h []int) replay {
	r := replay{Config: c, Syms: h}
	for _, a := range h {
		r.History = append(r.History, symNames[a])
	}
	return r
}

func exec(c config, hist []int) hk.Step {
	var st hk.Step
	a, ra := run(c, hist, false)
	b, rb := run(c, hist, true)
	for _, res := range []*vsched.Result{ra, rb} {
		switch {
		case len(res.Panics) > 0:
			// crashes belong to C02; a history that crashes cannot be compared
			st.Dead = true
			return st
		case res.StepLimit || res.Deadlock || len(res.Failures) > 0:
			st.Dead = true
			return st
		}
	}
	sa, sb := a.String(), b.String()
	st.Outcome = fmt.Sprintf("%d/%d/%d", len(a.rtp), len(a.rtcp), len(a.dumpR))
	st.Nontrivial = len(a.rtp)+len(a.rtcp)+len(a.dumpR) > 0
	st.Key = hk.HashInts(int64(len(sa))) ^ hashString(sa)
	switch {
	case a.err != "" || b.err != "":
		st.Violation = &hk.Violation{Key: "C13:" + c.Kind + ":payload-written-by-interceptor", Message: a.err + b.err, Replay: describe(c, hist)}
	case sa != sb:
		what := "rtp"
		switch {
		case fmt.Sprint(a.rtp) != fmt.Sprint(b.rtp):
			what = "rtp-at-transport"
		case fmt.Sprint(a.rtcp) != fmt.Sprint(b.rtcp):
			what = "rtcp-at-transport"
		case a.dumpR != b.dumpR:
			what = "rtp-dump"
		case a.dumpC != b.dumpC:
			what = "rtcp-dump"
		case a.stats != b.stats:
			what = "stats"
		case a.log != b.log:
			what = "log"
		}
		st.Violation = &hk.Violation{Key: "C13:" + c.Kind + ":emitted-" + what + "-depends-on-caller-memory-after-return",
			Message: fmt.Sprintf("what the interceptor emitted differs between the run with fresh buffers and the run where the caller reused and overwrote its header/payload/read buffer right after each call returned (%s):\n--- fresh\n%.1500s\n--- reused\n%.1500s", what, sa, sb),
			Replay:  describe(c, hist)}
	}
	return st
}

func hashString(s string) uint64 {
	h := uint64(14695981039346656037)
	for i := 0; i < len(s); i++ {
		h ^= uint64(s[i])
		h *= 1099511628211
	}
	return h
}

func configs(tier string) []config {
	var out []config
	d := 4
	if tier == "thorough" {
		d = 5
	}
	for _, k := range hk.Kinds() {
		for v := 0; v < k.Variants; v++ {
			if k.Name == "nack-responder" && v == 2 {
				continue // DisableCopy is the documented exception
			}
			out = append(out, config{Kind: k.Name, Variant: v, Depth: d})
		}
	}
	return out
}

func init() {
	hk.Register(&hk.Check{
		ID: "C13",
		Rule: "E2 differential search: for every interceptor (every option variant except the responder's documented DisableCopy) all histories up to the depth over 11 symbols (writes of three header shapes and of a 1461-byte payload, reads of two, RTCP NACK-for-everything-sent / TWCC, application RTCP write, tick, drain) are executed twice - fresh allocations per call vs. one header/payload/read buffer reused and overwritten right after each call returns, with the application thread scheduled ahead of the interceptor's goroutines - " +
			"and everything emitted (packets at the transport, dumps, statistics) must be identical, the payload unchanged at return; a history is non-trivial if anything was emitted; states are distinct emitted transcripts",
		Assumptions: []string{"vsched model (litmus suite)", "in-place modification of the caller's header during the call (the transport-cc extension) is not judged"},
		Jobs: func(tier string) []string {
			var n []string
			for _, c := range configs(tier) {
				b, _ := json.Marshal(c)
				n = append(n, string(b))
			}
			return n
		},
		Run: func(tier string, i int, deadline time.Time) *hk.JobResult {
			c := configs(tier)[i]
			r := &hk.JobResult{Exhaustive: true, Bounds: map[string]any{"depth": c.Depth, "alphabet": len(symNames)}}
			seen := map[uint64]bool{}
			s := &hk.Search{Alphabet: len(symNames), Depth: c.Depth, Dedup: false, Deadline: deadline,
				Exec: func(h []int) hk.Step {
					st := exec(c, h)
					seen[st.Key] = true
					return st
				},
				Describe: func(h []int) any { return describe(c, h) }}
			st := s.Run()
			st.States = int64(len(seen))
			st.Fill(r)
			return r
		},
		Replay: func(raw json.RawMessage) string {
			var rp replay
			if err := json.Unmarshal(raw, &rp); err != nil {
				return "bad replay"
			}
			if st := exec(rp.Config, rp.Syms); st.Violation != nil {
				return st.Violation.Message
			}
			return ""
		},
		Bounds: func(tier string) map[string]any {
			return map[string]any{"configurations": len(configs(tier)), "alphabet": len(symNames)}
		},
	})
}
