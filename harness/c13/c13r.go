package c13

import (
	"encoding/json"
	"time"

	"github.com/pion/interceptor"
	"github.com/pion/interceptor/verifh/hk"
	"github.com/pion/interceptor/vsched"
	"github.com/pion/rtp"
)

type rscen struct {
	Kind    string `json:"kind"`
	Variant int    `json:"variant"`
	Dir     string `json:"direction"` // "w": caller writes and scribbles, "r": caller reads and scribbles
	NACK    bool   `json:"nack_thread,omitempty"`
	Horizon int    `json:"horizon"`
	Bound   int    `json:"deviation_bound"`
}

func (c rscen) name() string { b, _ := json.Marshal(c); return string(b) }

func rbody(c rscen, ctx *hk.Ctx) {
	k := hk.KindByName(c.Kind)
	i, x, err := k.New(c.Variant)
	if err != nil {
		ctx.Fail("C13:setup", "%v", err)
		return
	}
	s := hk.NewSession(i, x)
	s.BindRTCPWriter()
	s.BindRTCPReader()
	var ths []*vsched.Thread
	if c.Dir == "w" {
		l1 := s.BindLocal(1, true)
		ths = append(ths, vsched.GoApp("caller", func() {
			hdr := &rtp.Header{}
			payload := make([]byte, 0, 1500)
			for n := 0; n < 2; n++ {
				q := uint16(1001 + n)
				h, p := hk.Shape(n*3, l1.Info.SSRC, q, uint32(q)*3000)
				_ = h.SetExtension(hk.TwccExtID, []byte{byte(q >> 8), byte(q)})
				copyHeaderInto(hdr, &h)
				payload = append(payload[:0], p...)
				_, _ = l1.W.Write(hdr, payload, interceptor.Attributes{})
				// the call has returned: the caller reuses its memory
				scribbleHeader(hdr)
				for j := range payload {
					payload[j] = 0xEE
				}
			}
		}))
		if c.NACK {
			rd, set := s.NewRTCPReader()
			ths = append(ths, vsched.GoApp("rtcp", func() {
				set(hk.RawNACK(l1.Info.SSRC, 1001, 1002))
				buf := make([]byte, 1500)
				_, _, _ = rd.Read(buf, nil)
				for j := range buf {
					buf[j] = 0xCC
				}
			}))
		}
	} else {
		r1 := s.BindRemote(1, true)
		ths = append(ths, vsched.GoApp("caller", func() {
			buf := make([]byte, 1500)
			r1.Buf = buf
			for n := 0; n < 2; n++ {
				q := uint16(2002 + 2*n)
				h, p := hk.Shape(n*4, r1.Info.SSRC, q, uint32(q)*3000)
				_ = h.SetExtension(hk.TwccExtID, []byte{byte(q >> 8), byte(q)})
				_, _, _ = r1.ReadRTP(hk.MarshalRTP(h, p))
				for j := range buf {
					buf[j] = 0xDD
				}
			}
		}))
	}
	for _, t := range ths {
		t.Join()
	}
	_ = i.Close()
	vsched.Quiesce()
	vsched.AcquireFinished()
	ctx.Outcome("rtp=%d rtcp=%d", len(s.T.RTP), len(s.T.RTCP))
}

func rscenarios(tier string) []rscen {
	b := 3
	if tier == "thorough" {
		b = 4
	}
	var out []rscen
	add := func(kind string, variant int, dir string, nack bool, horizon int) {
		out = append(out, rscen{Kind: kind, Variant: variant, Dir: dir, NACK: nack, Horizon: horizon, Bound: b})
	}
	add("nack-responder", 0, "w", true, 0)
	add("nack-responder", 1, "w", true, 0)
	add("flexfec", 0, "w", false, 0)
	add("cc-gcc-leaky-bucket", 0, "w", false, 2)
	add("pacing", 0, "w", false, 2)
	add("packetdump-sender", 0, "w", false, 0)
	add("packetdump-sender", 1, "w", false, 0)
	add("packetdump-receiver", 0, "r", false, 0)
	add("packetdump-receiver", 1, "r", false, 0)
	add("stats", 0, "w", false, 0)
	add("stats", 0, "r", false, 0)
	add("twcc-sender", 0, "r", false, 1)
	add("rfc8888", 0, "r", false, 1)
	add("jitterbuffer", 0, "r", false, 0)
	add("rtpfb", 0, "w", false, 0)
	add("sender-report", 0, "w", false, 1)
	add("receiver-report", 0, "r", false, 1)
	add("nack-generator", 0, "r", false, 1)
	add("cc-gcc-noop-pacer", 0, "w", false, 0)
	return out
}

func rscenario(c rscen) *hk.Scenario {
	return &hk.Scenario{ID: "C13", Name: c.name(), MaxBound: c.Bound, Horizon: c.Horizon, MaxSteps: 400000, Body: func(ctx *hk.Ctx) { rbody(c, ctx) }}
}

func init() {
	hk.Register(&hk.Check{
		ID:          "C13R",
		Rule:        "E1 schedule exploration (-race): a caller thread that issues two writes (or reads) through the interceptor from ONE reused header/payload/read buffer and overwrites them as soon as each call has returned, racing the interceptor's goroutines (loggers, pacers, recorders, resend goroutines) and timer firings; a read of caller memory after the call returned is a data race with the caller's overwrite and is reported by the race detector on the schedule where it happens; every schedule is non-trivial",
		Assumptions: []string{"vsched model and race annotations (litmus suite)"},
		Jobs: func(tier string) []string {
			var n []string
			for _, c := range rscenarios(tier) {
				n = append(n, c.name())
			}
			return n
		},
		Run: func(tier string, i int, deadline time.Time) *hk.JobResult {
			r := &hk.JobResult{Exhaustive: true}
			rscenario(rscenarios(tier)[i]).Explore(deadline, r)
			return r
		},
		Replay: func(raw json.RawMessage) string {
			var rp hk.E1Replay
			if err := json.Unmarshal(raw, &rp); err != nil {
				return "bad replay"
			}
			var c rscen
			if err := json.Unmarshal([]byte(rp.Scenario), &c); err != nil {
				return "bad scenario"
			}
			return rscenario(c).ReplaySchedule(rp.Schedule)
		},
		Bounds: func(tier string) map[string]any { return map[string]any{"scenarios": len(rscenarios(tier))} },
	})
}
