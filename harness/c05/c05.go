// Package c05 decides property C05 (TWCC feedback reports exactly what was
// received, in valid wire form). Four parts share one reference model and one
// independent wire decoder:
//
//	packer       E3: every status string over {small delta, large delta, lost} up to a length, one build
//	runs         E3: every sequence of up to k runs (symbol, length) with lengths at the chunk capacities
//	history      E2: explicit-state search over Rec(dseq, dt) / Build histories on twcc.Recorder
//	interceptor  E2: the same kind of histories through twcc.SenderInterceptor under the virtual ticker
package c05

import (
	"encoding/json"
	"fmt"
	"strings"
	"time"

	"github.com/pion/interceptor/pkg/twcc"
	"github.com/pion/interceptor/verifh/hk"
	"github.com/pion/interceptor/vsched"
	"github.com/pion/rtcp"
)

const (
	senderSSRC = 0x5EED0001
	mediaSSRC  = 0x0BADCAFE
)

// spec is one job; it is also the replay description together with the case.
type spec struct {
	Part string `json:"part"`
	// packer / runs
	Flavour int    `json:"flavour,omitempty"`
	Prefix  string `json:"prefix,omitempty"`
	MaxLen  int    `json:"max_len,omitempty"`
	Runs    int    `json:"runs,omitempty"`
	Lens    []int  `json:"lens,omitempty"`
	First   []int  `json:"first,omitempty"` // shard: first run / first symbols
	// history / interceptor
	Start uint16 `json:"start,omitempty"`
	T0    int64  `json:"t0_us,omitempty"`
	Depth int    `json:"depth,omitempty"`
	DS    []int  `json:"dseq,omitempty"` // indices into dseqs
	DT    []int  `json:"dt,omitempty"`   // indices into dts
}

// ---------------------------------------------------------------------------
// shared: marshal, parse back, run the oracle on one build

func marshalAll(pkts []rtcp.Packet) ([][]byte, *failure) {
	raws := make([][]byte, 0, len(pkts))
	for i, p := range pkts {
		if _, ok := p.(*rtcp.TransportLayerCC); !ok {
			return nil, failf("not-a-twcc-packet", "packet %d of the build is a %T", i, p)
		}
		b, err := p.Marshal()
		if err != nil {
			return nil, failf("marshal-error", "packet %d of the build does not marshal: %v", i, err)
		}
		raws = append(raws, b)
	}
	return raws, nil
}

// parseBack is the additional fact: pion/rtcp accepts the bytes and sees the same packet as the independent decoder.
func parseBack(raw []byte, w *wirePacket) *failure {
	var t rtcp.TransportLayerCC
	if err := t.Unmarshal(raw); err != nil {
		return failf("does-not-parse-back", "rtcp Unmarshal rejects the marshalled packet (%v); independent decoder: base %d count %d chunks %s deltas %d; bytes %x",
			err, w.Base, w.Count, clipSig(w.Chunks), len(w.DeltaUS), clipBytes(raw))
	}
	if t.BaseSequenceNumber != w.Base || int(t.PacketStatusCount) != w.Count || t.ReferenceTime != w.RefTime || t.FbPktCount != w.FbCount {
		return failf("parse-back-differs", "rtcp Unmarshal reads base %d count %d ref %d fb %d, independent decoder base %d count %d ref %d fb %d",
			t.BaseSequenceNumber, t.PacketStatusCount, t.ReferenceTime, t.FbPktCount, w.Base, w.Count, w.RefTime, w.FbCount)
	}
	if len(t.RecvDeltas) != len(w.DeltaUS) {
		return failf("parse-back-differs", "rtcp Unmarshal finds %d deltas, independent decoder %d (count %d chunks %s); bytes %x", len(t.RecvDeltas), len(w.DeltaUS), w.Count, clipSig(w.Chunks), clipBytes(raw))
	}
	for i, d := range t.RecvDeltas {
		if d.Delta != w.DeltaUS[i] {
			return failf("parse-back-differs", "rtcp Unmarshal reads delta %d as %d us, independent decoder %d us", i, d.Delta, w.DeltaUS[i])
		}
	}
	return nil
}

func (m *model) checkBuild(pkts []rtcp.Packet) (*buildInfo, *failure) {
	raws, f := marshalAll(pkts)
	if f != nil {
		return &buildInfo{}, f
	}
	return m.build(raws, parseBack)
}

func outcomeOf(info *buildInfo) string {
	n := info.Packets
	if n > 3 {
		n = 3
	}
	if info.Shadow {
		return fmt.Sprintf("p%d:%s+ignored-duplicate", n, info.Sig)
	}
	return fmt.Sprintf("p%d:%s", n, info.Sig)
}

func runFailure(res *vsched.Result) string {
	switch {
	case len(res.Panics) > 0:
		return "panic: " + res.Panics[0].Value + "\n" + res.Panics[0].Stack
	case res.Deadlock:
		return fmt.Sprintf("deadlock: %+v", res.Blocked)
	case res.StepLimit:
		return "step budget exceeded (loops forever?): " + res.StepWhere
	case len(res.Failures) > 0:
		return res.Failures[0]
	case len(res.Blocked) > 0:
		return fmt.Sprintf("goroutines still alive at the end: %+v", res.Blocked)
	}
	return ""
}

// ---------------------------------------------------------------------------
// E3: packer

type flavour struct {
	Name         string
	Start        uint16
	T0           int64
	Small, Large int64 // time step (us) of a packet meant to be received with a small / large delta
}

var flavours = []flavour{
	{"plain: +1 ms / +70 ms", 65530, 1_000_000, 1_000, 70_000},
	{"zero delta / time goes back 1 ms", 65530, 1_000_000, 0, -1_000},
	{"small-large edge: +63.75 ms / +64 ms", 100, 5_000_000, 63_750, 64_000},
	{"rounding drift +380 us / largest 2-byte delta +8191.874 ms", 65530, 777_777, 380, 8_191_874},
	{"+120 us / +8192 ms does not fit: every large step splits the packet", 32760, 1_000_000, 120, 8_192_000},
	{"+250 us / smallest 2-byte delta -8192 ms", 65530, 100_000_000_000, 250, -8_192_000},
	{"+90 us / -8192.13 ms does not fit: split on negative overflow", 0, 100_000_000_000, 90, -8_192_130},
	{"plain steps across the 24-bit reference time wrap", 65530, refModUS - 200_000, 1_000, 70_000},
}

type e3case struct {
	Spec spec     `json:"job"`
	Str  string   `json:"string,omitempty"`   // S small, L large, X lost
	Runs [][2]int `json:"run_list,omitempty"` // (symbol 0=S 1=L 2=X, length)
}

// stringBody: anchor packet + build, then the string as consecutive numbers, then one build.
func stringBody(fl flavour, sym func(i int) byte, n int) (out string, fail *failure, nontrivial bool) {
	r := twcc.NewRecorder(senderSSRC)
	m := newModel()
	seq, t := fl.Start-1, fl.T0
	r.Record(mediaSSRC, seq, t)
	m.record(seq, t)
	if _, f := m.checkBuild(r.BuildFeedbackPacket()); f != nil {
		return "", f, false
	}
	for i := 0; i < n; i++ {
		seq++
		switch sym(i) {
		case 'S':
			t += fl.Small
		case 'L':
			t += fl.Large
		default:
			continue
		}
		r.Record(mediaSSRC, seq, t)
		m.record(seq, t)
	}
	info, f := m.checkBuild(r.BuildFeedbackPacket())
	return outcomeOf(info), f, info.Packets > 0
}

// execString runs one case in an execution of its own.
func execString(fl flavour, sym func(i int) byte, n int) (out string, fail *failure, nontrivial bool) {
	res := vsched.Run(vsched.Options{Strategy: vsched.BackgroundFirst{}, MaxSteps: 50_000_000}, func() {
		out, fail, nontrivial = stringBody(fl, sym, n)
	})
	if fail == nil {
		if msg := runFailure(res); msg != "" {
			fail = &failure{"C05:runtime", msg}
		}
	}
	return
}

type caseResult struct {
	out  string
	fail *failure
	nt   bool
}

// execBatch runs several cases (each on a fresh recorder) inside one controlled execution; if that execution
// panics or exceeds its step budget, the cases are re-run one per execution so that the culprit is identified.
func execBatch(n int, one func(i int) caseResult, solo func(i int) caseResult) []caseResult {
	out := make([]caseResult, n)
	res := vsched.Run(vsched.Options{Strategy: vsched.BackgroundFirst{}, MaxSteps: 400_000_000}, func() {
		for i := 0; i < n; i++ {
			out[i] = one(i)
		}
	})
	if runFailure(res) != "" {
		for i := 0; i < n; i++ {
			out[i] = solo(i)
		}
	}
	return out
}

// e3run is the shared bookkeeping of the two E3 parts: cases are collected into batches and executed.
type e3run struct {
	sp       spec
	fl       flavour
	r        *hk.JobResult
	deadline time.Time
	batch    int
	pend     [][][2]int // pending cases as run lists (a status string is a list of runs of length 1)
	vkeys    map[string]bool
	count    int64
	stop     bool
}

func runsString(rs [][2]int) string {
	var b strings.Builder
	for _, x := range rs {
		fmt.Fprintf(&b, "%c*%d ", "SLX"[x[0]], x[1])
	}
	return strings.TrimSpace(b.String())
}

func plainString(rs [][2]int) string {
	var b strings.Builder
	for _, x := range rs {
		for i := 0; i < x[1]; i++ {
			b.WriteByte("SLX"[x[0]])
		}
	}
	return b.String()
}

// symOf returns the symbol function and length of a run list.
func symOf(rs [][2]int) (func(i int) byte, int) {
	n := 0
	ends := make([]int, len(rs))
	for i, x := range rs {
		n += x[1]
		ends[i] = n
	}
	k := 0
	return func(i int) byte {
		if i == 0 {
			k = 0
		}
		for i >= ends[k] {
			k++
		}
		return "SLX"[rs[k][0]]
	}, n
}

func (e *e3run) describe(rs [][2]int) (string, e3case) {
	if e.sp.Part == "packer" {
		str := plainString(rs)
		return fmt.Sprintf("status string %q", str), e3case{Spec: spec{Part: "packer", Flavour: e.sp.Flavour}, Str: str}
	}
	return "runs " + runsString(rs), e3case{Spec: spec{Part: "runs", Flavour: e.sp.Flavour}, Runs: rs}
}

func (e *e3run) add(rs [][2]int) {
	e.pend = append(e.pend, append([][2]int(nil), rs...))
	if len(e.pend) >= e.batch {
		e.flush()
	}
}

func (e *e3run) flush() {
	if len(e.pend) == 0 || e.stop {
		e.pend = e.pend[:0]
		return
	}
	if !e.deadline.IsZero() && time.Now().After(e.deadline) {
		e.stop = true
		return
	}
	res := execBatch(len(e.pend), func(i int) caseResult {
		sym, n := symOf(e.pend[i])
		o, f, nt := stringBody(e.fl, sym, n)
		return caseResult{o, f, nt}
	}, func(i int) caseResult {
		sym, n := symOf(e.pend[i])
		o, f, nt := execString(e.fl, sym, n)
		return caseResult{o, f, nt}
	})
	r := e.r
	for i, cr := range res {
		rs := e.pend[i]
		_, n := symOf(rs)
		e.count++
		r.Executions++
		r.Transitions += int64(n) + 2
		r.States++
		if cr.nt {
			r.Nontrivial++
		}
		if len(r.Outcomes) < 2048 || r.Outcomes[cr.out] > 0 {
			r.Outcomes[cr.out]++
		}
		if f := cr.fail; f != nil && !e.vkeys[f.Key] && len(e.vkeys) < 8 {
			e.vkeys[f.Key] = true
			txt, c := e.describe(rs)
			r.Violations = append(r.Violations, hk.Violation{Key: f.Key, Message: fmt.Sprintf("%s, %s: %s", txt, e.fl.Name, f.Msg), Replay: c})
		}
		if len(r.Samples) < 2 && (e.count == 1 || e.count == 3000) {
			_, c := e.describe(rs)
			r.Samples = append(r.Samples, c)
		}
	}
	e.pend = e.pend[:0]
}

func (e *e3run) finish(what string) {
	e.flush()
	if e.stop {
		e.r.Exhaustive = false
		e.r.Notes = append(e.r.Notes, fmt.Sprintf("deadline reached after %d %s of this shard", e.count, what))
	}
}

func runPacker(sp spec, deadline time.Time, r *hk.JobResult) {
	r.Outcomes = map[string]int{}
	e := &e3run{sp: sp, fl: flavours[sp.Flavour], r: r, deadline: deadline, batch: 512, vkeys: map[string]bool{}}
	var cur [][2]int
	// all strings of exactly the given length that extend the prefix (shorter than the prefix: all strings)
	var gen func(length int)
	gen = func(length int) {
		if e.stop {
			return
		}
		if len(cur) == length {
			if cur[len(cur)-1][0] != 2 { // a trailing loss cannot be observed: same case as the shorter string
				e.add(cur)
			}
			return
		}
		for s := 0; s < 3; s++ {
			if len(cur) < len(sp.Prefix) && sp.Prefix[len(cur)] != "SLX"[s] {
				continue
			}
			cur = append(cur, [2]int{s, 1})
			gen(length)
			cur = cur[:len(cur)-1]
		}
	}
	first := sp.Prefix == strings.Repeat("S", len(sp.Prefix))
	for n := 1; n <= sp.MaxLen; n++ {
		if n < len(sp.Prefix) {
			if !first { // strings shorter than the prefix belong to the first shard
				continue
			}
			save := sp.Prefix
			sp.Prefix = ""
			gen(n)
			sp.Prefix = save
			continue
		}
		gen(n)
	}
	e.finish("strings")
}

// ---------------------------------------------------------------------------
// E3: runs

func runRuns(sp spec, deadline time.Time, r *hk.JobResult) {
	r.Outcomes = map[string]int{}
	batch := 256
	for _, l := range sp.Lens {
		if l > 1000 {
			batch = 8
		}
	}
	e := &e3run{sp: sp, fl: flavours[sp.Flavour], r: r, deadline: deadline, batch: batch, vkeys: map[string]bool{}}
	var cur [][2]int
	var rec func()
	rec = func() {
		if e.stop {
			return
		}
		if len(cur) > 0 && cur[len(cur)-1][0] != 2 {
			e.add(cur)
		}
		if len(cur) == sp.Runs {
			return
		}
		for s := 0; s < 3; s++ {
			if len(cur) == 0 && s != sp.First[0] {
				continue
			}
			if len(cur) > 0 && cur[len(cur)-1][0] == s {
				continue // two adjacent runs of one symbol are one run of another length
			}
			for li, l := range sp.Lens {
				if len(cur) == 0 && len(sp.First) > 1 && li != sp.First[1] {
					continue
				}
				cur = append(cur, [2]int{s, l})
				rec()
				cur = cur[:len(cur)-1]
			}
		}
	}
	rec()
	e.finish("run lists")
}

// ---------------------------------------------------------------------------
// E2: histories

var dseqs = []int{+1, +2, +15, 0, -1, -3, +0x2001, +0x7FFE, +0x7FFF, +0x8001, +600, +1500, +150, +151, +300, -100, -129, -257} // from index 10 on: scripted histories only
var dts = []int64{0, 100, 300, 64_000, 8_200_000, 600_000, -1_000, -8_200_000, 180_000_000, 400_000}                           // index 9: scripted histories only

const symBuild = 1000

// shrinkScripts: first packet; a jump of 600/1500 numbers 400 ms later; 150/151/300 more 300 us later; Build;
// the next number 400 ms later (the first packet leaves the history, the ring shrinks); a late packet 3 / 100
// numbers back; Build.
func shrinkScripts() [][]int {
	sym := func(ds, dt int) int { return ds*len(dts) + dt }
	var out [][]int
	for _, j1 := range []int{10, 11} {
		for _, j2 := range []int{12, 13, 14} {
			for _, late := range []int{5, 15, 16, 17} { // -3, -100, and one ring size (128 / 256) behind a received packet
				out = append(out, []int{sym(0, 2), sym(j1, 9), sym(j2, 2), symBuild, sym(0, 9), sym(late, 2), symBuild})
			}
		}
	}
	return out
}

func symName(a int) string {
	if a == symBuild {
		return "Build"
	}
	ds, dt := dseqs[a/len(dts)], dts[a%len(dts)]
	return fmt.Sprintf("Rec(%+d,%+dus)", ds, dt)
}

func (sp spec) alphabet() []int {
	var al []int
	for _, s := range sp.DS {
		for _, t := range sp.DT {
			al = append(al, s*len(dts)+t)
		}
	}
	return append(al, symBuild)
}

// allowed removes steps that would make the absolute arrival time negative (not in the quantifier).
func (sp spec) allowed(al []int) func(h []int) []int {
	return func(h []int) []int {
		t := sp.T0
		for _, a := range h {
			if a != symBuild {
				t += dts[a%len(dts)]
			}
		}
		var out []int
		for _, a := range al {
			if len(h) == 0 && len(sp.First) > 0 && !contains(sp.First, a) {
				continue
			}
			if a != symBuild && t+dts[a%len(dts)] < 0 {
				continue
			}
			out = append(out, a)
		}
		return out
	}
}

func contains(l []int, a int) bool {
	for _, x := range l {
		if x == a {
			return true
		}
	}
	return false
}

type e2case struct {
	Spec    spec     `json:"job"`
	Syms    []int    `json:"syms"`
	History []string `json:"history"`
}

func describeHist(sp spec, h []int) e2case {
	c := e2case{Spec: sp, Syms: append([]int(nil), h...)}
	c.Spec.First = nil
	seq, t := sp.Start-1, sp.T0
	for _, a := range h {
		if a == symBuild {
			if sp.Part == "interceptor" {
				t += interval.Microseconds()
				c.History = append(c.History, "Advance(100 ms)")
			} else {
				c.History = append(c.History, "Build")
			}
			continue
		}
		seq += uint16(dseqs[a/len(dts)])
		t += dts[a%len(dts)]
		c.History = append(c.History, fmt.Sprintf("Record(seq %d, %d us)", seq, t))
	}
	return c
}

func execHistory(sp spec, hist []int) hk.Step {
	var step hk.Step
	res := vsched.Run(vsched.Options{Strategy: vsched.BackgroundFirst{}, MaxSteps: 20_000_000}, func() {
		r := twcc.NewRecorder(senderSSRC)
		m := newModel()
		seq, t := sp.Start-1, sp.T0
		for i, a := range hist {
			last := i == len(hist)-1
			if a != symBuild {
				seq += uint16(dseqs[a/len(dts)])
				t += dts[a%len(dts)]
				r.Record(mediaSSRC, seq, t)
				m.record(seq, t)
				if last {
					// Probe: a violation can only be observed at a build, so every history that ends in a record is
					// closed by one build that is checked but is not part of the state that gets extended.
					info, f := m.checkBuild(r.BuildFeedbackPacket())
					if f != nil {
						step.Violation = &hk.Violation{Key: f.Key, Message: f.Msg, Replay: describeHist(sp, append(append([]int(nil), hist...), symBuild))}
						return
					}
					step.Outcome = outcomeOf(info)
					step.Nontrivial = info.Packets > 0
				}
				continue
			}
			info, f := m.checkBuild(r.BuildFeedbackPacket())
			if f != nil {
				if last {
					step.Violation = &hk.Violation{Key: f.Key, Message: f.Msg, Replay: describeHist(sp, hist)}
				} else {
					step.Dead = true // the prefix failed when it was explored itself
				}
				return
			}
			if last {
				step.Outcome = outcomeOf(info)
				step.Nontrivial = info.Packets > 0
				// A build that directly follows a build (or the start) and produces nothing leaves the recorder
				// as it was: the state is the one of the shorter history, which is explored.
				if info.Packets == 0 && (i == 0 || hist[i-1] == symBuild) {
					step.Dead = true
				}
			}
		}
	})
	if step.Violation == nil {
		if msg := runFailure(res); msg != "" {
			step.Violation = &hk.Violation{Key: "C05:runtime", Message: msg, Replay: describeHist(sp, hist)}
		}
	}
	return step
}

func runSearch(sp spec, deadline time.Time, r *hk.JobResult, exec func(spec, []int) hk.Step) {
	al := sp.alphabet()
	s := &hk.Search{Alphabet: len(al), Depth: sp.Depth, Dedup: true, Deadline: deadline,
		Allowed:  sp.allowed(al),
		Exec:     func(h []int) hk.Step { return exec(sp, h) },
		Describe: func(h []int) any { return describeHist(sp, h) }}
	st := s.Run()
	st.Fill(r)
	r.Bounds["symbols"] = len(al)
}

// ---------------------------------------------------------------------------
// jobs

func allIdx(n int) []int {
	l := make([]int, n)
	for i := range l {
		l[i] = i
	}
	return l
}

func specs(tier string) []spec {
	var out []spec
	thorough := tier == "thorough"
	// packer
	for f := range flavours {
		l, plen := 11, 2
		switch {
		case thorough && f < 2:
			l, plen = 16, 4
		case thorough:
			l, plen = 14, 3
		case f < 2:
			l = 12
		}
		for _, p := range prefixes(plen) {
			out = append(out, spec{Part: "packer", Flavour: f, Prefix: p, MaxLen: l})
		}
	}
	// runs
	short := []int{1, 2, 6, 7, 8, 13, 14, 15}
	long := []int{1, 7, 14, 8190, 8191, 8192}
	for f := range flavours {
		for s := 0; s < 3; s++ {
			if thorough || f < 2 {
				out = append(out, spec{Part: "runs", Flavour: f, Runs: 4, Lens: short, First: []int{s}})
			} else {
				out = append(out, spec{Part: "runs", Flavour: f, Runs: 3, Lens: short, First: []int{s}})
			}
			if thorough || f == 0 || f == 4 {
				for li := range long { // the long runs are slow: one shard per first run
					out = append(out, spec{Part: "runs", Flavour: f, Runs: 3, Lens: long, First: []int{s, li}})
				}
			}
		}
	}
	out = append(out, historySpecs(thorough)...)
	out = append(out, icptSpecs(thorough)...)
	return out
}

func prefixes(n int) []string {
	l := []string{""}
	for i := 0; i < n; i++ {
		var nl []string
		for _, p := range l {
			for _, c := range "SLX" {
				nl = append(nl, p+string(c))
			}
		}
		l = nl
	}
	return l
}

type startPoint struct {
	seq uint16
	t0  int64
}

var startPoints = []startPoint{{0, 0}, {65530, 1_000_000_000}, {32760, refModUS - 300_000}}

func historySpecs(thorough bool) []spec {
	var out []spec
	for _, st := range startPoints {
		out = append(out, spec{Part: "script", Start: st.seq, T0: st.t0})
	}
	allS, allT := allIdx(10), allIdx(7) // the seven steps of DESIGN.md; -8.2 s and +3 min are used in one thorough job set only
	near := []int{0, 1, 3, 4, 5}        // +1 +2 0 -1 -3
	jumps := []int{0, 4, 6, 7}          // +1 -1 +0x2001 +0x7FFE with {+300 us, +600 ms}: growing, culling and shrinking the arrival map
	for i, st := range startPoints {
		h := func(depth int, ds, dt []int, shards int) {
			out = append(out, shard(spec{Part: "history", Start: st.seq, T0: st.t0, Depth: depth, DS: ds, DT: dt}, shards)...)
		}
		if !thorough {
			h(2, allS, allT, 1)           // full product alphabet
			h(3, allS, []int{2, 5, 4}, 4) // every jump x {+300 us, +600 ms (cull horizon), +8.2 s (delta overflow)}
			if i == 1 {
				h(4, near, allT, 12) // reordering/duplicates around the cursor x every time step
				h(5, jumps, []int{2, 5}, 9)
			} else {
				h(3, near, allT, 1)
				h(4, jumps, []int{2, 5}, 3)
			}
			continue
		}
		h(3, allS, allT, 24)
		h(4, allS, []int{2, 5, 4}, 31)
		if i == 1 {
			h(5, near, allT, 36)
		} else {
			h(4, near, allT, 12)
		}
		if i == 1 {
			h(6, jumps, []int{2, 5}, 27)
		} else {
			h(5, jumps, []int{2, 5}, 9)
		}
		if i > 0 {
			h(4, near, []int{2, 4, 5, 6, 7, 8}, 8) // with -8.2 s (split on negative delta overflow) and +3 min
		}
	}
	return out
}

// shard splits a search job by its first symbol into n groups.
func shard(sp spec, n int) []spec {
	if n <= 1 {
		return []spec{sp}
	}
	al := sp.alphabet()
	if n > len(al) {
		n = len(al)
	}
	var out []spec
	for g := 0; g < n; g++ {
		s := sp
		for i, a := range al {
			if i%n == g {
				s.First = append(s.First, a)
			}
		}
		out = append(out, s)
	}
	return out
}

func jobs(tier string) []string {
	var names []string
	for _, s := range specs(tier) {
		b, _ := json.Marshal(s)
		names = append(names, string(b))
	}
	return names
}

func run(tier string, i int, deadline time.Time) *hk.JobResult {
	sp := specs(tier)[i]
	r := &hk.JobResult{Exhaustive: true, Bounds: map[string]any{"part": sp.Part}}
	switch sp.Part {
	case "packer":
		r.Bounds["max_len"] = sp.MaxLen
		runPacker(sp, deadline, r)
	case "runs":
		r.Bounds["runs"] = sp.Runs
		r.Bounds["lens"] = sp.Lens
		runRuns(sp, deadline, r)
	case "script":
		// fixed histories that let the arrival-time history grow beyond 512 numbers, lose its old end 500 ms
		// later (the ring shrinks to a range that is not a power of two) and then take a late packet
		n := 0
		for _, h := range shrinkScripts() {
			st := execHistory(sp, h)
			n++
			r.Executions++
			r.States++
			r.Transitions += int64(len(h))
			r.Nontrivial++
			if st.Violation != nil && len(r.Violations) < 4 {
				r.Violations = append(r.Violations, *st.Violation)
			}
		}
		r.Bounds["scripts"] = n
	case "history":
		r.Bounds["depth"] = sp.Depth
		runSearch(sp, deadline, r, execHistory)
	case "interceptor":
		r.Bounds["depth"] = sp.Depth
		runSearch(sp, deadline, r, execIcpt)
	}
	return r
}

func replayFn(raw json.RawMessage) string {
	var probe struct {
		Spec spec `json:"job"`
	}
	if err := json.Unmarshal(raw, &probe); err != nil {
		return "bad replay: " + err.Error()
	}
	switch probe.Spec.Part {
	case "packer":
		var c e3case
		_ = json.Unmarshal(raw, &c)
		fl := flavours[c.Spec.Flavour]
		_, f, _ := execString(fl, func(i int) byte { return c.Str[i] }, len(c.Str))
		if f != nil {
			return fmt.Sprintf("status string %q, %s: %s", c.Str, fl.Name, f.Msg)
		}
	case "runs":
		var c e3case
		_ = json.Unmarshal(raw, &c)
		fl := flavours[c.Spec.Flavour]
		sym, n := symOf(c.Runs)
		_, f, _ := execString(fl, sym, n)
		if f != nil {
			return fmt.Sprintf("runs %s, %s: %s", runsString(c.Runs), fl.Name, f.Msg)
		}
	case "history", "interceptor", "script":
		var c e2case
		_ = json.Unmarshal(raw, &c)
		// every prefix is checked, so that a replay also reports a failure that precedes the last step
		for n := 1; n <= len(c.Syms); n++ {
			var st hk.Step
			if c.Spec.Part == "history" || c.Spec.Part == "script" {
				st = execHistory(c.Spec, c.Syms[:n])
			} else {
				st = execIcpt(c.Spec, c.Syms[:n])
			}
			if st.Violation != nil {
				return st.Violation.Message
			}
		}
	default:
		return "bad replay: unknown part " + probe.Spec.Part
	}
	return ""
}

func init() {
	hk.Register(&hk.Check{
		ID: "C05",
		Rule: "packer (E3): every status string over {received small delta, received large delta, lost} of length 1..L that ends in a received packet, recorded as consecutive numbers after one already reported anchor packet, then one build, " +
			"for 8 time flavours (steps chosen at the 1-byte/2-byte delta edge, the +-8192 ms split edges, zero and negative steps, rounding drift, the 24-bit reference wrap); " +
			"runs (E3): every list of up to k runs (symbol, length) with lengths at the chunk capacities 7/14/8191; " +
			"history (E2): explicit-state search over Rec(dseq,dt)/Build histories on twcc.Recorder from three (sequence, time) starting points; " +
			"interceptor (E2): such histories through twcc.SenderInterceptor with the feedback written on the virtual ticker. " +
			"Every produced packet is marshalled and decoded by an independent decoder and compared with the plain log of records; " +
			"every history that ends in a record is closed by one extra checked build (interceptor: one extra interval), since only a build can show a violation; " +
			"a case is non-trivial if its last build produced at least one feedback packet; a state is the history that reaches it (no merging, except that a build directly after a build that produces nothing is not extended)",
		Assumptions: []string{
			"one-bit status vectors: 0 = not received, 1 = received with small delta (libwebrtc meaning)",
			"sequence numbers are unwrapped by the half-range rule of C20 relative to the previous record; the exact 2^15 tie is not generated",
			"500 ms history: per number the first arrival is held and duplicates of a held number are ignored; an arrival may leave at any record of a higher number whose arrival time is at least 500 ms later (or when the number is 2^15 or more behind the newest), never earlier and never because of a late or duplicate packet below it; when it actually leaves is left free (DESIGN.md section 5, refined: an ignored duplicate never enters the history; outcomes ending in +ignored-duplicate count the cases where this matters)",
			"a later duplicate of a number that an earlier feedback already marked received need not be reported again; numbers 2^15 or more behind the newest need not be reported",
			"absolute arrival times are non-negative",
			"vsched channel/timer model (litmus suite) for the interceptor part",
		},
		Jobs:   jobs,
		Run:    run,
		Replay: replayFn,
		Bounds: func(tier string) map[string]any {
			n := map[string]int{}
			for _, s := range specs(tier) {
				n[s.Part]++
			}
			return map[string]any{"jobs_per_part": n, "flavours": len(flavours), "dseq": dseqs, "dt_us": dts, "tier": tier}
		},
	})
}
