package c05

import (
	"encoding/binary"
	"time"

	"github.com/pion/interceptor"
	"github.com/pion/interceptor/pkg/twcc"
	"github.com/pion/interceptor/verifh/hk"
	"github.com/pion/interceptor/vsched"
	"github.com/pion/rtcp"
)

const (
	tccURI   = "http://www.ietf.org/id/draft-holmer-rmcat-transport-wide-cc-extensions-01"
	tccExtID = 5
	interval = 100 * time.Millisecond
)

// symTick (interceptor part only) lets 100 ms pass without a packet.
const symTick = 1001

// rtpWithTCC builds an RTP packet carrying the transport-wide sequence number in a one-byte header extension (RFC 8285).
func rtpWithTCC(rtpSeq uint16, ssrc uint32, tseq uint16) []byte {
	b := make([]byte, 12+8+4)
	b[0] = 0x90 // V=2, X=1
	b[1] = 96
	binary.BigEndian.PutUint16(b[2:], rtpSeq)
	binary.BigEndian.PutUint32(b[4:], uint32(rtpSeq)*3000)
	binary.BigEndian.PutUint32(b[8:], ssrc)
	b[12], b[13] = 0xBE, 0xDE
	binary.BigEndian.PutUint16(b[14:], 1) // one 32-bit word of extensions
	b[16] = tccExtID<<4 | 1               // id, len-1
	binary.BigEndian.PutUint16(b[17:], tseq)
	b[19] = 0 // padding
	copy(b[20:], []byte{1, 2, 3, 4})
	return b
}

// buildSink is the innermost RTCP writer: every Write is one feedback build.
type buildSink struct {
	builds [][]rtcp.Packet
}

//go:norace
func (s *buildSink) Write(pkts []rtcp.Packet, _ interceptor.Attributes) (int, error) {
	s.builds = append(s.builds, append([]rtcp.Packet(nil), pkts...))
	return len(pkts), nil
}

//go:norace
func (s *buildSink) take() [][]rtcp.Packet {
	b := s.builds
	s.builds = nil
	return b
}

func icptSpecs(thorough bool) []spec {
	var out []spec
	for _, st := range startPoints {
		i := func(depth int, ds, dt []int, shards int) {
			out = append(out, shard(spec{Part: "interceptor", Start: st.seq, Depth: depth, DS: ds, DT: dt}, shards)...)
		}
		// the virtual clock cannot go back: no negative step
		some := []int{0, 1, 3, 4, 5, 7, 9} // +1 +2 0 -1 -3 +0x7FFE +0x8001
		if !thorough {
			i(3, some, []int{0, 2, 5, 4}, 4) // 0, +300 us, +600 ms, +8.2 s
			continue
		}
		i(3, allIdx(len(dseqs)), []int{0, 2, 3, 5, 4}, 8)
		i(4, some, []int{0, 2, 5, 4}, 29)
	}
	return out
}

func execIcpt(sp spec, hist []int) hk.Step {
	var step hk.Step
	res := vsched.Run(vsched.Options{Strategy: vsched.BackgroundFirst{}, MaxSteps: 20_000_000}, func() {
		f, err := twcc.NewSenderInterceptor(twcc.SendInterval(interval))
		if err != nil {
			vsched.Failf("setup: %v", err)
			return
		}
		ic, err := f.NewInterceptor("")
		if err != nil {
			vsched.Failf("setup: %v", err)
			return
		}
		start := vsched.Now()
		sink := &buildSink{}
		ic.BindRTCPWriter(sink)
		feed := &hk.FeedReader{}
		rd := ic.BindRemoteStream(&interceptor.StreamInfo{SSRC: mediaSSRC,
			RTPHeaderExtensions: []interceptor.RTPHeaderExtension{{URI: tccURI, ID: tccExtID}}}, feed)
		m := newModel()
		buf := make([]byte, 1500)
		seq := sp.Start - 1
		var rtpSeq uint16
		fail := func(last bool, f *failure) {
			if last {
				step.Violation = &hk.Violation{Key: f.Key, Message: "through SenderInterceptor: " + f.Msg, Replay: describeHist(sp, hist)}
			} else {
				step.Dead = true
			}
		}
		// drain checks every feedback written since the last call, in order
		drain := func(last bool) bool {
			for _, b := range sink.take() {
				info, f := m.checkBuild(b)
				if f != nil {
					fail(last, f)
					return false
				}
				if last {
					step.Outcome = outcomeOf(info)
					step.Nontrivial = true
				}
			}
			return true
		}
		probe := func() *failure {
			for _, b := range sink.take() {
				info, f := m.checkBuild(b)
				if f != nil {
					return f
				}
				step.Outcome = outcomeOf(info)
				step.Nontrivial = true
			}
			return nil
		}
	loop:
		for i, a := range hist {
			last := i == len(hist)-1
			if a == symBuild {
				a = symTick
			}
			if a == symTick {
				vsched.Advance(interval)
				if !drain(last) {
					break loop
				}
				if last && step.Outcome == "" {
					step.Outcome = "tick:nothing"
				}
				continue
			}
			seq += uint16(dseqs[a/len(dts)])
			vsched.Advance(time.Duration(dts[a%len(dts)]) * time.Microsecond)
			if !drain(last) {
				break loop
			}
			t := vsched.Now().Sub(start).Microseconds()
			rtpSeq++
			feed.Next = rtpWithTCC(rtpSeq, mediaSSRC, seq)
			n, _, err := rd.Read(buf, interceptor.Attributes{})
			if err != nil || n != len(feed.Next) {
				fail(last, failf("interceptor-read", "Read returned n=%d err=%v for a %d-byte packet", n, err, len(feed.Next)))
				break loop
			}
			vsched.Quiesce()
			m.record(seq, t)
			if !drain(last) { // nothing may be written outside a tick
				break loop
			}
			if last {
				// Probe (see execHistory): let one interval pass so that the feedback for this history is written and checked.
				vsched.Advance(interval)
				if f := probe(); f != nil {
					step.Violation = &hk.Violation{Key: f.Key, Message: "through SenderInterceptor: " + f.Msg,
						Replay: describeHist(sp, append(append([]int(nil), hist...), symBuild))}
					break loop
				}
				if step.Outcome == "" {
					step.Outcome = "rec:nothing"
				}
			}
		}
		if err := ic.Close(); err != nil {
			vsched.Failf("Close: %v", err)
		}
	})
	if step.Violation == nil {
		if msg := runFailure(res); msg != "" {
			step.Violation = &hk.Violation{Key: "C05:runtime", Message: "through SenderInterceptor: " + msg, Replay: describeHist(sp, hist)}
		}
	}
	return step
}
