package c05

import (
	"encoding/binary"
	"fmt"
)

// Independent decoder of the transport-wide congestion control feedback
// message (draft-holmer-rmcat-transport-wide-cc-extensions-01, section 3.1),
// working on the marshalled bytes. It shares no code with pion/rtcp.
//
//	 0                   1                   2                   3
//	 0 1 2 3 4 5 6 7 8 9 0 1 2 3 4 5 6 7 8 9 0 1 2 3 4 5 6 7 8 9 0 1
//	|V=2|P|  FMT=15 |    PT=205     |           length              |
//	|                     SSRC of packet sender                     |
//	|                      SSRC of media source                     |
//	|      base sequence number     |      packet status count      |
//	|                 reference time                | fb pkt. count |
//	|          packet chunk         |         packet chunk          |
//	.                                                               .
//	|         packet chunk          |  recv delta   |  recv delta   |
//	.                                                               .
//	|           recv delta          |  recv delta   | zero padding  |
//
// One-bit status vectors use the de-facto meaning (libwebrtc and every
// deployed parser): 0 = not received, 1 = received with a small delta.

const (
	stLost  = 0
	stSmall = 1
	stLarge = 2
)

type wirePacket struct {
	Padding    bool
	Length     int // header length field
	SenderSSRC uint32
	MediaSSRC  uint32
	Base       uint16
	Count      int
	RefTime    uint32 // 24 bit, multiples of 64 ms
	FbCount    uint8
	Chunks     string  // one letter per chunk: r = run length, o = one-bit vector, t = two-bit vector
	Status     []uint8 // one per sequence number Base..Base+Count-1
	DeltaUS    []int64 // one per received status, microseconds
	PadBytes   int
}

// wireError is a structural defect of the byte string; Class becomes part of the violation key.
type wireError struct {
	Class string
	Msg   string
}

func (e *wireError) Error() string { return e.Msg }

func werr(class, format string, a ...any) *wireError {
	return &wireError{Class: class, Msg: fmt.Sprintf(format, a...)}
}

func decodeTWCC(b []byte) (*wirePacket, *wireError) {
	if len(b) < 20 {
		return nil, werr("truncated", "feedback packet of %d bytes is shorter than the fixed 20-byte part", len(b))
	}
	p := &wirePacket{}
	if b[0]>>6 != 2 {
		return nil, werr("header", "RTCP version %d", b[0]>>6)
	}
	p.Padding = b[0]&0x20 != 0
	if fmt5 := b[0] & 0x1f; fmt5 != 15 || b[1] != 205 {
		return nil, werr("header", "FMT=%d PT=%d, want 15/205", fmt5, b[1])
	}
	p.Length = int(binary.BigEndian.Uint16(b[2:]))
	if total := 4 * (p.Length + 1); total != len(b) {
		return nil, werr("declared-length", "marshalled to %d bytes but the header declares %d (length field %d)", len(b), total, p.Length)
	}
	p.SenderSSRC = binary.BigEndian.Uint32(b[4:])
	p.MediaSSRC = binary.BigEndian.Uint32(b[8:])
	p.Base = binary.BigEndian.Uint16(b[12:])
	p.Count = int(binary.BigEndian.Uint16(b[14:]))
	p.RefTime = uint32(b[16])<<16 | uint32(b[17])<<8 | uint32(b[18])
	p.FbCount = b[19]
	end := len(b)
	if p.Padding {
		p.PadBytes = int(b[end-1])
		if p.PadBytes < 1 || p.PadBytes > end-20 {
			return nil, werr("padding", "padding bit set but the last byte says %d padding bytes", p.PadBytes)
		}
		end -= p.PadBytes
	}
	pos := 20
	p.Status = make([]uint8, 0, p.Count)
	for len(p.Status) < p.Count {
		if pos+2 > end {
			return nil, werr("chunks-short", "status chunks end at byte %d of %d but only %d of %d statuses were given", pos, end, len(p.Status), p.Count)
		}
		c := binary.BigEndian.Uint16(b[pos:])
		pos += 2
		left := p.Count - len(p.Status)
		switch {
		case c&0x8000 == 0: // run length chunk: |0| S(2) | run length (13) |
			p.Chunks += "r"
			sym := uint8(c >> 13 & 3)
			run := int(c & 0x1fff)
			if run == 0 {
				return nil, werr("chunk", "run-length chunk %#04x with run length 0", c)
			}
			if sym == 3 {
				return nil, werr("chunk", "run-length chunk %#04x uses the reserved status symbol", c)
			}
			if run > left {
				run = left
			}
			for i := 0; i < run; i++ {
				p.Status = append(p.Status, sym)
			}
		case c&0x4000 == 0: // one-bit status vector: 14 symbols
			p.Chunks += "o"
			for i := 0; i < 14 && i < left; i++ {
				p.Status = append(p.Status, uint8(c>>(13-uint(i))&1))
			}
		default: // two-bit status vector: 7 symbols
			p.Chunks += "t"
			for i := 0; i < 7 && i < left; i++ {
				sym := uint8(c >> (12 - 2*uint(i)) & 3)
				if sym == 3 {
					return nil, werr("chunk", "two-bit vector chunk %#04x uses the reserved status symbol", c)
				}
				p.Status = append(p.Status, sym)
			}
		}
	}
	for i, s := range p.Status {
		switch s {
		case stSmall:
			if pos+1 > end {
				return nil, werr("deltas-short", "no delta byte left for received status %d (number %d)", i, p.Base+uint16(i))
			}
			p.DeltaUS = append(p.DeltaUS, int64(b[pos])*250)
			pos++
		case stLarge:
			if pos+2 > end {
				return nil, werr("deltas-short", "no 2-byte delta left for received status %d (number %d)", i, p.Base+uint16(i))
			}
			p.DeltaUS = append(p.DeltaUS, int64(int16(binary.BigEndian.Uint16(b[pos:])))*250)
			pos += 2
		}
	}
	if pos != end {
		return nil, werr("deltas-excess", "%d bytes remain after one delta per received status (padding bit %v, %d padding bytes)", end-pos, p.Padding, p.PadBytes)
	}
	return p, nil
}
