// Package c10 decides property C10 (freedom from data races, deadlocks and
// lost updates under every permitted concurrent use) by exploring the
// schedules of small closed harnesses around every interceptor of the library
// with the race detector evaluated on every explored schedule.
package c10

import (
	"bytes"
	"encoding/json"
	"fmt"
	"strings"
	"time"

	"github.com/pion/interceptor/verifh/hk"
	"github.com/pion/interceptor/vsched"
	"github.com/pion/rtcp"
)

// scenario: one interceptor kind, a list of application threads, a clock horizon and a bound.
type scen struct {
	Kind    string   `json:"kind"`
	Variant int      `json:"variant,omitempty"`
	Threads []string `json:"threads"`
	Horizon int      `json:"horizon"`
	Bound   int      `json:"deviation_bound"`
	Chain   bool     `json:"chain,omitempty"`
}

func (c scen) name() string { b, _ := json.Marshal(c); return string(b) }

type write struct {
	stream int
	ssrc   uint32
	seq    uint16
	ok     bool
	err    error
}

// run is the shared state of one execution.
type run struct {
	c      scen
	s      *hk.Session
	ctx    *hk.Ctx
	writes [8][]write // per thread slot
	closed bool
	l3     *hk.Local // stream 3 bound by the rebind thread
}

func body(c scen, ctx *hk.Ctx) {
	k := hk.KindByName(c.Kind)
	i, x, err := k.New(c.Variant)
	if err != nil {
		ctx.Fail("C10:setup", "%v", err)
		return
	}
	s := hk.NewSession(i, x)
	// bind only what the scenario uses (every bound stream may add goroutines to the interleaving)
	s.BindRTCPWriter()
	s.BindRTCPReader()
	needL2, needR2, needL, needR := false, false, false, false
	for _, t := range c.Threads {
		switch {
		case t == "w2" || t == "rtcp-ccfb":
			needL2, needL = true, true
		case t == "r2":
			needR2, needR = true, true
		case strings.HasPrefix(t, "w") || t == "unbind-l1" || t == "rebind-l1-as-l3" || strings.HasPrefix(t, "rtcp-") || t == "get":
			needL = true
		}
		if strings.HasPrefix(t, "r") && !strings.HasPrefix(t, "rtcp") || t == "unbind-r1" || t == "rtcp-sr" || t == "rtcpw" || t == "get" {
			needR = true
		}
	}
	r := &run{c: c, s: s, ctx: ctx}
	// a little sequential history so that there is state to race on
	if needL {
		l1 := s.BindLocal(1, true)
		for q := uint16(100); q < 102; q++ {
			h, p := hk.Shape(0, l1.Info.SSRC, q, uint32(q)*3000)
			_ = h.SetExtension(hk.TwccExtID, []byte{0, byte(q)})
			_, _ = l1.W.Write(&h, p, nil)
		}
	}
	if needL2 {
		l2 := s.BindLocal(2, false)
		for q := uint16(100); q < 102; q++ {
			h, p := hk.Shape(0, l2.Info.SSRC, q, uint32(q)*3000)
			_, _ = l2.W.Write(&h, p, nil)
		}
	}
	if needR {
		r1 := s.BindRemote(1, true)
		for _, q := range []uint16{200, 202} {
			h, p := hk.Shape(0, r1.Info.SSRC, q, uint32(q)*3000)
			_ = h.SetExtension(hk.TwccExtID, []byte{0, byte(q)})
			_, _, _ = r1.ReadRTP(hk.MarshalRTP(h, p))
		}
	}
	if needR2 {
		s.BindRemote(2, false)
	}
	pre := len(s.T.TakeRTP())
	_ = pre
	var ths []*vsched.Thread
	for slot, name := range c.Threads {
		slot, name := slot, name
		ths = append(ths, vsched.GoApp(name, func() { r.thread(slot, name) }))
	}
	for _, t := range ths {
		t.Join()
	}
	if r.l3 != nil && !r.closed {
		vsched.Advance(hk.ReportInterval) // a report tick after the rebind
		vsched.Quiesce()
	}
	if !r.closed {
		if err := s.I.Close(); err != nil {
			ctx.Fail("C10:close-error", "Close: %v", err)
		}
	}
	vsched.Quiesce()
	vsched.AcquireFinished()
	if ctx.Failed() {
		return
	}
	if r.l3 != nil {
		// nothing was ever written on stream 3: whatever is reported about it must say so (state of the unbound
		// stream 1, whose writer was still in use, must not have moved over)
		for _, rec := range s.T.RTCP {
			for _, p := range rec.Pkts {
				if sr, ok := p.(*rtcp.SenderReport); ok && sr.SSRC == r.l3.Info.SSRC && (sr.PacketCount != 0 || sr.OctetCount != 0) {
					ctx.Fail("C10:state-of-unbound-stream-leaks-into-new-stream", "the sender report of stream 3 counts %d packets / %d octets, nothing was ever written on it (stream 1 was unbound while its writer was in use, stream 3 bound right after)", sr.PacketCount, sr.OctetCount)
					return
				}
			}
		}
	}
	if c.Kind == "nack-generator" && needR && !needR2 {
		for _, t := range c.Threads {
			if t == "unbind-r1" {
				// the only stream was unbound (racing the tick that writes its NACK): what the generator keeps per
				// stream must be gone, as on an instance that never had a stream
				fresh, _, err := k.New(c.Variant)
				if err == nil {
					fs := hk.NewSession(fresh, nil)
					fs.BindRTCPWriter()
					fs.BindRTCPReader()
					_ = fresh.Close()
					if got, want := hk.DeepSize(s.I), hk.DeepSize(fresh); got > want {
						ctx.Fail("C10:per-stream-state-resurrected-after-unbind", "after the only stream was unbound (concurrently with the reporting tick) and the interceptor closed it retains %d bytes, an instance that never had a stream %d", got, want)
						return
					}
				}
			}
		}
	}
	r.conservation(k)
}

func (r *run) thread(slot int, name string) {
	s := r.s
	switch name {
	case "w1", "w1b", "w1c", "w2", "w3":
		stream, n, base := 1, 2, uint16(110)
		var l *hk.Local
		switch name {
		case "w1b":
			n, base = 1, 120
		case "w1c":
			n, base = 3, 150
		case "w2":
			stream, n, base = 2, 1, 130
		case "w3":
			// a stream bound concurrently with the traffic on the others
			l = s.NewLocal(3, true)
			stream, n, base = 3, 1, 140
		}
		if l == nil {
			l = s.Locals[stream]
		}
		for k := 0; k < n; k++ {
			q := base + uint16(k)
			h, p := hk.Shape(k%2*3, l.Info.SSRC, q, uint32(q)*3000)
			if stream != 2 {
				_ = h.SetExtension(hk.TwccExtID, []byte{0, byte(q)})
			}
			_, err := l.W.Write(&h, p, nil)
			r.writes[slot] = append(r.writes[slot], write{stream, l.Info.SSRC, q, err == nil, err})
		}
	case "r1", "r1b", "r2", "r3":
		stream, n, base := 1, 2, uint16(204)
		var rm *hk.Remote
		switch name {
		case "r1b":
			n, base = 1, 210
		case "r2":
			stream, n, base = 2, 1, 220
		case "r3":
			rm = s.NewRemote(3, true)
			stream, n, base = 3, 1, 230
		}
		if rm == nil {
			rm = s.Remotes[stream]
		}
		buf := make([]byte, 1500)
		for k := 0; k < n; k++ {
			q := base + uint16(2*k)
			h, p := hk.Shape(0, rm.Info.SSRC, q, uint32(q)*3000)
			if stream != 2 {
				_ = h.SetExtension(hk.TwccExtID, []byte{0, byte(q)})
			}
			_, _, _ = rm.ReadRTPConcurrent(slot, hk.MarshalRTP(h, p), buf)
		}
	case "rtcp-sr", "rtcp-nack", "rtcp-twcc", "rtcp-twcc-b", "rtcp-ccfb", "rtcp-rr", "rtcp-mix":
		rd, set := s.NewRTCPReader()
		l1 := hk.StreamInfo(true, 1, true).SSRC
		l2 := hk.StreamInfo(true, 2, false).SSRC
		r1 := hk.StreamInfo(false, 1, true).SSRC
		var raw []byte
		switch name {
		case "rtcp-sr":
			raw = hk.RawSR(r1, 0xe0000000_00000000, 1234)
		case "rtcp-twcc-b":
			raw = hk.RawTWCC(l1, 101, 2, 2)
		case "rtcp-nack":
			raw = hk.RawNACK(l1, 100, 110)
		case "rtcp-twcc":
			raw = hk.RawTWCC(l1, 100, 3, 1)
		case "rtcp-ccfb":
			raw = hk.RawCCFB(l2, 100, 3, 77)
		case "rtcp-rr":
			raw = hk.RawRR(0x99, l1, 101, 0, 0)
		case "rtcp-mix":
			raw = append(hk.RawRR(0x99, l1, 101, 0, 0), hk.RawNACK(l1, 101)...)
		}
		set(raw)
		buf := make([]byte, 1500)
		_, _, _ = rd.Read(buf, nil)
	case "rtcpw":
		_, _ = s.RTCPW.Write([]rtcp.Packet{&rtcp.PictureLossIndication{SenderSSRC: 1, MediaSSRC: hk.StreamInfo(false, 1, true).SSRC}}, nil)
	case "rebind-l1-as-l3":
		// stream 1 is unbound while its writer may still be in use, and another stream (3) is bound right away
		s.I.UnbindLocalStream(s.Locals[1].Info)
		r.l3 = s.NewLocal(3, true)
	case "unbind-l1":
		s.I.UnbindLocalStream(s.Locals[1].Info)
	case "unbind-r1":
		s.I.UnbindRemoteStream(s.Remotes[1].Info)
	case "close":
		r.closed = true
		if err := s.I.Close(); err != nil {
			r.ctx.Fail("C10:close-error", "Close: %v", err)
		}
	case "get":
		if s.X.Stats != nil {
			_ = s.X.Stats.Get(hk.StreamInfo(true, 1, true).SSRC)
			_ = s.X.Stats.Get(hk.StreamInfo(false, 1, true).SSRC)
		}
		if s.X.BWE != nil {
			_ = s.X.BWE.GetTargetBitrate()
			_ = s.X.BWE.GetStats()
		}
	case "setrate":
		if s.X.Pacing != nil {
			s.X.Pacing.SetRate(s.X.PacingID, 2_000_000)
		}
	default:
		r.ctx.Fail("C10:setup", "unknown thread %q", name)
	}
}

// conservation: every application packet whose Write returned success reached the transport exactly
// once with its payload (non-buffering interceptors; for buffering ones: at most once), nothing
// the application did not write appears on an application thread.
func (r *run) conservation(k *hk.Kind) {
	recs := r.s.T.TakeRTP()
	for slot := range r.writes {
		for _, w := range r.writes[slot] {
			ssrc := w.ssrc
			n := 0
			for _, g := range recs {
				if g.Header.SSRC == ssrc && g.Header.SequenceNumber == w.seq && g.Header.PayloadType == 96 {
					n++
					_, want := hk.Shape(0, ssrc, w.seq, 0)
					if len(g.Payload) == len(want) && len(want) > 0 && !bytes.Equal(g.Payload, want) {
						_, want3 := hk.Shape(3, ssrc, w.seq, 0)
						if !bytes.Equal(g.Payload, want3) {
							r.ctx.Fail("C10:payload-corrupted", "packet %d of stream %d reached the transport with a different payload", w.seq, w.stream)
							return
						}
					}
				}
			}
			switch {
			case n > 1:
				r.ctx.Fail("C10:duplicated-packet", "packet %d of stream %d reached the transport %d times", w.seq, w.stream, n)
				return
			case n == 0 && w.ok && !k.Buffering && !r.closedOrUnbound():
				r.ctx.Fail("C10:lost-packet", "Write of packet %d on stream %d returned success but the packet never reached the transport", w.seq, w.stream)
				return
			}
		}
	}
	r.ctx.Outcome("rtp=%d rtcp=%d", len(recs), len(r.s.T.TakeRTCP()))
}

func (r *run) closedOrUnbound() bool {
	for _, t := range r.c.Threads {
		if t == "close" {
			return true
		}
	}
	return false
}

func scenario(c scen) *hk.Scenario {
	return &hk.Scenario{ID: "C10", Name: c.name(), MaxBound: c.Bound, Horizon: c.Horizon, MaxSteps: 400000, Body: func(ctx *hk.Ctx) { body(c, ctx) }}
}

func scenarios(tier string) []scen {
	b := 3
	if tier == "thorough" {
		b = 4
	}
	S := func(kind string, horizon int, threads ...string) scen {
		if tier != "thorough" && horizon > 1 {
			horizon = 1
		}
		return scen{Kind: kind, Threads: threads, Horizon: horizon, Bound: b}
	}
	V := func(c scen, variant int) scen { c.Variant = variant; return c }
	out := []scen{
		S("nack-generator", 2, "r1", "r1b", "unbind-r1"),
		S("nack-generator", 2, "r1", "r2", "close"),
		S("nack-generator", 1, "r1", "r3"),
		// with a per-packet NACK limit (bookkeeping per requested number) and the last number skipped
		V(S("nack-generator", 2, "r1", "unbind-r1"), 1),
		V(S("nack-generator", 2, "r1", "r1b", "close"), 1),
		S("nack-responder", 0, "w1", "w1b", "rtcp-nack"),
		S("nack-responder", 0, "w1", "rtcp-nack", "unbind-l1"),
		S("nack-responder", 0, "w1", "rtcp-nack", "close"),
		S("receiver-report", 2, "r1", "rtcp-sr", "unbind-r1"),
		S("receiver-report", 2, "r1", "r1b", "close"),
		S("sender-report", 2, "w1", "w1b", "unbind-l1"),
		S("sender-report", 2, "w1", "w2", "close"),
		S("sender-report", 2, "w1c", "rebind-l1-as-l3"),
		S("twcc-sender", 2, "r1", "r1b", "close"),
		S("twcc-sender", 2, "r1", "r3"),
		S("twcc-header-extension", 0, "w1", "w1b", "w3"),
		S("rfc8888", 2, "r1", "r2"),
		S("rfc8888", 2, "r1", "r1b"),
		S("rtpfb", 0, "w1", "rtcp-twcc", "rtcp-ccfb"),
		S("rtpfb", 0, "rtcp-twcc", "rtcp-twcc-b"),
		S("rtpfb", 0, "w1", "w2", "rtcp-twcc"),
		S("cc-gcc-noop-pacer", 0, "w1", "rtcp-twcc", "get"),
		S("cc-gcc-noop-pacer", 0, "rtcp-twcc", "rtcp-twcc-b"),
		S("cc-gcc-noop-pacer", 0, "w1", "rtcp-ccfb", "close"),
		S("cc-gcc-leaky-bucket", 2, "w1", "w2", "get"),
		S("cc-gcc-leaky-bucket", 2, "w1", "rtcp-twcc", "close"),
		S("stats", 0, "w1", "r1", "get"),
		S("stats", 0, "rtcp-mix", "rtcpw", "get"),
		S("stats", 0, "w1", "rtcp-rr", "close"),
		S("flexfec", 0, "w1", "w1b", "unbind-l1"),
		S("flexfec", 0, "w1", "w3"),
		S("flexfec", 0, "w1c", "w1b"),                                           // two batches can be in the encoder at once
		{Kind: "flexfec", Variant: 1, Threads: []string{"w1", "w1b"}, Bound: b}, // k=1: every packet completes a batch
		S("jitterbuffer", 0, "r1", "r1b", "unbind-r1"),
		S("jitterbuffer", 0, "r1", "r2", "close"),
		S("packetdump-sender", 0, "w1", "rtcpw", "close"),
		S("packetdump-receiver", 0, "r1", "rtcp-sr", "close"),
		S("intervalpli", 2, "r3", "close"),
		S("intervalpli", 2, "r3", "unbind-l1"),
		S("pacing", 2, "w1", "w2", "setrate"),
		S("pacing", 2, "w1", "setrate", "close"),
		// the chain of all 14 pass-through interceptors
		{Kind: "chain", Threads: []string{"w1", "r1", "close"}, Horizon: 1, Bound: 1},
		{Kind: "chain", Threads: []string{"w1", "rtcp-twcc", "r1"}, Horizon: 1, Bound: 1},
		{Kind: "chain", Threads: []string{"r1", "rtcp-sr", "get"}, Horizon: 1, Bound: 1},
	}
	return out
}

func init() {
	hk.Register(&hk.Check{
		ID: "C10R",
		Rule: "E1 schedule exploration (-race, iterative preemption bounding, happens-before fingerprint pruning) of 2-3 application threads (writers/readers on the same and on different streams, independent RTCP read loops, Unbind/Close, getters) around each interceptor of the library, plus the interceptor's own goroutines and up to 2 timer firings; " +
			"oracle: no race report, no deadlock, no panic, no goroutine left after Close, every successfully written packet reaches the transport exactly once with its payload; every schedule is non-trivial (threads are forced onto the same stream/SSRC)",
		Assumptions: []string{"vsched model and race annotations (litmus suite run first in the same binary)",
			"only concurrency the Interceptor interface permits is generated (one Close, one BindRTCPWriter before traffic)"},
		Jobs: func(tier string) []string {
			var n []string
			for _, c := range scenarios(tier) {
				n = append(n, c.name())
			}
			return n
		},
		Run: func(tier string, i int, deadline time.Time) *hk.JobResult {
			r := &hk.JobResult{Exhaustive: true}
			scenario(scenarios(tier)[i]).Explore(deadline, r)
			return r
		},
		Replay: func(raw json.RawMessage) string {
			var rp hk.E1Replay
			if err := json.Unmarshal(raw, &rp); err != nil {
				return "bad replay"
			}
			var c scen
			if err := json.Unmarshal([]byte(rp.Scenario), &c); err != nil {
				return "bad scenario"
			}
			return scenario(c).ReplaySchedule(rp.Schedule)
		},
		Bounds: func(tier string) map[string]any { return map[string]any{"scenarios": len(scenarios(tier))} },
	})
	_ = fmt.Sprint
	_ = strings.Join
}
