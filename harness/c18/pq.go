package c18

import (
	"fmt"

	"github.com/pion/interceptor/pkg/jitterbuffer"
	"github.com/pion/interceptor/verifh/hk"
	"github.com/pion/interceptor/vsched"
	"github.com/pion/rtp"
)

const (
	pqPush opKind = iota + 100
	pqPop
	pqPopAt
	pqPopTS
	pqFind
	pqClear
)

func pqOps(c config) []jbOp {
	var ops []jbOp
	for _, s := range c.Seqs {
		ops = append(ops, jbOp{pqPush, s, tsA, fmt.Sprintf("Push(%d,a)", s)})
	}
	for _, s := range c.Seqs {
		ops = append(ops, jbOp{pqPush, s, tsB, fmt.Sprintf("Push(%d,b)", s)})
	}
	ops = append(ops, jbOp{kind: pqPop, name: "Pop"})
	for _, s := range c.Seqs {
		ops = append(ops, jbOp{pqPopAt, s, 0, fmt.Sprintf("PopAt(%d)", s)})
	}
	ops = append(ops, jbOp{pqPopTS, 0, tsA, "PopAtTimestamp(a)"}, jbOp{pqPopTS, 0, tsB, "PopAtTimestamp(b)"})
	ops = append(ops, jbOp{kind: pqClear, name: "Clear"})
	if c.Peeks {
		for _, s := range c.Seqs {
			ops = append(ops, jbOp{pqFind, s, 0, fmt.Sprintf("Find(%d)", s)})
		}
	}
	return ops
}

type pqRun struct {
	c    config
	q    *jitterbuffer.PriorityQueue
	m    *store
	call string
}

func (x *pqRun) pname(p *rtp.Packet) string {
	if p == nil {
		return "nil"
	}
	if r := x.m.recs[p]; r != nil {
		return r.String()
	}
	return fmt.Sprintf("unknown packet(seq %d)", p.SequenceNumber)
}

func (x *pqRun) probe() (uint16, []probeRes) {
	x.call = "Length()"
	n := x.q.Length()
	var out []probeRes
	for _, s := range x.c.Seqs {
		x.call = fmt.Sprintf("Find(%d)", s)
		p, err := x.q.Find(s)
		out = append(out, probeRes{x.call, p, errStr(err)})
	}
	return n, out
}

func (x *pqRun) checkLength(after string) *failure {
	x.call = "Length()"
	if n := x.q.Length(); int(n) != x.m.n {
		return failf("queue-length-differs", "after %s Length() = %d but %d packets are buffered (%v)", after, n, x.m.n, x.m)
	}
	return nil
}

func (x *pqRun) apply(o jbOp, last bool) (string, *failure) {
	m, q := x.m, x.q
	switch o.kind {
	case pqPush:
		r := m.push(o.seq, o.ts)
		x.call = o.name
		q.Push(r.p, o.seq)
		return "push", x.checkLength(o.name)

	case pqPop, pqPopAt, pqPopTS:
		var n0 uint16
		var before []probeRes
		if last {
			n0, before = x.probe()
		}
		var cands []*rec
		var want string
		var p *rtp.Packet
		var err error
		x.call = o.name
		switch o.kind {
		case pqPop:
			for _, l := range m.buf {
				cands = append(cands, l...)
			}
			want = "any buffered packet"
			p, err = q.Pop()
		case pqPopAt:
			cands, want = m.buf[o.seq], fmt.Sprintf("a packet pushed with number %d", o.seq)
			p, err = q.PopAt(o.seq)
		default:
			cands, want = m.withTS(o.ts), fmt.Sprintf("a buffered packet with timestamp %d", o.ts)
			p, err = q.PopAtTimestamp(o.ts)
		}
		r, f := judgePop(m, true, true, false, o.name, p, err, cands, want)
		if f != nil {
			return "", f
		}
		if r == nil {
			if last {
				n1, after := x.probe()
				if n0 != n1 {
					return "", failf("failed-pop-disturbs-buffer", "%s failed but Length() went from %d to %d", o.name, n0, n1)
				}
				if f := diffProbes(o.name, 0, before, 0, after, x.pname); f != nil {
					return "", f
				}
			}
			return "pop:failed-not-buffered", x.checkLength(o.name)
		}
		m.remove(r, stReturned)
		return "pop:ok", x.checkLength(o.name)

	case pqFind:
		x.call = o.name
		p, _ := q.Find(o.seq)
		if f := checkPeek(m.recs, o.name, p, "find"); f != nil {
			return "", f
		}
		if p != nil {
			if m.recs[p].st == stReturned {
				return "find:returned-packet", nil
			}
			return "find:ok", nil
		}
		return "find:none", nil

	case pqClear:
		x.call = o.name
		q.Clear()
		m.clear()
		return "clear", x.checkLength(o.name)
	}
	return "", failf("harness-failure", "unknown op")
}

func execPQ(c config, hist []int) hk.Step {
	var step hk.Step
	ops := pqOps(c)
	x := &pqRun{c: c, m: newStore()}
	var fail *failure
	done := false
	res := vsched.Run(vsched.Options{Strategy: vsched.BackgroundFirst{}, MaxSteps: 20000}, func() {
		x.call = "NewQueue"
		x.q = jitterbuffer.NewQueue()
		pushes := 0
		for i, a := range hist {
			last := i == len(hist)-1
			o := ops[a]
			out, f := x.apply(o, last)
			if f != nil {
				if last {
					fail = f
				} else {
					step.Dead = true
				}
				done = true
				return
			}
			if last {
				step.Outcome = "pq:" + out
				step.Nontrivial = pushes > 0 && o.kind != pqPush && o.kind != pqClear
			}
			if o.kind == pqPush {
				pushes++
			}
		}
		step.Key = hk.DeepHash(x.q) ^ hk.HashInts(x.m.hashInts()...)
		_, pr := x.probe()
		for _, r := range pr {
			if f := checkPeek(x.m.recs, r.name, r.p, "find"); f != nil {
				fail = f
				break
			}
		}
		done = true
	})
	if fail == nil && (!done || res.StepLimit || len(res.Panics) > 0) {
		fail = runFailure(res, x.call)
		if fail == nil {
			fail = failf("harness-failure", "execution ended early without a recorded reason during %s", x.call)
		}
	}
	if fail != nil {
		step.Violation = fail.violation(c, hist)
		step.Dead = false
	}
	return step
}
