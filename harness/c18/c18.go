// Package c18 decides property C18 (the jitter buffer emits pushed packets in
// sequence order, at most once) by explicit-state search over operation
// histories of the exported JitterBuffer API, of the exported PriorityQueue
// API and of the receiver interceptor's RTPReader. The transition function is
// the real code; the reference is a multiset of the packet objects pushed.
package c18

import (
	"encoding/json"
	"fmt"
	"time"

	"github.com/pion/interceptor/verifh/hk"
	"github.com/pion/interceptor/vsched"
)

// config is one shard of the search space (also the replay header).
type config struct {
	Kind  string   `json:"kind"`                    // "jb" (JitterBuffer), "pq" (PriorityQueue), "icpt" (interceptor reader)
	Min   int      `json:"min,omitempty"`           // WithMinimumPacketCount (jb)
	Pre   int      `json:"pushed_before,omitempty"` // consecutive packets pushed before the history starts (jb)
	Seqs  []uint16 `json:"seqs,omitempty"`          // sequence-number alphabet (jb, pq)
	Peeks bool     `json:"peeks,omitempty"`         // Peek/PeekAtSequence/Find are symbols of the history (always probed after the last operation)
	Depth int      `json:"depth"`
	First int      `json:"first"` // the shard explores the histories starting with this symbol (-1: all)
	// interceptor only
	Script string `json:"script,omitempty"` // scripted prefix before the explored suffix
	Base   uint16 `json:"base,omitempty"`   // sequence number of the first packet
}

// timestamps used by the pushes
const (
	tsA = 1000
	tsB = 4000
)

type replay struct {
	Config  config   `json:"config"`
	History []string `json:"history"`
	Syms    []int    `json:"syms"`
}

func describe(c config, hist []int) replay {
	r := replay{Config: c, Syms: append([]int(nil), hist...)}
	names := symbolNames(c)
	for _, a := range hist {
		r.History = append(r.History, names[a])
	}
	return r
}

func symbolNames(c config) []string {
	switch c.Kind {
	case "jb":
		ops := jbOps(c)
		out := make([]string, len(ops))
		for i, o := range ops {
			out[i] = o.name
		}
		return out
	case "pq":
		ops := pqOps(c)
		out := make([]string, len(ops))
		for i, o := range ops {
			out[i] = o.name
		}
		return out
	case "jbfull":
		return []string{"Clear(true)", "Clear(false)"}
	}
	return icptSymNames
}

// explored is the number of symbols the search extends histories with.
func explored(c config) int {
	if c.Kind == "icpt" {
		return icExplored
	}
	return len(symbolNames(c))
}

func exec(c config, hist []int) hk.Step {
	switch c.Kind {
	case "jb":
		return execJB(c, hist)
	case "pq":
		return execPQ(c, hist)
	case "jbfull":
		return execFull(c, hist)
	}
	return execIcpt(c, hist)
}

// violation builder shared by the three drivers
type failure struct {
	key, msg string
}

func failf(key, format string, a ...any) *failure {
	return &failure{key: "C18:" + key, msg: fmt.Sprintf(format, a...)}
}

func (f *failure) violation(c config, hist []int) *hk.Violation {
	d := describe(c, hist)
	return &hk.Violation{Key: f.key, Message: fmt.Sprintf("%s\n history (%s%s): %v", f.msg, c.Kind, cfgNote(c), d.History), Replay: d}
}

func cfgNote(c config) string {
	switch c.Kind {
	case "jb":
		return fmt.Sprintf(", minimum packet count %d", c.Min)
	case "icpt":
		return fmt.Sprintf(", first sequence number %d, prefix %q", c.Base, c.Script)
	}
	return ""
}

// runFailure turns what the controlled runtime observed (endless loop, panic)
// into a violation class of its own. call is the exported call in progress.
func runFailure(res *vsched.Result, call string) *failure {
	switch {
	case res.StepLimit:
		return failf("call-never-returns", "%s did not return within the step budget (loops forever): %s", call, firstLines(res.StepWhere, 8))
	case len(res.Panics) > 0:
		return failf("panic", "%s panicked: %s\n%s", call, res.Panics[0].Value, firstLines(res.Panics[0].Stack, 10))
	case res.Deadlock:
		return failf("deadlock", "%s blocked forever: %+v", call, res.Blocked)
	case len(res.Failures) > 0:
		return failf("harness-failure", "%s", res.Failures[0])
	}
	return nil
}

func firstLines(s string, n int) string {
	k := 0
	for i := 0; i < len(s); i++ {
		if s[i] == '\n' {
			k++
			if k == n {
				return s[:i]
			}
		}
	}
	return s
}

var (
	seqs2 = []uint16{65535, 0}
	seqs3 = []uint16{65535, 0, 1}
	seqs6 = []uint16{65534, 65535, 0, 1, 2, 3}
)

// configs lists the shards of a tier.
func configs(tier string) []config {
	var out []config
	// shard splits a configuration by the first symbol of the history
	shard := func(c config) {
		for f := 0; f < explored(c); f++ {
			cc := c
			cc.First = f
			out = append(out, cc)
		}
	}
	whole := func(c config) {
		c.First = -1
		out = append(out, c)
	}
	thorough := tier == "thorough"
	// JitterBuffer
	for _, min := range []int{1, 2, 3} {
		if thorough {
			shard(config{Kind: "jb", Min: min, Seqs: seqs6, Peeks: true, Depth: 5})
			shard(config{Kind: "jb", Min: min, Seqs: seqs3, Peeks: false, Depth: 7})
			shard(config{Kind: "jb", Min: min, Seqs: seqs2, Peeks: false, Depth: 9})
		} else {
			shard(config{Kind: "jb", Min: min, Seqs: seqs3, Peeks: true, Depth: 5})
			whole(config{Kind: "jb", Min: min, Seqs: seqs6, Peeks: true, Depth: 3})
			shard(config{Kind: "jb", Min: min, Seqs: seqs3, Peeks: false, Depth: 6})
		}
	}
	// minimum-start count 0 ("all minimum-start counts"): playback starts with the first packet buffered
	if thorough {
		shard(config{Kind: "jb", Min: 0, Seqs: seqs3, Peeks: true, Depth: 6})
	} else {
		shard(config{Kind: "jb", Min: 0, Seqs: seqs3, Peeks: true, Depth: 4})
	}
	// minimum-start counts beyond the buffer's overflow mark of 100 packets: the history starts a few packets
	// below the mark / below the minimum
	for _, mp := range [][2]int{{103, 99}, {150, 147}} {
		d := 4
		if thorough {
			d = 5
		}
		shard(config{Kind: "jb", Min: mp[0], Pre: mp[1], Seqs: seqs3, Peeks: false, Depth: d})
	}
	// the whole 16-bit sequence space buffered, then Clear
	whole(config{Kind: "jbfull", Depth: 1})
	// PriorityQueue
	if thorough {
		shard(config{Kind: "pq", Seqs: seqs6, Peeks: true, Depth: 7})
		shard(config{Kind: "pq", Seqs: seqs3, Peeks: false, Depth: 10})
	} else {
		shard(config{Kind: "pq", Seqs: seqs3, Peeks: true, Depth: 6})
		shard(config{Kind: "pq", Seqs: seqs6, Peeks: true, Depth: 5})
	}
	// interceptor reader
	for _, base := range []uint16{65500, 100} {
		for k, script := range []string{"run49", "run1,skip,run47", "run47", "run60,unbind,run49"} {
			c := config{Kind: "icpt", Base: base, Script: script, Depth: 4}
			if thorough {
				c.Depth = 6 - k/2
				shard(c)
			} else {
				whole(c)
			}
		}
	}
	return out
}

func jobs(tier string) []string {
	var names []string
	for _, c := range configs(tier) {
		b, _ := json.Marshal(c)
		names = append(names, string(b))
	}
	return names
}

func run(tier string, i int, deadline time.Time) *hk.JobResult {
	c := configs(tier)[i]
	n := explored(c)
	r := &hk.JobResult{Exhaustive: true, Bounds: map[string]any{"depth": c.Depth, "alphabet": n}}
	all := make([]int, n)
	for k := range all {
		all[k] = k
	}
	s := &hk.Search{Alphabet: n, Depth: c.Depth, Dedup: true, Deadline: deadline, MaxViolations: 24,
		Allowed: func(h []int) []int {
			if len(h) == 0 && c.First >= 0 {
				return []int{c.First}
			}
			return all
		},
		Exec:     func(h []int) hk.Step { return exec(c, h) },
		Describe: func(h []int) any { return describe(c, h) }}
	st := s.Run()
	st.Fill(r)
	return r
}

func replayFn(raw json.RawMessage) string {
	var rp replay
	if err := json.Unmarshal(raw, &rp); err != nil {
		return "bad replay: " + err.Error()
	}
	n := len(symbolNames(rp.Config))
	for _, a := range rp.Syms {
		if a < 0 || a >= n {
			return "bad replay: symbol out of range"
		}
	}
	st := exec(rp.Config, rp.Syms)
	if st.Violation != nil {
		return st.Violation.Message
	}
	return ""
}

func init() {
	hk.Register(&hk.Check{
		ID: "C18",
		Rule: "E2 explicit-state search (breadth-first, every history replayed on a fresh instance inside vsched.Run with a step budget; states distinct by deep hash of the " +
			"implementation + reference): (jb) all histories up to the depth over Push(seq,ts in {a,b}), Pop, PopAtSequence(seq), PopAtTimestamp(ts), Clear(true|false), " +
			"SetPlayoutHead(seq) [and, in the configurations with peek symbols, Peek(true|false), PeekAtSequence(seq)] on jitterbuffer.New(WithMinimumPacketCount(0|1|2|3, and 103|150 after a run of 99|147 packets)), " +
			"seq over {65535,0}, {65535,0,1} or {65534,65535,0,1,2,3}; (pq) the same on the exported PriorityQueue (Push, Pop, PopAt, PopAtTimestamp, Clear, Find; Length after every operation); " +
			"(icpt) the RTPReader returned by the receiver interceptor after a scripted prefix (49 in-order packets; 1 packet, one lost, 47 packets; 47 packets; 60 packets + " +
			"UnbindRemoteStream/BindRemoteStream + 49 packets; first number 65500 so that the wrap lies inside the buffer, or 100) followed by all suffixes over " +
			"{next, next+1, next+2, duplicate of newest / of the playout head / of the numerically lowest buffered number, late packet head-1, transport error, malformed packet}. " +
			"After the last operation of every history all peek/find observers are probed (Clear clause, termination); around a failing pop they are probed before and after (undisturbed buffer). " +
			"A transition is non-trivial if its last operation is a pop, peek or find issued after at least one push, or an interceptor read at or after the start of playback",
		Assumptions: []string{
			"vsched mutex model (litmus suite); the code under test is sequential here",
			"playback has started when the number of buffered packets reached the configured minimum after a push since the last Clear(true) (Clear(false) keeps the playback state, as documented); " +
				"where 'packets received' and 'packets buffered' differ (Clear(false) while buffering) both refusal and playback are accepted",
			"the playout head is read through PlayoutHead(); SetPlayoutHead, Clear and a PopAtSequence away from the head are head-moving calls (no order demanded across them)",
			"peek/find results are only constrained by the Clear clause (the statement says nothing else about them)",
			"the interceptor uses the documented default of 50 packets; marshalled output of a 12-byte-header packet equals its input bytes",
			"the harness flips Payload[0] of a pushed packet when the reference marks it returned/cleared so that the state hash sees the reference's view of every object still reachable from the implementation (the jitter buffer never reads payloads)",
		},
		Jobs:   jobs,
		Run:    run,
		Replay: replayFn,
		Bounds: func(tier string) map[string]any {
			cs := configs(tier)
			maxd := map[string]int{}
			for _, c := range cs {
				if c.Depth > maxd[c.Kind] {
					maxd[c.Kind] = c.Depth
				}
			}
			return map[string]any{"shards": len(cs), "max_depth": maxd, "tier": tier, "minimum_counts": []int{1, 2, 3}}
		},
	})
}
