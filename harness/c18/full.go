package c18

import (
	"github.com/pion/interceptor/pkg/jitterbuffer"
	"github.com/pion/interceptor/verifh/hk"
	"github.com/pion/interceptor/vsched"
	"github.com/pion/rtp"
)

// execFull: the whole 16-bit sequence space is buffered (65536 packets, pushed from 65535 down to 0), then the
// buffer is cleared and a new stream 7000, 7001, 7003 follows. "After Clear nothing buffered earlier can be
// returned by any pop, peek or find": every answer must be one of the three new packet objects or a refusal.
// The history has one symbol: 0 = Clear(true), 1 = Clear(false).
func execFull(c config, hist []int) hk.Step {
	var step hk.Step
	if len(hist) == 0 {
		step.Key = 1
		return step
	}
	var fail *failure
	res := vsched.Run(vsched.Options{Strategy: vsched.BackgroundFirst{}, MaxSteps: 50_000_000}, func() {
		jb := jitterbuffer.New(jitterbuffer.WithMinimumPacketCount(1))
		for q := 65535; q >= 0; q-- {
			jb.Push(&rtp.Packet{Header: rtp.Header{Version: 2, SequenceNumber: uint16(q), Timestamp: uint32(q)}, Payload: []byte{1}})
		}
		jb.Clear(hist[0] == 0)
		fresh := map[*rtp.Packet]bool{}
		for _, q := range []uint16{7000, 7001, 7003} {
			p := &rtp.Packet{Header: rtp.Header{Version: 2, SequenceNumber: q, Timestamp: 1 << 20}, Payload: []byte{2}}
			fresh[p] = true
			jb.Push(p)
		}
		judge := func(what string, p *rtp.Packet, err error) bool {
			if err == nil && p != nil && !fresh[p] {
				fail = failf("cleared-packet-returned", "%s after Clear returned packet %d that was buffered before the Clear (65536 packets were buffered when Clear was called)", what, p.SequenceNumber)
				return false
			}
			return true
		}
		for _, q := range []uint16{7002, 5, 65535, 0, 7004} {
			p, err := jb.PeekAtSequence(q)
			if !judge("PeekAtSequence", p, err) {
				return
			}
		}
		if p, err := jb.PopAtTimestamp(5); !judge("PopAtTimestamp", p, err) {
			return
		}
		for k := 0; k < 5; k++ {
			p, err := jb.Pop()
			if !judge("Pop", p, err) {
				return
			}
		}
		for _, q := range []uint16{7002, 6999} {
			p, err := jb.PopAtSequence(q)
			if !judge("PopAtSequence", p, err) {
				return
			}
		}
		step.Outcome = "full-space-cleared"
		step.Nontrivial = true
		step.Key = uint64(2 + hist[0])
	})
	if fail == nil && (res.StepLimit || len(res.Panics) > 0) {
		fail = runFailure(res, "full-space script")
	}
	if fail != nil {
		step.Violation = fail.violation(c, hist)
	}
	return step
}
