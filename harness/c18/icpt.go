package c18

import (
	"bytes"
	"encoding/binary"
	"fmt"
	"sort"
	"strconv"
	"strings"

	"github.com/pion/interceptor"
	"github.com/pion/interceptor/pkg/jitterbuffer"
	"github.com/pion/interceptor/verifh/hk"
	"github.com/pion/interceptor/vsched"
)

// icptMin is the interceptor's documented (and not configurable) start count.
const icptMin = 50

var icptSymNames = []string{"next", "next+1", "next+2", "dup-newest", "dup-head", "dup-lowest-number", "late(head-1)", "transport-error", "malformed", "unbind+rebind"}

const (
	icNext = iota
	icNext1
	icNext2
	icDupNewest
	icDupHead
	icDupLowest
	icLate
	icTransportErr
	icMalformed
	icUnbind
	icExplored = icUnbind // symbols below this index form the explored alphabet
)

// ipkt is one packet handed to the interceptor by the transport mock.
type ipkt struct {
	raw []byte
	seq uint16
	id  int
	st  byte
}

func (p *ipkt) String() string { return fmt.Sprintf("#%d(seq %d)", p.id, p.seq) }

type icptModel struct {
	all     []*ipkt
	buf     map[uint16][]*ipkt
	count   int // packets pushed since bind / the last unbind
	started bool
	head    optU16 // number the next successful read must carry
	highest int64  // unwrapped newest number handed in (drives the alphabet only)
	any     bool
}

func (m *icptModel) hash() uint64 {
	var vs []int64
	for _, l := range m.buf {
		for _, p := range l {
			vs = append(vs, int64(p.seq)<<32|int64(p.id))
		}
	}
	sort.Slice(vs, func(i, j int) bool { return vs[i] < vs[j] })
	c := m.count
	if c > icptMin {
		c = icptMin
	}
	st := int64(0)
	if m.started {
		st = 1
	}
	return hk.HashInts(append([]int64{int64(c), st, m.head.i64(), m.highest, int64(len(m.all))}, vs...)...)
}

func (m *icptModel) bufString() string {
	var keys []int
	for k := range m.buf {
		keys = append(keys, int(k))
	}
	sort.Ints(keys)
	if len(keys) > 8 {
		return fmt.Sprintf("%d numbers buffered, %d..%d (numeric order)", len(keys), keys[0], keys[len(keys)-1])
	}
	return fmt.Sprint(keys)
}

type icptRun struct {
	c    config
	i    interceptor.Interceptor
	info *interceptor.StreamInfo
	feed *hk.FeedReader
	rd   interceptor.RTPReader
	m    *icptModel
	out  []byte
	call string
}

func parseScript(s string) ([]int, error) {
	var syms []int
	for _, part := range strings.Split(s, ",") {
		switch {
		case part == "unbind":
			syms = append(syms, icUnbind)
		case part == "skip": // the next number is lost: the following packet carries next+1
			syms = append(syms, icNext1)
		case strings.HasPrefix(part, "run"):
			n, err := strconv.Atoi(part[3:])
			if err != nil {
				return nil, err
			}
			for k := 0; k < n; k++ {
				syms = append(syms, icNext)
			}
		default:
			return nil, fmt.Errorf("bad script element %q", part)
		}
	}
	return syms, nil
}

// number picks the (unwrapped) sequence number a packet symbol stands for.
func (x *icptRun) number(sym int) int64 {
	m := x.m
	if !m.any {
		return 1<<20 + int64(x.c.Base)
	}
	unwrap := x.unwrapped // the unwrapped number closest to the newest
	switch sym {
	case icNext:
		return m.highest + 1
	case icNext1:
		return m.highest + 2
	case icNext2:
		return m.highest + 3
	case icDupNewest:
		return m.highest
	case icDupHead:
		if m.head.ok {
			return unwrap(m.head.v)
		}
		return m.highest
	case icDupLowest:
		low, ok := uint16(0), false
		for s := range m.buf {
			if !ok || s < low {
				low, ok = s, true
			}
		}
		if ok {
			return unwrap(low)
		}
		return m.highest
	case icLate:
		if m.head.ok {
			return unwrap(m.head.v) - 1
		}
		return m.highest - 1
	}
	return m.highest
}

func (x *icptRun) apply(sym int) (string, *failure) {
	m := x.m
	if sym == icUnbind {
		x.call = "UnbindRemoteStream"
		x.i.UnbindRemoteStream(x.info)
		x.call = "BindRemoteStream"
		x.rd = x.i.BindRemoteStream(x.info, x.feed)
		for _, l := range m.buf {
			for _, p := range l {
				p.st = stCleared
			}
		}
		m.buf = map[uint16][]*ipkt{}
		m.count, m.started, m.head = 0, false, optU16{}
		return "unbind", nil
	}
	var pushed *ipkt
	switch sym {
	case icTransportErr:
		x.feed.Err = fmt.Errorf("transport error")
	case icMalformed:
		x.feed.Next = []byte{0x80, 96, 0, 1}
	default:
		v := x.number(sym)
		id := len(m.all)
		payload := []byte{byte(id >> 8), byte(id), 0xc1, 0x8e}
		pushed = &ipkt{raw: hk.RawRTP(96, uint16(v), uint32(v*3000), 0x1818, payload), seq: uint16(v), id: id}
		x.feed.Next = pushed.raw
	}
	for i := range x.out {
		x.out[i] = 0xee
	}
	x.call = fmt.Sprintf("Read (%s)", icptSymNames[sym])
	if pushed != nil {
		x.call = fmt.Sprintf("Read (%s: packet %v)", icptSymNames[sym], pushed)
	}
	n, _, err := x.rd.Read(x.out, interceptor.Attributes{})
	call := x.call
	if pushed != nil {
		m.all = append(m.all, pushed)
		m.buf[pushed.seq] = append(m.buf[pushed.seq], pushed)
		if v := x.unwrapped(pushed.seq); !m.any || v > m.highest {
			m.highest = v
		}
		m.any = true
		if m.count == 0 {
			m.head = optU16{true, pushed.seq}
		}
		m.count++
		if m.count >= icptMin {
			m.started = true
		}
	}
	if err != nil {
		if pushed != nil && m.started && len(m.buf[m.head.v]) > 0 {
			if err == jitterbuffer.ErrPopWhileBuffering {
				return "", failf("read-refused-after-minimum-count-reached", "%s refused with %q although %d packets were received since the stream was bound and number %d (the playout head) is buffered (%s)",
					call, err, m.count, m.head.v, m.bufString())
			}
			return "", failf("read-fails-although-head-buffered", "%s failed with %q although playback has started (%d packets since bind) and number %d, the next in sequence, is buffered (%s)",
				call, err, m.count, m.head.v, m.bufString())
		}
		switch {
		case pushed == nil:
			return "read:input-error", nil
		case !m.started:
			return "read:buffering", nil
		}
		return "read:head-missing", nil
	}
	// a packet came out: decode it with our own reader and find the object it is
	if n < 12 || n > len(x.out) {
		return "", failf("read-returns-garbage", "%s returned n=%d without error", call, n)
	}
	got := x.out[:n]
	seq := binary.BigEndian.Uint16(got[2:4])
	var match *ipkt
	for _, p := range m.all {
		if bytes.Equal(p.raw, got) {
			match = p
			break
		}
	}
	switch {
	case match == nil:
		show := got
		if len(show) > 24 {
			show = show[:24]
		}
		return "", failf("read-returns-unpushed-packet", "%s returned %d bytes (number %d) that equal no packet handed in (every packet handed in has %d bytes); first bytes: % x",
			call, n, seq, len(m.all[0].raw), show)
	case match.st == stCleared:
		return "", failf("cleared-packet-returned-by-read", "%s returned %v, which was buffered before UnbindRemoteStream cleared the buffer", call, match)
	case match.st == stReturned:
		return "", failf("packet-returned-twice", "%s returned %v, which an earlier read had already returned", call, match)
	case !m.started:
		return "", failf("read-before-playback-not-refused", "%s returned %v after only %d packets (minimum %d)", call, match, m.count, icptMin)
	case !m.head.ok || match.seq != m.head.v:
		return "", failf("reads-not-consecutive", "%s returned number %d; successive successful reads must carry consecutive numbers starting at the first packet buffered: expected %d (%s)",
			call, match.seq, m.head.v, m.bufString())
	}
	l := m.buf[match.seq]
	for i, p := range l {
		if p == match {
			l = append(l[:i:i], l[i+1:]...)
			break
		}
	}
	if len(l) == 0 {
		delete(m.buf, match.seq)
	} else {
		m.buf[match.seq] = l
	}
	match.st = stReturned
	m.head = optU16{true, m.head.v + 1}
	return "read:ok", nil
}

// unwrapped maps a wire number to the unwrapped number closest to the newest.
func (x *icptRun) unwrapped(s uint16) int64 {
	m := x.m
	if !m.any {
		return 1<<20 + int64(x.c.Base)
	}
	d := int64(int16(s - uint16(m.highest)))
	return m.highest + d
}

func execIcpt(c config, hist []int) hk.Step {
	var step hk.Step
	script, err := parseScript(c.Script)
	if err != nil {
		step.Violation = failf("harness-failure", "%v", err).violation(c, hist)
		return step
	}
	x := &icptRun{c: c, m: &icptModel{buf: map[uint16][]*ipkt{}}, feed: &hk.FeedReader{}, out: make([]byte, 1500)}
	var fail *failure
	done := false
	var sibling func(seq uint16) *failure
	res := vsched.Run(vsched.Options{Strategy: vsched.BackgroundFirst{}, MaxSteps: 400000}, func() {
		x.call = "NewInterceptor"
		f, err := jitterbuffer.NewInterceptor()
		if err != nil {
			fail = failf("harness-failure", "NewInterceptor: %v", err)
			return
		}
		x.i, err = f.NewInterceptor("")
		if err != nil {
			fail = failf("harness-failure", "NewInterceptor: %v", err)
			return
		}
		x.info = &interceptor.StreamInfo{SSRC: 0x1818}
		x.rd = x.i.BindRemoteStream(x.info, x.feed)
		// a second interceptor from the same factory (another peer connection) receives one packet of its own
		// stream before and one after the history: it is buffering on its own (two packets are below any start
		// count) and nothing it receives may show in the first one
		sib, err := f.NewInterceptor("sibling")
		if err != nil {
			fail = failf("harness-failure", "NewInterceptor: %v", err)
			return
		}
		sibFeed := &hk.FeedReader{}
		sibRd := sib.BindRemoteStream(&interceptor.StreamInfo{SSRC: 0x2828}, sibFeed)
		sibling = func(seq uint16) *failure {
			sibFeed.Next = hk.RawRTP(96, seq, uint32(seq)*90, 0x2828, []byte{7, 7})
			n, _, err := sibRd.Read(make([]byte, 1500), interceptor.Attributes{})
			if err != jitterbuffer.ErrPopWhileBuffering {
				return failf("sibling-interceptor-not-independent", "an interceptor built by the same factory for another connection received packet %d of its own stream (its only traffic: two packets): Read returned n=%d err=%v, want ErrPopWhileBuffering", seq, n, err)
			}
			return nil
		}
		if f := sibling(7); f != nil {
			fail, done = f, true
			return
		}
		for k, a := range script {
			if _, f := x.apply(a); f != nil {
				f.msg = fmt.Sprintf("in the scripted prefix, step %d of %q: %s", k+1, c.Script, f.msg)
				fail = f
				done = true
				return
			}
		}
		for i, a := range hist {
			last := i == len(hist)-1
			started := x.m.started
			out, f := x.apply(a)
			if f != nil {
				if last {
					fail = f
				} else {
					step.Dead = true
				}
				done = true
				return
			}
			if last {
				step.Outcome = "icpt:" + out
				step.Nontrivial = started || x.m.started
			}
		}
		step.Key = hk.DeepHash(x.i) ^ x.m.hash()
		if f := sibling(8); f != nil {
			fail, done = f, true
			return
		}
		x.call = "Close"
		_ = x.i.Close()
		done = true
	})
	if fail == nil && (!done || res.StepLimit || len(res.Panics) > 0 || res.Deadlock) {
		fail = runFailure(res, x.call)
		if fail == nil {
			fail = failf("harness-failure", "execution ended early without a recorded reason during %s", x.call)
		}
	}
	if fail != nil {
		step.Violation = fail.violation(c, hist)
		step.Dead = false
	}
	return step
}
