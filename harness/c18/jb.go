package c18

import (
	"errors"
	"fmt"
	"sort"

	"github.com/pion/interceptor/pkg/jitterbuffer"
	"github.com/pion/interceptor/verifh/hk"
	"github.com/pion/interceptor/vsched"
	"github.com/pion/rtp"
)

type opKind int

const (
	opPush opKind = iota
	opPop
	opPopSeq
	opPopTS
	opPeekHead
	opPeekLast
	opPeekSeq
	opSetHead
	opClear
	opClearReset
)

type jbOp struct {
	kind opKind
	seq  uint16
	ts   uint32
	name string
}

func jbOps(c config) []jbOp {
	var ops []jbOp
	for _, s := range c.Seqs {
		ops = append(ops, jbOp{opPush, s, tsA, fmt.Sprintf("Push(%d,a)", s)})
	}
	for _, s := range c.Seqs {
		ops = append(ops, jbOp{opPush, s, tsB, fmt.Sprintf("Push(%d,b)", s)})
	}
	ops = append(ops, jbOp{kind: opPop, name: "Pop"})
	for _, s := range c.Seqs {
		ops = append(ops, jbOp{opPopSeq, s, 0, fmt.Sprintf("PopAtSequence(%d)", s)})
	}
	ops = append(ops, jbOp{opPopTS, 0, tsA, "PopAtTimestamp(a)"}, jbOp{opPopTS, 0, tsB, "PopAtTimestamp(b)"})
	ops = append(ops, jbOp{kind: opClear, name: "Clear(false)"}, jbOp{kind: opClearReset, name: "Clear(true)"})
	for _, s := range c.Seqs {
		ops = append(ops, jbOp{opSetHead, s, 0, fmt.Sprintf("SetPlayoutHead(%d)", s)})
	}
	if c.Peeks {
		ops = append(ops, jbOp{kind: opPeekHead, name: "Peek(true)"}, jbOp{kind: opPeekLast, name: "Peek(false)"})
		for _, s := range c.Seqs {
			ops = append(ops, jbOp{opPeekSeq, s, 0, fmt.Sprintf("PeekAtSequence(%d)", s)})
		}
	}
	return ops
}

// status of a pushed packet object in the reference
const (
	stBuffered byte = iota
	stReturned
	stCleared
)

// rec is the reference's record of one pushed packet object.
type rec struct {
	p   *rtp.Packet
	seq uint16
	ts  uint32
	idx int // position of the push in the history
	st  byte
}

func (r *rec) set(st byte) {
	r.st = st
	r.p.Payload[0] = st // see Assumptions: only for the state hash
}

func (r *rec) String() string {
	t := "a"
	if r.ts == tsB {
		t = "b"
	}
	return fmt.Sprintf("#%d(seq %d,ts %s)", r.idx, r.seq, t)
}

// store is the multiset "sequence number -> packet objects pushed and still buffered".
type store struct {
	recs map[*rtp.Packet]*rec
	buf  map[uint16][]*rec
	n    int
	idx  int
}

func newStore() *store { return &store{recs: map[*rtp.Packet]*rec{}, buf: map[uint16][]*rec{}} }

func (s *store) push(seq uint16, ts uint32) *rec {
	p := &rtp.Packet{Header: rtp.Header{Version: 2, SequenceNumber: seq, Timestamp: ts}, Payload: []byte{stBuffered}}
	r := &rec{p: p, seq: seq, ts: ts, idx: s.idx}
	s.idx++
	s.recs[p] = r
	s.buf[seq] = append(s.buf[seq], r)
	s.n++
	return r
}

func (s *store) remove(r *rec, st byte) {
	l := s.buf[r.seq]
	for i, x := range l {
		if x == r {
			l = append(l[:i:i], l[i+1:]...)
			break
		}
	}
	if len(l) == 0 {
		delete(s.buf, r.seq)
	} else {
		s.buf[r.seq] = l
	}
	s.n--
	r.set(st)
}

func (s *store) clear() {
	for _, l := range s.buf {
		for _, r := range l {
			r.set(stCleared)
		}
	}
	s.buf = map[uint16][]*rec{}
	s.n = 0
}

func (s *store) withTS(ts uint32) []*rec {
	var out []*rec
	for _, l := range s.buf {
		for _, r := range l {
			if r.ts == ts {
				out = append(out, r)
			}
		}
	}
	return out
}

func (s *store) hashInts() []int64 {
	var vs []int64
	for _, l := range s.buf {
		for _, r := range l {
			vs = append(vs, int64(r.seq)<<32|int64(r.ts))
		}
	}
	sort.Slice(vs, func(i, j int) bool { return vs[i] < vs[j] })
	return append([]int64{int64(len(vs))}, vs...)
}

func (s *store) String() string {
	var keys []int
	for k := range s.buf {
		keys = append(keys, int(k))
	}
	sort.Ints(keys)
	out := "{"
	for _, k := range keys {
		out += fmt.Sprintf("%d:%v ", k, s.buf[uint16(k)])
	}
	return out + "}"
}

type optU16 struct {
	ok bool
	v  uint16
}

func (o optU16) i64() int64 {
	if !o.ok {
		return -1
	}
	return int64(o.v)
}

// jbModel is the reference for the JitterBuffer histories.
type jbModel struct {
	*store
	min         int
	recv        int  // packets pushed since construction / the last Clear(true)
	lo, hi      bool // playback certainly / possibly started (buffered count / received count reached the minimum)
	firstReset  optU16
	firstEmpty  optU16
	headTouched bool   // SetPlayoutHead was called at some point: the start position is the caller's business
	lastPop     optU16 // number returned by the last successful pop at the playout head with no head-moving call since
	popped      bool   // a pop succeeded since construction / the last Clear(true)
	everReset   bool
}

func (m *jbModel) hash() uint64 {
	b := func(x bool) int64 {
		if x {
			return 1
		}
		return 0
	}
	recv := m.recv
	if recv > m.min {
		recv = m.min
	}
	vs := []int64{int64(m.min), int64(recv), b(m.lo), b(m.hi), b(m.headTouched), m.lastPop.i64(), b(m.popped), b(m.everReset)}
	if !m.lo {
		vs = append(vs, m.firstReset.i64(), m.firstEmpty.i64())
	}
	return hk.HashInts(append(vs, m.hashInts()...)...)
}

type probeRes struct {
	name string
	p    *rtp.Packet
	err  string
}

type jbRun struct {
	c    config
	jb   *jitterbuffer.JitterBuffer
	m    *jbModel
	call string // exported call in progress (for diagnostics of endless loops and panics)
}

func errStr(err error) string {
	if err == nil {
		return ""
	}
	return err.Error()
}

// probe calls every observer; the results are compared around failing pops and
// checked against the Clear clause after the last operation.
func (x *jbRun) probe() (uint16, []probeRes) {
	x.call = "PlayoutHead()"
	head := x.jb.PlayoutHead()
	var out []probeRes
	x.call = "Peek(true)"
	p, err := x.jb.Peek(true)
	out = append(out, probeRes{x.call, p, errStr(err)})
	x.call = "Peek(false)"
	p, err = x.jb.Peek(false)
	out = append(out, probeRes{x.call, p, errStr(err)})
	for _, s := range x.c.Seqs {
		x.call = fmt.Sprintf("PeekAtSequence(%d)", s)
		p, err = x.jb.PeekAtSequence(s)
		out = append(out, probeRes{x.call, p, errStr(err)})
	}
	return head, out
}

func (x *jbRun) pname(p *rtp.Packet) string {
	if p == nil {
		return "nil"
	}
	if r := x.m.recs[p]; r != nil {
		return r.String()
	}
	return fmt.Sprintf("unknown packet(seq %d)", p.SequenceNumber)
}

// checkPeek applies the only clause the statement has for peek/find results.
func checkPeek(recs map[*rtp.Packet]*rec, call string, p *rtp.Packet, what string) *failure {
	if p == nil {
		return nil
	}
	r := recs[p]
	if r == nil {
		return failf("unpushed-packet-returned", "%s returned a packet object that was never pushed (seq %d)", call, p.SequenceNumber)
	}
	if r.st == stCleared {
		return failf("cleared-packet-returned-by-"+what, "%s returned %v, which was buffered before Clear; after Clear nothing buffered earlier may be returned", call, r)
	}
	return nil
}

func (x *jbRun) checkProbes(pr []probeRes) *failure {
	for _, r := range pr {
		if f := checkPeek(x.m.recs, r.name, r.p, "peek"); f != nil {
			return f
		}
	}
	return nil
}

func diffProbes(call string, h0 uint16, b []probeRes, h1 uint16, a []probeRes, name func(*rtp.Packet) string) *failure {
	if h0 != h1 {
		return failf("failed-pop-moves-head", "%s failed but moved the playout head from %d to %d", call, h0, h1)
	}
	for i := range b {
		if b[i].p != a[i].p || b[i].err != a[i].err {
			return failf("failed-pop-disturbs-buffer", "%s failed, but %s answered (%s, %q) before it and (%s, %q) after it",
				call, b[i].name, name(b[i].p), b[i].err, name(a[i].p), a[i].err)
		}
	}
	return nil
}

// judgePop evaluates the result of a pop-like call against the candidates the
// reference allows it to return. It returns the record popped (nil on failure).
func judgePop(m *store, lo, hi, everReset bool, call string, p *rtp.Packet, err error, cands []*rec, want string) (*rec, *failure) {
	if err == nil {
		if p == nil {
			return nil, failf("nil-packet-without-error", "%s returned (nil, nil)", call)
		}
		r := m.recs[p]
		switch {
		case r == nil:
			return nil, failf("unpushed-packet-returned", "%s returned a packet object that was never pushed (seq %d)", call, p.SequenceNumber)
		case r.st == stCleared:
			return nil, failf("cleared-packet-returned-by-pop", "%s returned %v, which was buffered before Clear; after Clear nothing buffered earlier may be returned (buffered now: %v)", call, r, m)
		case r.st == stReturned:
			return nil, failf("packet-returned-twice", "%s returned %v, which an earlier pop had already returned", call, r)
		case !hi:
			return nil, failf("pop-before-playback-not-refused", "%s returned %v although playback has not started (minimum packet count not reached)", call, r)
		}
		for _, c := range cands {
			if c == r {
				return r, nil
			}
		}
		return nil, failf("pop-returns-wrong-packet", "%s returned %v; expected %s (buffered: %v)", call, r, want, m)
	}
	if lo && len(cands) > 0 {
		if errors.Is(err, jitterbuffer.ErrPopWhileBuffering) {
			if everReset {
				return nil, failf("pop-refused-after-reset-and-minimum-count-reached", "%s refused with %q although the configured minimum packet count was reached again after Clear(true) and %s is buffered (buffered: %v)", call, err, want, m)
			}
			return nil, failf("pop-refused-after-minimum-count-reached", "%s refused with %q although the minimum packet count was reached and %s is buffered (buffered: %v)", call, err, want, m)
		}
		return nil, failf("pop-fails-although-buffered", "%s failed with %q although playback has started and %s is buffered (buffered: %v)", call, err, want, m)
	}
	return nil, nil
}

// apply performs one operation, checks it against the reference and returns an observation class.
func (x *jbRun) apply(o jbOp, last bool) (string, *failure) {
	m, jb := x.m, x.jb
	switch o.kind {
	case opPush:
		r := m.push(o.seq, o.ts)
		if m.recv == 0 {
			m.firstReset = optU16{true, o.seq}
		}
		if m.n == 1 {
			m.firstEmpty = optU16{true, o.seq}
		}
		m.recv++
		x.call = o.name
		jb.Push(r.p)
		wasLo := m.lo
		if m.n >= m.min {
			m.lo = true
		}
		if m.recv >= m.min {
			m.hi = true
		}
		if !wasLo && m.lo && !m.headTouched && !m.popped {
			x.call = "PlayoutHead()"
			h := jb.PlayoutHead()
			if h != m.firstReset.v && h != m.firstEmpty.v {
				return "", failf("playback-does-not-start-at-first-buffered-packet",
					"%s reached the minimum packet count %d: playback starts with the playout head at %d, but the first packet buffered was %d", o.name, m.min, h, m.firstEmpty.v)
			}
			return "push:start", nil
		}
		return "push", nil

	case opPop, opPopSeq, opPopTS:
		var h0 uint16
		var before []probeRes
		if last {
			h0, before = x.probe()
		} else {
			x.call = "PlayoutHead()"
			h0 = jb.PlayoutHead()
		}
		var cands []*rec
		var want string
		var p *rtp.Packet
		var err error
		x.call = o.name
		switch o.kind {
		case opPop:
			cands, want = m.buf[h0], fmt.Sprintf("a packet pushed with number %d (the playout head)", h0)
			x.call = fmt.Sprintf("Pop() at playout head %d", h0)
			p, err = jb.Pop()
		case opPopSeq:
			cands, want = m.buf[o.seq], fmt.Sprintf("a packet pushed with number %d", o.seq)
			p, err = jb.PopAtSequence(o.seq)
		default:
			cands, want = m.withTS(o.ts), fmt.Sprintf("a buffered packet with timestamp %d", o.ts)
			p, err = jb.PopAtTimestamp(o.ts)
		}
		call := x.call
		r, f := judgePop(m.store, m.lo, m.hi, m.everReset, call, p, err, cands, want)
		if f != nil {
			return "", f
		}
		if r == nil {
			// failed or refused: nothing may have changed
			if last {
				h1, after := x.probe()
				if f := diffProbes(call, h0, before, h1, after, x.pname); f != nil {
					return "", f
				}
			}
			switch {
			case !m.hi:
				return "pop:refused-before-playback", nil
			case !m.lo:
				return "pop:failed-in-ambiguous-start-zone", nil
			}
			return "pop:failed-not-buffered", nil
		}
		m.remove(r, stReturned)
		m.popped = true
		atHead := o.kind == opPop || (o.kind == opPopSeq && o.seq == h0)
		switch {
		case atHead:
			if m.lastPop.ok && r.seq != m.lastPop.v+1 {
				return "", failf("head-pops-not-consecutive", "%s returned number %d, the previous pop at the playout head returned %d and no head-moving call happened in between", call, r.seq, m.lastPop.v)
			}
			m.lastPop = optU16{true, r.seq}
			x.call = "PlayoutHead()"
			if h1 := jb.PlayoutHead(); h1 != h0+1 {
				return "", failf("head-not-advanced-by-pop", "%s returned number %d but the playout head went from %d to %d instead of %d", call, r.seq, h0, h1, h0+1)
			}
			return "pop:head", nil
		case o.kind == opPopSeq:
			m.lastPop = optU16{} // the implementation moves the head here; no order is demanded across it
			return "pop:sequence-away-from-head", nil
		}
		return "pop:timestamp", nil

	case opPeekHead, opPeekLast, opPeekSeq:
		x.call = o.name
		var p *rtp.Packet
		var err error
		switch o.kind {
		case opPeekHead:
			p, err = jb.Peek(true)
		case opPeekLast:
			p, err = jb.Peek(false)
		default:
			p, err = jb.PeekAtSequence(o.seq)
		}
		if f := checkPeek(m.recs, o.name, p, "peek"); f != nil {
			return "", f
		}
		if err == nil && p == nil {
			return "peek:nil-without-error", nil // not covered by the statement; recorded only
		}
		if p != nil {
			if m.recs[p].st == stReturned {
				return "peek:returned-packet", nil
			}
			return "peek:ok", nil
		}
		return "peek:err", nil

	case opSetHead:
		x.call = o.name
		jb.SetPlayoutHead(o.seq)
		m.headTouched = true
		m.lastPop = optU16{}
		return "sethead", nil

	case opClear, opClearReset:
		x.call = o.name
		jb.Clear(o.kind == opClearReset)
		m.clear()
		m.lastPop = optU16{}
		if o.kind == opClearReset {
			m.lo, m.hi, m.recv, m.popped = false, false, 0, false
			m.firstReset, m.firstEmpty = optU16{}, optU16{}
			m.everReset = true
		}
		return "clear", nil
	}
	return "", failf("harness-failure", "unknown op")
}

func execJB(c config, hist []int) hk.Step {
	var step hk.Step
	ops := jbOps(c)
	x := &jbRun{c: c, m: &jbModel{store: newStore(), min: c.Min}}
	var fail *failure
	done := false
	res := vsched.Run(vsched.Options{Strategy: vsched.BackgroundFirst{}, MaxSteps: 200000}, func() {
		x.call = "New"
		x.jb = jitterbuffer.New(jitterbuffer.WithMinimumPacketCount(uint16(c.Min)))
		pushes := 0
		// a run of consecutive packets pushed before the history starts (large minimum-start counts)
		for k := 0; k < c.Pre; k++ {
			q := c.Seqs[0] - uint16(c.Pre) + uint16(k)
			if _, f := x.apply(jbOp{opPush, q, tsA, fmt.Sprintf("Push(%d,a)", q)}, false); f != nil {
				fail = f
				done = true
				return
			}
			pushes++
		}
		for i, a := range hist {
			last := i == len(hist)-1
			o := ops[a]
			out, f := x.apply(o, last)
			if f != nil {
				if last {
					fail = f
				} else {
					step.Dead = true // the prefix failed when it was explored as a history of its own
				}
				done = true
				return
			}
			if last {
				step.Outcome = out
				step.Nontrivial = pushes > 0 && o.kind != opPush && o.kind != opSetHead && o.kind != opClear && o.kind != opClearReset
			}
			if o.kind == opPush {
				pushes++
			}
		}
		step.Key = hk.DeepHash(x.jb) ^ x.m.hash()
		// all observers after the last operation: the Clear clause, and termination of every find
		_, pr := x.probe()
		fail = x.checkProbes(pr)
		done = true
	})
	if fail == nil && (!done || res.StepLimit || len(res.Panics) > 0) {
		fail = runFailure(res, x.call)
		if fail == nil {
			fail = failf("harness-failure", "execution ended early without a recorded reason during %s", x.call)
		}
	}
	if fail != nil {
		step.Violation = fail.violation(c, hist)
		step.Dead = false
	}
	return step
}
