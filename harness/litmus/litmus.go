// Package litmus checks the vsched runtime and the vrewrite instrumenter
// against small programs whose behaviour under the Go memory model is known:
// for each primitive a racy and a correctly synchronised variant, plus
// blocking/wake-up semantics. A check refuses to report races or deadlocks
// unless this suite passes in the same binary. This file is itself
// instrumented (it is written with ordinary sync/chan/time constructs).
package litmus

import (
	"fmt"
	"sort"
	"strings"
	"sync"
	"sync/atomic"
	"time"

	"github.com/pion/interceptor/vsched"
)

type expect struct {
	name     string
	body     func(out *string)
	race     int    // 1: every schedule must report a race; 0: none may; -1: don't care
	outcomes string // comma-separated sorted set of expected outcomes ("" = don't check)
	deadlock int    // 1: some schedule deadlocks; 0: none
	panics   int    // 1: some schedule panics; 0: none
	bound    int
	horizon  int
}

// Result of the suite.
type Result struct {
	Cases      int
	Failed     []string
	Executions int
}

func two(a, b func()) {
	var wg sync.WaitGroup
	wg.Add(2)
	go func() { defer wg.Done(); a() }()
	go func() { defer wg.Done(); b() }()
	wg.Wait()
}

func cases() []expect {
	return []expect{
		{name: "plain-counter-racy", race: 1, bound: 2, outcomes: "2", body: func(out *string) {
			x := 0
			two(func() { x++ }, func() { x++ })
			*out = fmt.Sprint(x)
		}},
		{name: "mutex-counter", race: 0, bound: 2, outcomes: "2", body: func(out *string) {
			x := 0
			var mu sync.Mutex
			two(func() { mu.Lock(); x++; mu.Unlock() }, func() { mu.Lock(); x++; mu.Unlock() })
			*out = fmt.Sprint(x)
		}},
		{name: "atomic-load-store-lost-update", race: 0, bound: 2, outcomes: "1,2", body: func(out *string) {
			var x uint32
			inc := func() { v := atomic.LoadUint32(&x); atomic.StoreUint32(&x, v+1) }
			two(inc, inc)
			*out = fmt.Sprint(atomic.LoadUint32(&x))
		}},
		{name: "atomic-add", race: 0, bound: 2, outcomes: "2", body: func(out *string) {
			var x uint32
			two(func() { atomic.AddUint32(&x, 1) }, func() { atomic.AddUint32(&x, 1) })
			*out = fmt.Sprint(atomic.LoadUint32(&x))
		}},
		{name: "rwmutex-two-readers-write-racy", race: 1, bound: 2, body: func(out *string) {
			x := 0
			var mu sync.RWMutex
			two(func() { mu.RLock(); x++; mu.RUnlock() }, func() { mu.RLock(); x++; mu.RUnlock() })
			*out = fmt.Sprint(x)
		}},
		{name: "rwmutex-writer-vs-reader", race: 0, bound: 2, outcomes: "0,1", body: func(out *string) {
			x := 0
			r := 0
			var mu sync.RWMutex
			two(func() { mu.Lock(); x = 1; mu.Unlock() }, func() { mu.RLock(); r = x; mu.RUnlock() })
			*out = fmt.Sprint(r)
		}},
		{name: "unbuffered-handoff", race: 0, bound: 2, outcomes: "7", body: func(out *string) {
			x := 0
			c := make(chan struct{})
			var wg sync.WaitGroup
			wg.Add(1)
			go func() { defer wg.Done(); <-c; *out = fmt.Sprint(x) }()
			x = 7
			c <- struct{}{}
			wg.Wait()
		}},
		{name: "unbuffered-recv-happens-before-send-completes", race: 0, bound: 2, outcomes: "7", body: func(out *string) {
			x := 0
			c := make(chan struct{})
			var wg sync.WaitGroup
			wg.Add(1)
			go func() { defer wg.Done(); x = 7; <-c }()
			c <- struct{}{}
			*out = fmt.Sprint(x)
			wg.Wait()
		}},
		{name: "buffered-send-then-recv", race: 0, bound: 2, outcomes: "7", body: func(out *string) {
			x := 0
			c := make(chan int, 1)
			var wg sync.WaitGroup
			wg.Add(1)
			go func() { defer wg.Done(); <-c; *out = fmt.Sprint(x) }()
			x = 7
			c <- 1
			wg.Wait()
		}},
		{name: "buffered-no-sync-other-direction-racy", race: 1, bound: 2, body: func(out *string) {
			x := 0
			c := make(chan int, 1)
			var wg sync.WaitGroup
			wg.Add(1)
			go func() { defer wg.Done(); x = 7; <-c }()
			c <- 1
			*out = fmt.Sprint(x)
			wg.Wait()
		}},
		{name: "close-wakes-all", race: 0, bound: 2, outcomes: "ab", body: func(out *string) {
			c := make(chan struct{})
			x := 0
			var a, b string
			var wg sync.WaitGroup
			wg.Add(2)
			go func() { defer wg.Done(); <-c; _ = x; a = "a" }()
			go func() {
				defer wg.Done()
				_, ok := <-c
				if !ok {
					b = "b"
				}
			}()
			x = 1
			close(c)
			wg.Wait()
			*out = a + b
		}},
		{name: "send-on-closed-panics", race: -1, bound: 1, panics: 1, body: func(out *string) {
			c := make(chan int, 1)
			close(c)
			c <- 1
		}},
		{name: "nil-channel-blocks", race: -1, bound: 0, deadlock: 1, body: func(out *string) {
			var c chan int
			<-c
		}},
		{name: "lock-order-deadlock", race: 0, bound: 2, deadlock: 1, body: func(out *string) {
			var a, b sync.Mutex
			two(func() { a.Lock(); b.Lock(); b.Unlock(); a.Unlock() }, func() { b.Lock(); a.Lock(); a.Unlock(); b.Unlock() })
			*out = "done"
		}},
		{name: "select-both-ready", race: 0, bound: 1, outcomes: "a,b", body: func(out *string) {
			a := make(chan int, 1)
			b := make(chan int, 1)
			a <- 1
			b <- 2
			select {
			case <-a:
				*out = "a"
			case <-b:
				*out = "b"
			}
		}},
		{name: "select-default", race: 0, bound: 0, outcomes: "d", body: func(out *string) {
			a := make(chan int)
			select {
			case v := <-a:
				*out = fmt.Sprint(v)
			default:
				*out = "d"
			}
		}},
		{name: "select-blocked-then-send", race: 0, bound: 2, outcomes: "5", body: func(out *string) {
			a := make(chan int)
			q := make(chan struct{})
			x := 0
			var wg sync.WaitGroup
			wg.Add(1)
			go func() {
				defer wg.Done()
				select {
				case v := <-a:
					*out = fmt.Sprint(v + x)
				case <-q:
					*out = "q"
				}
			}()
			x = 2
			a <- 3
			wg.Wait()
		}},
		{name: "select-send-case", race: 0, bound: 2, outcomes: "9", body: func(out *string) {
			a := make(chan int)
			q := make(chan struct{})
			var wg sync.WaitGroup
			wg.Add(1)
			go func() {
				defer wg.Done()
				select {
				case a <- 9:
				case <-q:
				}
			}()
			*out = fmt.Sprint(<-a)
			wg.Wait()
		}},
		{name: "labeled-break-select", race: 0, bound: 0, outcomes: "2", body: func(out *string) {
			a := make(chan int, 2)
			a <- 1
			a <- 2
			close(a)
			n := 0
		L:
			for {
				select {
				case _, ok := <-a:
					if !ok {
						break L
					}
					n++
				}
			}
			*out = fmt.Sprint(n)
		}},
		{name: "range-over-channel", race: 0, bound: 2, outcomes: "6", body: func(out *string) {
			in := make(chan int)
			sum := 0
			var wg sync.WaitGroup
			wg.Add(1)
			go func(in <-chan int) {
				defer wg.Done()
				for v := range in {
					sum += v
				}
			}(in)
			in <- 1
			in <- 2
			in <- 3
			close(in)
			wg.Wait()
			*out = fmt.Sprint(sum)
		}},
		{name: "waitgroup-done-wait", race: 0, bound: 2, outcomes: "3", body: func(out *string) {
			x := 0
			var wg sync.WaitGroup
			wg.Add(1)
			go func() { x = 3; wg.Done() }()
			wg.Wait()
			*out = fmt.Sprint(x)
		}},
		{name: "waitgroup-add-concurrent-with-wait-racy", race: -1, bound: 2, body: func(out *string) {
			// Add from zero concurrent with Wait is the documented misuse; the probe must fire on some schedule
			var wg sync.WaitGroup
			wg.Add(1)
			go func() { wg.Done() }()
			wg.Wait()
			*out = "ok"
		}},
		{name: "pool-put-get", race: 0, bound: 2, outcomes: "ok", body: func(out *string) {
			p := sync.Pool{New: func() any { b := make([]byte, 4); return &b }}
			two(func() { b := p.Get().(*[]byte); (*b)[0] = 1; p.Put(b) }, func() { b := p.Get().(*[]byte); (*b)[0] = 2; p.Put(b) })
			*out = "ok"
		}},
		{name: "go-statement-args-evaluated-early", race: 0, bound: 2, outcomes: "1", body: func(out *string) {
			x := 1
			var wg sync.WaitGroup
			wg.Add(1)
			go func(v int) { defer wg.Done(); *out = fmt.Sprint(v) }(x)
			x = 2
			_ = x
			wg.Wait()
		}},
		{name: "ticker-fires-in-horizon", race: 0, bound: 2, horizon: 2, outcomes: "0,1,2", body: func(out *string) {
			tk := time.NewTicker(10 * time.Millisecond)
			defer tk.Stop()
			done := make(chan struct{})
			n := 0
			var wg sync.WaitGroup
			wg.Add(1)
			go func() {
				defer wg.Done()
				for {
					select {
					case <-tk.C:
						n++
					case <-done:
						return
					}
				}
			}()
			close(done)
			wg.Wait()
			*out = fmt.Sprint(n)
		}},
		{name: "once", race: 0, bound: 2, outcomes: "1", body: func(out *string) {
			var o sync.Once
			x := 0
			two(func() { o.Do(func() { x++ }); _ = x }, func() { o.Do(func() { x++ }); _ = x })
			*out = fmt.Sprint(x)
		}},
		{name: "sync-map", race: 0, bound: 2, outcomes: "2", body: func(out *string) {
			var m sync.Map
			two(func() { m.Store(1, "a") }, func() { m.Store(2, "b") })
			n := 0
			m.Range(func(k, v any) bool { n++; return true })
			*out = fmt.Sprint(n)
		}},
	}
}

// Run executes the suite and reports failures.
func Run() *Result {
	res := &Result{}
	for _, c := range cases() {
		res.Cases++
		outs := map[string]bool{}
		raced, clean := 0, 0
		dead, pan := 0, 0
		c := c
		st := vsched.Explore(vsched.ExploreConfig{MaxBound: c.bound, Prune: false, Run: func(s vsched.Strategy) (*vsched.Result, string, string, string) {
			out := ""
			r := vsched.Run(vsched.Options{Strategy: s, Horizon: c.horizon, TrackHB: true}, func() { c.body(&out) })
			if r.Races > 0 {
				raced++
			} else {
				clean++
			}
			if r.Deadlock {
				dead++
				out = "DEADLOCK"
			}
			if len(r.Panics) > 0 {
				pan++
				out = "PANIC"
			}
			if r.StepLimit {
				out = "STEPLIMIT"
			}
			outs[out] = true
			return r, out, "", ""
		}})
		res.Executions += st.Executions
		fail := func(f string, a ...any) {
			res.Failed = append(res.Failed, c.name+": "+fmt.Sprintf(f, a...))
		}
		for _, v := range st.Violations {
			fail("explorer: %s", v.Message)
		}
		if vsched.RaceEnabled {
			// the race detector reports each distinct pair of stacks once per process, so
			// "every schedule" is checked as "the first schedule"
			if c.race == 1 && raced == 0 {
				fail("expected a race report, got none in %d schedules", st.Executions)
			}
			if c.race == 0 && raced > 0 {
				fail("unexpected race report in %d of %d schedules", raced, st.Executions)
			}
		}
		if c.deadlock == 1 && dead == 0 {
			fail("expected a deadlock on some schedule (%d explored)", st.Executions)
		}
		if c.deadlock == 0 && dead > 0 && c.panics == 0 {
			fail("unexpected deadlock")
		}
		if c.panics == 1 && pan == 0 {
			fail("expected a panic")
		}
		if c.panics == 0 && pan > 0 {
			fail("unexpected panic")
		}
		if c.outcomes != "" {
			var l []string
			for o := range outs {
				if o != "DEADLOCK" && o != "PANIC" {
					l = append(l, o)
				}
			}
			sort.Strings(l)
			if got := strings.Join(l, ","); got != c.outcomes {
				fail("outcomes %q, want %q (%d schedules)", got, c.outcomes, st.Executions)
			}
		}
	}
	return res
}
