package c09

// Reference model and oracle. The model is a plain list of the packets that
// were handed to the send seam plus, per feedback packet, the table decoded by
// wire.go from the marshalled bytes. Nothing here looks at how the code under
// test stores or walks anything.

import (
	"fmt"
	"sort"
	"strconv"
	"strings"
	"time"
)

// stream identifiers of the send language.
const (
	ssrcT = 0x7001     // TWCC stream
	ssrcU = 0x7002     // second TWCC stream (shares the transport-wide counter)
	ssrcA = 0x1A2BA001 // stream without the TWCC extension (RFC 8888 feedback)
	ssrcB = 0x7711A001 // second stream without the TWCC extension (same low 16 bits as the first: SSRCs are 32-bit numbers)
	ssrcX = 0xC001     // never bound, never sent on
	extID = 5
)

// historySize is the documented size of the FeedbackAdapter history.
const historySize = 250

// step is one step of a case: a burst of sends or one RTCP (compound) packet read.
type step struct {
	S string `json:"s,omitempty"` // sends: letters T,U,A,B (send on that stream), t,a,b (skip one number), each optionally followed by a repeat count
	F string `json:"f,omitempty"` // feedback: hex of the RTCP bytes handed to the decoder
	N string `json:"n,omitempty"` // how the feedback was produced (documentation only)
}

// caseDesc is one case: it is also the replay format.
type caseDesc struct {
	Target string `json:"target"` // "cc" (internal/cc.FeedbackAdapter) or "rtpfb" (pkg/rtpfb.Interceptor through Bind*)
	Start  uint16 `json:"start"`  // S: the transport-wide counter starts at S-2, stream A at S+3, stream B at S, T at S+7, U at S+11
	Steps  []step `json:"steps"`
	Key    string `json:"key,omitempty"` // replay: the class that was observed
}

// sentPkt is one packet handed to the send seam.
type sentPkt struct {
	idx     int // send order
	twcc    bool
	ssrc    uint32
	rtpSeq  uint16
	twccSeq uint16
	payload int
	hdr     int
	dep     time.Time
}

func (p *sentPkt) String() string {
	if p.twcc {
		return fmt.Sprintf("#%d(twcc %d, ssrc %#x seq %d, %d+%d bytes)", p.idx, p.twccSeq, p.ssrc, p.rtpSeq, p.hdr, p.payload)
	}
	return fmt.Sprintf("#%d(ssrc %#x seq %d, %d+%d bytes)", p.idx, p.ssrc, p.rtpSeq, p.hdr, p.payload)
}

type ssrcSeq struct {
	ssrc uint32
	seq  uint16
}

// sendOp is one expanded element of a send burst.
type sendOp struct {
	stream byte // 'T','U','A','B'
	skip   bool
}

func parseSends(s string) ([]sendOp, error) {
	var out []sendOp
	for i := 0; i < len(s); {
		c := s[i]
		i++
		j := i
		for j < len(s) && s[j] >= '0' && s[j] <= '9' {
			j++
		}
		n := 1
		if j > i {
			n, _ = strconv.Atoi(s[i:j])
			i = j
		}
		var op sendOp
		switch c {
		case 'T', 'U', 'A', 'B':
			op = sendOp{stream: c}
		case 't':
			op = sendOp{stream: 'T', skip: true}
		case 'a':
			op = sendOp{stream: 'A', skip: true}
		case 'b':
			op = sendOp{stream: 'B', skip: true}
		default:
			return nil, fmt.Errorf("bad send letter %q", c)
		}
		for k := 0; k < n; k++ {
			out = append(out, op)
		}
	}
	return out, nil
}

// counters hands out the numbers of the send language.
type counters struct {
	tw, a, b, t, u uint16
}

func newCounters(start uint16) *counters {
	return &counters{tw: start - 2, a: start + 3, b: start, t: start + 7, u: start + 11}
}

// next returns the packet for one send op (nil for a skip).
func (c *counters) next(op sendOp, idx int) *sentPkt {
	switch op.stream {
	case 'T', 'U':
		tw := c.tw
		c.tw++
		if op.skip {
			return nil
		}
		p := &sentPkt{idx: idx, twcc: true, twccSeq: tw, payload: 10 + idx, hdr: 20}
		if op.stream == 'T' {
			p.ssrc, p.rtpSeq = ssrcT, c.t
			c.t++
		} else {
			p.ssrc, p.rtpSeq = ssrcU, c.u
			c.u++
		}
		return p
	case 'A':
		s := c.a
		c.a++
		if op.skip {
			return nil
		}
		return &sentPkt{idx: idx, ssrc: ssrcA, rtpSeq: s, payload: 10 + idx, hdr: 12}
	default:
		s := c.b
		c.b++
		if op.skip {
			return nil
		}
		return &sentPkt{idx: idx, ssrc: ssrcB, rtpSeq: s, payload: 10 + idx, hdr: 12}
	}
}

// finding is one violated demand.
type finding struct {
	Key string
	Msg string
}

// fbStatus is what a feedback says about one sent packet.
type fbStatus struct {
	covered  bool
	received bool
	twcc     bool
	timeUS   int64  // twcc: receiver clock
	rts      uint32 // ccfb
	ato      uint16
	ecn      uint8
	src      string
	again    bool // ccfb: a later report block of the same packet names the same SSRC
}

// model is the reference: what was sent, and the epoch anchor for TWCC times.
type model struct {
	sent   []*sentPkt
	byTWCC map[uint16]*sentPkt // most recent packet per transport-wide number
	bySeq  map[ssrcSeq]*sentPkt

	obs []twccObs // TWCC arrival times, checked at the end of the execution

	// rtpfb only
	status   map[int]fbStatus // latest in-range feedback status per packet
	reported map[int]bool
	lastRep  int

	checked  int // acknowledgements / packet reports compared
	recvSeen int // of which: received according to the feedback
}

func newModel() *model {
	return &model{byTWCC: map[uint16]*sentPkt{}, bySeq: map[ssrcSeq]*sentPkt{}, status: map[int]fbStatus{}, reported: map[int]bool{}, lastRep: -1}
}

func (m *model) addSent(p *sentPkt) {
	m.sent = append(m.sent, p)
	if p.twcc {
		m.byTWCC[p.twccSeq] = p
	} else {
		k := ssrcSeq{p.ssrc, p.rtpSeq}
		m.bySeq[k] = p
	}
}

// recent reports whether the packet is among the most recent 250 distinct keys sent.
func (m *model) recent(p *sentPkt) bool {
	return len(m.sent)-p.idx <= historySize
}

// twccObs is one arrival time returned for a packet that a TWCC feedback declares received.
type twccObs struct {
	kind string
	p    *sentPkt
	got  time.Time
	us   int64 // receiver-clock time the feedback encodes: reference time * 64 ms + sum of deltas
	src  string
}

// twccTime notes an arrival time for the epoch check at the end of the execution.
func (m *model) twccTime(kind string, p *sentPkt, got time.Time, us int64, src string) {
	m.obs = append(m.obs, twccObs{kind, p, got, us, src})
}

func (o twccObs) who() string { return fmt.Sprintf("%s for %v", o.kind, o.p) }

// epochFindings checks the noted arrival times. A TWCC feedback fixes arrival
// times only relative to the receiver's clock, so the epoch the decoder maps
// them to is free, but it must be one epoch for the whole execution:
// arrival - encoded time must be the same instant for every acknowledgement.
// The epoch most acknowledgements agree on is taken as the decoder's epoch.
func (m *model) epochFindings(key string) []finding {
	type ep struct {
		sec  int64
		nsec int
	}
	count := map[ep]int{}
	first := map[ep]int{}
	epoch := func(o twccObs) ep {
		t := o.got.Add(-time.Duration(o.us) * time.Microsecond)
		return ep{t.Unix(), t.Nanosecond()}
	}
	for i, o := range m.obs {
		e := epoch(o)
		if count[e] == 0 {
			first[e] = i
		}
		count[e]++
	}
	var best ep
	bestN := 0
	for e, n := range count {
		if n > bestN || (n == bestN && first[e] < first[best]) {
			best, bestN = e, n
		}
	}
	for _, o := range m.obs {
		if e := epoch(o); e != best {
			ref := m.obs[first[best]]
			return []finding{{key, fmt.Sprintf("%s [%s]: its arrival time is %v later than the one in the %s [%s], the feedback encodes %v later (reference time*64ms + sum of deltas: %d us vs %d us); %d of the %d arrival times of this execution are consistent with the latter",
				o.who(), o.src, o.got.Sub(ref.got), ref.who(), ref.src, time.Duration(o.us-ref.us)*time.Microsecond, o.us, ref.us, bestN, len(m.obs))}}
		}
	}
	return nil
}

const ntpEpochOffset = 2208988800 // seconds between 1900 and 1970

// ccfbTolerance: the report timestamp has a resolution of 2^-16 s = 15.26 us and
// decoders may go through float64 seconds (ulp 0.24 us at 2^31 s); an arrival
// time is accepted within 2 us of the exact value RTS/65536 s - ATO/1024 s,
// compared modulo 65536 s (the feedback does not carry the high NTP bits).
const ccfbTolerance = 2 * time.Microsecond

func ccfbTime(got time.Time, rts uint32, ato uint16) (string, bool) {
	const era = int64(65536) * int64(time.Second)
	want := int64((uint64(rts)*1_000_000_000)>>16) - int64(ato)*1_000_000_000/1024
	want = ((want % era) + era) % era
	sec := (got.Unix() + ntpEpochOffset) % 65536
	if sec < 0 {
		sec += 65536
	}
	g := sec*int64(time.Second) + int64(got.Nanosecond())
	d := g - want
	if d < 0 {
		d = -d
	}
	if d > era/2 {
		d = era - d
	}
	if time.Duration(d) > ccfbTolerance {
		return fmt.Sprintf("arrival %v is %d ns into its 65536 s NTP era, the feedback encodes RTS %#x - ATO %d/1024 s = %d ns", got.UTC(), g, rts, ato, want), false
	}
	return "", true
}

// ---------------------------------------------------------------- cc.FeedbackAdapter

// ackView is an acknowledgement as returned by the FeedbackAdapter, copied into plain fields.
type ackView struct {
	Seq     uint16
	SSRC    uint32
	Size    int
	Dep     time.Time
	Arrival time.Time
	ECN     uint8
}

func (a ackView) zero() bool {
	return a.Seq == 0 && a.SSRC == 0 && a.Size == 0 && a.Dep.IsZero() && a.Arrival.IsZero() && a.ECN == 0
}

func (a ackView) String() string {
	arr := "none"
	if !a.Arrival.IsZero() {
		arr = a.Arrival.UTC().Format("15:04:05.000000")
	}
	return fmt.Sprintf("{seq %d ssrc %#x size %d arrival %s ecn %d}", a.Seq, a.SSRC, a.Size, arr, a.ECN)
}

func sizeOK(p *sentPkt, size int) bool {
	// the recorded size is the size given to OnSent, with or without the RTP header
	return size == p.payload || size == p.payload+p.hdr
}

// checkCCTWCC is the oracle for FeedbackAdapter.OnTransportCCFeedback.
func (m *model) checkCCTWCC(fb *twccFB, acks []ackView, callErr error) []finding {
	var out []finding
	add := func(key, format string, a ...any) {
		for _, f := range out {
			if f.Key == key {
				return
			}
		}
		out = append(out, finding{key, fmt.Sprintf(format, a...) + fmt.Sprintf(" [feedback base %d count %d ref %d chunks %s]", fb.Base, fb.Count, fb.Ref, fb.Chunks)})
	}
	fbDesc := fmt.Sprintf("feedback base %d count %d ref %d chunks %s", fb.Base, fb.Count, fb.Ref, fb.Chunks)
	inRange := map[uint16]twccEntry{}
	for _, e := range fb.Entries {
		inRange[e.Seq] = e
	}
	extra := map[uint16]bool{}
	for _, s := range fb.Extra {
		extra[s] = true
	}
	lastKind := map[bool]string{true: "run-length", false: "vector-padding"}[fb.ExtraRL]
	if callErr != nil {
		add("C09:cc-twcc-wellformed-feedback-rejected", "OnTransportCCFeedback returned error %q for a well-formed feedback packet: no packet is acknowledged", callErr)
	}
	unknown := 0 // symbols (declared or not) whose number has no packet in the most recent 250
	for s := range inRange {
		if p := m.byTWCC[s]; p == nil || !m.recent(p) {
			unknown++
		}
	}
	for s := range extra {
		if p := m.byTWCC[s]; p == nil || !m.recent(p) {
			unknown++
		}
	}
	zeros := 0
	acked := map[uint16]bool{}
	for _, a := range acks {
		if a.zero() {
			zeros++
			continue
		}
		p := m.byTWCC[a.Seq]
		if p == nil {
			add("C09:cc-twcc-ack-names-never-sent-packet", "acknowledgement %v names transport-wide number %d, which was never sent", a, a.Seq)
			continue
		}
		m.checked++
		if !sizeOK(p, a.Size) || !a.Dep.Equal(p.dep) {
			add("C09:cc-twcc-ack-wrong-size-or-departure", "acknowledgement %v for %v carries size %d departure %v, recorded were %d(+%d) and %v", a, p, a.Size, a.Dep.UTC(), p.payload, p.hdr, p.dep.UTC())
		}
		e, ok := inRange[a.Seq]
		if !ok {
			switch {
			case extra[a.Seq] && a.Arrival.IsZero():
				add("C09:cc-twcc-"+lastKind+"-symbol-beyond-status-count-reported-lost", "number %d is outside the declared range [%d,+%d) (it is a symbol of the last chunk beyond the packet status count) but is acknowledged as not received: %v", a.Seq, fb.Base, fb.Count, a)
			default:
				add("C09:cc-twcc-ack-outside-declared-range", "number %d is outside the declared range [%d,+%d) but is acknowledged: %v", a.Seq, fb.Base, fb.Count, a)
			}
			continue
		}
		acked[a.Seq] = true
		if a.ECN != 0 {
			add("C09:cc-twcc-ecn-invented", "acknowledgement %v carries ECN %d, TWCC feedback encodes none", a, a.ECN)
		}
		switch {
		case !e.Received && !a.Arrival.IsZero():
			add("C09:cc-twcc-lost-packet-reported-received", "feedback says %d was not received, acknowledgement %v has an arrival time", a.Seq, a)
		case e.Received && a.Arrival.IsZero():
			add("C09:cc-twcc-received-packet-reported-lost", "feedback says %d was received (t=%d us), acknowledgement %v has no arrival time", a.Seq, e.TimeUS, a)
		case e.Received:
			m.recvSeen++
			m.twccTime("acknowledgement", p, a.Arrival, e.TimeUS, fbDesc)
		}
	}
	if zeros > 0 {
		if zeros <= unknown {
			add("C09:cc-twcc-zero-ack-for-unknown-packet", "%d all-zero acknowledgement(s) returned (they name number 0, size 0, no departure) for numbers of the feedback that have no packet in the history", zeros)
		} else {
			add("C09:cc-twcc-zero-ack-for-packet-in-history", "%d all-zero acknowledgements returned but only %d numbers of the feedback have no packet in the history", zeros, unknown)
		}
	}
	if callErr == nil {
		for _, e := range fb.Entries {
			p := m.byTWCC[e.Seq]
			if p != nil && m.recent(p) && !acked[e.Seq] {
				add("C09:cc-twcc-sent-packet-in-range-not-acknowledged", "%v is among the %d most recently sent packets and inside the declared range, but no acknowledgement names it", p, historySize)
				break
			}
		}
	}
	return out
}

// checkCCCCFB is the oracle for FeedbackAdapter.OnRFC8888Feedback.
func (m *model) checkCCCCFB(fb *ccfbFB, acks []ackView) []finding {
	var out []finding
	add := func(key, format string, a ...any) {
		for _, f := range out {
			if f.Key == key {
				return
			}
		}
		out = append(out, finding{key, fmt.Sprintf(format, a...) + " [feedback " + fb.String() + "]"})
	}
	type entry struct {
		m    ccfbMetric
		used bool
	}
	entries := map[ssrcSeq][]*entry{}
	for _, bl := range fb.Blocks {
		for i, mb := range bl.Metrics {
			k := ssrcSeq{bl.SSRC, bl.Begin + uint16(i)}
			entries[k] = append(entries[k], &entry{m: mb})
		}
	}
	matches := func(a ackView, mb ccfbMetric) (string, string) {
		switch {
		case !mb.R && !a.Arrival.IsZero():
			return "C09:cc-ccfb-lost-packet-reported-received", "feedback says not received, acknowledgement has an arrival time"
		case !mb.R && a.ECN != 0:
			return "C09:cc-ccfb-wrong-ecn", "feedback says not received, acknowledgement carries an ECN mark"
		case !mb.R:
			return "", ""
		}
		if a.ECN != mb.ECN {
			return "C09:cc-ccfb-wrong-ecn", fmt.Sprintf("feedback encodes ECN %d, acknowledgement carries %d", mb.ECN, a.ECN)
		}
		if mb.ATO == 0x1FFF {
			return "", "" // arrival time unavailable: its representation is left free
		}
		if a.Arrival.IsZero() {
			return "C09:cc-ccfb-received-packet-reported-lost", "feedback says received, acknowledgement has no arrival time"
		}
		if msg, ok := ccfbTime(a.Arrival, fb.RTS, mb.ATO); !ok {
			return "C09:cc-ccfb-wrong-arrival-time", msg
		}
		return "", ""
	}
	named := map[ssrcSeq]bool{}
	for _, a := range acks {
		k := ssrcSeq{a.SSRC, a.Seq}
		p := m.bySeq[k]
		if p == nil {
			add("C09:cc-ccfb-ack-names-never-sent-packet", "acknowledgement %v names a packet that was never sent", a)
			continue
		}
		m.checked++
		if !sizeOK(p, a.Size) || !a.Dep.Equal(p.dep) {
			add("C09:cc-ccfb-ack-wrong-size-or-departure", "acknowledgement %v for %v carries size %d departure %v, recorded were %d(+%d) and %v", a, p, a.Size, a.Dep.UTC(), p.payload, p.hdr, p.dep.UTC())
		}
		es := entries[k]
		named[k] = true
		if len(es) == 0 {
			add("C09:cc-ccfb-ack-outside-declared-range", "acknowledgement %v: no report block of the feedback covers ssrc %#x number %d", a, a.SSRC, a.Seq)
			continue
		}
		// the acknowledgement must agree with one (not yet matched) entry for this number
		var firstKey, firstMsg string
		matched := false
		for pass := 0; pass < 2 && !matched; pass++ {
			for _, e := range es {
				if pass == 0 && e.used {
					continue
				}
				key, msg := matches(a, e.m)
				if key == "" {
					e.used, matched = true, true
					if e.m.R {
						m.recvSeen++
					}
					break
				}
				if firstKey == "" {
					firstKey, firstMsg = key, msg
				}
			}
		}
		if !matched {
			add(firstKey, "acknowledgement %v for %v: %s", a, p, firstMsg)
		}
	}
	var keys []ssrcSeq
	for k := range entries {
		keys = append(keys, k)
	}
	sort.Slice(keys, func(i, j int) bool {
		if keys[i].ssrc != keys[j].ssrc {
			return keys[i].ssrc < keys[j].ssrc
		}
		return keys[i].seq < keys[j].seq
	})
	for _, k := range keys {
		p := m.bySeq[k]
		if p == nil || !m.recent(p) {
			continue
		}
		if !named[k] {
			add("C09:cc-ccfb-sent-packet-in-range-not-acknowledged", "%v is among the %d most recently sent packets and covered by a report block, but no acknowledgement names it", p, historySize)
			break
		}
	}
	return out
}

func (f *ccfbFB) String() string {
	var sb strings.Builder
	fmt.Fprintf(&sb, "rts %#x", f.RTS)
	for _, b := range f.Blocks {
		fmt.Fprintf(&sb, " | ssrc %#x begin %d:", b.SSRC, b.Begin)
		for _, m := range b.Metrics {
			if m.R {
				fmt.Fprintf(&sb, " R/e%d/%d", m.ECN, m.ATO)
			} else {
				sb.WriteString(" -")
			}
		}
	}
	return sb.String()
}

// ---------------------------------------------------------------- rtpfb.Interceptor

// reportView is an rtpfb.PacketReport copied into plain fields.
type reportView struct {
	SSRC    uint32
	Counter uint64
	RTPSeq  uint16
	TWCCSeq uint16
	Size    int
	Arrived bool
	Dep     time.Time
	Arrival time.Time
	ECN     uint8
}

func (r reportView) String() string {
	arr := "none"
	if !r.Arrival.IsZero() {
		arr = r.Arrival.UTC().Format("15:04:05.000000")
	}
	return fmt.Sprintf("{#%d ssrc %#x seq %d twcc %d size %d arrived %v arrival %s ecn %d}", r.Counter, r.SSRC, r.RTPSeq, r.TWCCSeq, r.Size, r.Arrived, arr, r.ECN)
}

// applyFeedback records what one RTCP (compound) packet says, in packet order,
// restricted to the ranges the feedback packets declare. It returns the
// sequence numbers touched only by symbols outside a declared range.
func (m *model) applyFeedback(twccs []*twccFB, ccfbs []*ccfbFB, order []string) (outside map[int]bool, newlyReceived []int) {
	outside = map[int]bool{}
	ti, ci := 0, 0
	for _, kind := range order {
		switch kind {
		case "twcc":
			fb := twccs[ti]
			ti++
			src := fmt.Sprintf("twcc base %d count %d ref %d %s", fb.Base, fb.Count, fb.Ref, fb.Chunks)
			for _, e := range fb.Entries {
				if p := m.byTWCC[e.Seq]; p != nil {
					m.status[p.idx] = fbStatus{covered: true, received: e.Received, twcc: true, timeUS: e.TimeUS, src: src}
					delete(outside, p.idx)
				}
			}
			for _, s := range fb.Extra {
				if p := m.byTWCC[s]; p != nil {
					outside[p.idx] = true
				}
			}
		case "ccfb":
			fb := ccfbs[ci]
			ci++
			src := "ccfb " + fb.String()
			for bi, bl := range fb.Blocks {
				again := false // a later report block of this packet is for the same SSRC
				for _, later := range fb.Blocks[bi+1:] {
					again = again || later.SSRC == bl.SSRC
				}
				for i, mb := range bl.Metrics {
					if p := m.bySeq[ssrcSeq{bl.SSRC, bl.Begin + uint16(i)}]; p != nil {
						m.status[p.idx] = fbStatus{covered: true, received: mb.R, rts: fb.RTS, ato: mb.ATO, ecn: mb.ECN, src: src, again: again}
					}
				}
			}
		}
	}
	for idx, st := range m.status {
		if st.received && !m.reported[idx] {
			newlyReceived = append(newlyReceived, idx)
		}
	}
	sort.Ints(newlyReceived)
	return outside, newlyReceived
}

// checkReport is the oracle for one rtpfb.Report (nil: no report attached).
func (m *model) checkReport(reps []reportView, outside map[int]bool, newlyReceived []int) []finding {
	var out []finding
	add := func(key, format string, a ...any) {
		for _, f := range out {
			if f.Key == key {
				return
			}
		}
		out = append(out, finding{key, fmt.Sprintf(format, a...)})
	}
	inThis := map[int]bool{}
	for _, r := range reps {
		if r.Counter >= uint64(len(m.sent)) {
			add("C09:rtpfb-report-names-never-sent-packet", "packet report %v: only %d packets were sent", r, len(m.sent))
			continue
		}
		p := m.sent[r.Counter]
		if r.SSRC != p.ssrc || r.RTPSeq != p.rtpSeq || (p.twcc && r.TWCCSeq != p.twccSeq) {
			add("C09:rtpfb-report-names-never-sent-packet", "packet report %v does not describe the packet sent as %v", r, p)
			continue
		}
		m.checked++
		if r.Size != p.payload+p.hdr || !r.Dep.Equal(p.dep) {
			add("C09:rtpfb-wrong-size-or-departure", "packet report %v for %v carries size %d departure %v, recorded were %d and %v", r, p, r.Size, r.Dep.UTC(), p.payload+p.hdr, p.dep.UTC())
		}
		if m.reported[p.idx] {
			add("C09:rtpfb-packet-reported-twice", "packet report %v: %v was already reported", r, p)
		} else if p.idx < m.lastRep {
			add("C09:rtpfb-report-not-in-send-order", "packet report %v for %v comes after a report for packet #%d", r, p, m.lastRep)
		}
		m.reported[p.idx] = true
		inThis[p.idx] = true
		if p.idx > m.lastRep {
			m.lastRep = p.idx
		}
		st := m.status[p.idx]
		switch {
		case !st.covered || !st.received:
			why := "no feedback covers it"
			if st.covered {
				why = "the latest feedback covering it (" + st.src + ") says not received"
			}
			if r.Arrived || !r.Arrival.IsZero() || r.ECN != 0 {
				add("C09:rtpfb-lost-packet-reported-received", "packet report %v for %v: %s", r, p, why)
			}
		case !r.Arrived:
			key := "C09:rtpfb-received-packet-reported-lost"
			if outside[p.idx] {
				key = "C09:rtpfb-twcc-symbol-beyond-status-count-applied"
			}
			if st.again {
				key = "C09:rtpfb-ccfb-earlier-report-block-of-same-ssrc-dropped"
			}
			add(key, "packet report %v for %v says not arrived; the latest feedback that declares its number (%s) says received%s", r, p, st.src,
				map[bool]string{true: "; a later feedback packet covers the number only with symbols beyond its packet status count", false: ""}[outside[p.idx]])
		default:
			m.recvSeen++
			if r.ECN != st.ecn {
				add("C09:rtpfb-wrong-ecn", "packet report %v for %v carries ECN %d, the feedback (%s) encodes %d", r, p, r.ECN, st.src, st.ecn)
			}
			if st.twcc {
				if r.Arrival.IsZero() {
					add("C09:rtpfb-wrong-arrival-time", "packet report %v for %v has no arrival time, the feedback (%s) encodes one", r, p, st.src)
				} else {
					m.twccTime("packet report", p, r.Arrival, st.timeUS, st.src)
				}
			} else if st.ato != 0x1FFF {
				if r.Arrival.IsZero() {
					add("C09:rtpfb-wrong-arrival-time", "packet report %v for %v has no arrival time, the feedback (%s) encodes one", r, p, st.src)
				} else if msg, ok := ccfbTime(r.Arrival, st.rts, st.ato); !ok {
					add("C09:rtpfb-wrong-arrival-time", "packet report for %v: %s", p, msg)
				}
			}
		}
	}
	for _, idx := range newlyReceived {
		if !inThis[idx] {
			key := "C09:rtpfb-received-packet-not-reported"
			if m.status[idx].again {
				key = "C09:rtpfb-ccfb-earlier-report-block-of-same-ssrc-dropped"
			}
			add(key, "%v is declared received by this feedback (%s) and was not reported before, but this report does not contain it", m.sent[idx], m.status[idx].src)
			break
		}
	}
	return out
}
