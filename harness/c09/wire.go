package c09

// Own wire-format code for the two feedback formats. Nothing here calls
// pion/rtcp: the decoders are the reference that says what a feedback packet
// encodes, the encoders only produce hand-built inputs.

import (
	"encoding/binary"
	"fmt"
)

// TWCC status symbols (draft-holmer-rmcat-transport-wide-cc-extensions-01, 3.1.1).
const (
	symNR = 0 // packet not received
	symSD = 1 // received, small delta (1 byte, unsigned, 250 us units)
	symLD = 2 // received, large or negative delta (2 bytes, signed, 250 us units)
)

// chunk kinds
const (
	ckRL = 0 // run length chunk
	ckV1 = 1 // status vector, 14 one-bit symbols
	ckV2 = 2 // status vector, 7 two-bit symbols
)

// chunkSpec describes one packet status chunk of a hand-built feedback.
type chunkSpec struct {
	Kind int     `json:"k"`
	Sym  uint8   `json:"s,omitempty"` // run length chunk: symbol
	Run  int     `json:"r,omitempty"` // run length chunk: run length
	Syms []uint8 `json:"v,omitempty"` // vector chunk: 14 or 7 symbols
}

func (c chunkSpec) symbols() []uint8 {
	if c.Kind == ckRL {
		out := make([]uint8, c.Run)
		for i := range out {
			out[i] = c.Sym
		}
		return out
	}
	return c.Syms
}

func (c chunkSpec) String() string {
	switch c.Kind {
	case ckRL:
		return fmt.Sprintf("RL(%s x%d)", symName(c.Sym), c.Run)
	case ckV1:
		return "V1" + symString(c.Syms)
	}
	return "V2" + symString(c.Syms)
}

func symName(s uint8) string {
	switch s {
	case symNR:
		return "-"
	case symSD:
		return "s"
	case symLD:
		return "L"
	}
	return "?"
}

func symString(s []uint8) string {
	out := "["
	for _, x := range s {
		out += symName(x)
	}
	return out + "]"
}

// twccSpec is a hand-built TWCC feedback packet.
type twccSpec struct {
	Base   uint16
	Count  int // packet status count: the number of sequence numbers the feedback declares
	Ref    uint32
	FbCnt  uint8
	Chunks []chunkSpec
	// Small and Large are the delta values (in 250 us units) handed out, cyclically, to the
	// received symbols inside the declared range.
	Small []uint8
	Large []int16
}

// encode marshals the feedback. Only the symbols inside the declared range
// carry a receive delta; the packet is padded to a multiple of four bytes.
func (s twccSpec) encode() []byte {
	b := make([]byte, 20, 64)
	b[0] = 0x80 | 15 // V=2, FMT=15
	b[1] = 205       // RTPFB
	binary.BigEndian.PutUint32(b[4:], 0x5E5E0001)
	binary.BigEndian.PutUint32(b[8:], 0x5E5E0002)
	binary.BigEndian.PutUint16(b[12:], s.Base)
	binary.BigEndian.PutUint16(b[14:], uint16(s.Count))
	b[16], b[17], b[18] = byte(s.Ref>>16), byte(s.Ref>>8), byte(s.Ref)
	b[19] = s.FbCnt
	var all []uint8
	for _, c := range s.Chunks {
		var w uint16
		switch c.Kind {
		case ckRL:
			w = uint16(c.Sym&3)<<13 | uint16(c.Run&0x1FFF)
		case ckV1:
			w = 0x8000
			for i, x := range c.Syms {
				w |= uint16(x&1) << uint(13-i)
			}
		case ckV2:
			w = 0xC000
			for i, x := range c.Syms {
				w |= uint16(x&3) << uint(12-2*i)
			}
		}
		b = append(b, byte(w>>8), byte(w))
		all = append(all, c.symbols()...)
	}
	ns, nl := 0, 0
	for k, x := range all {
		if k >= s.Count {
			break
		}
		switch x {
		case symSD:
			b = append(b, s.Small[ns%len(s.Small)])
			ns++
		case symLD:
			v := uint16(s.Large[nl%len(s.Large)])
			b = append(b, byte(v>>8), byte(v))
			nl++
		}
	}
	if pad := (4 - len(b)%4) % 4; pad > 0 {
		for i := 0; i < pad; i++ {
			b = append(b, 0)
		}
		b[len(b)-1] = byte(pad)
		b[0] |= 0x20
	}
	binary.BigEndian.PutUint16(b[2:], uint16(len(b)/4-1))
	return b
}

// twccEntry is what a TWCC feedback says about one sequence number.
type twccEntry struct {
	Seq      uint16
	Received bool
	TimeUS   int64 // reference time * 64 ms + sum of deltas up to and including this packet (receiver clock)
}

// twccFB is a decoded TWCC feedback packet.
type twccFB struct {
	Base    uint16
	Count   int
	Ref     uint32
	Entries []twccEntry // exactly Count entries: the declared range
	Extra   []uint16    // sequence numbers of symbols present in the chunks beyond the declared range
	ExtraRL bool        // those symbols belong to a run length chunk (else: padding of a status vector chunk)
	Chunks  string
}

// decodeTWCC decodes one TWCC feedback packet (b holds exactly one RTCP packet).
func decodeTWCC(b []byte) (*twccFB, error) {
	if len(b) < 20 {
		return nil, fmt.Errorf("twcc: short packet (%d bytes)", len(b))
	}
	if b[0]>>6 != 2 || b[0]&0x1F != 15 || b[1] != 205 {
		return nil, fmt.Errorf("twcc: not a transport-cc feedback packet")
	}
	total := 4 * (int(binary.BigEndian.Uint16(b[2:])) + 1)
	if total > len(b) || total < 20 {
		return nil, fmt.Errorf("twcc: length field %d, have %d bytes", total, len(b))
	}
	end := total
	if b[0]&0x20 != 0 {
		pad := int(b[total-1])
		if pad == 0 || pad > total-20 {
			return nil, fmt.Errorf("twcc: bad padding count %d", pad)
		}
		end -= pad
	}
	fb := &twccFB{Base: binary.BigEndian.Uint16(b[12:]), Count: int(binary.BigEndian.Uint16(b[14:])),
		Ref: uint32(b[16])<<16 | uint32(b[17])<<8 | uint32(b[18])}
	var syms []uint8
	pos := 20
	for len(syms) < fb.Count {
		if pos+2 > end {
			return nil, fmt.Errorf("twcc: chunks end before the packet status count is reached")
		}
		w := binary.BigEndian.Uint16(b[pos:])
		pos += 2
		switch {
		case w&0x8000 == 0:
			s := uint8(w >> 13 & 3)
			run := int(w & 0x1FFF)
			fb.Chunks += chunkSpec{Kind: ckRL, Sym: s, Run: run}.String()
			fb.ExtraRL = true
			for i := 0; i < run; i++ {
				syms = append(syms, s)
			}
		case w&0x4000 == 0:
			var l []uint8
			for i := 0; i < 14; i++ {
				l = append(l, uint8(w>>uint(13-i)&1))
			}
			fb.Chunks += chunkSpec{Kind: ckV1, Syms: l}.String()
			fb.ExtraRL = false
			syms = append(syms, l...)
		default:
			var l []uint8
			for i := 0; i < 7; i++ {
				l = append(l, uint8(w>>uint(12-2*i)&3))
			}
			fb.Chunks += chunkSpec{Kind: ckV2, Syms: l}.String()
			fb.ExtraRL = false
			syms = append(syms, l...)
		}
	}
	t := int64(fb.Ref) * 64000
	for k := 0; k < fb.Count; k++ {
		e := twccEntry{Seq: fb.Base + uint16(k)}
		switch syms[k] {
		case symSD:
			if pos+1 > end {
				return nil, fmt.Errorf("twcc: receive deltas end early")
			}
			t += int64(b[pos]) * 250
			pos++
			e.Received, e.TimeUS = true, t
		case symLD:
			if pos+2 > end {
				return nil, fmt.Errorf("twcc: receive deltas end early")
			}
			t += int64(int16(binary.BigEndian.Uint16(b[pos:]))) * 250
			pos += 2
			e.Received, e.TimeUS = true, t
		case 3:
			return nil, fmt.Errorf("twcc: reserved status symbol")
		}
		fb.Entries = append(fb.Entries, e)
	}
	for k := fb.Count; k < len(syms); k++ {
		fb.Extra = append(fb.Extra, fb.Base+uint16(k))
	}
	return fb, nil
}

// ccfbMetric is one RFC 8888 metric block.
type ccfbMetric struct {
	R   bool   `json:"r,omitempty"`
	ECN uint8  `json:"e,omitempty"`
	ATO uint16 `json:"a,omitempty"`
}

// ccfbBlock is one per-SSRC report block.
type ccfbBlock struct {
	SSRC    uint32       `json:"ssrc"`
	Begin   uint16       `json:"begin"`
	Metrics []ccfbMetric `json:"m"`
}

// ccfbFB is an RFC 8888 congestion control feedback packet.
type ccfbFB struct {
	Blocks []ccfbBlock
	RTS    uint32 // report timestamp: middle 32 bits of the NTP time (16.16 seconds)
}

func (f ccfbFB) encode() []byte {
	b := make([]byte, 8, 64)
	b[0] = 0x80 | 11 // V=2, FMT=11
	b[1] = 205
	binary.BigEndian.PutUint32(b[4:], 0x5E5E0001)
	for _, bl := range f.Blocks {
		var h [8]byte
		binary.BigEndian.PutUint32(h[0:], bl.SSRC)
		binary.BigEndian.PutUint16(h[4:], bl.Begin)
		binary.BigEndian.PutUint16(h[6:], uint16(len(bl.Metrics)))
		b = append(b, h[:]...)
		for _, m := range bl.Metrics {
			var w uint16
			if m.R {
				w = 0x8000 | uint16(m.ECN&3)<<13 | m.ATO&0x1FFF
			}
			b = append(b, byte(w>>8), byte(w))
		}
		if len(bl.Metrics)%2 == 1 {
			b = append(b, 0, 0)
		}
	}
	var ts [4]byte
	binary.BigEndian.PutUint32(ts[:], f.RTS)
	b = append(b, ts[:]...)
	binary.BigEndian.PutUint16(b[2:], uint16(len(b)/4-1))
	return b
}

// decodeCCFB decodes one RFC 8888 feedback packet (section 3.1).
func decodeCCFB(b []byte) (*ccfbFB, error) {
	if len(b) < 12 {
		return nil, fmt.Errorf("ccfb: short packet")
	}
	if b[0]>>6 != 2 || b[0]&0x1F != 11 || b[1] != 205 {
		return nil, fmt.Errorf("ccfb: not a congestion control feedback packet")
	}
	total := 4 * (int(binary.BigEndian.Uint16(b[2:])) + 1)
	if total > len(b) || total < 12 {
		return nil, fmt.Errorf("ccfb: length field %d, have %d bytes", total, len(b))
	}
	if b[0]&0x20 != 0 {
		return nil, fmt.Errorf("ccfb: padding not expected")
	}
	fb := &ccfbFB{RTS: binary.BigEndian.Uint32(b[total-4:])}
	pos := 8
	for pos < total-4 {
		if pos+8 > total-4 {
			return nil, fmt.Errorf("ccfb: truncated report block header")
		}
		bl := ccfbBlock{SSRC: binary.BigEndian.Uint32(b[pos:]), Begin: binary.BigEndian.Uint16(b[pos+4:])}
		n := int(binary.BigEndian.Uint16(b[pos+6:]))
		pos += 8
		if pos+2*n > total-4 {
			return nil, fmt.Errorf("ccfb: truncated metric blocks")
		}
		for i := 0; i < n; i++ {
			w := binary.BigEndian.Uint16(b[pos+2*i:])
			m := ccfbMetric{R: w&0x8000 != 0}
			if m.R {
				m.ECN = uint8(w >> 13 & 3)
				m.ATO = w & 0x1FFF
			}
			bl.Metrics = append(bl.Metrics, m)
		}
		pos += 2 * n
		if n%2 == 1 {
			pos += 2
		}
		fb.Blocks = append(fb.Blocks, bl)
	}
	return fb, nil
}

// splitRTCP cuts a compound RTCP packet into its individual packets using the
// length fields only.
func splitRTCP(b []byte) ([][]byte, error) {
	var out [][]byte
	for len(b) > 0 {
		if len(b) < 4 {
			return nil, fmt.Errorf("rtcp: trailing %d bytes", len(b))
		}
		n := 4 * (int(binary.BigEndian.Uint16(b[2:])) + 1)
		if n > len(b) {
			return nil, fmt.Errorf("rtcp: length field beyond the buffer")
		}
		out = append(out, b[:n])
		b = b[n:]
	}
	return out, nil
}

// fbKind classifies an individual RTCP packet.
func fbKind(b []byte) string {
	if len(b) >= 4 && b[1] == 205 {
		switch b[0] & 0x1F {
		case 15:
			return "twcc"
		case 11:
			return "ccfb"
		}
	}
	return "other"
}

// receiverReport is a minimal empty RTCP receiver report, used as a
// non-feedback packet in compound packets.
func receiverReport() []byte {
	return []byte{0x80, 201, 0, 1, 0x5E, 0x5E, 0, 1}
}
