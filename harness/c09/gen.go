package c09

// Case generators. Every family enumerates its space with nested loops; there
// is no randomness. Each generated case is run on both targets.

import (
	"encoding/hex"
	"fmt"
	"time"

	"github.com/pion/interceptor/pkg/rfc8888"
	"github.com/pion/interceptor/pkg/twcc"
	"github.com/pion/interceptor/vsched"
)

// job is one shard of the check.
type job struct {
	Family string `json:"family"`
	Start  uint16 `json:"start"`
	Hist   string `json:"hist"`
	Depth  int    `json:"depth,omitempty"`
	Shard  int    `json:"shard,omitempty"`
	Shards int    `json:"shards,omitempty"`
}

// send histories. The transport-wide counter starts at S-2, so the hand-built
// feedback bases S-2, S and S+3 fall on sent, never-sent and evicted numbers
// depending on the history.
var histories = map[string]string{
	"none":     "",
	"all":      "T24",
	"holes":    "TTtTTtTtTTTtTTTTtTTTTTTT",                // transport-wide numbers S, S+3, S+5, S+9, S+14 are never sent
	"mixed":    "TABUTtABTUATBTUaTABTbUTTATUBTTUTATTBUTT", // two TWCC SSRCs and two streams without the extension, interleaved
	"evict":    "T6A246T18",                               // 270 packets in flight: S-2..S+3 (and 14 of stream A) have left the 250-entry history
	"evictmid": "T9B250T3",                                // S-2..S+6 evicted, S+7..S+9 still known
	"edge250":  "T2A248",                                  // exactly 250 in flight: S-2 is the oldest entry the history still holds
	"edge251":  "T3A248",                                  // 251 in flight: S-2 has left the history, S-1 is the oldest entry
	"ab":       "A10B10",
	"abholes":  "AAaAAaAaAABbBBbBBBbB",
	"abmixed":  "ABTABUABtABaABTBBAUAB",
	"abevict":  "A5B3T246A8B8", // the first 20 packets (A S+3..S+7, B S..S+2, 12 TWCC) have left the history
	"abedge":   "A1B1T248AB",   // 252 in flight: the first packets of A and B have just left the history
	"abedge0":  "A1B1T246AB",   // exactly 250 in flight: the first packet of A is the oldest entry
}

// ---------------------------------------------------------------- hand-built TWCC feedback

func rl(sym uint8, run int) chunkSpec { return chunkSpec{Kind: ckRL, Sym: sym, Run: run} }

func v1(bits string) chunkSpec {
	c := chunkSpec{Kind: ckV1}
	for _, b := range bits {
		c.Syms = append(c.Syms, uint8(b-'0'))
	}
	return c
}

func v2(s string) chunkSpec {
	c := chunkSpec{Kind: ckV2}
	for _, b := range s {
		switch b {
		case 's':
			c.Syms = append(c.Syms, symSD)
		case 'L':
			c.Syms = append(c.Syms, symLD)
		default:
			c.Syms = append(c.Syms, symNR)
		}
	}
	return c
}

// chunkKinds is the chunk alphabet: every chunk type and symbol size, every
// status symbol as run-length symbol, runs of 1, 2 and 5.
func chunkKinds() []chunkSpec {
	var out []chunkSpec
	for _, sym := range []uint8{symSD, symNR, symLD} {
		for _, run := range []int{1, 2, 5} {
			out = append(out, rl(sym, run))
		}
	}
	out = append(out, v1("10101010101010"), v1("11100000000000"), v1("00000000000001"), v1("01111111111111"))
	out = append(out, v2("sL-s-Ls"), v2("--ssL--"), v2("LLL----"), v2("s------"))
	return out
}

// smallKinds is a reduced chunk alphabet for the longer chunk lists of the quick tier.
func smallKinds() []chunkSpec {
	return []chunkSpec{rl(symSD, 2), rl(symNR, 1), rl(symLD, 1), v1("10101010101010"), v2("sL-s-Ls"), v2("--ssL--")}
}

var smallDeltas = []uint8{4, 1, 9, 2, 7, 3, 200}
var largeDeltas = []int16{300, -2, 1000, -100, 257}

// withCount returns the variants of a chunk list for the declared packet
// status count: exact, and shorter than the symbols of the last chunk (padded
// final vector chunk, whose unused symbols are zero; run length beyond the count).
func withCount(chunks []chunkSpec) (out []twccSpec) {
	total := 0
	for _, c := range chunks {
		total += len(c.symbols())
	}
	last := chunks[len(chunks)-1]
	n := len(last.symbols())
	out = append(out, twccSpec{Count: total, Chunks: chunks})
	for _, k := range []int{1, 3} {
		if k >= n {
			continue
		}
		cs := append([]chunkSpec(nil), chunks...)
		if last.Kind != ckRL {
			l := last
			l.Syms = append([]uint8(nil), last.Syms...)
			for i := n - k; i < n; i++ {
				l.Syms[i] = symNR
			}
			cs[len(cs)-1] = l
		}
		out = append(out, twccSpec{Count: total - k, Chunks: cs})
	}
	return out
}

func (s twccSpec) finish(base uint16, ref uint32, fb uint8) twccSpec {
	s.Base, s.Ref, s.FbCnt, s.Small, s.Large = base, ref, fb, smallDeltas, largeDeltas
	return s
}

func (s twccSpec) note() string {
	n := fmt.Sprintf("hand-built TWCC base %d count %d ref %d:", s.Base, s.Count, s.Ref)
	for _, c := range s.Chunks {
		n += " " + c.String()
	}
	return n
}

func fbStep(b []byte, note string) step { return step{F: hex.EncodeToString(b), N: note} }

// genTWCCHand: history x chunk list x count x base; every case reads the feedback,
// then the same chunk list again one number further with a later reference time
// (overlapping feedback; also fixes the epoch of the arrival times).
func genTWCCHand(j job, tier string, emit func(caseDesc) bool) {
	kinds := chunkKinds()
	var lists [][]chunkSpec
	for _, a := range kinds {
		lists = append(lists, []chunkSpec{a})
	}
	for _, a := range kinds {
		for _, b := range kinds {
			lists = append(lists, []chunkSpec{a, b})
		}
	}
	third := smallKinds()
	if tier == "thorough" {
		third = kinds
	}
	for _, a := range third {
		for _, b := range third {
			for _, c := range third {
				lists = append(lists, []chunkSpec{a, b, c})
			}
		}
	}
	n := 0
	for _, l := range lists {
		for _, sp := range withCount(l) {
			for _, off := range []int{-2, 0, 3} {
				n++
				if j.Shards > 1 && n%j.Shards != j.Shard {
					continue
				}
				base := j.Start + uint16(off)
				f1 := sp.finish(base, 7, 1)
				f2 := sp.finish(base+1, 70000, 2) // a reference time whose microsecond value exceeds 32 bits (71.6 minutes)
				steps := []step{{S: histories[j.Hist]}, fbStep(f1.encode(), f1.note()), fbStep(f2.encode(), f2.note())}
				if histories[j.Hist] == "" {
					steps = steps[1:]
				}
				if !emit(caseDesc{Start: j.Start, Steps: steps}) {
					return
				}
			}
		}
	}
}

// ---------------------------------------------------------------- hand-built RFC 8888 feedback

var metricCycle = []ccfbMetric{{R: true, ECN: 0, ATO: 5}, {}, {R: true, ECN: 3, ATO: 0}, {R: true, ECN: 1, ATO: 0x1FFE}, {R: true, ECN: 2, ATO: 1024}, {R: true, ECN: 0, ATO: 0x1FFF}, {R: true, ECN: 3, ATO: 0x1FFF}, {R: true, ECN: 1, ATO: 0x1FFF}}

func metrics(n, rot int) []ccfbMetric {
	out := make([]ccfbMetric, n)
	for i := range out {
		out[i] = metricCycle[(rot+i)%len(metricCycle)]
	}
	return out
}

func streamStart(ssrc uint32, start uint16) uint16 {
	switch ssrc {
	case ssrcA:
		return start + 3
	case ssrcB:
		return start
	}
	return start + 1
}

func (f ccfbFB) note() string { return "hand-built RFC 8888 " + f.String() }

// genCCFBHand: history x (one or two report blocks: SSRC known/unknown, begin before/at/inside
// the sent range, 0/1/3/6 metric blocks, every rotation of the metric cycle) x report timestamp.
func genCCFBHand(j job, _ string, emit func(caseDesc) bool) {
	type bspec struct {
		ssrc uint32
		off  int
		n    int
		rot  int
	}
	var singles []bspec
	for _, ssrc := range []uint32{ssrcA, ssrcB, ssrcX} {
		for _, off := range []int{-2, 0, 3} {
			singles = append(singles, bspec{ssrc, off, 0, 0})
			for _, n := range []int{1, 3, 6} {
				for rot := 0; rot < 6; rot++ {
					singles = append(singles, bspec{ssrc, off, n, rot})
				}
			}
		}
	}
	mk := func(b bspec) ccfbBlock {
		return ccfbBlock{SSRC: b.ssrc, Begin: streamStart(b.ssrc, j.Start) + uint16(b.off), Metrics: metrics(b.n, b.rot)}
	}
	var fbs [][]ccfbBlock
	for _, s := range singles {
		fbs = append(fbs, []ccfbBlock{mk(s)})
	}
	for _, s := range singles {
		for _, ssrc2 := range []uint32{ssrcA, ssrcB, ssrcX} {
			if ssrc2 == s.ssrc {
				continue
			}
			for _, off2 := range []int{0, 3} {
				for _, n2 := range []int{1, 3} {
					fbs = append(fbs, []ccfbBlock{mk(s), mk(bspec{ssrc2, off2, n2, (s.rot + 2) % 6})})
				}
			}
		}
	}
	// two report blocks for the same SSRC covering adjacent ranges, in both orders
	for _, ssrc := range []uint32{ssrcA, ssrcB} {
		for rot := 0; rot < 6; rot++ {
			lo, hi := mk(bspec{ssrc, 0, 3, rot}), mk(bspec{ssrc, 3, 3, (rot + 3) % 6})
			fbs = append(fbs, []ccfbBlock{lo, hi}, []ccfbBlock{hi, lo})
		}
	}
	n := 0
	for _, bl := range fbs {
		for _, rts := range []uint32{0x00018000, 0xFFFF4000, 0x7A5B1234} {
			n++
			if j.Shards > 1 && n%j.Shards != j.Shard {
				continue
			}
			f1 := ccfbFB{Blocks: bl, RTS: rts}
			// second read: the same feedback again (duplicated feedback) with a later report timestamp
			f2 := ccfbFB{Blocks: bl, RTS: rts + 0x8000}
			steps := []step{{S: histories[j.Hist]}, fbStep(f1.encode(), f1.note()), fbStep(f2.encode(), f2.note())}
			if !emit(caseDesc{Start: j.Start, Steps: steps}) {
				return
			}
		}
	}
}

// ---------------------------------------------------------------- closed loop: twcc.Recorder

// genTWCCLoop: history x all arrival words up to the depth over
// {arrival of number S-2+o at +dt} u {build feedback}; a final build is appended. Every
// feedback the recorder emits is marshalled and becomes one read.
func genTWCCLoop(j job, _ string, emit func(caseDesc) bool, fail func(string)) {
	offs := []int{0, 1, 2, 4, 7, 15}
	dts := []int64{0, 1000, 70000}
	nsym := len(offs)*len(dts) + 1
	n := 0
	for d := 1; d <= j.Depth; d++ {
		word := make([]int, d)
		var rec func(pos int) bool
		rec = func(pos int) bool {
			if pos == d {
				n++
				if j.Shards > 1 && n%j.Shards != j.Shard {
					return true
				}
				if word[d-1] == nsym-1 {
					return true // a trailing build is the shorter word plus the final build
				}
				steps := []step{{S: histories[j.Hist]}}
				desc := ""
				var msg string
				res := vsched.Run(vsched.Options{Strategy: vsched.BackgroundFirst{}, MaxSteps: 2_000_000}, func() {
					r := twcc.NewRecorder(0x5E5E0001)
					now := int64(5_000_000)
					build := func() {
						for _, p := range r.BuildFeedbackPacket() {
							b, err := p.Marshal()
							if err != nil {
								msg = "twcc feedback does not marshal: " + err.Error()
								return
							}
							steps = append(steps, fbStep(b, "twcc.Recorder after arrivals"+desc))
						}
					}
					for _, a := range word {
						if a == nsym-1 {
							build()
							desc += " build;"
							continue
						}
						o, dt := offs[a/len(dts)], dts[a%len(dts)]
						now += dt
						r.Record(ssrcT, j.Start-2+uint16(o), now)
						desc += fmt.Sprintf(" %d@%dus", j.Start-2+uint16(o), now)
					}
					build()
				})
				if len(res.Panics) > 0 {
					msg = "twcc.Recorder panicked: " + res.Panics[0].Value
				}
				if msg != "" {
					fail(msg + " (" + desc + ")")
					return true
				}
				if len(steps) == 1 {
					return true
				}
				return emit(caseDesc{Start: j.Start, Steps: steps})
			}
			for a := 0; a < nsym; a++ {
				word[pos] = a
				if !rec(pos + 1) {
					return false
				}
			}
			return true
		}
		if !rec(0) {
			return
		}
	}
}

// genCCFBLoop: history x all words up to the depth over {arrival on stream A/B of number
// first+o with a fixed ECN per number, at +dt} u {build report (1200 bytes), build report (36 bytes)}.
func genCCFBLoop(j job, _ string, emit func(caseDesc) bool, fail func(string)) {
	offs := []int{0, 1, 2, 4}
	dts := []time.Duration{time.Millisecond, 600 * time.Millisecond, 9 * time.Second}
	streams := []uint32{ssrcA, ssrcB}
	nArr := len(streams) * len(offs) * len(dts)
	nsym := nArr + 2
	n := 0
	for d := 1; d <= j.Depth; d++ {
		word := make([]int, d)
		var rec func(pos int) bool
		rec = func(pos int) bool {
			if pos == d {
				n++
				if j.Shards > 1 && n%j.Shards != j.Shard {
					return true
				}
				if word[d-1] == nArr {
					return true
				}
				steps := []step{{S: histories[j.Hist]}}
				desc := ""
				var msg string
				res := vsched.Run(vsched.Options{Strategy: vsched.BackgroundFirst{}, MaxSteps: 2_000_000}, func() {
					r := rfc8888.NewRecorder()
					now := time.Unix(1_700_000_100, 0)
					build := func(max int) {
						rep := r.BuildReport(now, max)
						if rep == nil {
							return
						}
						b, err := rep.Marshal()
						if err != nil {
							msg = "rfc8888 report does not marshal: " + err.Error()
							return
						}
						steps = append(steps, fbStep(b, "rfc8888.Recorder after arrivals "+desc))
					}
					for _, a := range word {
						switch a {
						case nArr:
							build(1200)
							desc += " build;"
							continue
						case nArr + 1:
							build(36)
							desc += " build(36);"
							continue
						}
						s := streams[a/(len(offs)*len(dts))]
						o := offs[a/len(dts)%len(offs)]
						now = now.Add(dts[a%len(dts)])
						seq := streamStart(s, j.Start) + uint16(o)
						r.AddPacket(now, s, seq, uint8(seq+uint16(s>>12))&3)
						desc += fmt.Sprintf(" %#x/%d@+%v", s, seq, now.Sub(time.Unix(1_700_000_100, 0)))
					}
					now = now.Add(20 * time.Millisecond)
					build(1200)
				})
				if len(res.Panics) > 0 {
					msg = "rfc8888.Recorder panicked: " + res.Panics[0].Value
				}
				if msg != "" {
					fail(msg + " (" + desc + ")")
					return true
				}
				return emit(caseDesc{Start: j.Start, Steps: steps})
			}
			for a := 0; a < nsym; a++ {
				word[pos] = a
				if !rec(pos + 1) {
					return false
				}
			}
			return true
		}
		if !rec(0) {
			return
		}
	}
}

// ---------------------------------------------------------------- sequences of reads with sends in between

// seqAlphabet is the feedback alphabet of the sequence family, relative to S.
func seqAlphabet(start uint16) []step {
	var out []step
	tw := func(base int, count int, ref uint32, chunks ...chunkSpec) []byte {
		sp := twccSpec{Count: count, Chunks: chunks}.finish(start+uint16(base), ref, 0)
		return sp.encode()
	}
	cf := func(rts uint32, blocks ...ccfbBlock) []byte { return ccfbFB{Blocks: blocks, RTS: rts}.encode() }
	blk := func(ssrc uint32, off, n, rot int) ccfbBlock {
		return ccfbBlock{SSRC: ssrc, Begin: streamStart(ssrc, start) + uint16(off), Metrics: metrics(n, rot)}
	}
	add := func(note string, parts ...[]byte) {
		var b []byte
		for _, p := range parts {
			b = append(b, p...)
		}
		out = append(out, fbStep(b, note))
	}
	f1 := tw(-2, 3, 3, rl(symSD, 3))
	f2 := tw(-2, 7, 4, v2("s-Ls-s-"))
	f3 := tw(-2, 5, 5, rl(symNR, 4), rl(symSD, 1))
	f4 := tw(0, 3, 6, v2("sss----"))
	f5 := tw(1, 3, 7, rl(symSD, 5))
	f6 := tw(-2, 8, 8, v1("10110010000000"))
	f7 := tw(4, 2, 9, rl(symLD, 2))
	f8 := tw(-2, 9, 1<<20, v2("sssssss"), v2("ss-----"))
	f9 := tw(2, 2, 0xFFFFFF, rl(symNR, 6)) // the largest 24-bit reference time
	g1 := cf(0x00020000, blk(ssrcA, 0, 3, 0))
	g2 := cf(0x00030000, blk(ssrcA, 1, 3, 5), blk(ssrcB, 0, 2, 1))
	g3 := cf(0x00040000, blk(ssrcB, -1, 3, 2))
	g4 := cf(0x00050000, blk(ssrcA, 0, 0, 0))
	g5 := cf(0x00060000, blk(ssrcB, 2, 6, 4), blk(ssrcX, 0, 2, 0))
	add("twcc RL(s x3) at S-2", f1)
	add("twcc V2[s-Ls-s-] at S-2", f2)
	add("twcc RL(- x4) RL(s x1) at S-2", f3)
	add("twcc V2[sss----] count 3 at S (padded)", f4)
	add("twcc RL(s x5) count 3 at S+1 (run length beyond the count)", f5)
	add("twcc V1[10110010000000] count 8 at S-2", f6)
	add("twcc RL(L x2) at S+4", f7)
	add("twcc V2[sssssss] V2[ss-----] count 9 at S-2", f8)
	add("twcc RL(- x6) count 2 at S+2 (run length beyond the count)", f9)
	add("ccfb A first 3", g1)
	add("ccfb A from second, B first 2", g2)
	add("ccfb B from one before the first", g3)
	add("ccfb A empty block", g4)
	add("ccfb B from third (6), unknown ssrc", g5)
	add("compound: twcc V2[sssssss]V2[ss-----] then twcc V2[sss----] count 3 at S (overlapping, padded)", f8, f4)
	add("compound: twcc V2[s-Ls-s-] then twcc RL(- x6) count 2 at S+2", f2, f9)
	add("compound: receiver report, twcc RL(s x3), ccfb A first 3", receiverReport(), f1, g1)
	add("receiver report only", receiverReport())
	return out
}

var seqPlans = map[string][2]string{
	"interleaved": {"TATBTUTATB", "TTABUT"},
	"twccfirst":   {"TTTTTTAAABBB", "ABTT"},
	"holes":       {"TtTATbBTaAT", "TUAB"},
}

// genSeq: send plan x all sequences of up to Depth reads over the alphabet, the second
// burst of sends happening after the first read.
func genSeq(j job, _ string, emit func(caseDesc) bool) {
	al := seqAlphabet(j.Start)
	plan := seqPlans[j.Hist]
	n := 0
	for d := 1; d <= j.Depth; d++ {
		word := make([]int, d)
		var rec func(pos int) bool
		rec = func(pos int) bool {
			if pos == d {
				n++
				if j.Shards > 1 && n%j.Shards != j.Shard {
					return true
				}
				steps := []step{{S: plan[0]}}
				for i, a := range word {
					steps = append(steps, al[a])
					if i == 0 {
						steps = append(steps, step{S: plan[1]})
					}
				}
				return emit(caseDesc{Start: j.Start, Steps: steps})
			}
			for a := range al {
				word[pos] = a
				if !rec(pos + 1) {
					return false
				}
			}
			return true
		}
		if !rec(0) {
			return
		}
	}
}

// ---------------------------------------------------------------- closed loop: longer arrival patterns

// fate patterns of a group of four consecutive packets
// 0: all arrive 1 ms apart; 1: all lost; 2: first and third arrive; 3: all arrive, the first one 70 ms late (after the others)
const nFates = 4

// genTWCCFates: consecutive transport-wide numbers from S-2 in six (thorough: seven) groups of four, every
// assignment of a fate pattern to each group, fed to twcc.Recorder in arrival order; feedback is
// built at the end (mode 0) or after three groups and at the end (mode 1). This makes the recorder emit
// multi-chunk feedback with run-length, one-bit and two-bit chunks, large and negative deltas.
func genTWCCFates(j job, tier string, emit func(caseDesc) bool, fail func(string)) {
	groups := 6
	if tier == "thorough" {
		groups = 7
	}
	total := 1
	for i := 0; i < groups; i++ {
		total *= nFates
	}
	n := 0
	for code := 0; code < total; code++ {
		for mode := 0; mode < 2; mode++ {
			n++
			if j.Shards > 1 && n%j.Shards != j.Shard {
				continue
			}
			steps := []step{{S: histories[j.Hist]}}
			desc := fmt.Sprintf("fates %o (one octal digit 0-3 per group of four from S-2, first group last) mode %d", toBase4(code, groups), mode)
			var msg string
			res := vsched.Run(vsched.Options{Strategy: vsched.BackgroundFirst{}, MaxSteps: 2_000_000}, func() {
				r := twcc.NewRecorder(0x5E5E0001)
				now := int64(5_000_000)
				build := func() {
					for _, p := range r.BuildFeedbackPacket() {
						b, err := p.Marshal()
						if err != nil {
							msg = "twcc feedback does not marshal: " + err.Error()
							return
						}
						steps = append(steps, fbStep(b, "twcc.Recorder, "+desc))
					}
				}
				c := code
				for g := 0; g < groups; g++ {
					f := c % nFates
					c /= nFates
					first := j.Start - 2 + uint16(4*g)
					switch f {
					case 0:
						for k := uint16(0); k < 4; k++ {
							now += 1000
							r.Record(ssrcT, first+k, now)
						}
					case 2:
						now += 1000
						r.Record(ssrcT, first, now)
						now += 2000
						r.Record(ssrcT, first+2, now)
					case 3:
						for k := uint16(1); k < 4; k++ {
							now += 1000
							r.Record(ssrcT, first+k, now)
						}
						now += 70000
						r.Record(ssrcT, first, now)
					}
					if mode == 1 && g == 2 {
						build()
					}
				}
				build()
			})
			if len(res.Panics) > 0 {
				msg = "twcc.Recorder panicked: " + res.Panics[0].Value
			}
			if msg != "" {
				fail(msg + " (" + desc + ")")
				continue
			}
			if len(steps) == 1 {
				continue
			}
			if !emit(caseDesc{Start: j.Start, Steps: steps}) {
				return
			}
		}
	}
}

func toBase4(code, digits int) int {
	out, mul := 0, 1
	for i := 0; i < digits; i++ {
		out += (code % 4) * mul
		mul *= 8
		code /= 4
	}
	return out
}

// genCCFBFates: consecutive numbers on stream A and on stream B, three (thorough: four) groups of four each,
// every assignment of a fate pattern to the groups, ECN mark = number mod 4, fed to
// rfc8888.Recorder; a report is built at the end (mode 0) or after stream A's groups and at the end (mode 1).
func genCCFBFates(j job, tier string, emit func(caseDesc) bool, fail func(string)) {
	groups, half := 6, 3
	if tier == "thorough" {
		groups, half = 8, 4
	}
	total := 1
	for i := 0; i < groups; i++ {
		total *= nFates
	}
	n := 0
	for code := 0; code < total; code++ {
		for mode := 0; mode < 2; mode++ {
			n++
			if j.Shards > 1 && n%j.Shards != j.Shard {
				continue
			}
			steps := []step{{S: histories[j.Hist]}}
			desc := fmt.Sprintf("fates %o (one octal digit 0-3 per group of four, first group last: groups on A from its first number, then on B) mode %d", toBase4(code, groups), mode)
			var msg string
			res := vsched.Run(vsched.Options{Strategy: vsched.BackgroundFirst{}, MaxSteps: 2_000_000}, func() {
				r := rfc8888.NewRecorder()
				now := time.Unix(1_700_000_100, 0)
				build := func() {
					now = now.Add(20 * time.Millisecond)
					b, err := r.BuildReport(now, 1200).Marshal()
					if err != nil {
						msg = "rfc8888 report does not marshal: " + err.Error()
						return
					}
					steps = append(steps, fbStep(b, "rfc8888.Recorder, "+desc))
				}
				c := code
				for g := 0; g < groups; g++ {
					f := c % nFates
					c /= nFates
					ssrc := uint32(ssrcA)
					if g >= half {
						ssrc = ssrcB
					}
					first := streamStart(ssrc, j.Start) + uint16(4*(g%half))
					rec := func(seq uint16, d time.Duration) {
						now = now.Add(d)
						r.AddPacket(now, ssrc, seq, uint8(seq&3))
					}
					switch f {
					case 0:
						for k := uint16(0); k < 4; k++ {
							rec(first+k, time.Millisecond)
						}
					case 2:
						rec(first, time.Millisecond)
						rec(first+2, 2*time.Millisecond)
					case 3:
						for k := uint16(1); k < 4; k++ {
							rec(first+k, time.Millisecond)
						}
						rec(first, 70*time.Millisecond)
					}
					if mode == 1 && g == half-1 {
						build()
					}
				}
				build()
			})
			if len(res.Panics) > 0 {
				msg = "rfc8888.Recorder panicked: " + res.Panics[0].Value
			}
			if msg != "" {
				fail(msg + " (" + desc + ")")
				continue
			}
			if !emit(caseDesc{Start: j.Start, Steps: steps}) {
				return
			}
		}
	}
}
