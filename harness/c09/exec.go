package c09

// Execution of one case against the code under test, through the seams named
// by the property: internal/cc.FeedbackAdapter's exported methods, and the
// rtpfb interceptor through BindLocalStream / BindRTCPReader and the attributes
// returned by the RTCP reader.

import (
	"encoding/hex"
	"fmt"
	"regexp"
	"strings"
	"time"

	"github.com/pion/interceptor"
	"github.com/pion/interceptor/internal/cc"
	"github.com/pion/interceptor/pkg/rtpfb"
	"github.com/pion/interceptor/vsched"
	"github.com/pion/rtcp"
	"github.com/pion/rtp"
)

const transportCCURI = "http://www.ietf.org/id/draft-holmer-rmcat-transport-wide-cc-extensions-01"

// result of one case
type caseResult struct {
	Findings   []finding
	Outcomes   []string // observation class of every read
	Nontrivial bool
	Feedbacks  int
}

// extIDOf is the transport-cc extension id negotiated for a stream.
func extIDOf(ssrc uint32) uint8 {
	if ssrc == ssrcU {
		return extID + 2
	}
	return extID
}

func header(p *sentPkt) *rtp.Header {
	h := &rtp.Header{Version: 2, PayloadType: 96, SequenceNumber: p.rtpSeq, Timestamp: uint32(p.idx) * 3000, SSRC: p.ssrc}
	if p.twcc {
		// RFC 8285 one-byte extension: the 16-bit transport-wide sequence number under the id the stream
		// negotiated (5 on stream T, 7 on stream U, which carries an unrelated extension under 5)
		_ = h.SetExtension(extIDOf(p.ssrc), []byte{byte(p.twccSeq >> 8), byte(p.twccSeq)})
		if p.ssrc == ssrcU {
			_ = h.SetExtension(extID, []byte{0xAB, 0xCD, 0xEF})
		}
	}
	p.hdr = h.MarshalSize()
	return h
}

var digits = regexp.MustCompile(`[0-9]+`)

func runFailure(target string, res *vsched.Result) *finding {
	switch {
	case len(res.Panics) > 0:
		v := res.Panics[0].Value
		where := ""
		for _, l := range strings.Split(res.Panics[0].Stack, "\n") {
			if strings.Contains(l, "github.com/pion/interceptor/") && !strings.Contains(l, "/verifh/") && !strings.Contains(l, "/vsched") && !strings.HasPrefix(strings.TrimSpace(l), "/") {
				where = strings.TrimSpace(l)
				if i := strings.LastIndex(where, "("); i > 0 {
					where = where[:i]
				}
				where = where[strings.LastIndex(where, "/")+1:]
				break
			}
		}
		return &finding{"C09:" + target + "-panic:" + where + ":" + digits.ReplaceAllString(v, "N"), "panic: " + v + "\n" + res.Panics[0].Stack}
	case res.Deadlock:
		return &finding{"C09:" + target + "-deadlock", fmt.Sprintf("deadlock: %+v", res.Blocked)}
	case res.StepLimit:
		return &finding{"C09:" + target + "-step-limit", "step budget exceeded (loops forever?): " + res.StepWhere}
	case len(res.Failures) > 0:
		return &finding{"C09:" + target + "-harness-failure", res.Failures[0]}
	}
	return nil
}

// decoded feedback of one compound packet
type decodedFB struct {
	order []string
	raw   [][]byte
	twcc  []*twccFB
	ccfb  []*ccfbFB
}

func decodeCompound(b []byte) (*decodedFB, error) {
	parts, err := splitRTCP(b)
	if err != nil {
		return nil, err
	}
	d := &decodedFB{}
	for _, p := range parts {
		k := fbKind(p)
		d.order = append(d.order, k)
		d.raw = append(d.raw, p)
		switch k {
		case "twcc":
			fb, err := decodeTWCC(p)
			if err != nil {
				return nil, err
			}
			d.twcc = append(d.twcc, fb)
		case "ccfb":
			fb, err := decodeCCFB(p)
			if err != nil {
				return nil, err
			}
			d.ccfb = append(d.ccfb, fb)
		}
	}
	return d, nil
}

// runCase executes one case on a fresh instance and evaluates the oracle.
func runCase(c caseDesc) caseResult {
	var r caseResult
	var fs []finding
	addAll := func(l []finding) {
		for _, f := range l {
			dup := false
			for _, g := range fs {
				dup = dup || g.Key == f.Key
			}
			if !dup {
				fs = append(fs, f)
			}
		}
	}
	m := newModel()
	var oc []string
	res := vsched.Run(vsched.Options{Strategy: vsched.BackgroundFirst{}, MaxSteps: 2_000_000}, func() {
		switch c.Target {
		case "cc":
			addAll(runCC(c, m, &oc, &r))
		case "rtpfb":
			addAll(runRTPFB(c, m, &oc, &r))
		default:
			vsched.Failf("unknown target %q", c.Target)
		}
	})
	addAll(m.epochFindings(map[string]string{"cc": "C09:cc-twcc-wrong-arrival-time", "rtpfb": "C09:rtpfb-wrong-arrival-time"}[c.Target]))
	if f := runFailure(c.Target, res); f != nil {
		addAll([]finding{*f})
	}
	r.Findings = fs
	for _, o := range oc {
		r.Outcomes = append(r.Outcomes, c.Target+":"+o)
	}
	r.Nontrivial = m.recvSeen > 0
	return r
}

func bucket(n int) string {
	switch {
	case n <= 3:
		return fmt.Sprint(n)
	case n <= 8:
		return "4-8"
	case n <= 32:
		return "9-32"
	}
	return "33+"
}

func runCC(c caseDesc, m *model, oc *[]string, r *caseResult) []finding {
	var out []finding
	ad := cc.NewFeedbackAdapter()
	cnt := newCounters(c.Start)
	t0 := time.Unix(1_700_000_000, 0)
	for _, st := range c.Steps {
		if st.S != "" {
			ops, err := parseSends(st.S)
			if err != nil {
				vsched.Failf("%v", err)
				return out
			}
			for _, op := range ops {
				p := cnt.next(op, len(m.sent))
				if p == nil {
					continue
				}
				p.dep = t0.Add(time.Duration(p.idx) * time.Millisecond)
				h := header(p)
				attr := interceptor.Attributes{}
				if p.twcc {
					attr.Set(cc.TwccExtensionAttributesKey, extIDOf(p.ssrc))
				}
				if err := ad.OnSent(p.dep, h, p.payload, attr); err != nil {
					out = append(out, finding{"C09:cc-onsent-error", fmt.Sprintf("OnSent(%v) returned %v", p, err)})
				}
				m.addSent(p)
			}
			continue
		}
		raw, err := hex.DecodeString(st.F)
		if err != nil {
			vsched.Failf("bad feedback hex: %v", err)
			return out
		}
		d, err := decodeCompound(raw)
		if err != nil {
			vsched.Failf("harness feedback is not decodable by the reference decoder: %v", err)
			return out
		}
		now := t0.Add(10 * time.Second)
		ti, ci := 0, 0
		for i, kind := range d.order {
			switch kind {
			case "twcc":
				fb := d.twcc[ti]
				ti++
				var pk rtcp.TransportLayerCC
				if err := pk.Unmarshal(d.raw[i]); err != nil {
					*oc = append(*oc, "twcc-unmarshal-rejects")
					continue
				}
				r.Feedbacks++
				acks, err := ad.OnTransportCCFeedback(now, &pk)
				fl := m.checkCCTWCC(fb, ackViews(acks), err)
				out = append(out, fl...)
				*oc = append(*oc, fmt.Sprintf("twcc:n%s,a%s,e%v,v%d", bucket(fb.Count), bucket(len(acks)), err != nil, len(fl)))
			case "ccfb":
				fb := d.ccfb[ci]
				ci++
				var pk rtcp.CCFeedbackReport
				if err := pk.Unmarshal(d.raw[i]); err != nil {
					*oc = append(*oc, "ccfb-unmarshal-rejects")
					continue
				}
				r.Feedbacks++
				acks := ad.OnRFC8888Feedback(now, &pk)
				fl := m.checkCCCCFB(fb, ackViews(acks))
				out = append(out, fl...)
				*oc = append(*oc, fmt.Sprintf("ccfb:b%d,a%s,v%d", len(fb.Blocks), bucket(len(acks)), len(fl)))
			}
		}
	}
	return out
}

func ackViews(acks []cc.Acknowledgment) []ackView {
	out := make([]ackView, len(acks))
	for i, a := range acks {
		out[i] = ackView{Seq: a.SequenceNumber, SSRC: a.SSRC, Size: a.Size, Dep: a.Departure, Arrival: a.Arrival, ECN: uint8(a.ECN)}
	}
	return out
}

// nullWriter is the innermost RTP writer.
type nullWriter struct{ n int }

func (w *nullWriter) Write(h *rtp.Header, payload []byte, _ interceptor.Attributes) (int, error) {
	w.n++
	return h.MarshalSize() + len(payload), nil
}

func runRTPFB(c caseDesc, m *model, oc *[]string, r *caseResult) []finding {
	var out []finding
	f, err := rtpfb.NewInterceptor()
	if err != nil {
		vsched.Failf("NewInterceptor: %v", err)
		return out
	}
	ic, err := f.NewInterceptor("")
	if err != nil {
		vsched.Failf("NewInterceptor: %v", err)
		return out
	}
	sink := &nullWriter{}
	twccExt := []interceptor.RTPHeaderExtension{{URI: transportCCURI, ID: extID}}
	twccExtU := []interceptor.RTPHeaderExtension{{URI: "urn:other", ID: extID}, {URI: transportCCURI, ID: extID + 2}}
	writers := map[byte]interceptor.RTPWriter{
		'T': ic.BindLocalStream(&interceptor.StreamInfo{SSRC: ssrcT, RTPHeaderExtensions: twccExt}, sink),
		'U': ic.BindLocalStream(&interceptor.StreamInfo{SSRC: ssrcU, RTPHeaderExtensions: twccExtU}, sink),
		'A': ic.BindLocalStream(&interceptor.StreamInfo{SSRC: ssrcA}, sink),
		'B': ic.BindLocalStream(&interceptor.StreamInfo{SSRC: ssrcB}, sink),
	}
	// a second interceptor built by the same factory (another peer connection) sends packets with the very same
	// SSRCs and numbers but other sizes, one millisecond before each packet of the first: nothing it sends may
	// show up in what the first one reports
	ic2, err := f.NewInterceptor("sibling")
	if err != nil {
		vsched.Failf("NewInterceptor: %v", err)
		return out
	}
	sink2 := &nullWriter{}
	siblings := map[byte]interceptor.RTPWriter{
		'T': ic2.BindLocalStream(&interceptor.StreamInfo{SSRC: ssrcT, RTPHeaderExtensions: twccExt}, sink2),
		'U': ic2.BindLocalStream(&interceptor.StreamInfo{SSRC: ssrcU, RTPHeaderExtensions: twccExtU}, sink2),
		'A': ic2.BindLocalStream(&interceptor.StreamInfo{SSRC: ssrcA}, sink2),
		'B': ic2.BindLocalStream(&interceptor.StreamInfo{SSRC: ssrcB}, sink2),
	}
	var next []byte
	reader := ic.BindRTCPReader(interceptor.RTCPReaderFunc(func(b []byte, a interceptor.Attributes) (int, interceptor.Attributes, error) {
		return copy(b, next), a, nil
	}))
	cnt := newCounters(c.Start)
	buf := make([]byte, 1500)
	payload := make([]byte, 400)
	var kept []keptReport
	for _, st := range c.Steps {
		if st.S != "" {
			ops, err := parseSends(st.S)
			if err != nil {
				vsched.Failf("%v", err)
				return out
			}
			for _, op := range ops {
				p := cnt.next(op, len(m.sent))
				if p == nil {
					continue
				}
				vsched.Advance(time.Millisecond)
				if w2 := siblings[op.stream]; w2 != nil && len(payload) >= p.payload+13 {
					_, _ = w2.Write(header(p), payload[:p.payload+13], nil)
				}
				vsched.Advance(time.Millisecond)
				p.dep = vsched.Now()
				h := header(p)
				before := sink.n
				n, err := writers[op.stream].Write(h, payload[:p.payload], nil)
				if err != nil || n != p.hdr+p.payload || sink.n != before+1 {
					out = append(out, finding{"C09:rtpfb-send-not-passed-through", fmt.Sprintf("Write(%v) = %d, %v; packets at the transport %d", p, n, err, sink.n-before)})
				}
				m.addSent(p)
			}
			continue
		}
		raw, err := hex.DecodeString(st.F)
		if err != nil {
			vsched.Failf("bad feedback hex: %v", err)
			return out
		}
		d, err := decodeCompound(raw)
		if err != nil {
			vsched.Failf("harness feedback is not decodable by the reference decoder: %v", err)
			return out
		}
		if _, err := rtcp.Unmarshal(raw); err != nil {
			*oc = append(*oc, "unmarshal-rejects")
			continue
		}
		vsched.Advance(5 * time.Millisecond)
		next = raw
		n, attr, err := reader.Read(buf, interceptor.Attributes{})
		if err != nil || n != len(raw) {
			out = append(out, finding{"C09:rtpfb-read-error", fmt.Sprintf("RTCP Read = %d, %v for %d well-formed bytes", n, err, len(raw))})
			continue
		}
		r.Feedbacks += len(d.twcc) + len(d.ccfb)
		var reps []reportView
		if v := attr.Get(rtpfb.CCFBAttributesKey); v != nil {
			rep, ok := v.(rtpfb.Report)
			if !ok {
				out = append(out, finding{"C09:rtpfb-report-type", fmt.Sprintf("attribute under CCFBAttributesKey has type %T", v)})
				continue
			}
			reps = viewOf(rep)
			kept = append(kept, keptReport{rep, reps})
		}
		outside, newly := m.applyFeedback(d.twcc, d.ccfb, d.order)
		fl := m.checkReport(reps, outside, newly)
		out = append(out, fl...)
		*oc = append(*oc, fmt.Sprintf("t%dc%d,r%s,v%d", len(d.twcc), len(d.ccfb), bucket(len(reps)), len(fl)))
	}
	// the application keeps the reports it was handed: what a report says does not change when later feedback is read
	for k, kr := range kept {
		if now := viewOf(kr.rep); fmt.Sprint(now) != fmt.Sprint(kr.was) {
			out = append(out, finding{"C09:rtpfb-report-changed-after-delivery", fmt.Sprintf("report %d of %d (delivered with Read under CCFBAttributesKey) changed while later feedback was read:\n was %v\n now %v", k+1, len(kept), kr.was, now)})
			break
		}
	}
	_ = ic.Close()
	return out
}

type keptReport struct {
	rep rtpfb.Report
	was []reportView
}

func viewOf(rep rtpfb.Report) []reportView {
	var reps []reportView
	for _, p := range rep.PacketReports {
		reps = append(reps, reportView{SSRC: p.SSRC, Counter: p.SequenceNumber, RTPSeq: p.RTPSequenceNumber, TWCCSeq: p.TWCCSequenceNumber,
			Size: p.Size, Arrived: p.Arrived, Dep: p.Departure, Arrival: p.Arrival, ECN: uint8(p.ECN)})
	}
	return reps
}
