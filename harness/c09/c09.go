// Package c09 decides property C09 (feedback decoding attributes each
// acknowledgement to the right sent packet) by bounded-exhaustive enumeration
// of send histories x well-formed feedback packets against
// internal/cc.FeedbackAdapter and the rtpfb interceptor.
package c09

import (
	"encoding/json"
	"fmt"
	"os"
	"time"

	"github.com/pion/interceptor/verifh/hk"
)

func jobsFor(tier string) []job {
	var out []job
	thorough := tier == "thorough"
	starts := []uint16{1000, 65530}
	loopDepth, ccfbDepth, seqDepth := 3, 3, 3
	if thorough {
		starts = []uint16{1000, 65530, 1}
		loopDepth, ccfbDepth, seqDepth = 4, 3, 4
	}
	// shards: histories with more than 250 packets in flight cost about five times as much per case
	sh := func(fam, hist string) int {
		heavy := map[string]bool{"evict": true, "evictmid": true, "edge250": true, "edge251": true, "abevict": true, "abedge": true, "abedge0": true}[hist]
		n := 1
		if thorough {
			switch fam {
			case "twcc-hand":
				n = 3
			case "twcc-loop":
				n = 6
			case "seq":
				n = 4
			case "twcc-fates", "ccfb-fates":
				n = 2
			}
		}
		if heavy {
			n *= 2
		}
		return n
	}
	add := func(fam string, s uint16, hist string, depth int) {
		n := sh(fam, hist)
		for k := 0; k < n; k++ {
			out = append(out, job{Family: fam, Start: s, Hist: hist, Depth: depth, Shard: k, Shards: n})
		}
	}
	for _, s := range starts {
		for _, h := range []string{"all", "holes", "mixed", "evict", "evictmid", "edge250", "edge251", "none"} {
			add("twcc-hand", s, h, 0)
		}
		for _, h := range []string{"ab", "abholes", "abmixed", "abevict", "abedge", "abedge0", "none"} {
			add("ccfb-hand", s, h, 0)
		}
		for _, h := range []string{"all", "holes", "evict"} {
			add("twcc-loop", s, h, loopDepth)
			add("twcc-fates", s, h, 0)
		}
		for _, h := range []string{"ab", "abholes", "abevict"} {
			add("ccfb-loop", s, h, ccfbDepth)
			add("ccfb-fates", s, h, 0)
		}
		for _, h := range []string{"interleaved", "twccfirst", "holes"} {
			add("seq", s, h, seqDepth)
		}
	}
	return out
}

func jobs(tier string) []string {
	var names []string
	for _, j := range jobsFor(tier) {
		b, _ := json.Marshal(j)
		names = append(names, string(b))
	}
	return names
}

func run(tier string, i int, deadline time.Time) *hk.JobResult {
	j := jobsFor(tier)[i]
	began := time.Now()
	r := &hk.JobResult{Exhaustive: true, Outcomes: map[string]int{}, Bounds: map[string]any{"family": j.Family, "history": j.Hist, "start": j.Start, "depth": j.Depth}}
	seenKey := map[string]bool{}
	cases := int64(0)
	emit := func(c caseDesc) bool {
		if !deadline.IsZero() && cases%64 == 0 && time.Now().After(deadline) {
			r.Exhaustive = false
			r.Notes = append(r.Notes, fmt.Sprintf("deadline reached after %d cases of this shard (enumeration order: simplest first)", cases))
			return false
		}
		cases++
		for _, target := range []string{"cc", "rtpfb"} {
			c.Target = target
			res := runCase(c)
			r.Executions++
			r.States++
			r.Transitions += int64(res.Feedbacks)
			if res.Nontrivial {
				r.Nontrivial++
			}
			for _, o := range res.Outcomes {
				if len(r.Outcomes) < 3000 || r.Outcomes[o] > 0 {
					r.Outcomes[o]++
				}
			}
			if (r.Executions == 1 || r.Executions == 2001) && len(r.Samples) < 2 {
				r.Samples = append(r.Samples, c)
			}
			for _, f := range res.Findings {
				if seenKey[f.Key] || len(seenKey) >= 12 {
					continue
				}
				seenKey[f.Key] = true
				cc := c
				cc.Key = f.Key
				r.Violations = append(r.Violations, hk.Violation{Key: f.Key, Message: f.Msg, Replay: cc})
			}
		}
		return true
	}
	fail := func(msg string) {
		if len(r.Notes) < 5 {
			r.Notes = append(r.Notes, "generator (not part of C09): "+msg)
		}
	}
	switch j.Family {
	case "twcc-hand":
		genTWCCHand(j, tier, emit)
	case "ccfb-hand":
		genCCFBHand(j, tier, emit)
	case "twcc-loop":
		genTWCCLoop(j, tier, emit, fail)
	case "ccfb-loop":
		genCCFBLoop(j, tier, emit, fail)
	case "twcc-fates":
		genTWCCFates(j, tier, emit, fail)
	case "ccfb-fates":
		genCCFBFates(j, tier, emit, fail)
	case "seq":
		genSeq(j, tier, emit)
	default:
		r.Error = "unknown family " + j.Family
	}
	r.Bounds["cases"] = cases
	if os.Getenv("C09_TIMING") != "" {
		r.Notes = append(r.Notes, fmt.Sprintf("timing: %d executions in %.1fs", r.Executions, time.Since(began).Seconds()))
	}
	return r
}

func replayFn(raw json.RawMessage) string {
	var c caseDesc
	if err := json.Unmarshal(raw, &c); err != nil {
		return "bad replay: " + err.Error()
	}
	res := runCase(c)
	for _, f := range res.Findings {
		if c.Key == "" || f.Key == c.Key {
			return f.Key + ": " + f.Msg
		}
	}
	return ""
}

func init() {
	hk.Register(&hk.Check{
		ID: "C09",
		Rule: "E3 bounded-exhaustive enumeration of (send history) x (well-formed feedback reads), every case executed on internal/cc.FeedbackAdapter (OnSent/OnTransportCCFeedback/OnRFC8888Feedback) " +
			"and on the rtpfb interceptor through BindLocalStream/BindRTCPReader/CCFBAttributesKey. Histories: nothing sent, 24 TWCC packets, never-sent numbers, two TWCC SSRCs mixed with two non-TWCC streams, " +
			"270 and 262 packets in flight (more than the 250-entry history), start numbers below the 2^16 wrap. Feedback: (hand) every list of up to 2 (quick: 3 over a reduced alphabet; thorough: 3) chunks over " +
			"{run length x {lost,small,large} x {1,2,5}, 4 one-bit vectors, 4 two-bit vectors} x {exact count, count 1 or 3 short of the last chunk: padded vector / run length beyond the count} x base {S-2,S,S+3}, read twice (shifted, later reference time); " +
			"RFC 8888 packets of one or two report blocks (known/unknown SSRC, begin before/at/inside the sent range, 0/1/3/6 metric blocks in all rotations of {R,lost,ECN 0-3,ATO 0/5/1024/0x1FFE/0x1FFF}) x 3 report timestamps, read twice; " +
			"(closed loop) every arrival word up to the depth (arrival of one of 6 numbers at +0/+1/+70 ms, or build; RFC 8888: 2 streams x 4 numbers x +1 ms/+600 ms/+9 s, or build with 1200 or 36 bytes) into twcc.Recorder / rfc8888.Recorder, and every assignment of 4 fate patterns " +
			"(all arrive, all lost, alternate, first one late) to 6 (thorough 7/8) groups of four consecutive packets with feedback built at the end or also half-way, each emitted packet marshalled and read; " +
			"(sequences) all sequences up to the depth over 18 reads incl. compound packets, with sends after the first read. " +
			"Expected status/arrival time/ECN per number come from the harness's own decoder of the bytes. A case is non-trivial if at least one acknowledgement of a really sent packet that the feedback declares received was compared",
		Assumptions: []string{
			"well-formed TWCC feedback: unused symbols of a padded final status vector chunk are zero; status symbol 3 (reserved) and receive deltas for symbols beyond the packet status count do not occur",
			"TWCC arrival times are fixed by the feedback only relative to the receiver clock: the oracle lets the decoder choose the epoch, but it must be one epoch for all acknowledgements of an execution (reference times < 2^23, never 0)",
			"RFC 8888 arrival times are compared modulo 65536 s within 2 us of RTS/65536 s - ATO/1024 s; for ATO 0x1FFF (unavailable) only status and ECN are compared",
			"the recorded size of a packet is the size given to the send seam, with or without the RTP header (FeedbackAdapter); header+payload (rtpfb)",
			"completeness (DESIGN.md C09): a packet among the 250 most recently sent whose number is in the declared range must be acknowledged by the FeedbackAdapter; rtpfb must report a packet that the feedback declares received unless it was reported before",
			"rtpfb reports every unreported packet up to the highest acknowledged one: a packet no feedback covers may be reported, but only as not arrived, without arrival time and ECN",
			"pion/rtcp Unmarshal is used to hand the bytes to the FeedbackAdapter (its API takes parsed packets); packets it rejects are counted, not judged",
		},
		Jobs:   jobs,
		Run:    run,
		Replay: replayFn,
		Bounds: func(tier string) map[string]any {
			return map[string]any{"jobs": len(jobsFor(tier)), "tier": tier, "history_size": historySize}
		},
	})
}
