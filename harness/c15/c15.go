// Package c15 decides property C15 (transport-wide sequence numbers are
// gap-free and unique across streams) by exploring every interleaving of
// concurrent writers through the real header-extension interceptor, with the
// race detector in the loop.
package c15

import (
	"bytes"
	"encoding/json"
	"errors"
	"fmt"
	"sort"
	"time"

	"github.com/pion/interceptor"
	"github.com/pion/interceptor/pkg/twcc"
	"github.com/pion/interceptor/verifh/hk"
	"github.com/pion/interceptor/vsched"
	"github.com/pion/rtp"
)

const uri = "http://www.ietf.org/id/draft-holmer-rmcat-transport-wide-cc-extensions-01"

type config struct {
	ExtID    int    `json:"ext_id"`
	ExtID2   int    `json:"ext_id_stream2"`
	Profile  string `json:"profile"`  // none | one | two
	Existing string `json:"existing"` // none | other | same
	Prewrite int    `json:"sequential_writes_before"`
	Writers  int    `json:"writers"`
	PerW     int    `json:"packets_per_writer"`
	FailW0   bool   `json:"first_write_of_writer0_fails_downstream,omitempty"`
	Bound    int    `json:"deviation_bound"`
}

func (c config) name() string {
	b, _ := json.Marshal(c)
	return string(b)
}

type sent struct {
	stream  int
	before  rtp.Header // deep copy of the header as the application passed it
	payload []byte
}

type sink struct {
	stream int
	got    *[]got
	fail   *bool // the next write is seen by the transport, which then fails it
}

var errDownstream = errors.New("injected: the next writer failed")

type got struct {
	stream  int
	hdr     rtp.Header
	payload []byte
}

//go:norace
func (s *sink) Write(h *rtp.Header, p []byte, _ interceptor.Attributes) (int, error) {
	*s.got = append(*s.got, got{s.stream, h.Clone(), append([]byte(nil), p...)})
	if s.fail != nil && *s.fail {
		*s.fail = false
		vsched.Yield() // other writers may run while this write is failing
		return 0, errDownstream
	}
	return h.MarshalSize() + len(p), nil
}

func mkHeader(c config, stream, k int, neg bool, id int) rtp.Header {
	h := rtp.Header{Version: 2, PayloadType: uint8(96 + stream), SequenceNumber: uint16(100*stream + k), Timestamp: uint32(3000 * k),
		SSRC: uint32(0x5000 + stream), Marker: k%2 == 1}
	if stream == 1 {
		h.CSRC = []uint32{7, 8}
	}
	switch c.Profile {
	case "one":
		h.Extension, h.ExtensionProfile = true, 0xBEDE
	case "two":
		h.Extension, h.ExtensionProfile = true, 0x1000
	}
	switch c.Existing {
	case "other":
		other := uint8(15 - id)
		if int(other) == id || other == 0 || other == 15 {
			other = uint8(id%14 + 1)
		}
		_ = h.SetExtension(other, []byte{0xAA, byte(k)})
	case "same":
		if neg {
			_ = h.SetExtension(uint8(id), []byte{0xFF, 0xFF})
		}
	}
	return h
}

func scenario(c config) *hk.Scenario {
	return &hk.Scenario{ID: "C15", Name: c.name(), MaxBound: c.Bound, MaxSteps: 3_000_000, Body: func(ctx *hk.Ctx) { body(c, ctx) }}
}

// body: streams 0 and 1 negotiated the extension (possibly with different ids), stream 2 did not.
func body(c config, ctx *hk.Ctx) {
	f, _ := twcc.NewHeaderExtensionInterceptor()
	icpt, _ := f.NewInterceptor("")
	var out []got
	failNext := false
	ids := []int{c.ExtID, c.ExtID2, 0}
	ws := make([]interceptor.RTPWriter, 3)
	infos := make([]*interceptor.StreamInfo, 3)
	for s := 0; s < 3; s++ {
		info := &interceptor.StreamInfo{SSRC: uint32(0x5000 + s)}
		if s == 0 {
			// repair packets of the stream travel on its writer with SSRCs of their own
			info.SSRCRetransmission, info.SSRCForwardErrorCorrection = 0x5E00, 0x5F00
		}
		infos[s] = info
		if ids[s] != 0 {
			info.RTPHeaderExtensions = []interceptor.RTPHeaderExtension{{URI: "urn:other", ID: 15}, {URI: uri, ID: ids[s]}}
		}
		sk := &sink{stream: s, got: &out}
		if s == 0 {
			sk.fail = &failNext
		}
		ws[s] = icpt.BindLocalStream(info, sk)
	}
	// fan-out of one received packet (what a forwarding application does): the same bytes are parsed once per
	// outgoing stream - rtp.Header.Unmarshal lets extension payloads point into the buffer - and written first on
	// a stream that negotiated the extension, then on the one that did not. The second copy and the buffer
	// itself must still carry the number the packet arrived with.
	fan := 0
	if c.Existing == "same" {
		src := rtp.Header{Version: 2, PayloadType: 96, SequenceNumber: 7, Timestamp: 7, SSRC: 0x5000, Extension: true, ExtensionProfile: 0xBEDE}
		_ = src.SetExtension(uint8(c.ExtID), []byte{0x03, 0x09})
		raw, err := src.Marshal()
		if err != nil {
			ctx.Fail("C15:harness", "%v", err)
			return
		}
		orig := append([]byte(nil), raw...)
		var hA, hC rtp.Header
		if _, err := hA.Unmarshal(raw); err != nil {
			ctx.Fail("C15:harness", "%v", err)
			return
		}
		_, _ = hC.Unmarshal(raw)
		hC.SSRC = 0x5002
		_, _ = ws[0].Write(&hA, []byte{1}, nil)
		_, _ = ws[2].Write(&hC, []byte{1}, nil)
		if !bytes.Equal(raw, orig) {
			ctx.Fail("C15:caller-buffer-modified", "the receive buffer the written header was parsed from was modified: %x, was %x", raw, orig)
			return
		}
		for _, g := range out {
			if g.stream == 2 {
				if x := g.hdr.GetExtension(uint8(c.ExtID)); !bytes.Equal(x, []byte{0x03, 0x09}) {
					ctx.Fail("C15:untouched-stream-modified", "a packet on the stream that did not negotiate the extension left with extension %d = %x, it was written with 0309", c.ExtID, x)
					return
				}
			}
		}
		fan = 1
		out = out[:0]
	}
	// sequential prefix (brings the counter close to the 2^16 wrap)
	pre := rtp.Header{Version: 2, SSRC: 0x5000}
	for i := 0; i < c.Prewrite; i++ {
		h := pre
		if _, err := ws[0].Write(&h, nil, nil); err != nil {
			ctx.Fail("C15:write-error", "sequential write %d: %v", i, err)
			return
		}
	}
	preCount := len(out) + fan
	out = out[:0]
	failNext = c.FailW0 // the numbers assigned (also to the packet whose write fails downstream) stay one run
	sentLog := make([][]sent, c.Writers)
	var threads []*vsched.Thread
	for w := 0; w < c.Writers; w++ {
		w := w
		stream := w % 3
		log := make([]sent, 0, c.PerW)
		threads = append(threads, vsched.GoApp(fmt.Sprintf("writer%d", w), func() {
			for k := 0; k < c.PerW; k++ {
				h := mkHeader(c, stream, 10*w+k, ids[stream] != 0, ids[stream])
				payload := []byte{byte(w), byte(k), 0x33}
				log = append(log, sent{stream, h.Clone(), append([]byte(nil), payload...)})
				n, err := ws[stream].Write(&h, payload, nil)
				if err != nil && !(c.FailW0 && errors.Is(err, errDownstream)) {
					ctx.Fail("C15:write-error", "writer %d packet %d: %v", w, k, err)
				}
				if !bytes.Equal(payload, []byte{byte(w), byte(k), 0x33}) {
					ctx.Fail("C15:payload-modified", "writer %d packet %d: payload changed to %v", w, k, payload)
				}
				_ = n
			}
			sentLog[w] = log
		}))
	}
	for _, t := range threads {
		t.Join()
	}
	if ctx.Failed() {
		return
	}
	// the non-negotiated stream and one negotiated stream are unbound; the remaining stream keeps writing and
	// its numbers continue the run
	tailFrom := len(out)
	if !c.FailW0 {
		icpt.UnbindLocalStream(infos[2])
		icpt.UnbindLocalStream(infos[1])
		// the remaining stream is replaced: a new binding of the same SSRC is made, then the old binding is
		// unbound; the new binding is a bound stream that negotiated the extension
		repl := *infos[0]
		ws[0] = icpt.BindLocalStream(&repl, &sink{stream: 0, got: &out})
		icpt.UnbindLocalStream(infos[0])
		for k := 0; k < 2; k++ {
			// ... an RTX and a FEC packet of the stream (every packet on a stream that negotiated the extension leaves with it)
			h := rtp.Header{Version: 2, PayloadType: 96, SequenceNumber: uint16(9000 + k), SSRC: []uint32{0x5E00, 0x5F00}[k]}
			if _, err := ws[0].Write(&h, []byte{9}, nil); err != nil {
				ctx.Fail("C15:write-error", "write after the other streams were unbound: %v", err)
				return
			}
		}
	}
	tail := append([]got(nil), out[tailFrom:]...)
	out = out[:tailFrom]
	// oracle
	total := 0
	for _, l := range sentLog {
		total += len(l)
	}
	if len(out) != total {
		ctx.Fail("C15:packet-count", "%d packets written, %d reached the transport", total, len(out))
		return
	}
	var nums []int
	perStreamSeen := map[int]int{}
	for _, g := range out {
		// find the original by (stream, RTP sequence number), which the interceptor must not touch
		var orig *sent
		for _, l := range sentLog {
			for i := range l {
				if l[i].stream == g.stream && l[i].before.SequenceNumber == g.hdr.SequenceNumber {
					orig = &l[i]
				}
			}
		}
		if orig == nil {
			ctx.Fail("C15:header-modified", "packet on stream %d with unknown RTP sequence number %d reached the transport", g.stream, g.hdr.SequenceNumber)
			return
		}
		perStreamSeen[g.stream]++
		id := ids[g.stream]
		want := orig.before.Clone()
		if id == 0 {
			if !headerEqual(&g.hdr, &want) || !bytes.Equal(g.payload, orig.payload) {
				ctx.Fail("C15:non-negotiated-stream-touched", "stream %d did not negotiate transport-cc but header/payload changed:\n got %+v\nwant %+v", g.stream, g.hdr, want)
				return
			}
			continue
		}
		ext := g.hdr.GetExtension(uint8(id))
		if len(ext) != 2 {
			ctx.Fail("C15:extension-missing", "stream %d packet %d left without a 2-byte transport-cc extension (id %d): %v", g.stream, g.hdr.SequenceNumber, id, ext)
			return
		}
		nums = append(nums, int(ext[0])<<8|int(ext[1]))
		// everything else must be as the application wrote it: compare after removing / restoring the extension
		gh := g.hdr.Clone()
		wh := want
		_ = gh.DelExtension(uint8(id))
		if c.Existing == "same" {
			_ = wh.DelExtension(uint8(id))
		}
		if !headerEqualModuloExt(&gh, &wh) || !bytes.Equal(g.payload, orig.payload) {
			ctx.Fail("C15:header-modified", "stream %d packet %d: header/payload differ beyond the transport-cc extension:\n got %+v\nwant %+v", g.stream, g.hdr.SequenceNumber, gh, wh)
			return
		}
	}
	sort.Ints(nums)
	// numbers form one run of consecutive values modulo 2^16 continuing the sequential prefix
	start := preCount % 65536
	seen := map[int]bool{}
	for _, n := range nums {
		if seen[n] {
			ctx.Fail("C15:duplicate-number", "transport-wide sequence number %d assigned twice (numbers %v)", n, nums)
			return
		}
		seen[n] = true
	}
	for i := 0; i < len(nums); i++ {
		if !seen[(start+i)%65536] {
			ctx.Fail("C15:gap", "numbers %v are not the %d consecutive values starting at %d", nums, len(nums), start)
			return
		}
	}
	// the two packets written after the other streams were unbound continue the run
	for k, g := range tail {
		e := g.hdr.GetExtension(uint8(ids[0]))
		want := (start + len(nums) + k) % 65536
		if len(e) != 2 || int(e[0])<<8|int(e[1]) != want {
			ctx.Fail("C15:run-restarted-after-unbind", "after the other streams were unbound the remaining stream's packet %d (SSRC %#x: its RTX / FEC SSRC) carries %x, the run continues with %d", k, g.hdr.SSRC, e, want)
			return
		}
	}
	// the order in which numbers reached the transport is schedule dependent: part of the outcome
	var order []int
	for _, g := range out {
		if id := ids[g.stream]; id != 0 {
			e := g.hdr.GetExtension(uint8(id))
			order = append(order, (int(e[0])<<8|int(e[1])-start+65536)%65536)
		} else {
			order = append(order, -1)
		}
	}
	ctx.Outcome("%v", order)
}

func headerEqual(a, b *rtp.Header) bool {
	ab, e1 := a.Marshal()
	bb, e2 := b.Marshal()
	return e1 == nil && e2 == nil && bytes.Equal(ab, bb)
}

// headerEqualModuloExt compares all fixed fields, CSRCs and the remaining extensions by id and payload.
func headerEqualModuloExt(a, b *rtp.Header) bool {
	if a.Version != b.Version || a.Padding != b.Padding || a.Marker != b.Marker || a.PayloadType != b.PayloadType ||
		a.SequenceNumber != b.SequenceNumber || a.Timestamp != b.Timestamp || a.SSRC != b.SSRC || len(a.CSRC) != len(b.CSRC) ||
		a.PaddingSize != b.PaddingSize {
		return false
	}
	for i := range a.CSRC {
		if a.CSRC[i] != b.CSRC[i] {
			return false
		}
	}
	ai, bi := a.GetExtensionIDs(), b.GetExtensionIDs()
	if len(ai) != len(bi) {
		return false
	}
	for _, id := range ai {
		if !bytes.Equal(a.GetExtension(id), b.GetExtension(id)) {
			return false
		}
	}
	// the profile may only change if the application passed none
	if b.Extension && a.ExtensionProfile != b.ExtensionProfile && len(bi) > 0 {
		return false
	}
	return true
}

func configs(tier string) []config {
	var out []config
	ids := []int{1, 5, 14}
	if tier == "thorough" {
		ids = []int{1, 2, 3, 4, 5, 6, 7, 8, 9, 10, 11, 12, 13, 14}
	}
	for _, id := range ids {
		for _, prof := range []string{"none", "one", "two"} {
			for _, ex := range []string{"none", "other", "same"} {
				if prof == "none" && ex != "none" {
					continue
				}
				c := config{ExtID: id, ExtID2: id%14 + 1, Profile: prof, Existing: ex, Writers: 3, PerW: 2, Bound: 12}
				out = append(out, c)
			}
		}
	}
	// the next writer of stream 0 fails once while the other writers run: the numbers seen at the transport
	// (the failing call included) are still unique and consecutive
	out = append(out, config{ExtID: 5, ExtID2: 3, Profile: "none", Existing: "none", Writers: 3, PerW: 2, Bound: 12, FailW0: true})
	// all interleavings of four writers (two on the same stream)
	out = append(out, config{ExtID: 5, ExtID2: 5, Profile: "one", Existing: "none", Writers: 4, PerW: 2, Bound: 4})
	// the 2^16 wrap: concurrent writers started after 65534 sequential writes, and one purely sequential run across the wrap
	out = append(out, config{ExtID: 3, ExtID2: 4, Profile: "none", Existing: "none", Prewrite: 65534, Writers: 3, PerW: 2, Bound: 1})
	out = append(out, config{ExtID: 3, ExtID2: 4, Profile: "one", Existing: "none", Prewrite: 65546, Writers: 1, PerW: 2, Bound: 0})
	if tier == "thorough" {
		out = append(out, config{ExtID: 3, ExtID2: 4, Profile: "two", Existing: "other", Prewrite: 65534, Writers: 3, PerW: 2, Bound: 3})
		out = append(out, config{ExtID: 2, ExtID2: 9, Profile: "one", Existing: "same", Writers: 3, PerW: 3, Bound: 20})
		out = append(out, config{ExtID: 5, ExtID2: 5, Profile: "one", Existing: "none", Writers: 4, PerW: 2, Bound: 20})
	}
	return out
}

func init() {
	hk.Register(&hk.Check{
		ID: "C15R",
		Rule: "E1 schedule exploration (stateless DFS, iterative preemption bounding, happens-before fingerprint pruning) of 3-4 concurrent writers x 2-3 packets on two negotiated streams and one non-negotiated stream of ONE HeaderExtensionInterceptor, per (extension id, header-extension profile, pre-existing extension) configuration, built with -race and the race detector read after every schedule; " +
			"every schedule is non-trivial (writers collide on the shared counter); distinct outcomes = distinct orders in which the assigned numbers reach the transport",
		Assumptions: []string{"vsched atomic/thread model and race annotations (litmus suite run first in the same binary)", "rtp.Header.GetExtension/DelExtension used to read headers at the transport"},
		Jobs: func(tier string) []string {
			var n []string
			for _, c := range configs(tier) {
				n = append(n, c.name())
			}
			return n
		},
		Run: func(tier string, i int, deadline time.Time) *hk.JobResult {
			r := &hk.JobResult{Exhaustive: true}
			scenario(configs(tier)[i]).Explore(deadline, r)
			return r
		},
		Replay: func(raw json.RawMessage) string {
			var rp hk.E1Replay
			if err := json.Unmarshal(raw, &rp); err != nil {
				return "bad replay"
			}
			var c config
			if err := json.Unmarshal([]byte(rp.Scenario), &c); err != nil {
				return "bad scenario"
			}
			return scenario(c).ReplaySchedule(rp.Schedule)
		},
		Bounds: func(tier string) map[string]any { return map[string]any{"configurations": len(configs(tier))} },
	})
}
