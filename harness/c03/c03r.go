package c03

import (
	"encoding/json"
	"fmt"
	"sort"
	"time"

	"github.com/pion/interceptor"
	"github.com/pion/interceptor/pkg/nack"
	"github.com/pion/interceptor/verifh/hk"
	"github.com/pion/interceptor/vsched"
	"github.com/pion/rtcp"
)

// C03R: "any interleaving of ticks with arrivals". A tick that overlaps the arrival of a packet which moves
// the window must request exactly what was missing before that arrival or exactly what is missing after it.

type rscen struct {
	Size  int `json:"size"`
	Jump  int `json:"jump"`
	Bound int `json:"deviation_bound"`
}

func (c rscen) name() string { b, _ := json.Marshal(c); return string(b) }

func rbody(c rscen, ctx *hk.Ctx) {
	f, err := nack.NewGeneratorInterceptor(nack.GeneratorSize(uint16(c.Size)), nack.GeneratorInterval(interval))
	if err != nil {
		ctx.Fail("C03:setup", "%v", err)
		return
	}
	i, err := f.NewInterceptor("")
	if err != nil {
		ctx.Fail("C03:setup", "%v", err)
		return
	}
	sink := &hk.RTCPSink{}
	i.BindRTCPWriter(sink)
	feed := &hk.FeedReader{}
	const ssrc = 0x1000
	rd := i.BindRemoteStream(&interceptor.StreamInfo{SSRC: ssrc, RTCPFeedback: hk.NackFB}, feed)
	buf := make([]byte, 1500)
	recv := map[uint16]bool{}
	read := func(q uint16) {
		feed.Next = hk.RawRTP(96, q, uint32(q)*3000, ssrc, []byte{1})
		_, _, _ = rd.Read(buf, interceptor.Attributes{})
	}
	// every second number of 65500..65530 arrives (the others are missing), across no tick
	first, last := uint16(65500), uint16(65530)
	for q := first; q <= last; q += 2 {
		read(q)
		recv[q] = true
	}
	vsched.Quiesce()
	vsched.SetupDone()
	missing := func(high uint16) []uint16 {
		var out []uint16
		for d := c.Size - 1; d >= 1; d-- {
			q := high - uint16(d)
			if int16(q-first) > 0 && !recv[q] {
				out = append(out, q)
			}
		}
		return out
	}
	before := missing(last)
	jumped := last + uint16(c.Jump)
	th := vsched.GoApp("arrival", func() { read(jumped) })
	vsched.Advance(interval) // the tick fires; generator loop and arrival interleave
	th.Join()
	vsched.Quiesce()
	_ = i.Close()
	vsched.AcquireFinished()
	recv[jumped] = true
	after := missing(jumped)
	var got []uint16
	batches := 0
	for _, p := range sink.Take() {
		if n, ok := p.(*rtcp.TransportLayerNack); ok && n.MediaSSRC == ssrc {
			got = append(got, hk.ExpandNack(n)...)
			batches++
		}
	}
	key := func(l []uint16) string {
		s := append([]uint16(nil), l...)
		sort.Slice(s, func(a, b int) bool { return s[a] < s[b] })
		return fmt.Sprint(s)
	}
	switch key(got) {
	case key(before):
		ctx.Outcome("before(%d)", len(before))
	case key(after):
		ctx.Outcome("after(%d)", len(after))
	default:
		ctx.Fail("C03:concurrent:tick-not-atomic-with-arrival", "a tick overlapped the arrival of %d (window %d): it requested %d numbers %v - neither the %d missing before the arrival %v nor the %d missing after it %v",
			jumped, c.Size, len(got), key(got), len(before), key(before), len(after), key(after))
	}
	_ = batches
}

func rscenarios(tier string) []rscen {
	b := 3
	if tier == "thorough" {
		b = 4
	}
	return []rscen{{64, 40, b}, {64, 70, b}, {128, 100, b}}
}

func rscenario(c rscen) *hk.Scenario {
	return &hk.Scenario{ID: "C03", Name: c.name(), MaxBound: c.Bound, MaxSteps: 400000, Body: func(ctx *hk.Ctx) { rbody(c, ctx) }}
}

func init() {
	hk.Register(&hk.Check{
		ID: "C03R",
		Rule: "E1 schedule exploration (-race): a stream with every second number missing; the arrival of a packet that moves the window (by 40, 70 or 100 numbers) runs concurrently with the reporting tick; " +
			"on every schedule the numbers requested by that tick are exactly those missing before the arrival or exactly those missing after it (the sequence numbers wrap inside the scenario)",
		Assumptions: []string{"vsched model and race annotations (litmus suite)"},
		Jobs: func(tier string) []string {
			var n []string
			for _, c := range rscenarios(tier) {
				n = append(n, c.name())
			}
			return n
		},
		Run: func(tier string, i int, deadline time.Time) *hk.JobResult {
			r := &hk.JobResult{Exhaustive: true}
			rscenario(rscenarios(tier)[i]).Explore(deadline, r)
			return r
		},
		Replay: func(raw json.RawMessage) string {
			var rp hk.E1Replay
			if err := json.Unmarshal(raw, &rp); err != nil {
				return "bad replay"
			}
			var c rscen
			if err := json.Unmarshal([]byte(rp.Scenario), &c); err != nil {
				return "bad scenario"
			}
			return rscenario(c).ReplaySchedule(rp.Schedule)
		},
		Bounds: func(tier string) map[string]any { return map[string]any{"scenarios": len(rscenarios(tier))} },
	})
}
