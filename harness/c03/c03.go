// Package c03 decides property C03 (NACK generator requests exactly the
// packets that are missing) by explicit-state search over arrival/tick
// histories driven through the public interceptor API under the virtual clock.
package c03

import (
	"encoding/json"
	"fmt"
	"sort"
	"time"

	"github.com/pion/interceptor"
	"github.com/pion/interceptor/pkg/nack"
	"github.com/pion/interceptor/verifh/hk"
	"github.com/pion/interceptor/vsched"
	"github.com/pion/rtcp"
)

// config is one point of the configuration space.
type config struct {
	Size      int    `json:"size"`
	Skip      int    `json:"skip_last_n"`
	Max       int    `json:"max_nacks"`
	Start     uint16 `json:"start"`
	Depth     int    `json:"depth"`
	Two       bool   `json:"two_ssrcs"`
	Long      int    `json:"long_stall_ticks,omitempty"`
	SkipFirst bool   `json:"skip_option_before_size_option,omitempty"`
	MaxFirst  bool   `json:"limit_option_before_size_option,omitempty"`
	Rebind    bool   `json:"unbind_then_bind_another_stream,omitempty"` // scripted: see rebindScript
	Syms      []int  `json:"symbols,omitempty"`                         // restricted alphabet (nil = all that stay within 2^15-1 of the highest)
	First     int    `json:"first_symbol"`                              // shard: histories that start with this symbol (-1: not sharded)
}

// allowed lists the symbols whose offset keeps the arrival within 2^15-1 of
// the highest number received, which is the range the property quantifies over.
func (c config) allowed() []int {
	var out []int
	cand := c.Syms
	if cand == nil {
		cand = make([]int, len(symNames))
		for i := range cand {
			cand[i] = i
		}
	}
	for _, a := range cand {
		if off, ok := c.offset(a); ok && (off > 0x7FFF || off < -0x7FFF) {
			continue
		}
		if a >= 17 && a <= 19 && c.Skip < 5 {
			continue // steps relative to skipLastN coincide with +1..+3 for small values
		}
		if a == symTickFail && c.Syms == nil && !c.Two {
			continue // the failing tick is part of the restricted alphabets and of the two-stream configuration
		}
		out = append(out, a)
	}
	return out
}

const interval = 100 * time.Millisecond

// symbol names; offsets are relative to the highest true number received (H) and the window S.
var symNames = []string{"+1", "+2", "+3", "+S-1", "+S", "+S+1", "+2S", "+0x7FFF", "dup", "-1", "-2", "-(S-1)", "-S", "-(S+1)", "-2S", "fill", "T", "+K-1", "+K", "+K+1", "Tfail"} // K = skipLastN; Tfail = a tick during which the RTCP writer refuses every write

const symTick = 16
const symTickFail = 20

func (c config) offset(sym int) (int64, bool) {
	s := int64(c.Size)
	switch sym {
	case 0:
		return 1, true
	case 1:
		return 2, true
	case 2:
		return 3, true
	case 3:
		return s - 1, true
	case 4:
		return s, true
	case 5:
		return s + 1, true
	case 6:
		return 2 * s, true
	case 7:
		return 0x7FFF, true
	case 8:
		return 0, true
	case 9:
		return -1, true
	case 10:
		return -2, true
	case 11:
		return -(s - 1), true
	case 12:
		return -s, true
	case 13:
		return -(s + 1), true
	case 14:
		return -2 * s, true
	case 17, 18, 19:
		return int64(c.Skip) + int64(sym) - 18, true
	}
	return 0, false
}

// model is the reference: true (unwrapped) numbers, nothing modulo anything.
type model struct {
	started  bool
	first, h int64
	recv     map[int64]bool
	count    map[int64]int
}

func newModel() *model { return &model{recv: map[int64]bool{}, count: map[int64]int{}} }

func (m *model) arrive(v int64) {
	if !m.started {
		m.started, m.first, m.h = true, v, v
	}
	m.recv[v] = true
	if v > m.h {
		m.h = v
	}
}

func (m *model) missing(c config) []int64 {
	if !m.started {
		return nil
	}
	var out []int64
	lo := m.h - int64(c.Size) + 1
	if lo <= m.first {
		lo = m.first + 1
	}
	for s := lo; s <= m.h-int64(c.Skip); s++ {
		if !m.recv[s] {
			out = append(out, s)
		}
	}
	return out
}

// expected returns the set to be requested at a tick and updates the per-number counters.
func (m *model) expected(c config) []int64 {
	miss := m.missing(c)
	if c.Max == 0 {
		return miss
	}
	in := map[int64]bool{}
	var out []int64
	for _, s := range miss {
		in[s] = true
		if m.count[s] < c.Max {
			out = append(out, s)
		}
		m.count[s]++
	}
	for s := range m.count {
		if !in[s] {
			delete(m.count, s)
		}
	}
	return out
}

func (m *model) hash() uint64 {
	var vs []int64
	for v := range m.recv {
		// only numbers that can still matter: inside the largest window ever relevant
		if v > m.h-2*0x8000 {
			vs = append(vs, v)
		}
	}
	sort.Slice(vs, func(i, j int) bool { return vs[i] < vs[j] })
	cs := make([]int64, 0, 2*len(m.count))
	var ck []int64
	for k := range m.count {
		ck = append(ck, k)
	}
	sort.Slice(ck, func(i, j int) bool { return ck[i] < ck[j] })
	for _, k := range ck {
		cs = append(cs, k, int64(m.count[k]))
	}
	return hk.HashInts(append(append([]int64{m.first, m.h, int64(len(vs))}, vs...), cs...)...)
}

type stream struct {
	ssrc uint32
	feed *hk.FeedReader
	rd   interceptor.RTPReader
	m    *model
	base int64
}

type system struct {
	cfg   config
	icpt  interceptor.Interceptor
	sink  *hk.RTCPSink
	st    []*stream
	plain *stream // stream that did not negotiate NACK: nothing may ever be requested for it
	buf   []byte
	// lastTickFailed: the most recent tick met a failing writer. Part of the state key: what the loop goroutine
	// keeps in its own variables between ticks is not reachable from the interceptor value
	lastTickFailed bool
}

func newSystem(c config) (*system, error) {
	opts := []nack.GeneratorOption{nack.GeneratorSize(uint16(c.Size)), nack.GeneratorSkipLastN(uint16(c.Skip)),
		nack.GeneratorInterval(interval)}
	if c.Max > 0 {
		opts = append(opts, nack.GeneratorMaxNacksPerPacket(uint16(c.Max)))
	}
	if c.Size == 32768 {
		// GeneratorSize takes a uint16: 32768 fits
		opts[0] = nack.GeneratorSize(32768)
	}
	if c.SkipFirst {
		opts[0], opts[1] = opts[1], opts[0] // options are documented as independent: their order must not matter
	}
	if c.MaxFirst && c.Max > 0 {
		opts = append([]nack.GeneratorOption{opts[len(opts)-1]}, opts[:len(opts)-1]...)
	}
	f, err := nack.NewGeneratorInterceptor(opts...)
	if err != nil {
		return nil, err
	}
	i, err := f.NewInterceptor("")
	if err != nil {
		return nil, err
	}
	s := &system{cfg: c, icpt: i, sink: &hk.RTCPSink{}, buf: make([]byte, 1500)}
	i.BindRTCPWriter(s.sink)
	n := 1
	if c.Two {
		n = 2
	}
	for k := 0; k < n; k++ {
		st := &stream{ssrc: uint32(0x1000 + k), feed: &hk.FeedReader{}, m: newModel(), base: 1<<20 + int64(c.Start)}
		if k == 1 {
			st.base = 1<<20 + int64(c.Start+0x4000) // a different phase on the second stream
		}
		fb := hk.NackFB
		if c.Start >= 65000 {
			// the same negotiation written in another order, among other feedback types (configurations that start at 65000 or above)
			fb = []interceptor.RTCPFeedback{{Type: "goog-remb"}, {Type: "ccm", Parameter: "fir"}, {Type: "nack", Parameter: "pli"}, {Type: "nack"}, {Type: "transport-cc"}}
		}
		st.rd = i.BindRemoteStream(&interceptor.StreamInfo{SSRC: st.ssrc, RTCPFeedback: fb}, st.feed)
		s.st = append(s.st, st)
	}
	s.plain = &stream{ssrc: 0x2000, feed: &hk.FeedReader{}, m: newModel()}
	// it negotiated picture loss indication ("nack pli") but not generic NACK
	s.plain.rd = i.BindRemoteStream(&interceptor.StreamInfo{SSRC: s.plain.ssrc, RTCPFeedback: []interceptor.RTCPFeedback{{Type: "nack", Parameter: "pli"}, {Type: "ccm", Parameter: "fir"}}}, s.plain.feed)
	// the non-NACK stream has a gap from the start
	for _, q := range []uint16{5, 9} {
		s.plain.feed.Next = hk.RawRTP(96, q, 0, s.plain.ssrc, nil)
		if _, _, err := s.plain.rd.Read(s.buf, interceptor.Attributes{}); err != nil {
			return nil, err
		}
	}
	return s, nil
}

func (s *system) arrive(st *stream, v int64) error {
	st.feed.Next = hk.RawRTP(96, uint16(v), uint32(v*3000), st.ssrc, []byte{1, 2, 3})
	if v%4 == 3 {
		// a padding-only packet (a bandwidth probe on the media SSRC): padding bit set, the three octets after
		// the header are padding with the count in the last one. It was received like any other packet.
		st.feed.Next = hk.RawRTP(96, uint16(v), uint32(v*3000), st.ssrc, []byte{0, 0, 3})
		st.feed.Next[0] |= 0x20
	}
	n, _, err := st.rd.Read(s.buf, interceptor.Attributes{})
	if err != nil {
		return err
	}
	if n != len(st.feed.Next) {
		return fmt.Errorf("read returned %d bytes, transport gave %d", n, len(st.feed.Next))
	}
	st.m.arrive(v)
	return nil
}

// apply performs one symbol on stream k; it returns a description and, for a tick, the comparison result.
func (s *system) apply(k, sym int) (string, error) {
	c := s.cfg
	st := s.st[k]
	if sym == symTick {
		s.lastTickFailed = false
		vsched.Advance(interval)
		return s.checkTick()
	}
	if sym == symTickFail {
		// the transport refuses every write of this tick: what was offered is judged like what is written in
		// any other tick (every stream's request is still attempted, and a refused request counts as a request),
		// and nothing of it may come back in a later tick
		s.lastTickFailed = true
		s.sink.Err = hk.ErrInjected
		vsched.Advance(interval)
		s.sink.Err = nil
		if got := s.sink.Take(); len(got) > 0 {
			return "", fmt.Errorf("RTCP recorded as written while the writer was failing: %v", got)
		}
		s.sink.Pkts, s.sink.Refused = s.sink.Refused, nil
		d, err := s.checkTick()
		return "f" + d, err
	}
	var v int64
	if sym == 15 { // fill: lowest missing number in the window, else a duplicate of H
		miss := st.m.missing(config{Size: c.Size})
		switch {
		case len(miss) > 0:
			v = miss[0]
		case st.m.started:
			v = st.m.h
		default:
			v = st.base
		}
	} else {
		off, _ := c.offset(sym)
		if st.m.started {
			v = st.m.h + off
		} else {
			v = st.base + off
		}
	}
	if err := s.arrive(st, v); err != nil {
		return "", err
	}
	vsched.Quiesce()
	if got := s.sink.Take(); len(got) > 0 {
		return "", fmt.Errorf("RTCP written outside a tick: %v", got)
	}
	return "a", nil
}

func toU16(vs []int64) []uint16 {
	out := make([]uint16, len(vs))
	for i, v := range vs {
		out[i] = uint16(v)
	}
	sort.Slice(out, func(i, j int) bool { return out[i] < out[j] })
	return out
}

// checkTick compares what reached the RTCP writer during this tick with the reference.
func (s *system) checkTick() (string, error) {
	got := map[uint32][]uint16{}
	for _, p := range s.sink.Take() {
		n, ok := p.(*rtcp.TransportLayerNack)
		if !ok {
			return "", fmt.Errorf("unexpected RTCP packet %T", p)
		}
		if _, dup := got[n.MediaSSRC]; dup {
			return "", fmt.Errorf("two NACK packets for SSRC %#x in one tick", n.MediaSSRC)
		}
		l := hk.ExpandNack(n)
		sort.Slice(l, func(i, j int) bool { return l[i] < l[j] })
		for i := 1; i < len(l); i++ {
			if l[i] == l[i-1] {
				return "", fmt.Errorf("sequence number %d requested twice in one NACK", l[i])
			}
		}
		got[n.MediaSSRC] = l
	}
	desc := ""
	for _, st := range s.st {
		want := toU16(st.m.expected(s.cfg))
		g := got[st.ssrc]
		delete(got, st.ssrc)
		if fmt.Sprint(g) != fmt.Sprint(want) {
			return "", &mismatch{ssrc: st.ssrc, got: g, want: want, m: st.m, cfg: s.cfg}
		}
		if _, present := got[st.ssrc]; len(want) == 0 && present {
			return "", fmt.Errorf("empty NACK written for SSRC %#x", st.ssrc)
		}
		desc += fmt.Sprintf("%d;", len(want))
	}
	for ssrc := range got {
		return "", fmt.Errorf("NACK for SSRC %#x which did not negotiate NACK or is not bound", ssrc)
	}
	return "t" + desc, nil
}

type mismatch struct {
	ssrc      uint32
	got, want []uint16
	m         *model
	cfg       config
}

func (e *mismatch) Error() string {
	return fmt.Sprintf("NACK for SSRC %#x: requested %v, reference %v (first=%d highest=%d window=%d skip=%d max=%d)",
		e.ssrc, clip(e.got), clip(e.want), uint16(e.m.first), uint16(e.m.h), e.cfg.Size, e.cfg.Skip, e.cfg.Max)
}

func clip(l []uint16) string {
	if len(l) <= 12 {
		return fmt.Sprint(l)
	}
	return fmt.Sprintf("%v…(%d numbers)", l[:12], len(l))
}

// classify assigns a failure class used to match known findings.
func classify(err error) string {
	m, ok := err.(*mismatch)
	if !ok {
		return "C03:other"
	}
	gs := map[uint16]bool{}
	for _, g := range m.got {
		gs[g] = true
	}
	ws := map[uint16]bool{}
	for _, w := range m.want {
		ws[w] = true
	}
	missing, extra := 0, 0
	for w := range ws {
		if !gs[w] {
			missing++
		}
	}
	for g := range gs {
		if !ws[g] {
			extra++
		}
	}
	switch {
	case missing > 0 && extra == 0 && len(m.got) == 0:
		return "C03:nothing-requested-although-missing"
	case missing > 0 && extra == 0:
		return "C03:missing-number-not-requested"
	case extra > 0 && missing == 0:
		return "C03:received-or-out-of-window-number-requested"
	}
	return "C03:requested-set-differs"
}

type replay struct {
	Config  config   `json:"config"`
	History []string `json:"history"`
	Syms    []int    `json:"syms"`
}

// exec runs one history on a fresh interceptor.
func exec(c config, hist []int) hk.Step {
	var step hk.Step
	res := vsched.Run(vsched.Options{Strategy: vsched.BackgroundFirst{}, MaxSteps: 2_000_000}, func() {
		s, err := newSystem(c)
		if err != nil {
			vsched.Failf("setup: %v", err)
			return
		}
		nsym := len(symNames)
		for i, a := range hist {
			k, sym := 0, a
			if c.Two {
				k, sym = a/nsym, a%nsym
			}
			out, err := s.apply(k, sym)
			if err != nil {
				if i == len(hist)-1 {
					step.Violation = &hk.Violation{Key: classify(err), Message: err.Error(), Replay: describe(c, hist)}
				} else {
					// the prefix already failed when it was explored as a history of its own
					step.Dead = true
				}
				break
			}
			if i == len(hist)-1 {
				step.Outcome = out
				step.Nontrivial = (sym == symTick || sym == symTickFail) && out != "t0;" && out != "t0;0;" && out != "ft0;" && out != "ft0;0;"
			}
		}
		if step.Violation == nil && !step.Dead {
			key := hk.DeepHash(s.icpt) ^ hk.EnvHash()
			if s.lastTickFailed {
				key = ^key
			}
			for _, st := range s.st {
				key = key*31 + st.m.hash()
			}
			step.Key = key
		}
		s.icpt.Close()
	})
	if step.Violation == nil {
		if msg := runFailure(res); msg != "" {
			step.Violation = &hk.Violation{Key: "C03:runtime", Message: msg, Replay: describe(c, hist)}
		}
	}
	return step
}

func runFailure(res *vsched.Result) string {
	switch {
	case len(res.Panics) > 0:
		return "panic: " + res.Panics[0].Value + "\n" + res.Panics[0].Stack
	case res.Deadlock:
		return fmt.Sprintf("deadlock: %+v", res.Blocked)
	case res.StepLimit:
		return "step budget exceeded (loops forever?): " + res.StepWhere
	case len(res.Failures) > 0:
		return res.Failures[0]
	case len(res.Blocked) > 0:
		return fmt.Sprintf("goroutines still alive after Close: %+v", res.Blocked)
	}
	return ""
}

func describe(c config, hist []int) replay {
	r := replay{Config: c, Syms: hist}
	for _, a := range hist {
		if c.Two {
			r.History = append(r.History, fmt.Sprintf("s%d:%s", a/len(symNames), symNames[a%len(symNames)]))
		} else {
			r.History = append(r.History, symNames[a])
		}
	}
	return r
}

func configs(tier string) []config {
	var out []config
	starts := []uint16{0, 65530, 32760}
	for _, skip := range []int{0, 1, 2} {
		for _, max := range []int{0, 1, 2} {
			for _, st := range starts {
				d := 4
				if tier == "thorough" {
					d = 5
				}
				if skip == 0 && max == 0 && tier == "thorough" {
					d++
				}
				out = append(out, config{Size: 64, Skip: skip, Max: max, Start: st, Depth: d})
			}
		}
	}
	// long histories over a small alphabet: what the per-number limit does over many ticks, staggered losses
	deep := 7
	if tier == "thorough" {
		deep = 8
	}
	for _, max := range []int{0, 1, 2} {
		for _, skip := range []int{0, 1} {
			out = append(out, config{Size: 64, Skip: skip, Max: max, Start: 65530, Depth: deep, Syms: []int{0, 1, 8, 9, 15, 16, symTickFail}})
		}
	}
	// a large skipLastN (beyond the default window of 512) with a larger window, options given in both orders;
	// steps that put a loss just inside / outside the skipped tail
	for _, sf := range []bool{false, true} {
		out = append(out, config{Size: 1024, Skip: 600, Max: 0, Start: 65000, Depth: deep - 2, SkipFirst: sf, Syms: []int{0, 1, 17, 18, 19, 9, 15, 16}})
	}
	// the per-packet limit given before the size option, a window of 1024 and jumps that leave more than 512 numbers missing
	out = append(out, config{Size: 1024, Skip: 0, Max: 2, Start: 65000, Depth: 4, MaxFirst: true, Syms: []int{0, 1, 3, 4, 5, 9, 15, 16}})
	// a stream with an open gap is unbound, another NACK stream is bound and stays silent over two ticks
	out = append(out, config{Size: 64, Skip: 0, Max: 0, Start: 65530, Rebind: true})
	// two SSRCs on one interceptor (product alphabet): independence
	out = append(out, config{Size: 64, Skip: 0, Max: 1, Start: 65530, Depth: 3, Two: true})
	if tier == "thorough" {
		for _, size := range []int{128, 1024, 8192} {
			for _, st := range starts[:2] {
				out = append(out, config{Size: size, Skip: 1, Max: 2, Start: st, Depth: 4})
			}
		}
		for _, st := range starts[:2] {
			out = append(out, config{Size: 32768, Skip: 1, Max: 2, Start: st, Depth: 5, Syms: []int{0, 1, 3, 8, 9, 11, 15, 16}})
		}
		out = append(out, config{Size: 64, Skip: 0, Max: 1, Start: 65530, Long: 65540})
	} else {
		out = append(out, config{Size: 32768, Skip: 0, Max: 0, Start: 65530, Depth: 4, Syms: []int{0, 1, 3, 8, 9, 11, 15, 16}})
		out = append(out, config{Size: 128, Skip: 1, Max: 1, Start: 0, Depth: 3})
	}
	return out
}

// shardedConfigs splits every single-stream configuration by the first symbol of the history.
func shardedConfigs(tier string) []config {
	var out []config
	for _, c := range configs(tier) {
		if c.Long > 0 || c.Rebind || c.Two || c.Syms == nil || c.Size > 64 {
			// state de-duplication across first symbols is what keeps the full alphabet cheap: not sharded
			c.First = -1
			out = append(out, c)
			continue
		}
		for _, a := range c.allowed() {
			c.First = a
			out = append(out, c)
		}
	}
	return out
}

func jobs(tier string) []string {
	var names []string
	for _, c := range shardedConfigs(tier) {
		b, _ := json.Marshal(c)
		names = append(names, string(b))
	}
	return names
}

func run(tier string, i int, deadline time.Time) *hk.JobResult {
	c := shardedConfigs(tier)[i]
	r := &hk.JobResult{Exhaustive: true, Bounds: map[string]any{"depth": c.Depth, "alphabet": len(symNames)}}
	if c.Long > 0 {
		return longStall(c, r)
	}
	if c.Rebind {
		return rebindScript(c, r)
	}
	alpha := len(symNames)
	if c.Two {
		alpha *= 2
	}
	al := c.allowed()
	if c.Two {
		n := len(al)
		for i := 0; i < n; i++ {
			al = append(al, al[i]+len(symNames))
		}
	}
	r.Bounds["symbols_used"] = len(al)
	s := &hk.Search{Alphabet: alpha, Depth: c.Depth, Dedup: true, Deadline: deadline,
		Allowed:  func([]int) []int { return al },
		Exec:     func(h []int) hk.Step { return exec(c, h) },
		Describe: func(h []int) any { return describe(c, h) }}
	st := s.Run()
	st.Fill(r)
	return r
}

// longStall keeps one number missing for more ticks than a 16-bit counter can
// count, with a limit of one request per number.
func longStall(c config, r *hk.JobResult) *hk.JobResult {
	var viol *hk.Violation
	res := vsched.Run(vsched.Options{Strategy: vsched.BackgroundFirst{}, MaxSteps: 50_000_000}, func() {
		s, err := newSystem(c)
		if err != nil {
			vsched.Failf("setup: %v", err)
			return
		}
		st := s.st[0]
		_ = s.arrive(st, st.base)
		_ = s.arrive(st, st.base+2)
		for t := 0; t < c.Long; t++ {
			if _, err := s.apply(0, symTick); err != nil {
				viol = &hk.Violation{Key: "C03:limit-exceeded-after-long-stall", Message: fmt.Sprintf("tick %d: %v", t+1, err),
					Replay: replay{Config: c, History: []string{"arrive 0", "arrive +2", fmt.Sprintf("%d ticks", t+1)}}}
				break
			}
			r.Transitions++
		}
		s.icpt.Close()
	})
	r.Executions = 1
	r.States = r.Transitions
	r.Nontrivial = 1
	r.Samples = append(r.Samples, map[string]any{"config": c, "history": "arrive 0, arrive +2, 65540 ticks"})
	if viol == nil {
		if msg := runFailure(res); msg != "" {
			viol = &hk.Violation{Key: "C03:runtime", Message: msg, Replay: replay{Config: c}}
		}
	}
	if viol != nil {
		r.Violations = append(r.Violations, *viol)
	}
	return r
}

// rebindScript: a stream with an open gap is unbound and another stream that negotiated NACK is bound on the
// same interceptor. Until the new stream has received its first packet nothing is requested for it ("only
// numbers after the first packet ever received", "streams are independent"); afterwards exactly its own gaps.
func rebindScript(c config, r *hk.JobResult) *hk.JobResult {
	var viol *hk.Violation
	hist := []string{"A: arrive 0, +2", "tick", "unbind A", "bind B", "tick", "tick", "B: arrive 0, +2", "tick"}
	fail := func(step int, format string, a ...any) {
		if viol == nil {
			viol = &hk.Violation{Key: "C03:request-for-stream-that-has-not-received-anything", Message: fmt.Sprintf("step %d (%s): ", step+1, hist[step]) + fmt.Sprintf(format, a...),
				Replay: replay{Config: c, History: hist[:step+1]}}
		}
	}
	res := vsched.Run(vsched.Options{Strategy: vsched.BackgroundFirst{}, MaxSteps: 2_000_000}, func() {
		s, err := newSystem(c)
		if err != nil {
			vsched.Failf("setup: %v", err)
			return
		}
		a := s.st[0]
		_ = s.arrive(a, a.base)
		_ = s.arrive(a, a.base+2)
		if _, err := s.apply(0, symTick); err != nil {
			fail(1, "%v", err)
		}
		s.icpt.UnbindRemoteStream(&interceptor.StreamInfo{SSRC: a.ssrc, RTCPFeedback: hk.NackFB})
		b := &stream{ssrc: 0x1777, feed: &hk.FeedReader{}, m: newModel(), base: 1<<20 + 40000}
		b.rd = s.icpt.BindRemoteStream(&interceptor.StreamInfo{SSRC: b.ssrc, RTCPFeedback: hk.NackFB}, b.feed)
		s.st = []*stream{b}
		for k := 0; k < 2; k++ {
			vsched.Advance(interval)
			if got := s.sink.Take(); len(got) > 0 {
				fail(4+k, "RTCP written although the only bound stream has not received a packet yet: %v", got)
			}
			r.Transitions++
		}
		_ = s.arrive(b, b.base)
		_ = s.arrive(b, b.base+2)
		if _, err := s.apply(0, symTick); err != nil {
			fail(7, "%v", err)
		}
		r.Transitions += 6
		s.icpt.Close()
	})
	r.Executions, r.States, r.Nontrivial = 1, r.Transitions, 1
	r.Outcomes = map[string]int{"rebind-script": 1}
	if viol == nil {
		if msg := runFailure(res); msg != "" {
			viol = &hk.Violation{Key: "C03:runtime", Message: msg, Replay: replay{Config: c}}
		}
	}
	if viol != nil {
		r.Violations = append(r.Violations, *viol)
	}
	return r
}

func replayFn(raw json.RawMessage) string {
	var rp replay
	if err := json.Unmarshal(raw, &rp); err != nil {
		return "bad replay: " + err.Error()
	}
	if rp.Config.Long > 0 {
		r := longStall(rp.Config, &hk.JobResult{})
		if len(r.Violations) > 0 {
			return r.Violations[0].Message
		}
		return ""
	}
	if rp.Config.Rebind {
		r := rebindScript(rp.Config, &hk.JobResult{})
		if len(r.Violations) > 0 {
			return r.Violations[0].Message
		}
		return ""
	}
	st := exec(rp.Config, rp.Syms)
	if st.Violation != nil {
		return st.Violation.Message
	}
	return ""
}

func init() {
	hk.Register(&hk.Check{
		ID: "C03",
		Rule: "E2 explicit-state search: all arrival/tick histories up to the depth over 17 symbols chosen from the branch conditions of the receive log " +
			"(relative to highest received H and window S: +1,+2,+3,+S-1,+S,+S+1,+2S,+0x7FFF,dup,-1,-2,-(S-1),-S,-(S+1),-2S,fill-lowest-missing,tick), " +
			"per (window, skipLastN, maxNacks, start sequence) configuration, driven through BindRemoteStream/BindRTCPWriter under the virtual clock; " +
			"a transition is non-trivial if it is a tick at which the reference requests at least one number; states are distinct by deep hash of interceptor + reference + clock",
		Assumptions: []string{"vsched channel/timer model (litmus suite)", "arrivals stay within 2^15-1 of the highest received (property quantifier)",
			"pion/rtcp NackPair fields are read directly; PID/BLP expansion is the harness's own"},
		Jobs:   jobs,
		Run:    run,
		Replay: replayFn,
		Bounds: func(tier string) map[string]any {
			return map[string]any{"configurations": len(configs(tier)), "shards": len(shardedConfigs(tier)), "alphabet": len(symNames), "tier": tier}
		},
	})
}
