// Package c02 decides property C02 (no untrusted packet can crash or wedge an
// interceptor) by bounded-exhaustive enumeration of structured input grammars
// (incoming RTP, incoming RTCP incl. internally inconsistent TWCC/CCFB, every
// one-byte deviation and truncation of well-formed packets, outgoing packets
// of extreme sizes) delivered through every reader/writer path of every
// interceptor and through the full chain.
package c02

import (
	"encoding/binary"
	"encoding/json"
	"fmt"
	"strings"
	"time"

	"github.com/pion/interceptor"
	"github.com/pion/interceptor/verifh/hk"
	"github.com/pion/interceptor/vsched"
	"github.com/pion/rtcp"
	"github.com/pion/rtp"
)

type job struct {
	Kind    string `json:"kind"`    // interceptor kind or "chain" (all of them)
	Path    string `json:"path"`    // rtp-in | rtcp-in | rtp-out
	Grammar string `json:"grammar"` // which part of the grammar
	Shard   int    `json:"shard"`
	Shards  int    `json:"shards"`
}

func (j job) name() string { b, _ := json.Marshal(j); return string(b) }

// input is one generated case.
type input struct {
	raw     []byte // incoming bytes (rtp-in, rtcp-in)
	hdr     *rtp.Header
	payload []byte
	desc    string
}

// ---- grammars -------------------------------------------------------------------------------

func rtpInGrammar(tier string, ssrc uint32, emit func(input)) {
	firsts := make([]int, 0, 256)
	for b := 0; b < 256; b++ {
		if tier != "thorough" && b>>6 != 2 {
			continue
		}
		firsts = append(firsts, b)
	}
	seconds := []byte{0x60, 0xE0, 0x00, 0x7F}
	lengths := []int{0, 1, 3, 4, 11, 12, 13, 16, 20, 28, 72, 76, 1500}
	profiles := []uint16{0xBEDE, 0x1000, 0x1234}
	extLens := []uint16{0, 1, 2, 0xFFFF}
	bodies := 7
	lasts := []int{0, 1, -1, 255} // -1: the packet length
	for _, b0 := range firsts {
		x := b0&0x10 != 0
		cc := b0 & 0x0f
		for _, b1 := range seconds {
			for _, L := range lengths {
				nprof, nlen, nbody := 1, 1, 1
				if x {
					nprof, nlen, nbody = len(profiles), len(extLens), bodies
				}
				for pi := 0; pi < nprof; pi++ {
					for li := 0; li < nlen; li++ {
						for bi := 0; bi < nbody; bi++ {
							for _, last := range lasts {
								if b0&0x20 == 0 && last != 0 {
									continue // the last byte only matters with the padding bit
								}
								full := make([]byte, 1500)
								for i := range full {
									full[i] = byte(i*13 + 7)
								}
								full[0], full[1] = byte(b0), b1
								binary.BigEndian.PutUint16(full[2:], 0x1234)
								binary.BigEndian.PutUint32(full[4:], 0x01020304)
								binary.BigEndian.PutUint32(full[8:], ssrc)
								off := 12 + 4*cc
								if x {
									binary.BigEndian.PutUint16(full[off:], profiles[pi])
									binary.BigEndian.PutUint16(full[off+2:], extLens[li])
									body := full[off+4 : off+4+16]
									switch bi {
									case 0:
										for i := range body {
											body[i] = 0
										}
									case 1:
										body[0], body[1] = hk.TwccExtID<<4|0, 0x11 // 1 byte
									case 2:
										body[0], body[1], body[2] = hk.TwccExtID<<4|1, 0x11, 0x22 // 2 bytes
									case 3:
										body[0], body[1], body[2], body[3] = hk.TwccExtID<<4|2, 1, 2, 3
									case 4:
										body[0] = 15 << 4
									case 5:
										body[0], body[1], body[2] = 0, 0, hk.TwccExtID<<4|1
									case 6:
										body[0] = hk.TwccExtID<<4 | 15 // element overrunning the block
										// two-byte profile form of the same
										body[4], body[5] = hk.TwccExtID, 200
									}
								}
								raw := full[:L:L]
								if L > 0 {
									switch last {
									case -1:
										raw[L-1] = byte(L)
									case 0:
									default:
										raw[L-1] = byte(last)
									}
								}
								emit(input{raw: raw, desc: fmt.Sprintf("rtp b0=%#02x b1=%#02x len=%d ext(profile %d,len %d,body %d) last=%d", b0, b1, L, pi, li, bi, last)})
							}
						}
					}
				}
			}
		}
	}
}

func twccChunks(count uint16) []uint16 {
	var out []uint16
	for sym := uint16(0); sym < 4; sym++ {
		for _, l := range []uint16{0, 1, count, count + 1, 0x1FFF} {
			out = append(out, sym<<13|l&0x1FFF)
		}
	}
	// one-bit vectors
	out = append(out, 0x8000, 0x8000|0x3FFF, 0x8000|0x2AAA)
	// two-bit vectors
	out = append(out, 0xC000, 0xC000|0x1555, 0xC000|0x2AAA, 0xC000|0x3FFF, 0xC000|0x1B1B)
	return out
}

// symbolsOf lists the symbols a chunk word encodes.
func symbolsOf(c uint16) []int {
	if c&0x8000 == 0 {
		n := int(c & 0x1FFF)
		s := int(c >> 13 & 3)
		out := make([]int, n)
		for i := range out {
			out[i] = s
		}
		return out
	}
	if c&0x4000 == 0 {
		out := make([]int, 14)
		for i := range out {
			out[i] = int(c >> uint(13-i) & 1)
		}
		return out
	}
	out := make([]int, 7)
	for i := range out {
		out[i] = int(c >> uint(12-2*i) & 3)
	}
	return out
}

func twccGrammar(tier string, media uint32, emit func(input)) {
	maxList := 2
	if tier == "thorough" {
		maxList = 3
	}
	for _, base := range []uint16{0, 65535} {
		for _, count := range []uint16{0, 1, 2, 7, 8, 14, 15} {
			chunks := twccChunks(count)
			var lists [][]uint16
			lists = append(lists, nil)
			for _, a := range chunks {
				lists = append(lists, []uint16{a})
			}
			if maxList >= 2 {
				for _, a := range chunks {
					for _, b := range chunks {
						lists = append(lists, []uint16{a, b})
					}
				}
			}
			if maxList >= 3 {
				for _, a := range chunks {
					for _, b := range chunks {
						for _, c := range chunks {
							lists = append(lists, []uint16{a, b, c})
						}
					}
				}
			}
			for _, l := range lists {
				// delta bytes for the symbols inside the status count
				need := 0
				seen := 0
				for _, c := range l {
					for _, s := range symbolsOf(c) {
						if seen >= int(count) {
							break
						}
						seen++
						switch s {
						case 1:
							need++
						case 2:
							need += 2
						}
					}
				}
				for tail := 0; tail < 4; tail++ {
					n := need
					switch tail {
					case 1:
						n = need - 1
					case 2:
						n = need + 2
					case 3:
						n = 0
					}
					if n < 0 {
						continue
					}
					deltas := make([]byte, n)
					for i := range deltas {
						deltas[i] = byte(4 + i)
					}
					raw := hk.BuildTWCC(0x99, media, base, count, 0x000102, 7, l, deltas)
					emit(input{raw: raw, desc: fmt.Sprintf("twcc base=%d count=%d chunks=%04x deltas=%d(need %d)", base, count, l, n, need)})
				}
			}
		}
	}
}

func ccfbGrammar(media uint32, emit func(input)) {
	block := func(ssrc uint32, begin, num uint16, atos []uint16) []byte {
		b := make([]byte, 8)
		binary.BigEndian.PutUint32(b, ssrc)
		binary.BigEndian.PutUint16(b[4:], begin)
		binary.BigEndian.PutUint16(b[6:], num)
		for _, a := range atos {
			b = append(b, byte(a>>8), byte(a))
		}
		if len(atos)%2 == 1 {
			b = append(b, 0, 0)
		}
		return b
	}
	wrap := func(body []byte) []byte {
		out := make([]byte, 8, 8+len(body)+4)
		out[0], out[1] = 0x80|11, 205
		binary.BigEndian.PutUint32(out[4:], 0x99)
		out = append(out, body...)
		out = append(out, 0, 1, 2, 3) // report timestamp
		for len(out)%4 != 0 {
			out = append(out, 0)
		}
		binary.BigEndian.PutUint16(out[2:], uint16(len(out)/4-1))
		return out
	}
	atoVals := []uint16{0x8000, 0x8001, 0x8000 | 0x1FFD, 0x8000 | 0x1FFE, 0x8000 | 0x1FFF, 0}
	for _, begin := range []uint16{0, 65535} {
		for _, num := range []uint16{0, 1, 2, 3, 16384, 65535} {
			for _, present := range []int{0, 1, 2, 3} {
				for _, ato := range atoVals {
					atos := make([]uint16, present)
					for i := range atos {
						atos[i] = ato
					}
					one := wrap(block(media, begin, num, atos))
					emit(input{raw: one, desc: fmt.Sprintf("ccfb begin=%d num=%d present=%d ato=%#x", begin, num, present, ato)})
					two := wrap(append(block(media, begin, num, atos), block(media, begin+1, uint16(present), atos)...))
					emit(input{raw: two, desc: fmt.Sprintf("ccfb 2 blocks begin=%d num=%d present=%d ato=%#x", begin, num, present, ato)})
					for cut := 8; cut < len(two); cut += 2 {
						t := append([]byte(nil), two[:cut]...)
						if cut%4 == 0 && cut >= 4 {
							binary.BigEndian.PutUint16(t[2:], uint16(cut/4-1))
						}
						emit(input{raw: t, desc: fmt.Sprintf("ccfb truncated to %d: begin=%d num=%d present=%d", cut, begin, num, present)})
					}
				}
			}
		}
	}
}

// wellFormedRTCP lists one well-formed representative of every RTCP packet type the library dispatches on.
func wellFormedRTCP(local, remote uint32) [][]byte {
	mm := func(p rtcp.Packet) []byte {
		b, err := p.Marshal()
		if err != nil {
			panic(err)
		}
		return b
	}
	return [][]byte{
		hk.RawSR(remote, 0xe000000000000000, 5),
		hk.RawRR(0x99, local, 1001, 0x12345678, 100),
		mm(&rtcp.ExtendedReport{SenderSSRC: remote, Reports: []rtcp.ReportBlock{&rtcp.DLRRReportBlock{Reports: []rtcp.DLRRReport{{SSRC: local, LastRR: 0x1234, DLRR: 5}}}}}),
		mm(&rtcp.ExtendedReport{SenderSSRC: remote, Reports: []rtcp.ReportBlock{&rtcp.ReceiverReferenceTimeReportBlock{NTPTimestamp: 0xe0000000_00000000}}}),
		hk.RawNACK(local, 1000, 1001),
		hk.RawPLI(local),
		mm(&rtcp.FullIntraRequest{SenderSSRC: 0x99, MediaSSRC: local, FIR: []rtcp.FIREntry{{SSRC: local, SequenceNumber: 1}}}),
		mm(&rtcp.ReceiverEstimatedMaximumBitrate{SenderSSRC: 0x99, Bitrate: 1e6, SSRCs: []uint32{local}}),
		mm(&rtcp.SourceDescription{Chunks: []rtcp.SourceDescriptionChunk{{Source: remote, Items: []rtcp.SourceDescriptionItem{{Type: rtcp.SDESCNAME, Text: "a@b"}}}}}),
		mm(&rtcp.Goodbye{Sources: []uint32{remote}}),
		hk.RawTWCC(local, 1000, 3, 1),
		hk.RawCCFB(local, 1000, 3, 9),
	}
}

func rtcpDeviationGrammar(local, remote uint32, emit func(input)) {
	reps := wellFormedRTCP(local, remote)
	for ri, r := range reps {
		emit(input{raw: r, desc: fmt.Sprintf("rtcp rep %d well-formed", ri)})
		for i := range r {
			for _, v := range []int{0x00, 0xFF, -1} {
				m := append([]byte(nil), r...)
				if v < 0 {
					m[i]++
				} else {
					if m[i] == byte(v) {
						continue
					}
					m[i] = byte(v)
				}
				emit(input{raw: m, desc: fmt.Sprintf("rtcp rep %d byte %d := %d", ri, i, v)})
			}
		}
		for cut := 0; cut < len(r); cut++ {
			emit(input{raw: append([]byte(nil), r[:cut]...), desc: fmt.Sprintf("rtcp rep %d truncated to %d", ri, cut)})
		}
	}
	for ai, a := range reps {
		for bi, b := range reps {
			emit(input{raw: append(append([]byte(nil), a...), b...), desc: fmt.Sprintf("rtcp compound %d+%d", ai, bi)})
		}
	}
}

// numbersGrammar: well-formed packets whose sequence number, transport-wide sequence number and RTP
// timestamp walk through every ordered pair of boundary values (the inputs of one job are fed to one
// instance in order, so each pair is a transition the instance sees): 0, 1, 2, 2^15-2 .. 2^15+1, 2^16-2,
// 2^16-1; timestamps 0, 2^31, 2^32-1 and a plain one.
func numbersGrammar(ssrc uint32, out bool, emit func(input)) {
	bounds := []uint16{0, 1, 2, 0x7FFE, 0x7FFF, 0x8000, 0x8001, 0xFFFE, 0xFFFF}
	stamps := []uint32{90000, 0, 1 << 31, 1<<32 - 1}
	k := 0
	for _, a := range bounds {
		for _, b := range bounds {
			for _, q := range []uint16{a, b} {
				k++
				h, p := hk.Shape(0, ssrc, q, stamps[k%len(stamps)])
				_ = h.SetExtension(hk.TwccExtID, []byte{byte(q >> 8), byte(q)})
				desc := fmt.Sprintf("well-formed packet seq=%d (pair %d -> %d) ts=%d", q, a, b, h.Timestamp)
				if out {
					hc := h
					emit(input{hdr: &hc, payload: p, desc: "rtp-out " + desc})
				} else {
					emit(input{raw: hk.MarshalRTP(h, p), desc: "rtp " + desc})
				}
			}
		}
	}
}

func rtpOutGrammar(ssrc uint32, emit func(input)) {
	for _, n := range []int{-1, 0, 1, 1459, 1460, 1461, 1500, 65535} {
		for shape := 0; shape < 6; shape++ {
			h, _ := hk.Shape(shape, ssrc, uint16(5000+shape), 1)
			_ = h.SetExtension(hk.TwccExtID, []byte{0, 1})
			var p []byte
			if n >= 0 {
				p = make([]byte, n)
				for i := range p {
					p[i] = byte(i)
				}
				if shape == 5 && n > 0 {
					p[n-1] = 200 // a padding count larger than the payload is possible with the legacy form
				}
			}
			hc := h
			emit(input{hdr: &hc, payload: p, desc: fmt.Sprintf("rtp-out shape=%d payload=%d", shape, n)})
		}
	}
	// packets whose SSRC is not the stream's own: its RTX and FEC siblings and a number nobody announced
	for _, other := range []uint32{ssrc + 0x100, ssrc + 0x200, 0xdeadbeef} {
		for _, n := range []int{0, 100, 1461} {
			h, _ := hk.Shape(0, other, 5100, 1)
			_ = h.SetExtension(hk.TwccExtID, []byte{0, 3})
			emit(input{hdr: &h, payload: make([]byte, n), desc: fmt.Sprintf("rtp-out ssrc=%#x payload=%d", other, n)})
		}
	}
	// the legacy padding form: padding bit, PaddingSize 0, count in the last payload byte
	for _, last := range []byte{0, 1, 4, 5, 255} {
		h := rtp.Header{Version: 2, PayloadType: 96, SequenceNumber: 6000, SSRC: ssrc, Padding: true}
		_ = h.SetExtension(hk.TwccExtID, []byte{0, 2})
		emit(input{hdr: &h, payload: []byte{1, 2, 3, last}, desc: fmt.Sprintf("rtp-out legacy padding last=%d", last)})
	}
}

// ---- execution --------------------------------------------------------------------------------

type target struct {
	s   *hk.Session
	x   *hk.Extra
	l1  *hk.Local
	r1  *hk.Remote
	seq uint16
	// closed: Close has been called (a probe afterwards only has to return)
	closed bool
}

func newTarget(kind string) (*target, error) {
	var i interceptor.Interceptor
	x := &hk.Extra{}
	if kind == "chain" {
		var members []interceptor.Interceptor
		for _, k := range hk.Kinds() {
			if k.Name == "jitterbuffer" || k.Name == "pacing" || k.Name == "cc-gcc-leaky-bucket" {
				continue // the chain of pass-through interceptors; buffering ones are targets of their own
			}
			m, _, err := k.New(0)
			if err != nil {
				return nil, err
			}
			members = append(members, m)
		}
		i = interceptor.NewChain(members)
	} else {
		var err error
		i, x, err = hk.KindByName(kind).New(0)
		if err != nil {
			return nil, err
		}
	}
	t := &target{s: hk.NewSession(i, x), x: x, seq: 100}
	t.s.BindAll()
	t.l1, t.r1 = t.s.Locals[1], t.s.Remotes[1]
	// prior history: ten packets sent with transport-cc, a few received
	for k := 0; k < 10; k++ {
		t.seq++
		h, p := hk.Shape(0, t.l1.Info.SSRC, 1000+uint16(k), uint32(k)*3000)
		_ = h.SetExtension(hk.TwccExtID, []byte{byte((1000 + k) >> 8), byte(1000 + k)})
		_, _ = t.l1.W.Write(&h, p, nil)
	}
	for k := 0; k < 3; k++ {
		h, p := hk.Shape(0, t.r1.Info.SSRC, 2000+uint16(2*k), uint32(k)*3000)
		_ = h.SetExtension(hk.TwccExtID, []byte{byte((2000 + k) >> 8), byte(2000 + k)})
		_, _, _ = t.r1.ReadRTP(hk.MarshalRTP(h, p))
	}
	vsched.Quiesce()
	return t, nil
}

// feed delivers one input; it returns a violation message for the "reports more bytes than it was given" rule.
func (t *target) feed(path string, in input) string {
	switch path {
	case "rtp-in":
		n, _, err := t.r1.ReadRTP(in.raw)
		if err == nil && n > len(t.r1.Buf) {
			return fmt.Sprintf("Read returned n=%d, the buffer holds %d bytes", n, len(t.r1.Buf))
		}
	case "rtcp-in":
		n, _, err := t.s.ReadRTCP(in.raw)
		if err == nil && n > len(t.s.RTCPBuf) {
			return fmt.Sprintf("Read returned n=%d, the buffer holds %d bytes", n, len(t.s.RTCPBuf))
		}
	case "rtp-out":
		h := in.hdr.Clone()
		_, _ = t.l1.W.Write(&h, in.payload, interceptor.Attributes{})
	}
	return ""
}

// probe: after the input, well-formed traffic must still be processed.
func (t *target) probe(kind, path string) string {
	t.seq++
	switch path {
	case "rtp-in", "rtcp-in":
		h, p := hk.Shape(0, t.r1.Info.SSRC, 3000+t.seq, 9)
		_ = h.SetExtension(hk.TwccExtID, []byte{byte(t.seq >> 8), byte(t.seq)})
		raw := hk.MarshalRTP(h, p)
		n, _, err := t.r1.ReadRTP(raw)
		if kind == "jitterbuffer" {
			return "" // the jitter buffer re-times packets: its Read result is C18's subject
		}
		if err != nil || n != len(raw) {
			return fmt.Sprintf("a well-formed packet read afterwards returned (n=%d, err=%v), want (%d, nil)", n, err, len(raw))
		}
		if path == "rtcp-in" {
			raw := hk.RawSR(t.r1.Info.SSRC, 0xe000000000000000, 3)
			n, _, err := t.s.ReadRTCP(raw)
			if err != nil || n != len(raw) {
				return fmt.Sprintf("a well-formed RTCP packet read afterwards returned (n=%d, err=%v), want (%d, nil)", n, err, len(raw))
			}
		}
	case "rtp-out":
		h, p := hk.Shape(0, t.l1.Info.SSRC, 7000+t.seq, 9)
		_ = h.SetExtension(hk.TwccExtID, []byte{byte(t.seq >> 8), byte(t.seq)})
		t.s.T.TakeRTP()
		if _, err := t.l1.W.Write(&h, p, nil); err != nil {
			return fmt.Sprintf("a well-formed packet written afterwards was refused: %v", err)
		}
		if t.closed {
			return ""
		}
		// ... and it must reach the transport (pacers: within the time that empties any backlog many times over)
		iv := hk.ReportInterval
		if t.x != nil && t.x.Interval > 0 {
			iv = t.x.Interval
		}
		for k := 0; ; k++ {
			vsched.Quiesce()
			for _, r := range t.s.T.TakeRTP() {
				if r.Header.SSRC == h.SSRC && r.Header.SequenceNumber == h.SequenceNumber {
					return ""
				}
			}
			if k == 40 {
				return fmt.Sprintf("a well-formed packet (SSRC %#x, sequence number %d) written afterwards was accepted but never reached the transport (%d intervals waited)", h.SSRC, h.SequenceNumber, 10*k)
			}
			vsched.StepBudget(3_000_000)
			vsched.Advance(10 * iv)
		}
	}
	return ""
}

type caps struct{ local, remote, rtcpR bool }

var kindCaps = map[string]caps{
	"nack-generator": {remote: true}, "nack-responder": {local: true, rtcpR: true}, "receiver-report": {remote: true, rtcpR: true},
	"sender-report": {local: true}, "twcc-sender": {remote: true}, "twcc-header-extension": {local: true}, "rfc8888": {remote: true},
	"rtpfb": {local: true, rtcpR: true}, "stats": {local: true, remote: true, rtcpR: true}, "packetdump-receiver": {remote: true, rtcpR: true},
	"packetdump-sender": {local: true}, "intervalpli": {remote: true}, "flexfec": {local: true}, "cc-gcc-noop-pacer": {local: true, rtcpR: true},
	"cc-gcc-leaky-bucket": {local: true, rtcpR: true}, "pacing": {local: true}, "jitterbuffer": {remote: true}, "chain": {local: true, remote: true, rtcpR: true},
}

func jobs(tier string) []job {
	var out []job
	kinds := []string{"chain"}
	for _, k := range hk.Kinds() {
		kinds = append(kinds, k.Name)
	}
	for _, k := range kinds {
		cp := kindCaps[k]
		if cp.remote {
			n := 2
			if tier == "thorough" {
				n = 8
			}
			for s := 0; s < n; s++ {
				out = append(out, job{k, "rtp-in", "rtp", s, n})
			}
		}
		if cp.rtcpR {
			n := 1
			if tier == "thorough" {
				n = 8
			}
			for s := 0; s < n; s++ {
				out = append(out, job{k, "rtcp-in", "twcc", s, n})
			}
			out = append(out, job{k, "rtcp-in", "ccfb", 0, 1}, job{k, "rtcp-in", "deviations", 0, 1})
		}
		if cp.remote {
			out = append(out, job{k, "rtp-in", "numbers", 0, 1})
		}
		if cp.local {
			out = append(out, job{k, "rtp-out", "sizes", 0, 1}, job{k, "rtp-out", "numbers-out", 0, 1})
		}
	}
	return out
}

func generate(tier string, j job, emit func(input)) {
	local, remote := hk.StreamInfo(true, 1, true).SSRC, hk.StreamInfo(false, 1, true).SSRC
	n := 0
	shard := func(in input) {
		if n%j.Shards == j.Shard {
			emit(in)
		}
		n++
	}
	switch j.Grammar {
	case "rtp":
		rtpInGrammar(tier, remote, shard)
	case "twcc":
		twccGrammar(tier, local, shard)
	case "ccfb":
		ccfbGrammar(local, shard)
	case "deviations":
		rtcpDeviationGrammar(local, remote, shard)
	case "sizes":
		rtpOutGrammar(local, shard)
	case "numbers":
		numbersGrammar(remote, false, shard)
	case "numbers-out":
		numbersGrammar(local, true, shard)
	}
}

type replay struct {
	Job     job    `json:"job"`
	Index   int    `json:"input_index"`
	Desc    string `json:"input"`
	Hex     string `json:"hex,omitempty"`
	Context int    `json:"inputs_fed_before_in_same_instance"`
}

// runRange feeds inputs[from:] through one fresh instance until something goes wrong; it returns the index
// of the offending input (or len(inputs)) and a violation.
func runRange(j job, inputs []input, from int) (int, *hk.Violation) {
	cur := from
	var msg, key string
	interval := hk.ReportInterval
	res := vsched.Run(vsched.Options{Strategy: vsched.BackgroundFirst{}, MaxSteps: 300_000_000}, func() {
		t, err := newTarget(j.Kind)
		if err != nil {
			vsched.Failf("setup: %v", err)
			return
		}
		if t.x != nil && t.x.Interval > 0 {
			interval = t.x.Interval
		}
		for ; cur < len(inputs); cur++ {
			vsched.StepBudget(3_000_000)
			if m := t.feed(j.Path, inputs[cur]); m != "" {
				msg, key = m, "reports-more-bytes-than-given"
				return
			}
			vsched.Quiesce()
			if j.Path == "rtp-out" {
				// pacers: everything queued so far is paced out before the next input
				vsched.StepBudget(30_000_000)
				for k := 0; k < 40; k++ {
					vsched.Advance(10 * interval)
				}
			} else if (cur-from)%8 == 7 {
				// timers: reports are built from what was recorded
				vsched.Advance(interval)
			}
			if (cur-from)%16 == 15 || j.Path == "rtp-out" {
				if m := t.probe(j.Kind, j.Path); m != "" {
					msg, key = m, "stops-working-after-input"
					return
				}
			}
		}
		vsched.StepBudget(30_000_000)
		vsched.Advance(2 * interval)
		if m := t.probe(j.Kind, j.Path); m != "" {
			msg, key = m, "stops-working-after-input"
			cur = len(inputs) - 1
			return
		}
		_ = t.s.I.Close()
		t.closed = true
		// the prior history of a packet may contain Close: a well-formed packet afterwards must not crash or
		// wedge the caller either (whether it is passed on or refused is C11's subject)
		vsched.StepBudget(3_000_000)
		_ = t.probe(j.Kind, j.Path)
	})
	at := cur
	if at >= len(inputs) {
		at = len(inputs) - 1
	}
	mk := func(key, msg string) *hk.Violation {
		in := inputs[at]
		rp := replay{Job: j, Index: at, Desc: in.desc, Context: at - from}
		if in.raw != nil && len(in.raw) <= 256 {
			rp.Hex = fmt.Sprintf("%x", in.raw)
		}
		return &hk.Violation{Key: "C02:" + j.Kind + ":" + j.Path + ":" + key, Message: fmt.Sprintf("%s via %s, input #%d (%s): %s", j.Kind, j.Path, at, in.desc, msg), Replay: rp}
	}
	switch {
	case len(res.Panics) > 0:
		p := res.Panics[0]
		return at, mk("panic:"+topFrame(p.Stack), "panic in goroutine "+p.Name+": "+p.Value+"\n"+p.Stack)
	case res.StepLimit:
		return at, mk("loops-forever:"+topFrame(res.StepWhere), "step budget exceeded (loops forever): "+res.StepWhere)
	case res.Deadlock:
		return at, mk("caller-blocked", fmt.Sprintf("the calling thread never returns: %+v", res.Blocked))
	case msg != "":
		if in := inputs[at]; key == "stops-working-after-input" && j.Kind == "pacing" && in.hdr != nil && 8*(in.hdr.MarshalSize()+len(in.payload)) >= pacingBucketBits {
			key += ":after-packet-larger-than-token-bucket"
		}
		return at, mk(key, msg)
	case len(res.Failures) > 0:
		return at, mk("harness", res.Failures[0])
	}
	return len(inputs), nil
}

// pacingBucketBits is the capacity of the pacing interceptor's token bucket as the catalog configures it
// (4 Mbit/s, 5 ms interval: max(8*1500, rate/200) bits).
const pacingBucketBits = 20000

func topFrame(stack string) string {
	for _, l := range strings.Split(stack, "\n") {
		l = strings.TrimSpace(l)
		if strings.HasPrefix(l, "github.com/pion/") && !strings.Contains(l, "/verifh/") {
			if i := strings.LastIndex(l, "("); i > 0 {
				l = l[:i]
			}
			return strings.TrimPrefix(l, "github.com/pion/interceptor/")
		}
	}
	return "?"
}

func run(tier string, i int, deadline time.Time) *hk.JobResult {
	j := jobs(tier)[i]
	r := &hk.JobResult{Exhaustive: true, Outcomes: map[string]int{}}
	var inputs []input
	generate(tier, j, func(in input) { inputs = append(inputs, in) })
	r.Bounds = map[string]any{"inputs": len(inputs)}
	keys := map[string]bool{}
	failures := 0
	from := 0
	for from < len(inputs) {
		if !deadline.IsZero() && time.Now().After(deadline) {
			r.Exhaustive = false
			r.Notes = append(r.Notes, fmt.Sprintf("deadline reached after %d of %d inputs", from, len(inputs)))
			break
		}
		at, v := runRange(j, inputs, from)
		r.Executions++
		if v == nil {
			from = len(inputs)
			break
		}
		failures++
		if failures > 60 {
			r.Exhaustive = false
			r.Notes = append(r.Notes, fmt.Sprintf("stopped after %d failing inputs (%d of %d inputs fed)", failures, at+1, len(inputs)))
			if !keys[v.Key] && len(keys) < 12 {
				keys[v.Key] = true
				r.Violations = append(r.Violations, *v)
			}
			break
		}
		// confirm on a fresh instance that this very input (not the accumulated history) is responsible
		if at > from && !keys[v.Key] {
			if at2, v2 := runRange(j, inputs[at:at+1], 0); v2 != nil && at2 == 0 {
				v = v2
				v.Replay = replayFor(j, inputs, at, 0)
			}
		}
		if !keys[v.Key] && len(keys) < 12 {
			keys[v.Key] = true
			r.Violations = append(r.Violations, *v)
		}
		r.Outcomes["VIOLATION:"+v.Key]++
		from = at + 1
	}
	r.States = int64(len(inputs))
	r.Transitions = int64(len(inputs))
	r.Nontrivial = int64(len(inputs))
	r.Outcomes["ok"] += len(inputs)
	if len(inputs) > 0 {
		mid := inputs[len(inputs)/2]
		r.Samples = append(r.Samples, map[string]any{"job": j, "input": mid.desc, "hex": fmt.Sprintf("%.80x", mid.raw)})
	}
	return r
}

func replayFor(j job, inputs []input, at, ctx int) replay {
	in := inputs[at]
	rp := replay{Job: j, Index: at, Desc: in.desc, Context: ctx}
	if in.raw != nil && len(in.raw) <= 256 {
		rp.Hex = fmt.Sprintf("%x", in.raw)
	}
	return rp
}

func init() {
	hk.Register(&hk.Check{
		ID: "C02",
		Rule: "E3 bounded-exhaustive grammar enumeration, every input delivered through the named path of every interceptor individually and through the chain of all pass-through interceptors, after a prior history (ten packets sent with transport-cc, three received with a gap) and with the previous packet still in the 1500-byte read buffer: " +
			"incoming RTP = first byte (V=2: 64 values; thorough all 256) x 4 second bytes x 13 lengths x extension header (3 profiles x 4 length fields x 7 bodies incl. the negotiated transport-cc id with 1/2/3 bytes and overrunning elements) x 4 padding counts; incoming TWCC = 2 bases x 7 status counts x all chunk lists of length <= 2 (thorough 3) over 28 chunk words x 4 delta tails; CCFB = 1-2 blocks x begin x num_reports incl. 16384/65535 x ATO values x every 2-byte truncation; every single-byte replacement {0x00,0xFF,+1} and every truncation of 12 well-formed RTCP packet types plus all ordered pairs as compounds; outgoing = 8 payload sizes (nil,0,1,1459,1460,1461,1500,65535) x 6 header shapes + legacy padding counts. " +
			"Oracle: no panic in any goroutine, no endless loop (step budget), the caller returns, n <= len(buffer), and well-formed probe packets keep being processed; every input is non-trivial; states = distinct inputs",
		Assumptions: []string{"vsched model (litmus suite)", "inputs are fed one after another into one instance (a fresh instance after every failure, and the failing input is re-run alone on a fresh instance)"},
		Jobs: func(tier string) []string {
			var n []string
			for _, j := range jobs(tier) {
				n = append(n, j.name())
			}
			return n
		},
		Run: run,
		Replay: func(raw json.RawMessage) string {
			var rp replay
			if err := json.Unmarshal(raw, &rp); err != nil {
				return "bad replay"
			}
			var inputs []input
			tier := "quick"
			if rp.Job.Shards >= 8 {
				tier = "thorough"
			}
			generate(tier, rp.Job, func(in input) { inputs = append(inputs, in) })
			if rp.Index >= len(inputs) {
				return "input index out of range"
			}
			from := rp.Index - rp.Context
			if from < 0 {
				from = 0
			}
			_, v := runRange(rp.Job, inputs[:rp.Index+1], from)
			if v != nil {
				return v.Message
			}
			return ""
		},
		Bounds: func(tier string) map[string]any { return map[string]any{"jobs": len(jobs(tier))} },
	})
}
