package c01

import (
	"errors"
	"fmt"

	"github.com/pion/interceptor"
	"github.com/pion/interceptor/verifh/hk"
	"github.com/pion/interceptor/vsched"
)

// counting is an instrumented chain member.
type counting struct {
	interceptor.NoOp
	id       int
	log      *[]string
	closeErr error
	unbindL  int
	unbindR  int
	closed   int
	bindL    int
}

func (c *counting) BindLocalStream(i *interceptor.StreamInfo, w interceptor.RTPWriter) interceptor.RTPWriter {
	c.bindL++
	*c.log = append(*c.log, fmt.Sprintf("bindL%d", c.id))
	return w
}
func (c *counting) UnbindLocalStream(*interceptor.StreamInfo)  { c.unbindL++ }
func (c *counting) UnbindRemoteStream(*interceptor.StreamInfo) { c.unbindR++ }
func (c *counting) Close() error {
	c.closed++
	*c.log = append(*c.log, fmt.Sprintf("close%d", c.id))
	return c.closeErr
}

type countingFactory struct{ c *counting }

func (f countingFactory) NewInterceptor(string) (interceptor.Interceptor, error) { return f.c, nil }

type builtFactory struct{ i interceptor.Interceptor }

func (f builtFactory) NewInterceptor(string) (interceptor.Interceptor, error) { return f.i, nil }

var realKinds = []string{"nack-generator", "stats", "flexfec"}

// lifecycleJob enumerates every chain of length 1..4 whose positions are counting members, (up to length 3)
// nested chains of two counting members, or one of three real interceptors, every subset of the counting members returning a distinct Close error, built
// directly and through Registry.Build.
func lifecycleJob(r *hk.JobResult) {
	type shape []int // per position: -1 counting, k>=0 real kind k
	var shapes []shape
	var gen func(cur shape, n int)
	gen = func(cur shape, n int) {
		if len(cur) == n {
			shapes = append(shapes, append(shape(nil), cur...))
			return
		}
		for v := -2; v < len(realKinds); v++ {
			if v == -2 && n == 4 {
				continue // nested chains in chains of up to three positions
			}
			gen(append(cur, v), n)
		}
	}
	for n := 1; n <= 4; n++ {
		gen(nil, n)
	}
	outcomes := map[string]int{}
	for _, sh := range shapes {
		nc := 0
		for _, v := range sh {
			if v == -1 {
				nc++
			}
			if v == -2 {
				nc += 2 // a nested chain of two counting members
			}
		}
		for mask := 0; mask < 1<<nc; mask++ {
			for _, viaRegistry := range []bool{false, true} {
				sh, mask, viaRegistry := sh, mask, viaRegistry
				var msg string
				res := vsched.Run(vsched.Options{Strategy: vsched.BackgroundFirst{}}, func() {
					msg = lifecycleCase(sh, mask, viaRegistry)
				})
				r.Executions++
				r.Transitions++
				r.States++
				r.Nontrivial++
				if msg == "" && len(res.Panics) > 0 {
					msg = "panic: " + res.Panics[0].Value
				}
				outcomes[fmt.Sprint(len(sh), nc, msg == "")]++
				if msg != "" && len(r.Violations) < 4 {
					r.Violations = append(r.Violations, hk.Violation{Key: "C01:lifecycle", Message: msg,
						Replay: map[string]any{"lifecycle_shape": sh, "close_error_mask": mask, "via_registry": viaRegistry}})
				}
			}
		}
	}
	r.Outcomes = outcomes
	r.Samples = append(r.Samples, map[string]any{"lifecycle_shape": []int{-1, 1, -1}, "close_error_mask": 2, "via_registry": true,
		"meaning": "-1 = counting member, k = " + fmt.Sprint(realKinds)})
}

func lifecycleCase(sh []int, mask int, viaRegistry bool) string {
	var log []string
	var members []interceptor.Interceptor
	var counters []*counting
	reg := &interceptor.Registry{}
	ci := 0
	newCounting := func(id int) *counting {
		c := &counting{id: id, log: &log}
		if mask&(1<<ci) != 0 {
			c.closeErr = fmt.Errorf("close error of member %d", id)
		}
		ci++
		counters = append(counters, c)
		return c
	}
	for _, v := range sh {
		if v == -2 {
			// a chain inside the chain (what one Registry builds, added to another)
			a := newCounting(len(counters))
			b := newCounting(len(counters))
			var inner interceptor.Interceptor
			if viaRegistry {
				ir := &interceptor.Registry{}
				ir.Add(countingFactory{a})
				ir.Add(countingFactory{b})
				built, err := ir.Build("inner")
				if err != nil {
					return err.Error()
				}
				inner = built
			} else {
				inner = interceptor.NewChain([]interceptor.Interceptor{a, b})
			}
			members = append(members, inner)
			reg.Add(builtFactory{inner})
			continue
		}
		if v < 0 {
			c := newCounting(len(counters))
			members = append(members, c)
			reg.Add(countingFactory{c})
			continue
		}
		k := hk.KindByName(realKinds[v])
		if viaRegistry {
			reg.Add(kindFactory{k, 0})
		} else {
			i, _, err := k.New(0)
			if err != nil {
				return err.Error()
			}
			members = append(members, i)
		}
	}
	var chain interceptor.Interceptor
	if viaRegistry {
		i, err := reg.Build("pc")
		if err != nil {
			return err.Error()
		}
		chain = i
	} else {
		chain = interceptor.NewChain(members)
	}
	s := hk.NewSession(chain, nil)
	s.BindAll()
	// factory / member order is the order in which members see the bind
	prev := -1
	for _, e := range log {
		var id int
		if _, err := fmt.Sscanf(e, "bindL%d", &id); err == nil {
			if id < prev {
				// two local streams are bound one after the other: ids restart once
				if prev != counters[len(counters)-1].id {
					return fmt.Sprintf("members saw BindLocalStream out of chain order: %v", log)
				}
			}
			prev = id
		}
	}
	// a remote stream whose SSRC number is the one local stream 1 uses (the two directions have separate SSRC
	// spaces), and every stream is unbound: each Unbind reaches every member, whatever was unbound before
	twin := &interceptor.StreamInfo{ID: "twin", SSRC: s.Locals[1].Info.SSRC, PayloadType: 96, ClockRate: 90000, MimeType: "video/VP8"}
	chain.BindRemoteStream(twin, &hk.FeedReader{})
	chain.UnbindLocalStream(s.Locals[1].Info)
	chain.UnbindRemoteStream(s.Remotes[1].Info)
	chain.UnbindRemoteStream(twin)
	chain.UnbindLocalStream(s.Locals[2].Info)
	chain.UnbindRemoteStream(s.Remotes[2].Info)
	err := chain.Close()
	for _, c := range counters {
		if c.unbindL != 2 || c.unbindR != 3 || c.closed != 1 {
			return fmt.Sprintf("member %d saw UnbindLocalStream %d times (2 local streams unbound), UnbindRemoteStream %d times (3 remote streams unbound, one of them with the SSRC number of a local stream), Close %d times (want 1)", c.id, c.unbindL, c.unbindR, c.closed)
		}
		if c.bindL != 2 {
			return fmt.Sprintf("member %d saw BindLocalStream %d times for two streams", c.id, c.bindL)
		}
		if c.closeErr != nil && !errors.Is(err, c.closeErr) {
			return fmt.Sprintf("Close error of member %d is not preserved in the chain's Close error %v", c.id, err)
		}
	}
	if mask == 0 && err != nil {
		return fmt.Sprintf("chain.Close returned %v although no member failed", err)
	}
	if mask != 0 && err == nil {
		return "chain.Close returned nil although a member failed"
	}
	return ""
}
