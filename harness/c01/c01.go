// Package c01 decides property C01 (media transparency of any chain of
// pass-through interceptors) by explicit-state search over (chain x
// configuration x operation sequence x fault position) with a mock transport
// below the chain and the application above it.
package c01

import (
	"bytes"
	"encoding/json"
	"errors"
	"fmt"
	"sort"
	"strings"
	"time"

	"github.com/pion/interceptor"
	"github.com/pion/interceptor/verifh/hk"
	"github.com/pion/interceptor/vsched"
	"github.com/pion/rtcp"
	"github.com/pion/rtp"
)

type member struct {
	Kind    string `json:"kind"`
	Variant int    `json:"variant,omitempty"`
}

type config struct {
	Chain    []member `json:"chain"`
	Registry bool     `json:"via_registry,omitempty"`
	Depth    int      `json:"depth"`
}

func (c config) name() string {
	var n []string
	for _, m := range c.Chain {
		s := m.Kind
		if m.Variant > 0 {
			s += fmt.Sprintf("#%d", m.Variant)
		}
		n = append(n, s)
	}
	s := "[" + strings.Join(n, " > ") + "]"
	if c.Registry {
		s += " via Registry"
	}
	return fmt.Sprintf("%s depth %d", s, c.Depth)
}

var symNames = []string{"W(L1,plain)", "W(L1,marker+2csrc,empty)", "W(L1,15csrc,1460B)", "W(L1,one-byte-ext)", "W(L1,two-byte-ext,1459B)", "W(L1,padding)",
	"W(L2,plain)", "R(R1,plain)", "R(R1,two-byte-ext)", "R(R1,padding)", "R(R2,plain)",
	"RTCPin(SR)", "RTCPin(NACK never-sent)", "RTCPin(TWCC)", "RTCPin(CCFB)", "RTCPout(PLI)", "Tick", "FailNextWrite", "FailNextRead", "W(L1,plain,SSRC of stream 3)", "FailNextRTCPWrite"}

const (
	symTick  = 16
	symFailW = 17
	symFailR = 18
)

type kindFactory struct {
	k *hk.Kind
	v int
}

func (f kindFactory) NewInterceptor(string) (interceptor.Interceptor, error) {
	i, _, err := f.k.New(f.v)
	return i, err
}

type system struct {
	c     config
	s     *hk.Session
	wseq  [3]uint16
	rseq  [3]uint16
	failW bool
	failR bool
	// SSRC to put into the next written header instead of the stream's own
	foreign uint32
}

type failure struct{ key, msg string }

func (f *failure) Error() string { return f.msg }
func fail(key, format string, a ...any) error {
	return &failure{key, fmt.Sprintf(format, a...)}
}

func newSystem(c config) (*system, error) {
	var chain interceptor.Interceptor
	if c.Registry {
		reg := &interceptor.Registry{}
		for _, m := range c.Chain {
			reg.Add(kindFactory{hk.KindByName(m.Kind), m.Variant})
		}
		i, err := reg.Build("pc")
		if err != nil {
			return nil, err
		}
		if len(c.Chain) == 0 {
			if _, ok := i.(*interceptor.NoOp); !ok {
				return nil, fail("C01:registry-empty-not-noop", "Registry.Build of an empty registry returned %T", i)
			}
		}
		chain = i
	} else {
		var members []interceptor.Interceptor
		for _, m := range c.Chain {
			i, _, err := hk.KindByName(m.Kind).New(m.Variant)
			if err != nil {
				return nil, err
			}
			members = append(members, i)
		}
		chain = interceptor.NewChain(members)
	}
	sys := &system{c: c, s: hk.NewSession(chain, nil)}
	// RTCP flows before any stream is bound (a connection that only carries RTCP yet): transparent as well, twice
	sys.s.BindRTCPWriter()
	sys.s.BindRTCPReader()
	for round := 0; round < 2; round++ {
		sys.s.T.TakeRTCP()
		pli := &rtcp.PictureLossIndication{SenderSSRC: 7, MediaSSRC: hk.StreamInfo(false, 1, true).SSRC}
		if _, err := sys.s.RTCPW.Write([]rtcp.Packet{pli}, interceptor.Attributes{}); err != nil {
			return nil, fail("C01:rtcp-before-any-stream-not-transparent", "RTCP batch %d written before any stream was bound was refused: %v", round+1, err)
		}
		found := false
		for _, rec := range sys.s.T.TakeRTCP() {
			for _, p := range rec.Pkts {
				if q, ok := p.(*rtcp.PictureLossIndication); ok && q.SenderSSRC == 7 {
					found = true
				}
			}
		}
		if !found {
			return nil, fail("C01:rtcp-before-any-stream-not-transparent", "RTCP batch %d written before any stream was bound did not reach the next writer", round+1)
		}
		raw := hk.RawSR(hk.StreamInfo(false, 1, true).SSRC, 0xe000000000000000, 3)
		if n, _, err := sys.s.ReadRTCP(raw); err != nil || n != len(raw) {
			return nil, fail("C01:rtcp-before-any-stream-not-transparent", "RTCP packet %d read before any stream was bound: Read returned (%d, %v), the transport gave %d bytes", round+1, n, err, len(raw))
		}
	}
	sys.s.BindLocal(1, true)
	sys.s.BindLocal(2, false)
	sys.s.BindRemote(1, true)
	sys.s.BindRemote(2, false)
	// a third local stream is bound last and stays idle: it negotiated the same extensions under different
	// ids (transport-cc under 1, where stream 1 carries its mid) - per-stream settings must stay per stream
	l3 := &hk.Local{K: 3, Info: hk.StreamInfo(true, 3, true)}
	l3.Info.RTPHeaderExtensions = []interceptor.RTPHeaderExtension{{URI: "urn:ietf:params:rtp-hdrext:sdes:mid", ID: hk.TwccExtID}, {URI: hk.TransportCCURI, ID: 1}}
	l3.W = chain.BindLocalStream(l3.Info, sys.s.SinkFor(3))
	sys.s.Locals[3] = l3
	for k, rm := range sys.s.Remotes {
		h, p := hk.Shape(0, rm.Info.SSRC, 30000, 1)
		if k == 1 {
			_ = h.SetExtension(hk.TwccExtID, []byte{0x75, 0x30})
		}
		copy(rm.Buf, hk.MarshalRTP(h, p))
	}
	for k := range sys.wseq {
		sys.wseq[k], sys.rseq[k] = 65533, 65533 // the sequence numbers wrap inside short histories
	}
	return sys, nil
}

// injected reports whether a packet at the transport of stream k is one an interceptor may add itself.
func injectedRTP(info *interceptor.StreamInfo, h *rtp.Header) bool {
	if info.SSRCRetransmission != 0 && h.SSRC == info.SSRCRetransmission && h.PayloadType == info.PayloadTypeRetransmission {
		return true
	}
	if info.SSRCForwardErrorCorrection != 0 && h.SSRC == info.SSRCForwardErrorCorrection && h.PayloadType == info.PayloadTypeForwardErrorCorrection {
		return true
	}
	return false
}

func sameModuloTWCC(got, want *rtp.Header, negotiated bool) bool {
	g, w := got.Clone(), want.Clone()
	if negotiated {
		_ = g.DelExtension(hk.TwccExtID)
		_ = w.DelExtension(hk.TwccExtID)
		if e := got.GetExtension(hk.TwccExtID); e == nil {
			return false // the application's packet carried it; it must still be there
		}
	}
	gb, e1 := g.Marshal()
	wb, e2 := w.Marshal()
	return e1 == nil && e2 == nil && bytes.Equal(gb, wb) && g.PaddingSize == w.PaddingSize
}

func (sys *system) write(stream, shape int) (string, error) {
	s := sys.s
	l := s.Locals[stream]
	sys.wseq[stream]++
	q := sys.wseq[stream]
	h, p := hk.Shape(shape, l.Info.SSRC, q, uint32(q)*3000)
	if sys.foreign != 0 {
		h.SSRC = sys.foreign
	}
	negotiated := stream == 1
	if negotiated {
		_ = h.SetExtension(hk.TwccExtID, []byte{0xAB, byte(q)})
	}
	hc, pc := h.Clone(), append([]byte(nil), p...)
	s.T.TakeRTP()
	injectFault := sys.failW
	if injectFault {
		s.T.FailRTPWrite = 1
		sys.failW = false
	}
	_, err := l.W.Write(&h, p, interceptor.Attributes{})
	s.T.FailRTPWrite = 0
	vsched.Quiesce()
	recs := s.T.TakeRTP()
	if !bytes.Equal(p, pc) {
		return "", fail("C01:payload-modified", "the payload of packet %d was modified during Write", q)
	}
	appPkts := 0
	for i, r := range recs {
		info := s.Locals[r.Stream].Info
		if injectedRTP(info, &r.Header) {
			if r.App && appPkts == 0 && !injectFault && err == nil {
				return "", fail("C01:injected-packet-before-application-packet", "an injected packet (SSRC %#x PT %d) reached the transport before the application packet it accompanies", r.Header.SSRC, r.Header.PayloadType)
			}
			continue
		}
		// not injected: it must be THE application packet, on the application thread, on its own stream
		if !r.App {
			return "", fail("C01:application-packet-replayed-by-background-goroutine", "a packet with the media SSRC/PT (seq %d) was written by a goroutine of the chain", r.Header.SequenceNumber)
		}
		if r.Stream != stream || r.Header.SequenceNumber != q {
			return "", fail("C01:foreign-application-packet", "during Write of packet %d on stream %d, media packet %d reached the transport of stream %d", q, stream, r.Header.SequenceNumber, r.Stream)
		}
		appPkts++
		if !sameModuloTWCC(&r.Header, &hc, negotiated) {
			return "", fail("C01:header-altered", "packet %d reached the transport with a different header:\n got %+v\nwant %+v (only the transport-cc extension value may differ)", q, r.Header, hc)
		}
		if !bytes.Equal(r.Payload, pc) {
			return "", fail("C01:payload-altered", "packet %d reached the transport with a different payload (%d bytes, want %d)", q, len(r.Payload), len(pc))
		}
		_ = i
	}
	switch {
	case injectFault:
		if err == nil {
			return "", fail("C01:writer-error-swallowed", "the transport's writer failed for packet %d but the outermost Write returned nil", q)
		}
		if !errors.Is(err, hk.ErrInjected) {
			return "", fail("C01:writer-error-replaced", "the transport's writer failed for packet %d with the sentinel error but the outermost Write returned %q", q, err)
		}
		return "we", nil
	case err != nil:
		// The application's packets are well formed, carry the negotiated extension and have payloads of
		// 0..1460 bytes: every one of them must reach the next writer exactly once. An error that stems from a
		// packet the chain injected itself (a FEC packet refused further down) may be reported, but the
		// application's packet must still have been delivered.
		if appPkts != 1 {
			return "", fail("C01:application-packet-refused", "Write of a well-formed packet %d (shape %d, %d payload bytes) on stream %d returned %q although the transport did not fail; it reached the transport %d times", q, shape, len(pc), stream, err, appPkts)
		}
		return "wr", nil
	case appPkts != 1:
		return "", fail("C01:not-exactly-once", "Write of packet %d on stream %d returned nil but the packet reached the transport %d times", q, stream, appPkts)
	}
	return "w", nil
}

func (sys *system) read(stream, shape int) (string, error) {
	s := sys.s
	rm := s.Remotes[stream]
	q := sys.rseq[stream] + 2
	if !sys.failR {
		// a packet whose read fails never arrived: the next one carries the same number, so that the
		// history with the failed read and its twin without it see the same packets
		sys.rseq[stream] = q
	}
	h, p := hk.Shape(shape, rm.Info.SSRC, q, uint32(q)*3000)
	if stream == 1 {
		_ = h.SetExtension(hk.TwccExtID, []byte{byte(q >> 8), byte(q)})
	}
	raw := hk.MarshalRTP(h, p)
	// the read buffer still holds the previous packet (before the first read: an old, well-formed packet
	// with a far-away sequence number), so a wrapper that parses stale bytes accounts something observable
	injectFault := sys.failR
	if injectFault {
		rm.FailNextRead()
		sys.failR = false
	}
	n, attr, err := rm.ReadRTP(raw)
	vsched.Quiesce()
	if injectFault {
		if err == nil {
			return "", fail("C01:reader-error-swallowed", "the transport's reader failed but the outermost Read returned nil (n=%d)", n)
		}
		if !errors.Is(err, hk.ErrInjected) {
			return "", fail("C01:reader-error-replaced", "the transport's reader failed with the sentinel error but the outermost Read returned %q", err)
		}
		return "re", nil
	}
	if err != nil {
		return "rr", nil // refused by an interceptor itself
	}
	if n != len(raw) || !bytes.Equal(rm.Buf[:n], raw) {
		return "", fail("C01:read-bytes-differ", "the transport delivered %d bytes, the application received n=%d and different bytes", len(raw), n)
	}
	if attr != nil {
		if hdr, herr := attr.GetRTPHeader(nil); herr == nil && hdr != nil {
			var want rtp.Header
			if _, uerr := want.Unmarshal(raw); uerr == nil {
				gb, _ := hdr.Marshal()
				wb, _ := want.Marshal()
				if !bytes.Equal(gb, wb) {
					return "", fail("C01:cached-header-differs", "the RTP header cached in the attributes does not match the packet that was read")
				}
			}
		}
	}
	return "r", nil
}

func (sys *system) rtcpIn(kind int) (string, error) {
	s := sys.s
	var raw []byte
	switch kind {
	case 0:
		raw = hk.RawSR(s.Remotes[1].Info.SSRC, 0xe000000000000000, 77)
	case 1:
		raw = hk.RawNACK(s.Locals[1].Info.SSRC, 4242)
	case 2:
		raw = hk.RawTWCC(s.Locals[1].Info.SSRC, 0xAB00|uint16(byte(sys.wseq[1])), 1, 1)
	case 3:
		raw = hk.RawCCFB(s.Locals[2].Info.SSRC, sys.wseq[2], 1, 5)
	}
	for i := range s.RTCPBuf {
		s.RTCPBuf[i] = 0x5A
	}
	injectFault := sys.failR
	if injectFault {
		s.FailNextRTCPRead()
		sys.failR = false
	}
	s.T.TakeRTP()
	n, attr, err := s.ReadRTCP(raw)
	vsched.Quiesce()
	if injectFault {
		if err == nil || !errors.Is(err, hk.ErrInjected) {
			return "", fail("C01:reader-error-swallowed", "the transport's RTCP reader failed with the sentinel error, the outermost Read returned (%d, %v)", n, err)
		}
		return "ce", nil
	}
	for _, r := range s.T.TakeRTP() {
		if !injectedRTP(s.Locals[r.Stream].Info, &r.Header) {
			return "", fail("C01:application-packet-replayed-by-background-goroutine", "reading RTCP made media packet %d appear at the transport", r.Header.SequenceNumber)
		}
	}
	if err != nil {
		return "cr", nil
	}
	if n != len(raw) || !bytes.Equal(s.RTCPBuf[:n], raw) {
		return "", fail("C01:read-bytes-differ", "RTCP: the transport delivered %d bytes, the application received n=%d and different bytes", len(raw), n)
	}
	if attr != nil {
		if pkts, perr := attr.GetRTCPPackets(nil); perr == nil && pkts != nil {
			b, merr := rtcp.Marshal(pkts)
			if merr == nil && !bytes.Equal(b, raw) {
				return "", fail("C01:cached-rtcp-differs", "the RTCP packets cached in the attributes do not match the bytes that were read")
			}
		}
	}
	return "c", nil
}

func (sys *system) rtcpOut() (string, error) {
	s := sys.s
	pli := &rtcp.PictureLossIndication{SenderSSRC: 0x1234, MediaSSRC: s.Remotes[1].Info.SSRC}
	want, _ := pli.Marshal()
	s.T.TakeRTCP()
	_, err := s.RTCPW.Write([]rtcp.Packet{pli}, interceptor.Attributes{})
	vsched.Quiesce()
	n := 0
	for _, r := range s.T.TakeRTCP() {
		for _, raw := range r.Raw {
			if bytes.Equal(raw, want) {
				n++
				if !r.App {
					return "", fail("C01:rtcp-not-on-caller", "the application's RTCP packet was written by a goroutine of the chain")
				}
			}
		}
	}
	if err == nil && n != 1 {
		return "", fail("C01:rtcp-not-exactly-once", "the application's RTCP packet reached the transport %d times", n)
	}
	return "o", nil
}

func (sys *system) tick() (string, error) {
	s := sys.s
	s.T.TakeRTP()
	vsched.Advance(hk.ReportInterval)
	for _, r := range s.T.TakeRTP() {
		if !injectedRTP(s.Locals[r.Stream].Info, &r.Header) {
			return "", fail("C01:application-packet-replayed-by-background-goroutine", "a timer made media packet %d appear at the transport", r.Header.SequenceNumber)
		}
	}
	return "t", nil
}

func (sys *system) apply(sym int) (string, error) {
	switch {
	case sym < 6:
		return sys.write(1, sym)
	case sym == 6:
		return sys.write(2, 0)
	case sym <= 9:
		return sys.read(1, []int{0, 4, 5}[sym-7])
	case sym == 10:
		return sys.read(2, 0)
	case sym <= 14:
		return sys.rtcpIn(sym - 11)
	case sym == 15:
		return sys.rtcpOut()
	case sym == symTick:
		return sys.tick()
	case sym == symFailW:
		sys.failW = true
		return "fw", nil
	case sym == 20:
		// the next RTCP batch written to the transport (feedback of an interceptor, or the application's) fails
		sys.s.T.FailRTCPOnce = 1
		return "fc", nil
	case sym == 19:
		// any SSRC may travel on a stream's writer: here the one another bound stream uses
		sys.foreign = sys.s.Locals[3].Info.SSRC
		defer func() { sys.foreign = 0 }()
		out, err := sys.write(1, 0)
		if f, ok := err.(*failure); ok {
			for _, m := range sys.c.Chain {
				if strings.HasPrefix(m.Kind, "cc-gcc") {
					// one root cause whatever the rest of the chain is: the gcc pacers keep one writer per SSRC and
					// hand a packet to the writer registered for the SSRC in its header, not to the writer of the
					// stream it was written on
					f.key = "C01:gcc-pacer-routes-application-packets-by-ssrc"
				}
			}
		}
		return out, err
	default:
		sys.failR = true
		return "fr", nil
	}
}

// feedbackTranscript runs a history and returns every RTCP batch that reached the transport (wire bytes).
func feedbackTranscript(c config, hist []int) (string, bool) {
	var out []string
	ok := true
	res := vsched.Run(vsched.Options{Strategy: vsched.BackgroundFirst{}, MaxSteps: 3_000_000}, func() {
		sys, err := newSystem(c)
		if err != nil {
			ok = false
			return
		}
		for _, a := range hist {
			if _, err := sys.apply(a); err != nil {
				ok = false
				return
			}
		}
		// two more report intervals: whatever was accounted shows up
		for k := 0; k < 2; k++ {
			vsched.Advance(hk.ReportInterval)
		}
		for _, raw := range sys.s.T.AllRTCP {
			out = append(out, fmt.Sprintf("%x", raw))
		}
		_ = sys.s.I.Close()
	})
	if len(res.Panics) > 0 || res.StepLimit || res.Deadlock {
		ok = false
	}
	// what is accounted matters, not at which step an already pending packet happens to be flushed
	sort.Strings(out)
	return strings.Join(out, "\n"), ok
}

type replay struct {
	Config  config   `json:"config"`
	History []string `json:"history"`
	Syms    []int    `json:"syms"`
}

func describe(c config, h []int) replay {
	r := replay{Config: c, Syms: h}
	for _, a := range h {
		r.History = append(r.History, symNames[a])
	}
	return r
}

func exec(c config, hist []int) hk.Step {
	var st hk.Step
	res := vsched.Run(vsched.Options{Strategy: vsched.BackgroundFirst{}, MaxSteps: 3_000_000}, func() {
		sys, err := newSystem(c)
		if err != nil {
			if f, ok := err.(*failure); ok {
				st.Violation = &hk.Violation{Key: f.key, Message: f.msg, Replay: describe(c, hist)}
				return
			}
			vsched.Failf("setup: %v", err)
			return
		}
		for i, a := range hist {
			out, err := sys.apply(a)
			if err != nil {
				if i == len(hist)-1 {
					key := "C01:other"
					if f, ok := err.(*failure); ok {
						key = f.key
					}
					if key != "C01:gcc-pacer-routes-application-packets-by-ssrc" {
						key += ":" + lastMember(c)
					}
					st.Violation = &hk.Violation{Key: key, Message: c.name() + ": " + err.Error(), Replay: describe(c, hist)}
				} else {
					st.Dead = true
				}
				return
			}
			st.Outcome = out
		}
		st.Nontrivial = len(hist) > 0 && hist[len(hist)-1] < symFailW
		st.Key = hk.DeepHash(sys.s.I) ^ hk.EnvHash() ^ hk.HashInts(int64(sys.wseq[1]), int64(sys.wseq[2]), int64(sys.rseq[1]), int64(sys.rseq[2]), b2i(sys.failW), b2i(sys.failR), int64(sys.s.T.FailRTCPOnce))
		_ = sys.s.I.Close()
	})
	if st.Violation == nil && !st.Dead {
		switch {
		case res.Deadlock && len(res.Panics) == 0:
			// a Read or Write of a well-formed packet on an open chain that never returns: the packet is neither
			// handed to the application nor to the next writer
			st.Violation = &hk.Violation{Key: "C01:call-never-returns:" + lastMember(c),
				Message: fmt.Sprintf("%s: the last operation of the history never returns (blocked: %+v)", c.name(), res.Blocked), Replay: describe(c, hist)}
		case len(res.Panics) > 0, res.StepLimit:
			// crashes and endless loops are C02's subject; the history cannot be judged here
			st.Dead = true
		case len(res.Failures) > 0:
			st.Violation = &hk.Violation{Key: "C01:harness", Message: res.Failures[0], Replay: describe(c, hist)}
		}
	}
	// differential: a packet whose read failed is not accounted in any generated feedback. For the last
	// (FailNextRead, Read) pair of the history, the feedback transcript must equal that of the twin history
	// without the pair.
	if st.Violation == nil && !st.Dead {
		for i := len(hist) - 2; i >= 0; i-- {
			if hist[i] == symFailR && hist[i+1] >= 7 && hist[i+1] <= 10 {
				twin := append(append([]int(nil), hist[:i]...), hist[i+2:]...)
				with, ok1 := feedbackTranscript(c, hist)
				without, ok2 := feedbackTranscript(c, twin)
				if ok1 && ok2 && with != without {
					st.Violation = &hk.Violation{Key: "C01:failed-read-accounted-in-feedback:" + lastMember(c),
						Message: c.name() + ": the feedback generated in a history containing a read that FAILED differs from the feedback of the same history without that read:\n" + diffLines(with, without),
						Replay:  describe(c, hist)}
				}
				break
			}
		}
	}
	return st
}

// diffLines shows the lines (with multiplicity) present on one side only.
func diffLines(a, b string) string {
	count := map[string]int{}
	for _, l := range strings.Split(a, "\n") {
		count[l]++
	}
	for _, l := range strings.Split(b, "\n") {
		count[l]--
	}
	var onlyA, onlyB []string
	for l, n := range count {
		for ; n > 0; n-- {
			onlyA = append(onlyA, l)
		}
		for ; n < 0; n++ {
			onlyB = append(onlyB, l)
		}
	}
	sort.Strings(onlyA)
	sort.Strings(onlyB)
	return "--- only with the failed read\n" + clipS(strings.Join(onlyA, "\n")) + "\n--- only without\n" + clipS(strings.Join(onlyB, "\n"))
}

func clipS(s string) string {
	if len(s) > 600 {
		return s[:600] + "…"
	}
	return s
}

func lastMember(c config) string {
	var n []string
	for _, m := range c.Chain {
		n = append(n, m.Kind)
	}
	if len(n) > 2 {
		return "long-chain"
	}
	return strings.Join(n, ">")
}

func b2i(b bool) int64 {
	if b {
		return 1
	}
	return 0
}

func passThroughKinds() []*hk.Kind {
	var out []*hk.Kind
	for _, k := range hk.Kinds() {
		if !k.Buffering {
			out = append(out, k)
		}
	}
	return out
}

func configs(tier string) []config {
	ks := passThroughKinds()
	var out []config
	d1, d2 := 4, 3
	if tier == "thorough" {
		d1, d2 = 5, 4
	}
	out = append(out, config{Depth: d1}, config{Depth: d1, Registry: true})
	for _, k := range ks {
		for v := 0; v < k.Variants; v++ {
			out = append(out, config{Chain: []member{{k.Name, v}}, Depth: d1})
		}
		out = append(out, config{Chain: []member{{k.Name, 0}}, Depth: d1, Registry: true})
	}
	for i, a := range ks {
		for j, b := range ks {
			if i == j {
				continue
			}
			out = append(out, config{Chain: []member{{a.Name, 0}, {b.Name, (i + j) % b.Variants}}, Depth: d2, Registry: (i+j)%2 == 1})
		}
	}
	// the 14 rotations of the full chain
	for r := range ks {
		var ch []member
		for i := range ks {
			k := ks[(r+i)%len(ks)]
			ch = append(ch, member{k.Name, 0})
		}
		out = append(out, config{Chain: ch, Depth: d2, Registry: r%2 == 0})
	}
	if tier == "thorough" {
		for i, a := range ks {
			for j, b := range ks {
				for l, cc := range ks {
					if i == j || j == l || i == l {
						continue
					}
					out = append(out, config{Chain: []member{{a.Name, 0}, {b.Name, 0}, {cc.Name, 0}}, Depth: 2})
				}
			}
		}
	}
	return out
}

func init() {
	hk.Register(&hk.Check{
		ID: "C01",
		Rule: "E2 explicit-state search: for every ordered chain without repetition of length 0, 1, 2 (thorough: 3) of the 14 non-buffering interceptor factories, every option variant for single members, and the 14 rotations of the full chain, built directly and through Registry.Build: all operation sequences up to the depth over 19 symbols (six header shapes written on a fully negotiated stream, one on a plain stream; three shapes read on a negotiated and one on a plain remote stream; incoming SR / NACK / TWCC / CCFB; application RTCP write; tick; arm the next transport write / read to fail) with a mock transport below and the application above; " +
			"oracle per transition: the application packet reaches the transport exactly once during its own Write, before anything injected, header and payload identical (transport-cc value aside); injected packets are recognisable as RTX/FEC/RTCP; reads return the transport's bytes and a matching cached parse; injected transport errors are returned (errors.Is); differential: feedback after a failed read equals feedback without that read. Non-trivial = the last operation moved a packet",
		Assumptions: []string{"vsched model (litmus suite)", "application packets on the negotiated stream carry the transport-cc extension themselves (so that order-independent chains with the cc interceptor accept them)",
			"an error produced by an interceptor itself (not by the transport) is not a violation; then only non-duplication is demanded"},
		Jobs: func(tier string) []string {
			var n []string
			for _, c := range configs(tier) {
				n = append(n, c.name())
			}
			return append(n, "lifecycle: Unbind/Close delivered exactly once to every member, Close errors preserved, Registry order")
		},
		Run: func(tier string, i int, deadline time.Time) *hk.JobResult {
			if i == len(configs(tier)) {
				r := &hk.JobResult{Exhaustive: true}
				lifecycleJob(r)
				return r
			}
			c := configs(tier)[i]
			r := &hk.JobResult{Exhaustive: true, Bounds: map[string]any{"depth": c.Depth, "alphabet": len(symNames)}}
			s := &hk.Search{Alphabet: len(symNames), Depth: c.Depth, Dedup: true, Deadline: deadline,
				Exec:     func(h []int) hk.Step { return exec(c, h) },
				Describe: func(h []int) any { return describe(c, h) }}
			s.Run().Fill(r)
			return r
		},
		Replay: func(raw json.RawMessage) string {
			var lc struct {
				Shape []int `json:"lifecycle_shape"`
				Mask  int   `json:"close_error_mask"`
				Reg   bool  `json:"via_registry"`
			}
			if json.Unmarshal(raw, &lc) == nil && lc.Shape != nil {
				msg := ""
				vsched.Run(vsched.Options{Strategy: vsched.BackgroundFirst{}}, func() { msg = lifecycleCase(lc.Shape, lc.Mask, lc.Reg) })
				return msg
			}
			var rp replay
			if err := json.Unmarshal(raw, &rp); err != nil {
				return "bad replay"
			}
			if st := exec(rp.Config, rp.Syms); st.Violation != nil {
				return st.Violation.Message
			}
			return ""
		},
		Bounds: func(tier string) map[string]any {
			return map[string]any{"chains": len(configs(tier)), "alphabet": len(symNames)}
		},
	})
}
