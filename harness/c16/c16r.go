package c16

import (
	"encoding/json"
	"errors"
	"time"

	"github.com/pion/interceptor"
	"github.com/pion/interceptor/pkg/gcc"
	"github.com/pion/interceptor/verifh/hk"
	"github.com/pion/interceptor/vsched"
)

// C16R: feedback is fed while Close runs on another goroutine. "Feeding feedback never blocks indefinitely
// or panics, and after Close it fails with the documented closed error" has to hold on every schedule.

type rscen struct {
	Pacer string `json:"pacer"`
	Kind  string `json:"stream"`
	Bound int    `json:"deviation_bound"`
}

func (c rscen) name() string { b, _ := json.Marshal(c); return string(b) }

func rbody(c rscen, ctx *hk.Ctx) {
	sys, err := newSystem(config{Initial: 300_000, Min: 100_000, Max: 2_000_000, Pacer: c.Pacer, Kind: c.Kind})
	if err != nil {
		ctx.Fail("C16:setup", "%v", err)
		return
	}
	// two reports are prepared sequentially: six packets each, 10 ms apart (one arrival group per packet, so that
	// the delay controller publishes estimates), growing queueing delay in the second
	sys.hold = true
	for _, pat := range []int{0, 3} {
		if err := sys.send(6, 10*time.Millisecond); err != nil {
			ctx.Fail("C16:setup", "%v", err)
			return
		}
		vsched.Advance(20 * time.Millisecond)
		if err := sys.feedback(pat); err != nil {
			ctx.Fail("C16:setup", "%v", err)
			return
		}
	}
	if len(sys.held) != 2 {
		ctx.Fail("C16:setup", "%d reports prepared", len(sys.held))
		return
	}
	vsched.Quiesce()
	vsched.SetupDone() // the twelve packets and the two reports above are a fixed prefix
	var errs [2]error
	fb := vsched.GoApp("feedback", func() {
		for n, l := range sys.held {
			errs[n] = sys.bwe.WriteRTCP(l, interceptor.Attributes{})
		}
	})
	var cerr error
	cl := vsched.GoApp("close", func() { cerr = sys.bwe.Close() })
	fb.Join()
	cl.Join()
	vsched.Quiesce()
	if ctx.Failed() {
		return
	}
	out := ""
	for n, e := range errs {
		switch {
		case e == nil:
			out += "ok "
		case errors.Is(e, gcc.ErrSendSideBWEClosed):
			out += "closed "
		default:
			ctx.Fail("C16:concurrent:feedback-error", "WriteRTCP #%d concurrent with Close returned %v (neither nil nor the documented closed error)", n+1, e)
			return
		}
	}
	if errs[0] != nil && errs[1] == nil {
		ctx.Fail("C16:concurrent:accepted-after-closed", "WriteRTCP returned the closed error and a later call was accepted")
		return
	}
	if cerr != nil {
		ctx.Fail("C16:concurrent:close-error", "Close returned %v", cerr)
		return
	}
	if e := sys.bwe.WriteRTCP(sys.held[1], interceptor.Attributes{}); !errors.Is(e, gcc.ErrSendSideBWEClosed) {
		ctx.Fail("C16:no-closed-error-after-close", "WriteRTCP after Close returned %v", e)
		return
	}
	if live := vsched.LiveNonApp(); len(live) > 0 {
		ctx.Fail("C16:concurrent:goroutine-alive-after-close", "%d goroutines of the estimator are alive after Close returned (%s blocked in %s)", len(live), live[0].Name, live[0].Why)
		return
	}
	vsched.AcquireFinished()
	if err := sys.invariant(); err != nil {
		var f *failure
		if errors.As(err, &f) {
			ctx.Fail(f.key, "%s", f.msg)
		}
		return
	}
	ctx.Outcome("%s cb=%d", out, len(sys.cb))
}

func rscenarios(tier string) []rscen {
	// executions are long (twelve packets and two reports pass through the estimator's goroutine pipeline)
	b := 2
	if tier == "thorough" {
		b = 3
	}
	return []rscen{{"recording", "twcc", b}, {"recording", "ccfb", b}, {"leaky", "twcc", b}}
}

func rscenario(c rscen) *hk.Scenario {
	return &hk.Scenario{ID: "C16", Name: c.name(), MaxBound: c.Bound, MaxSteps: 400000, Body: func(ctx *hk.Ctx) { rbody(c, ctx) }}
}

func init() {
	hk.Register(&hk.Check{
		ID: "C16R",
		Rule: "E1 schedule exploration (-race): two prepared feedback reports (TWCC or RFC 8888, five packets each) are fed to gcc.SendSideBWE while Close runs on another goroutine; on every schedule each WriteRTCP returns nil or the documented closed error (never nil after closed), nothing panics or deadlocks, " +
			"no goroutine of the estimator survives Close, WriteRTCP after Close returns the closed error, and the C16 state invariant (bounds, callback = getter = pacer) holds at the end",
		Assumptions: []string{"vsched model and race annotations (litmus suite)"},
		Jobs: func(tier string) []string {
			var n []string
			for _, c := range rscenarios(tier) {
				n = append(n, c.name())
			}
			return n
		},
		Run: func(tier string, i int, deadline time.Time) *hk.JobResult {
			r := &hk.JobResult{Exhaustive: true}
			rscenario(rscenarios(tier)[i]).Explore(deadline, r)
			return r
		},
		Replay: func(raw json.RawMessage) string {
			var rp hk.E1Replay
			if err := json.Unmarshal(raw, &rp); err != nil {
				return "bad replay"
			}
			var c rscen
			if err := json.Unmarshal([]byte(rp.Scenario), &c); err != nil {
				return "bad scenario"
			}
			return rscenario(c).ReplaySchedule(rp.Schedule)
		},
		Bounds: func(tier string) map[string]any { return map[string]any{"scenarios": len(rscenarios(tier))} },
	})
}
