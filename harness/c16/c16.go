// Package c16 decides property C16 (GCC target bitrate stays finite, within
// bounds and consistent) by explicit-state search over send / feedback /
// advance / close histories on gcc.SendSideBWE under the virtual clock, with
// feedback produced by the library's own TWCC and RFC 8888 generators from
// enumerated arrival patterns.
package c16

import (
	"encoding/json"
	"errors"
	"fmt"
	"math"
	"strings"
	"time"

	"github.com/pion/interceptor"
	"github.com/pion/interceptor/pkg/gcc"
	"github.com/pion/interceptor/pkg/rfc8888"
	"github.com/pion/interceptor/pkg/twcc"
	"github.com/pion/interceptor/verifh/hk"
	"github.com/pion/interceptor/vsched"
	"github.com/pion/rtcp"
	"github.com/pion/rtp"
)

type config struct {
	Initial int    `json:"initial"`
	Min     int    `json:"min"`
	Max     int    `json:"max"`
	Pacer   string `json:"pacer"`  // leaky | recording (injected no-op pacer that records SetTargetBitrate)
	Kind    string `json:"stream"` // twcc | ccfb : how the local stream is negotiated
	Depth   int    `json:"depth"`
	First   int    `json:"first_symbol"`
	Order   string `json:"option_order,omitempty"`     // order in which the three bitrate options are given (default initial,min,max)
	Pump    int    `json:"pump_repetitions,omitempty"` // >0: cycle pumping job (cycles up to length Depth, repeated Pump times)
	Chunk   int    `json:"chunk,omitempty"`
}

var patterns = []string{"1ms-spacing", "identical-arrival-times", "decreasing-arrival-times", "growing-queueing-delay", "50%-lost", "all-but-last-lost", "duplicated-report", "report-delayed-by-one"}

var symNames = func() []string {
	n := []string{"Send(1)", "Send(5,1ms)", "Send(5,20ms)"}
	for _, p := range patterns {
		n = append(n, "Feedback("+p+")")
	}
	return append(n, "Advance(5ms)", "Advance(250ms)", "Advance(1s)", "Close")
}()

type sent struct {
	seq  uint16
	tseq uint16
	at   int64
}

// recordingPacer forwards like the no-op pacer and records the rates it is told.
type recordingPacer struct {
	*gcc.NoOpPacer
	rates    []int
	closeErr error
}

// Close fails if the configuration says so (an injected pacer may fail to close: the estimator must still end up closed).
func (p *recordingPacer) Close() error {
	_ = p.NoOpPacer.Close()
	return p.closeErr
}

var errPacerClose = errors.New("injected: pacer close failed")

func (p *recordingPacer) SetTargetBitrate(r int) {
	p.rates = append(p.rates, r)
	p.NoOpPacer.SetTargetBitrate(r)
}

type system struct {
	c        config
	bwe      *gcc.SendSideBWE
	w        interceptor.RTPWriter
	pacer    *recordingPacer
	cb       []int
	info     *interceptor.StreamInfo
	seq      uint16
	unacked  []sent
	prevFB   []rtcp.Packet // feedback withheld by "report-delayed-by-one"
	twccRec  *twcc.Recorder
	ccfbRec  *rfc8888.Recorder
	closed   bool
	t0       int64
	lastSeen int
	hold     bool // C16R: feedback is built but kept for the concurrent scenario
	held     [][]rtcp.Packet
}

type failure struct{ key, msg string }

func (f *failure) Error() string { return f.msg }
func fail(key, format string, a ...any) error {
	return &failure{key, fmt.Sprintf(format, a...)}
}

func newSystem(c config) (*system, error) {
	sys := &system{c: c, t0: vsched.NowNanos(), twccRec: twcc.NewRecorder(0x77), ccfbRec: rfc8888.NewRecorder()}
	var opts []gcc.Option
	if c.Initial > 0 {
		ini, mn, mx := gcc.SendSideBWEInitialBitrate(c.Initial), gcc.SendSideBWEMinBitrate(c.Min), gcc.SendSideBWEMaxBitrate(c.Max)
		switch c.Order {
		case "max,min,initial":
			opts = append(opts, mx, mn, ini)
		case "min,max,initial":
			opts = append(opts, mn, mx, ini)
		default:
			opts = append(opts, ini, mn, mx)
		}
	}
	if strings.HasPrefix(c.Pacer, "recording") {
		sys.pacer = &recordingPacer{NoOpPacer: gcc.NewNoOpPacer()}
		if c.Pacer == "recording-close-fails" {
			sys.pacer.closeErr = errPacerClose
		}
		opts = append(opts, gcc.SendSideBWEPacer(sys.pacer))
	}
	b, err := gcc.NewSendSideBWE(opts...)
	if err != nil {
		return nil, err
	}
	sys.bwe = b
	b.OnTargetBitrateChange(func(r int) {
		sys.cb = append(sys.cb, r)
		// what an application does with the notification: it reads the estimator's getters (the value itself is
		// compared once everything has settled; a newer estimate may already be in)
		_ = b.GetTargetBitrate()
		_ = b.GetStats()
	})
	sys.info = hk.StreamInfo(true, 1, c.Kind == "twcc")
	sys.w = b.AddStream(sys.info, &hk.RTPSink{})
	return sys, nil
}

func (sys *system) bounds() (int, int) {
	if sys.c.Initial == 0 {
		return 5_000, 50_000_000
	}
	return sys.c.Min, sys.c.Max
}

// invariant is evaluated in every state.
func (sys *system) invariant() error {
	r := sys.bwe.GetTargetBitrate()
	lo, hi := sys.bounds()
	if r <= 0 {
		return fail("C16:target-not-positive", "GetTargetBitrate() = %d", r)
	}
	if r < lo {
		return fail("C16:target-below-configured-minimum", "GetTargetBitrate() = %d, configured minimum %d (stats %v)", r, lo, sys.bwe.GetStats())
	}
	if r > hi {
		return fail("C16:target-above-configured-maximum", "GetTargetBitrate() = %d, configured maximum %d (stats %v)", r, hi, sys.bwe.GetStats())
	}
	for k, v := range sys.bwe.GetStats() {
		if f, ok := v.(float64); ok && (math.IsNaN(f) || math.IsInf(f, 0)) {
			return fail("C16:stat-not-finite", "GetStats()[%q] = %v", k, f)
		}
	}
	if n := len(sys.cb); n > 0 && sys.cb[n-1] != r {
		return fail("C16:callback-disagrees-with-getter", "the last value passed to OnTargetBitrateChange is %d, GetTargetBitrate() returns %d (callbacks %v)", sys.cb[n-1], r, tail(sys.cb))
	}
	if sys.pacer != nil {
		if fmt.Sprint(sys.pacer.rates) != fmt.Sprint(sys.cb) {
			return fail("C16:pacer-told-different-rates", "pacer was told %v, the change callback %v", tail(sys.pacer.rates), tail(sys.cb))
		}
	}
	for _, v := range sys.cb[sys.lastSeen:] {
		if v < lo || v > hi || v <= 0 {
			return fail("C16:callback-value-out-of-bounds", "OnTargetBitrateChange(%d) outside [%d,%d]", v, lo, hi)
		}
	}
	sys.lastSeen = len(sys.cb)
	return nil
}

func tail(l []int) []int {
	if len(l) > 6 {
		return l[len(l)-6:]
	}
	return l
}

func (sys *system) send(n int, spacing time.Duration) error {
	for i := 0; i < n; i++ {
		sys.seq++
		h := rtp.Header{Version: 2, PayloadType: 96, SequenceNumber: 1000 + sys.seq, SSRC: sys.info.SSRC, Timestamp: uint32(sys.seq) * 3000}
		tseq := 65530 + sys.seq // crosses the transport-cc wrap early
		if sys.c.Kind == "twcc" {
			_ = h.SetExtension(hk.TwccExtID, []byte{byte(tseq >> 8), byte(tseq)})
		}
		if _, err := sys.w.Write(&h, make([]byte, 1100), interceptor.Attributes{}); err != nil {
			return fail("C16:write-error", "Write: %v", err)
		}
		sys.unacked = append(sys.unacked, sent{h.SequenceNumber, tseq, vsched.NowNanos()})
		if spacing > 0 && i+1 < n {
			vsched.Advance(spacing)
		}
	}
	return nil
}

// feedback lets the packets sent since the last feedback "arrive" according to the pattern, asks the
// library's own recorder for the feedback and hands it to the estimator.
func (sys *system) feedback(pat int) error {
	pkts := sys.unacked
	sys.unacked = nil
	if len(pkts) == 0 {
		return nil
	}
	base := vsched.NowNanos() - int64(10*time.Millisecond) // arrivals lie shortly before the feedback is read
	var arrivals []int64
	for i, p := range pkts {
		var a int64
		switch pat {
		case 0, 6, 7:
			a = base + int64(i)*int64(time.Millisecond)
		case 1:
			a = base
		case 2:
			a = base - int64(i)*int64(time.Millisecond)
		case 3:
			a = p.at + int64(20*time.Millisecond) + int64(i)*int64(5*time.Millisecond)
		case 4:
			a = base + int64(i)*int64(time.Millisecond)
			if i%2 == 1 {
				a = -1
			}
		case 5:
			a = -1
			if i == len(pkts)-1 {
				a = base
			}
		}
		arrivals = append(arrivals, a)
	}
	var fb []rtcp.Packet
	if sys.c.Kind == "twcc" {
		for i, p := range pkts {
			if arrivals[i] >= 0 {
				sys.twccRec.Record(sys.info.SSRC, p.tseq, (arrivals[i]-sys.t0)/1000+1_000_000)
			}
		}
		fb = sys.twccRec.BuildFeedbackPacket()
	} else {
		for i, p := range pkts {
			if arrivals[i] >= 0 {
				sys.ccfbRec.AddPacket(time.Unix(0, arrivals[i]), sys.info.SSRC, p.seq, 0)
			}
		}
		if r := sys.ccfbRec.BuildReport(vsched.Now(), 1200); r != nil {
			fb = []rtcp.Packet{r}
		}
	}
	// through the wire: marshal and parse back, as the estimator would see it
	var wire []rtcp.Packet
	for _, p := range fb {
		b, err := p.Marshal()
		if err != nil {
			return nil // the generators' wire format is C05/C08's subject
		}
		q, err := rtcp.Unmarshal(b)
		if err != nil {
			return nil
		}
		wire = append(wire, q...)
	}
	deliver := func(l []rtcp.Packet) error {
		if len(l) == 0 {
			return nil
		}
		if sys.hold {
			sys.held = append(sys.held, l)
			return nil
		}
		if err := sys.bwe.WriteRTCP(l, interceptor.Attributes{}); err != nil {
			return fail("C16:feedback-rejected", "WriteRTCP returned %v for feedback generated by the library itself", err)
		}
		return nil
	}
	switch pat {
	case 6:
		if err := deliver(wire); err != nil {
			return err
		}
		return deliver(wire)
	case 7:
		// this report is withheld and delivered after the next one
		prev := sys.prevFB
		sys.prevFB = wire
		_ = prev
		return nil
	}
	if err := deliver(wire); err != nil {
		return err
	}
	if sys.prevFB != nil {
		prev := sys.prevFB
		sys.prevFB = nil
		return deliver(prev)
	}
	return nil
}

func (sys *system) apply(sym int) (string, error) {
	switch {
	case sym == 0:
		if err := sys.send(1, 0); err != nil {
			return "", err
		}
	case sym == 1:
		if err := sys.send(5, time.Millisecond); err != nil {
			return "", err
		}
	case sym == 2:
		if err := sys.send(5, 20*time.Millisecond); err != nil {
			return "", err
		}
	case sym < 3+len(patterns):
		if err := sys.feedback(sym - 3); err != nil {
			return "", err
		}
	case sym == 3+len(patterns):
		vsched.Advance(5 * time.Millisecond)
	case sym == 4+len(patterns):
		vsched.Advance(250 * time.Millisecond)
	case sym == 5+len(patterns):
		vsched.Advance(time.Second)
	default:
		sys.closed = true
		err := sys.bwe.Close()
		switch {
		case sys.pacer != nil && sys.pacer.closeErr != nil:
			if !errors.Is(err, errPacerClose) {
				return "", fail("C16:close-error", "Close returned %v, the pacer's Close failed with %v", err, errPacerClose)
			}
		case err != nil:
			return "", fail("C16:close-error", "Close: %v", err)
		}
		vsched.Quiesce()
		err = sys.bwe.WriteRTCP([]rtcp.Packet{&rtcp.TransportLayerCC{}}, nil)
		if !errors.Is(err, gcc.ErrSendSideBWEClosed) {
			return "", fail("C16:write-after-close", "WriteRTCP after Close returned %v, want ErrSendSideBWEClosed", err)
		}
		// real feedback about what is still unacknowledged must be refused in the same way
		sys.hold, sys.held = true, nil
		ferr := sys.feedback(0)
		sys.hold = false
		if ferr != nil {
			return "", ferr
		}
		for _, l := range sys.held {
			if err := sys.bwe.WriteRTCP(l, nil); !errors.Is(err, gcc.ErrSendSideBWEClosed) {
				return "", fail("C16:write-after-close", "WriteRTCP of feedback after Close returned %v, want ErrSendSideBWEClosed", err)
			}
		}
		sys.held = nil
		return "c", nil
	}
	vsched.Quiesce()
	return fmt.Sprint(len(sys.cb)), sys.invariant()
}

type replay struct {
	Config  config   `json:"config"`
	History []string `json:"history"`
	Syms    []int    `json:"syms"`
}

func describe(c config, h []int) replay {
	r := replay{Config: c, Syms: h}
	for _, a := range h {
		r.History = append(r.History, symNames[a])
	}
	return r
}

func exec(c config, hist []int) hk.Step {
	var st hk.Step
	res := vsched.Run(vsched.Options{Strategy: vsched.BackgroundFirst{}, MaxSteps: 3_000_000}, func() {
		sys, err := newSystem(c)
		if err != nil {
			vsched.Failf("setup: %v", err)
			return
		}
		for i, a := range hist {
			if sys.closed {
				st.Dead = true
				return
			}
			out, err := sys.apply(a)
			if err != nil {
				if i == len(hist)-1 {
					key := "C16:other"
					if f, ok := err.(*failure); ok {
						key = f.key
					}
					st.Violation = &hk.Violation{Key: key, Message: err.Error(), Replay: describe(c, hist)}
				} else {
					st.Dead = true
				}
				return
			}
			st.Outcome = out
		}
		st.Nontrivial = len(sys.cb) > 0
		st.Key = hk.DeepHash(sys.bwe) ^ hk.EnvHash() ^ hk.HashInts(int64(len(sys.unacked)), int64(sys.seq), int64(len(sys.prevFB)), int64(len(sys.cb)))
		if sys.closed {
			st.Dead = true
		} else {
			_ = sys.bwe.Close()
		}
	})
	if st.Violation == nil {
		switch {
		case len(res.Panics) > 0:
			p := res.Panics[0]
			st.Violation = &hk.Violation{Key: "C16:panic", Message: "panic in " + p.Name + ": " + p.Value + "\n" + p.Stack, Replay: describe(c, hist)}
		case res.Deadlock:
			st.Violation = &hk.Violation{Key: "C16:feedback-blocks", Message: fmt.Sprintf("a call never returned: %+v", res.Blocked), Replay: describe(c, hist)}
		case res.StepLimit:
			st.Violation = &hk.Violation{Key: "C16:livelock", Message: "step budget exceeded: " + res.StepWhere, Replay: describe(c, hist)}
		case len(res.Failures) > 0:
			st.Violation = &hk.Violation{Key: "C16:harness", Message: res.Failures[0], Replay: describe(c, hist)}
		}
	}
	return st
}

// pumpSyms is the reduced alphabet of the pumping jobs.
var pumpSyms = []int{0, 2, 3, 4, 6, 7, 4 + len(patterns)} // Send(1), Send(5,20ms), FB(1ms), FB(identical), FB(growing delay), FB(50% lost), Advance(250ms)

const pumpChunks = 4

// pumpCycles enumerates every cycle of length 1..maxLen over pumpSyms.
func pumpCycles(maxLen int) [][]int {
	var out [][]int
	var gen func(cur []int)
	gen = func(cur []int) {
		if len(cur) > 0 {
			out = append(out, append([]int(nil), cur...))
		}
		if len(cur) == maxLen {
			return
		}
		for _, a := range pumpSyms {
			gen(append(cur, a))
		}
	}
	gen(nil)
	return out
}

// pump repeats one cycle on one estimator and evaluates the invariant after every operation: long
// histories (hundreds of feedback rounds) that the depth-bounded search cannot reach.
func pump(c config, cycle []int) *hk.Violation {
	var v *hk.Violation
	hist := []int{}
	res := vsched.Run(vsched.Options{Strategy: vsched.BackgroundFirst{}, MaxSteps: 50_000_000}, func() {
		sys, err := newSystem(c)
		if err != nil {
			vsched.Failf("setup: %v", err)
			return
		}
		for rep := 0; rep < c.Pump; rep++ {
			for _, a := range cycle {
				hist = append(hist, a)
				if _, err := sys.apply(a); err != nil {
					key := "C16:other"
					if f, ok := err.(*failure); ok {
						key = f.key
					}
					rp := describe(c, cycle)
					v = &hk.Violation{Key: key, Message: fmt.Sprintf("after %d repetitions of the cycle %v: %v", rep+1, rp.History, err), Replay: rp}
					return
				}
			}
		}
		_ = sys.bwe.Close()
	})
	if v == nil {
		switch {
		case len(res.Panics) > 0:
			v = &hk.Violation{Key: "C16:panic", Message: "panic: " + res.Panics[0].Value + "\n" + res.Panics[0].Stack, Replay: describe(c, cycle)}
		case res.Deadlock:
			v = &hk.Violation{Key: "C16:feedback-blocks", Message: fmt.Sprintf("a call never returned: %+v", res.Blocked), Replay: describe(c, cycle)}
		case res.StepLimit:
			v = &hk.Violation{Key: "C16:livelock", Message: "step budget exceeded: " + res.StepWhere, Replay: describe(c, cycle)}
		}
	}
	return v
}

func configs(tier string) []config {
	d := 4
	if tier == "thorough" {
		d = 5
	}
	base := []config{
		{Pacer: "recording", Kind: "twcc"},
		{Initial: 300_000, Min: 200_000, Max: 1_000_000, Pacer: "recording", Kind: "twcc"},
		{Initial: 1_000_000, Min: 1_000_000, Max: 1_000_000, Pacer: "recording", Kind: "ccfb"},
		{Initial: 10_000, Min: 5_000, Max: 50_000_000, Pacer: "leaky", Kind: "twcc"},
		{Initial: 300_000, Min: 200_000, Max: 1_000_000, Pacer: "leaky", Kind: "ccfb"},
		{Initial: 2_000_000, Min: 150_000, Max: 2_500_000, Pacer: "recording", Kind: "ccfb"},
	}
	var out []config
	// limits outside the package defaults (5 kbit/s .. 50 Mbit/s), options in several orders: the configured
	// limits are the limits whatever the order
	for _, c := range []config{
		{Initial: 3000, Min: 1000, Max: 3000, Pacer: "recording", Kind: "twcc", Order: "max,min,initial"},
		{Initial: 3000, Min: 1000, Max: 3000, Pacer: "recording", Kind: "twcc"},
		{Initial: 60_000_000, Min: 60_000_000, Max: 100_000_000, Pacer: "recording", Kind: "twcc", Order: "min,max,initial"},
		{Initial: 250_000_000, Min: 200_000_000, Max: 300_000_000, Pacer: "recording", Kind: "twcc"},
	} {
		c.Depth = d - 1
		for a := 0; a < 3; a++ {
			c.First = a
			out = append(out, c)
		}
	}
	// an injected pacer whose Close fails: the estimator must be closed all the same
	for a := 0; a < 3; a++ {
		out = append(out, config{Initial: 300_000, Min: 200_000, Max: 1_000_000, Pacer: "recording-close-fails", Kind: "twcc", Depth: d - 1, First: a})
	}
	for _, c := range base {
		c.Depth = d
		for a := 0; a < 3; a++ { // every interesting history starts with a send
			c.First = a
			out = append(out, c)
		}
	}
	// cycle pumping: every cycle of length <= 4 over the reduced alphabet, repeated 30 (thorough 60) times
	reps := 30
	if tier == "thorough" {
		reps = 60
	}
	for _, c := range append(base, config{Initial: 2_000_000, Min: 1_000_000, Max: 3_000_000, Pacer: "recording", Kind: "twcc"}) {
		c.Depth, c.Pump = 4, reps
		for ch := 0; ch < pumpChunks; ch++ {
			c.Chunk = ch
			out = append(out, c)
		}
	}
	return out
}

func init() {
	hk.Register(&hk.Check{
		ID: "C16",
		Rule: "E2 explicit-state search: all histories up to the depth over 15 symbols (send 1 / 5 packets at 1 ms / 5 packets at 20 ms; feedback for everything sent since the last feedback under 8 arrival patterns - 1 ms spacing, identical times, decreasing times, growing queueing delay, 50% lost, all but the last lost, report delivered twice, report delayed behind the next one - generated by the library's own twcc.Recorder or rfc8888.Recorder and passed through Marshal/Unmarshal; advance 5 ms / 250 ms / 1 s; Close) on gcc.SendSideBWE per (initial,min,max) configuration, pacer (leaky bucket or injected recording pacer) and feedback kind, under the virtual clock; " +
			"invariant in every state: target finite, positive, within [min,max], equal to the last value given to the change callback, pacer told the same sequence; non-trivial = the target changed at least once; states distinct by deep hash of the estimator + clock",
		Assumptions: []string{"vsched model (litmus suite)", "callback order is spawn order of the callback goroutines (DESIGN.md section 5)"},
		Jobs: func(tier string) []string {
			var n []string
			for _, c := range configs(tier) {
				b, _ := json.Marshal(c)
				n = append(n, string(b))
			}
			return n
		},
		Run: func(tier string, i int, deadline time.Time) *hk.JobResult {
			c := configs(tier)[i]
			if c.Pump > 0 {
				r := &hk.JobResult{Exhaustive: true, Outcomes: map[string]int{}, Bounds: map[string]any{"cycle_length": c.Depth, "repetitions": c.Pump, "alphabet": len(pumpSyms)}}
				keys := map[string]bool{}
				for n, cyc := range pumpCycles(c.Depth) {
					if n%pumpChunks != c.Chunk {
						continue
					}
					if !deadline.IsZero() && time.Now().After(deadline) {
						r.Exhaustive = false
						break
					}
					v := pump(c, cyc)
					r.Executions++
					r.States++
					r.Transitions += int64(c.Pump * len(cyc))
					r.Nontrivial++
					if v != nil {
						r.Outcomes["violation"]++
						if !keys[v.Key] && len(keys) < 6 {
							keys[v.Key] = true
							r.Violations = append(r.Violations, *v)
						}
					} else {
						r.Outcomes["ok"]++
					}
				}
				r.Samples = append(r.Samples, map[string]any{"config": c, "cycle": describe(c, []int{2, 6, 2, 3}).History, "repetitions": c.Pump})
				return r
			}
			r := &hk.JobResult{Exhaustive: true, Bounds: map[string]any{"depth": c.Depth + 1, "alphabet": len(symNames)}}
			s := &hk.Search{Alphabet: len(symNames), Depth: c.Depth + 1, Dedup: true, Deadline: deadline, Prefix: []int{c.First},
				Exec:     func(h []int) hk.Step { return exec(c, h) },
				Describe: func(h []int) any { return describe(c, h) }}
			s.Run().Fill(r)
			return r
		},
		Replay: func(raw json.RawMessage) string {
			var rp replay
			if err := json.Unmarshal(raw, &rp); err != nil {
				return "bad replay"
			}
			if rp.Config.Pump > 0 {
				if v := pump(rp.Config, rp.Syms); v != nil {
					return v.Message
				}
				return ""
			}
			if st := exec(rp.Config, rp.Syms); st.Violation != nil {
				return st.Violation.Message
			}
			return ""
		},
		Bounds: func(tier string) map[string]any {
			return map[string]any{"configurations": len(configs(tier)), "alphabet": len(symNames)}
		},
	})
}
