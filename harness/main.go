// Command verifh is the harness binary: it is compiled inside the repository
// module (through the build overlay) against the instrumented sources.
//
//	verifh check <ID> <tier> [workers] [seed]   run all jobs of a check in worker processes, print the merged report
//	verifh job <ID> <tier> <n>                  run one job (worker)
//	verifh replay <ID> <file>                   re-execute a replay artefact
//	verifh litmus                               vsched/vrewrite self-test
package main

import (
	"encoding/json"
	"fmt"
	"os"
	"runtime"
	"strconv"
	"strings"

	_ "github.com/pion/interceptor/verifh/c01"
	_ "github.com/pion/interceptor/verifh/c02"
	_ "github.com/pion/interceptor/verifh/c03"
	_ "github.com/pion/interceptor/verifh/c04"
	_ "github.com/pion/interceptor/verifh/c05"
	_ "github.com/pion/interceptor/verifh/c06"
	_ "github.com/pion/interceptor/verifh/c07"
	_ "github.com/pion/interceptor/verifh/c08"
	_ "github.com/pion/interceptor/verifh/c09"
	_ "github.com/pion/interceptor/verifh/c10"
	_ "github.com/pion/interceptor/verifh/c11"
	_ "github.com/pion/interceptor/verifh/c12"
	_ "github.com/pion/interceptor/verifh/c13"
	_ "github.com/pion/interceptor/verifh/c14"
	_ "github.com/pion/interceptor/verifh/c15"
	_ "github.com/pion/interceptor/verifh/c16"
	_ "github.com/pion/interceptor/verifh/c17"
	_ "github.com/pion/interceptor/verifh/c18"
	_ "github.com/pion/interceptor/verifh/c19"
	_ "github.com/pion/interceptor/verifh/c20"
	"github.com/pion/interceptor/verifh/dbg"
	"github.com/pion/interceptor/verifh/hk"
	"github.com/pion/interceptor/verifh/litmus"
	"github.com/pion/interceptor/vsched"
)

func main() {
	if len(os.Args) < 2 {
		fmt.Println("verifh: no command")
		os.Exit(2)
	}
	switch os.Args[1] {
	case "dbg":
		dbg.Run(os.Args[2])
	case "litmus":
		r := litmus.Run()
		fmt.Printf("litmus: cases=%d executions=%d failed=%d race=%v\n", r.Cases, r.Executions, len(r.Failed), vsched.RaceEnabled)
		for _, f := range r.Failed {
			fmt.Println("  FAIL", f)
		}
		if len(r.Failed) > 0 {
			os.Exit(1)
		}
	case "check":
		id, tier := os.Args[2], os.Args[3]
		workers := runtime.NumCPU()
		if len(os.Args) > 4 {
			workers, _ = strconv.Atoi(os.Args[4])
		}
		var seed int64
		if len(os.Args) > 5 {
			seed, _ = strconv.ParseInt(os.Args[5], 10, 64)
		}
		rep := hk.RunCheck(id, tier, workers, seed, vsched.RaceEnabled)
		enc := json.NewEncoder(os.Stdout)
		enc.SetIndent("", " ")
		_ = enc.Encode(rep)
	case "job":
		n, _ := strconv.Atoi(os.Args[4])
		os.Exit(hk.RunJobProcess(os.Args[2], os.Args[3], n))
	case "replay":
		c := hk.Lookup(os.Args[2])
		if c == nil || c.Replay == nil {
			fmt.Println("no replay for", os.Args[2])
			os.Exit(2)
		}
		raw, err := os.ReadFile(os.Args[3])
		if err != nil {
			fmt.Println(err)
			os.Exit(2)
		}
		var art struct {
			Replay json.RawMessage `json:"replay"`
		}
		if err := json.Unmarshal(raw, &art); err != nil || art.Replay == nil {
			art.Replay = raw
		}
		if msg := c.Replay(art.Replay); msg != "" {
			for _, p := range []string{"bad replay", "bad scenario", "unknown scenario", "UNREPRODUCIBLE", "input index out of range"} {
				if strings.HasPrefix(msg, p) {
					fmt.Println("REPLAY-ERROR:", msg)
					os.Exit(2)
				}
			}
			fmt.Println("REPRODUCED:", msg)
			os.Exit(1)
		}
		fmt.Println("replay passes (no violation)")
	default:
		fmt.Println("verifh: unknown command", os.Args[1])
		os.Exit(2)
	}
}
