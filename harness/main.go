// Command verifh is the harness binary: it is compiled inside the repository
// module (through the build overlay) against the instrumented sources.
package main

import (
	"fmt"
	"os"
	"time"

	"github.com/pion/interceptor"
	"github.com/pion/interceptor/pkg/nack"
	"github.com/pion/interceptor/verifh/litmus"
	"github.com/pion/interceptor/vsched"
	"github.com/pion/rtcp"
	"github.com/pion/rtp"
)

func main() {
	if len(os.Args) > 1 && os.Args[1] == "smoke" {
		smoke()
		return
	}
	if len(os.Args) > 1 && os.Args[1] == "litmus" {
		r := litmus.Run()
		fmt.Printf("litmus: cases=%d executions=%d failed=%d race=%v\n", r.Cases, r.Executions, len(r.Failed), vsched.RaceEnabled)
		for _, f := range r.Failed {
			fmt.Println("  FAIL", f)
		}
		if len(r.Failed) > 0 {
			os.Exit(1)
		}
		return
	}
	fmt.Println("verifh: no command")
}

func smoke() {
	var got []rtcp.Packet
	res := vsched.Run(vsched.Options{Strategy: vsched.BackgroundFirst{}}, func() {
		f, _ := nack.NewGeneratorInterceptor()
		i, _ := f.NewInterceptor("")
		i.BindRTCPWriter(interceptor.RTCPWriterFunc(func(pkts []rtcp.Packet, _ interceptor.Attributes) (int, error) {
			got = append(got, pkts...)
			return 0, nil
		}))
		seqs := []uint16{10, 11, 13, 16}
		k := 0
		rd := i.BindRemoteStream(&interceptor.StreamInfo{SSRC: 1, RTCPFeedback: []interceptor.RTCPFeedback{{Type: "nack"}}},
			interceptor.RTPReaderFunc(func(b []byte, a interceptor.Attributes) (int, interceptor.Attributes, error) {
				p := rtp.Packet{Header: rtp.Header{Version: 2, SSRC: 1, SequenceNumber: seqs[k]}}
				k++
				n, err := p.MarshalTo(b)
				return n, a, err
			}))
		buf := make([]byte, 1500)
		for range seqs {
			rd.Read(buf, interceptor.Attributes{})
		}
		vsched.Advance(150 * time.Millisecond)
		fmt.Println("live threads before close:", len(vsched.LiveNonApp()))
		i.Close()
		vsched.Quiesce()
		fmt.Println("live threads after close:", len(vsched.LiveNonApp()))
	})
	fmt.Printf("result: %+v\n", *res)
	for _, p := range got {
		fmt.Printf("rtcp: %v\n", p)
	}
}
