// Package c08 decides property C08 (RFC 8888 reports reflect the reception
// history and respect the size limit) by explicit-state search over
// arrival/report histories on rfc8888.Recorder and, at smaller depth, through
// the SenderInterceptor under the virtual clock. Reports are judged from their
// marshalled bytes by the harness's own decoder against a reference model
// written from the property statement.
package c08

import (
	"encoding/json"
	"fmt"
	"time"

	"github.com/pion/interceptor/verifh/hk"
	"github.com/pion/interceptor/vsched"
)

type config struct {
	Name   string  `json:"name"`
	Mode   string  `json:"mode"`
	Starts []int64 `json:"starts"` // true number of the first packet of each stream
	Ops    []op    `json:"ops"`    // alphabet, simplest first
	Depth  int     `json:"depth"`
}

type replay struct {
	Mode    string   `json:"mode"`
	Starts  []int64  `json:"starts"`
	History []op     `json:"history"`
	Text    []string `json:"text,omitempty"`
}

func describe(c config, hist []op) replay {
	r := replay{Mode: c.Mode, Starts: c.Starts, History: hist}
	for _, o := range hist {
		r.Text = append(r.Text, o.String())
	}
	return r
}

// exec runs one history on a fresh recorder / interceptor.
func exec(c config, hist []op) hk.Step {
	var step hk.Step
	res := vsched.Run(vsched.Options{Strategy: vsched.BackgroundFirst{}, MaxSteps: 2_000_000}, func() {
		s, err := newSystem(c.Mode, c.Starts)
		if err != nil {
			vsched.Failf("setup: %v", err)
			return
		}
		defer s.close()
		for i, o := range hist {
			out, fail, skip := s.apply(o)
			if skip {
				step.Dead = true
				return
			}
			if fail != nil {
				if i == len(hist)-1 {
					step.Violation = &hk.Violation{Key: fail.key, Message: fail.msg, Replay: describe(c, hist)}
				} else {
					step.Dead = true // the prefix failed when it was explored as a history of its own
				}
				return
			}
			if i == len(hist)-1 {
				step.Outcome = out
				step.Nontrivial = o.K == "build" && nontrivial(out)
			}
		}
		var root any = s.rec
		if c.Mode == modeInterceptor {
			root = s.icpt
		}
		key := hk.DeepHash(root) ^ hk.EnvHash() ^ hk.HashInts(s.clock, s.nowNS)
		for _, st := range s.st {
			key = key*31 + st.hash()
		}
		step.Key = key
	})
	if step.Violation == nil {
		if msg := runFailure(res); msg != "" {
			step.Dead = false
			step.Violation = &hk.Violation{Key: "C08:runtime", Message: msg, Replay: describe(c, hist)}
		}
	}
	return step
}

// nontrivial: the report lists at least one metric block.
func nontrivial(out string) bool {
	for i := 0; i+1 < len(out); i++ {
		if out[i+1] == '/' && out[i] >= '1' && out[i] <= '9' {
			return true
		}
	}
	return false
}

func runFailure(res *vsched.Result) string {
	switch {
	case len(res.Panics) > 0:
		return "panic: " + res.Panics[0].Value + "\n" + res.Panics[0].Stack
	case res.Deadlock:
		return fmt.Sprintf("deadlock: %+v", res.Blocked)
	case res.StepLimit:
		return "step budget exceeded (loops forever?): " + res.StepWhere
	case len(res.Failures) > 0:
		return res.Failures[0]
	case len(res.Blocked) > 0:
		return fmt.Sprintf("goroutines still alive after Close: %+v", res.Blocked)
	}
	return ""
}

const (
	ms = int64(time.Millisecond)
	// 2/1024 s exactly: the offset is 2 at this distance and 1 one nanosecond earlier
	twoUnits = int64(1953125)
	// largest distance still encoded as a number (0x1FFD); one nanosecond more is "too large"
	lastExact = int64(7998046874)
	sec       = int64(time.Second)
)

func adds(streams []int, ds []int64, dts []int64) []op {
	var out []op
	for _, d := range ds {
		for _, dt := range dts {
			for _, s := range streams {
				out = append(out, op{K: "add", S: s, D: d, Dt: dt})
			}
		}
	}
	return out
}

func builds(dts []int64, maxes []int) []op {
	var out []op
	for _, m := range maxes {
		for _, dt := range dts {
			out = append(out, op{K: "build", Dt: dt, Max: m})
		}
	}
	return out
}

func cat(l ...[]op) []op {
	var out []op
	for _, x := range l {
		out = append(out, x...)
	}
	return out
}

func configs(tier string) []config {
	thorough := tier == "thorough"
	var out []config
	one := []int{0}
	two := []int{0, 1}
	starts := []int64{1000, 65534, 0}
	names := map[int64]string{1000: "mid", 65534: "wrap", 0: "zero"}

	// S: cursor / truncation structure on one stream, every arrival 1 ms after the previous one,
	// reports 1 ms after the last arrival, all the small maximum sizes around the header and padding edges.
	seqs := []int64{1, 2, 0, -1, -2, -3}
	sizeSets := [][]int{{1200, 24, 26}, {20, 22, 28, 30}, {0, 12, 19, 36, 44}}
	dS := 7
	if thorough {
		dS = 8
	}
	for _, st := range starts {
		for i, sizes := range sizeSets {
			out = append(out, config{Name: fmt.Sprintf("S-%s-sizes%d", names[st], i), Mode: modeRecorder, Starts: []int64{st},
				Ops: cat(adds(one, seqs, []int64{ms}), builds([]int64{ms}, sizes)), Depth: dS})
		}
	}
	if thorough {
		// any mixture of the maximum sizes within one history
		all := []int{1200, 0, 12, 19, 20, 22, 24, 26, 28, 30, 36, 44}
		for _, st := range starts {
			out = append(out, config{Name: "S-" + names[st] + "-allsizes", Mode: modeRecorder, Starts: []int64{st},
				Ops: cat(adds(one, seqs, []int64{ms}), builds([]int64{ms}, all)), Depth: 6})
		}
	}
	// K: medium jumps that overflow the mid-size budgets (4, 8, 12 metric blocks) in one step, late fills below them.
	dK := 6
	if thorough {
		dK = 7
	}
	for _, st := range starts {
		out = append(out, config{Name: "K-" + names[st], Mode: modeRecorder, Starts: []int64{st},
			Ops: cat(adds(one, []int64{1, 9, 0, -1, -4}, []int64{ms}), builds([]int64{ms}, []int{28, 36, 44, 1200})), Depth: dK})
	}
	// J: forward jumps up to 2^15-1 (and the RFC's 16384 reports per block), small and huge maximum sizes.
	dJ := 5
	if thorough {
		dJ = 6
	}
	for _, st := range starts[:2] {
		out = append(out, config{Name: "J-" + names[st], Mode: modeRecorder, Starts: []int64{st},
			Ops: cat(adds(one, []int64{1, 0x7FFF, 16383, 16384, -1}, []int64{ms}), builds([]int64{ms}, []int{1200, 26, 70000, 32788})), Depth: dJ})
	}
	// T: two streams sharing the budget.
	dT := 6
	if thorough {
		dT = 7
	}
	for i, sizes := range [][]int{{1200, 36, 44}, {28, 30, 40, 46}} {
		out = append(out, config{Name: fmt.Sprintf("T-sizes%d", i), Mode: modeRecorder, Starts: []int64{65534, 1000},
			Ops: cat(adds(two, []int64{1, 2, 0, -1}, []int64{ms}), builds([]int64{ms}, sizes)), Depth: dT})
	}
	if thorough {
		out = append(out, config{Name: "T3", Mode: modeRecorder, Starts: []int64{65534, 1000, 0},
			Ops: cat(adds([]int{0, 1, 2}, []int64{1, 2, -1}, []int64{ms}), builds([]int64{ms}, []int{1200, 44, 50, 52})), Depth: 6})
	}
	// A: arrival time offsets: rounding edge, first copy of duplicates, saturation edge, wrap of a 16-bit
	// intermediate, arrivals after the report instant.
	dA := 5
	if thorough {
		dA = 6
	}
	profiles := []struct {
		name      string
		dts, nows []int64
	}{
		{"fine", []int64{0, ms, twoUnits, twoUnits - 1}, []int64{0, -ms, 976563}},
		{"sat", []int64{0, 1, lastExact}, []int64{0, 1, -1}},
		{"wrap", []int64{0, 8 * sec, 56 * sec, 64*sec + 500*ms}, []int64{0, 64 * sec, 70 * sec}},
		// between the largest encodable offset (0x1FFD/1024 s) and 8 s everything is "too large" (0x1FFE)
		{"sat8", []int64{0, 7999*ms + 500_000, 8*sec - 1, 8 * sec}, []int64{0, 1}},
		// an arrival clock that steps backwards between packets (a wall clock that was set back): every packet
		// keeps the arrival time it was recorded with
		{"back", []int64{0, 500 * ms, -400 * ms}, []int64{0, 250 * ms}},
	}
	for _, p := range profiles {
		out = append(out, config{Name: "A-" + p.name, Mode: modeRecorder, Starts: []int64{65534},
			Ops: cat(adds(one, []int64{1, 0, -1}, p.dts), builds(p.nows, []int{1200})), Depth: dA})
	}
	// I: the same histories through the interceptor (fixed maximum size 1200, reports on the interval).
	dI := 5
	if thorough {
		dI = 6
	}
	out = append(out, config{Name: "I-two", Mode: modeInterceptor, Starts: []int64{65534, 1000},
		Ops: cat(adds(two, []int64{1, 2, 0, -1}, []int64{ms}), builds([]int64{ms, -ms}, []int{icptMaxSize})), Depth: dI})
	out = append(out, config{Name: "I-time", Mode: modeInterceptor, Starts: []int64{65534},
		Ops: cat(adds(one, []int64{1, 0}, []int64{0, 500 * ms, 8 * sec, 64*sec + 500*ms}), builds([]int64{0, -ms, 500 * ms}, []int{icptMaxSize})), Depth: dI})
	// clock readings that are not whole microseconds, around the rounding edge of the 1/1024 s unit and around
	// the report instant itself
	out = append(out, config{Name: "I-fine", Mode: modeInterceptor, Starts: []int64{65534},
		Ops: cat(adds(one, []int64{1, 0}, []int64{0, 1, twoUnits - 1, ms + 999}), builds([]int64{0, -1, twoUnits - 1, 976563}, []int{icptMaxSize})), Depth: dI})
	return out
}

func jobs(tier string) []string {
	var names []string
	for _, c := range configs(tier) {
		names = append(names, c.Name)
	}
	return names
}

func run(tier string, i int, deadline time.Time) *hk.JobResult {
	c := configs(tier)[i]
	r := &hk.JobResult{Exhaustive: true, Bounds: map[string]any{"depth": c.Depth, "alphabet": len(c.Ops), "mode": c.Mode, "starts": c.Starts}}
	s := &hk.Search{Alphabet: len(c.Ops), Depth: c.Depth, Dedup: true, Deadline: deadline, MaxViolations: 12,
		Exec:     func(h []int) hk.Step { return exec(c, toOps(c, h)) },
		Describe: func(h []int) any { return describe(c, toOps(c, h)) }}
	st := s.Run()
	st.Fill(r)
	return r
}

func toOps(c config, h []int) []op {
	out := make([]op, len(h))
	for i, a := range h {
		out[i] = c.Ops[a]
	}
	return out
}

func replayFn(raw json.RawMessage) string {
	var rp replay
	if err := json.Unmarshal(raw, &rp); err != nil {
		return "bad replay: " + err.Error()
	}
	st := exec(config{Mode: rp.Mode, Starts: rp.Starts}, rp.History)
	if st.Violation != nil {
		return st.Violation.Message
	}
	return ""
}

func init() {
	hk.Register(&hk.Check{
		ID: "C08",
		Rule: "E2 explicit-state search: all histories up to the depth over add(stream, offset from highest, clock step) and build(report instant offset, maximum size) " +
			"on rfc8888.Recorder (and through rfc8888.SenderInterceptor with its fixed 1200-byte maximum), per start number; the marshalled report is decoded by the harness's own " +
			"RFC 8888 decoder and compared with a reference written from the statement (true 64-bit numbers, integer nanoseconds); " +
			"a transition is non-trivial if it is a build whose report lists at least one metric block; states are distinct by deep hash of recorder/interceptor + reference + clock",
		Assumptions: []string{
			"consecutive true sequence numbers of a stream differ by less than 2^15 and are non-negative (C20 reconstructs exactly these streams)",
			"a first-time arrival counts as pushed out by the size limit only below highest-2*floor((max-12-8s)/(4s))+1: the even per-stream share of 32-bit padded metric blocks",
			"the begin of a range is not constrained beyond contiguity; the model's acknowledged cursor follows the begin the report chose (DESIGN.md section 5)",
			"the report timestamp field must equal the report instant in NTP middle-32 format within one unit (needed to give the offsets a meaning; additional fact)",
			"ECN bits are passed through the recorder but not judged (not part of the statement)",
			"vsched channel/timer model for the interceptor jobs (litmus suite)",
		},
		Jobs:   jobs,
		Run:    run,
		Replay: replayFn,
		Bounds: func(tier string) map[string]any {
			cs := configs(tier)
			m := map[string]any{"configurations": len(cs), "tier": tier}
			for _, c := range cs {
				m[c.Name] = fmt.Sprintf("alphabet %d, depth %d", len(c.Ops), c.Depth)
			}
			return m
		},
	})
}
