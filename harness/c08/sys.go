package c08

import (
	"bytes"
	"fmt"
	"sort"
	"time"

	"github.com/pion/interceptor"
	"github.com/pion/interceptor/pkg/rfc8888"
	"github.com/pion/interceptor/verifh/hk"
	"github.com/pion/interceptor/vsched"
	"github.com/pion/rtcp"
)

// op is one step of a history.
//
//	add:   a packet of stream S arrives. Its true number is highest+D (the first packet of a stream has the
//	       stream's start number and must be written as D=+1); the harness clock advances by Dt ns first and
//	       the new value is the arrival instant.
//	build: a report is built at instant clock+Dt (the clock itself only moves forward) with maximum size Max.
type op struct {
	K   string `json:"k"`
	S   int    `json:"s,omitempty"`
	D   int64  `json:"d,omitempty"`
	Dt  int64  `json:"dt,omitempty"`
	Max int    `json:"max,omitempty"`
}

func (o op) String() string {
	if o.K == "add" {
		return fmt.Sprintf("add(s%d,%+d,+%dns)", o.S, o.D, o.Dt)
	}
	return fmt.Sprintf("build(%+dns,max=%d)", o.Dt, o.Max)
}

const (
	modeRecorder    = "recorder"
	modeInterceptor = "interceptor"
	clockStart      = int64(1_700_000_000) * int64(time.Second)
	interval        = 100 * time.Millisecond
	icptMaxSize     = 1200 // SenderInterceptor's fixed maximum report size
)

type system struct {
	mode  string
	rec   *rfc8888.Recorder
	icpt  interceptor.Interceptor
	sink  *hk.RTCPSink
	feeds []*hk.FeedReader
	rds   []interceptor.RTPReader
	st    []*stream
	clock int64 // harness clock (ns since the Unix epoch): source of arrival and report instants
	nowNS int64 // what the interceptor's now function returns
	buf   []byte
	// the report handed out by the previous build and what it marshalled to then
	prevRep *rtcp.CCFeedbackReport
	prevRaw []byte
}

func newSystem(mode string, starts []int64) (*system, error) {
	s := &system{mode: mode, clock: clockStart, nowNS: clockStart}
	for k, st := range starts {
		s.st = append(s.st, newStream(uint32(0x1000+0x111*k), st))
	}
	if mode == modeRecorder {
		s.rec = rfc8888.NewRecorder()
		return s, nil
	}
	f, err := rfc8888.NewSenderInterceptor(
		rfc8888.SenderNow(func() time.Time { return time.Unix(0, s.nowNS) }),
		rfc8888.SendInterval(interval))
	if err != nil {
		return nil, err
	}
	if s.icpt, err = f.NewInterceptor(""); err != nil {
		return nil, err
	}
	s.sink = &hk.RTCPSink{}
	s.buf = make([]byte, 1500)
	s.icpt.BindRTCPWriter(s.sink)
	for _, st := range s.st {
		feed := &hk.FeedReader{}
		s.feeds = append(s.feeds, feed)
		s.rds = append(s.rds, s.icpt.BindRemoteStream(&interceptor.StreamInfo{SSRC: st.ssrc}, feed))
	}
	return s, nil
}

func (s *system) close() {
	if s.icpt != nil {
		_ = s.icpt.Close()
	}
}

func (s *system) started() int {
	n := 0
	for _, st := range s.st {
		if st.started {
			n++
		}
	}
	return n
}

// apply performs one operation. skip reports an operation outside the quantifier for this state.
func (s *system) apply(o op) (outcome string, fail *failure, skip bool) {
	switch o.K {
	case "add":
		if o.S >= len(s.st) {
			return "", nil, true
		}
		st := s.st[o.S]
		var u int64
		if !st.started {
			if o.D != 1 {
				return "", nil, true
			}
			u = st.start
		} else {
			u = st.highest + o.D
			// consecutive true values of a stream differ by less than 2^15 and are non-negative
			if d := u - st.last; u < 0 || d > 0x7FFF || d < -0x7FFF {
				return "", nil, true
			}
		}
		s.clock += o.Dt
		ecn := uint8(u & 3)
		if s.mode == modeRecorder {
			s.rec.AddPacket(time.Unix(0, s.clock), st.ssrc, uint16(u), ecn)
		} else {
			s.nowNS = s.clock
			s.feeds[o.S].Next = hk.RawRTP(96, uint16(u), uint32(u*3000), st.ssrc, []byte{1, 2, 3})
			if u%4 == 3 {
				// a padding-only packet (bandwidth probe): padding bit set, the three octets after the header are
				// padding with the count in the last one. It arrived like any other packet.
				s.feeds[o.S].Next = hk.RawRTP(96, uint16(u), uint32(u*3000), st.ssrc, []byte{0, 0, 3})
				s.feeds[o.S].Next[0] |= 0x20
			}
			n, _, err := s.rds[o.S].Read(s.buf, interceptor.Attributes{})
			if err != nil || n != len(s.feeds[o.S].Next) {
				return "", failf("runtime", "Read returned n=%d err=%v for a %d-byte packet", n, err, len(s.feeds[o.S].Next)), false
			}
			vsched.Quiesce()
		}
		st.arrive(u, s.clock)
		if s.mode == modeInterceptor {
			// a report written outside the interval is still a report and is judged like one
			for _, p := range s.sink.Take() {
				if f := s.judgePacket(p, s.clock, icptMaxSize); f != nil {
					return "", f, false
				}
			}
		}
		return "a", nil, false
	case "build":
		now := s.clock + o.Dt
		if now > s.clock {
			s.clock = now
		}
		if s.mode == modeRecorder {
			rep := s.rec.BuildReport(time.Unix(0, now), o.Max)
			if rep == nil {
				return "", failf("no-report", "BuildReport returned nil"), false
			}
			raw, err := rep.Marshal()
			if err != nil {
				return "", failf("report-not-marshalable", "BuildReport(max=%d) returned a report that cannot be marshalled: %v (blocks: %s)", o.Max, err, blockSizes(rep)), false
			}
			// the report handed out before this one still says what it said (the caller may keep a report)
			if s.prevRep != nil {
				if again, err := s.prevRep.Marshal(); err != nil || !bytes.Equal(again, s.prevRaw) {
					return "", failf("earlier-report-changed-by-later-build", "the report built before this one marshals differently after BuildReport was called again: err=%v\n was %x\n now %x", err, s.prevRaw, again), false
				}
			}
			s.prevRep, s.prevRaw = rep, append([]byte(nil), raw...)
			return s.judge(raw, now, o.Max)
		}
		if o.Max != icptMaxSize {
			return "", nil, true
		}
		s.nowNS = now
		vsched.Advance(interval)
		pkts := s.sink.Take()
		if s.started() == 0 {
			if len(pkts) != 0 {
				return "", failf("runtime", "%d RTCP packets written before any packet arrived", len(pkts)), false
			}
			return "none", nil, false
		}
		if len(pkts) != 1 {
			return "", failf("runtime", "harness expectation: one report per interval once a packet has arrived, got %d RTCP packets", len(pkts)), false
		}
		return s.judgePacketOutcome(pkts[0], now, icptMaxSize)
	}
	return "", failf("runtime", "unknown op %q", o.K), false
}

func blockSizes(rep *rtcp.CCFeedbackReport) string {
	var l []string
	for _, b := range rep.ReportBlocks {
		l = append(l, fmt.Sprintf("%#x:%d", b.MediaSSRC, len(b.MetricBlocks)))
	}
	sort.Strings(l)
	return fmt.Sprint(l)
}

func (s *system) judgePacket(p rtcp.Packet, now int64, max int) *failure {
	_, f, _ := s.judgePacketOutcome(p, now, max)
	return f
}

func (s *system) judgePacketOutcome(p rtcp.Packet, now int64, max int) (string, *failure, bool) {
	rep, ok := p.(*rtcp.CCFeedbackReport)
	if !ok {
		return "", failf("runtime", "unexpected RTCP packet %T from the RFC 8888 interceptor", p), false
	}
	raw, err := rep.Marshal()
	if err != nil {
		return "", failf("report-not-marshalable", "the interceptor wrote a report that cannot be marshalled: %v (blocks: %s)", err, blockSizes(rep)), false
	}
	return s.judge(raw, now, max)
}

// judge decodes the marshalled report and compares it with the reference.
func (s *system) judge(raw []byte, now int64, max int) (string, *failure, bool) {
	w, err := decodeCCFB(raw)
	if err != nil {
		return "", failf("malformed-wire", "marshalled report (%d bytes) is not a well-formed RFC 8888 packet: %v", len(raw), err), false
	}
	blocks := map[uint32]*wireBlock{}
	for i := range w.Blocks {
		b := &w.Blocks[i]
		if _, dup := blocks[b.SSRC]; dup {
			return "", failf("two-blocks-for-one-stream", "two report blocks for SSRC %#x in one report", b.SSRC), false
		}
		blocks[b.SSRC] = b
	}
	streams := s.started()
	budget := guaranteedBudget(max, streams)
	out := ""
	for _, st := range s.st {
		b := blocks[st.ssrc]
		delete(blocks, st.ssrc)
		if f := st.check(b, now, budget); f != nil {
			return "", f, false
		}
		out += blockClass(b)
	}
	for ssrc := range blocks {
		return "", failf("block-for-unknown-stream", "report block for SSRC %#x from which no packet arrived", ssrc), false
	}
	if hdr := 12 + 8*streams; max >= hdr && len(raw) > max {
		unpadded := hdr
		for _, b := range w.Blocks {
			unpadded += 2 * len(b.Entries)
		}
		key := "size-exceeds-max"
		if unpadded <= max {
			key = "size-exceeds-max-by-padding"
		}
		return "", failf(key, "marshalled report is %d bytes, maximum is %d (which holds the %d bytes of headers of %d streams); metric blocks per stream: %s",
			len(raw), max, hdr, streams, wireSizes(w)), false
	}
	if want := ntp32(now); w.RTS-want+1 > 2 { // tolerance: one unit of 1/65536 s either way
		return "", failf("report-timestamp", "report timestamp field %#x, report instant is %#x in NTP middle-32 format", w.RTS, want), false
	}
	if max < 12+8*streams {
		out += "tiny"
	}
	return out, nil, false
}

func wireSizes(w *wireReport) string {
	var l []string
	for _, b := range w.Blocks {
		l = append(l, fmt.Sprintf("%#x:%d", b.SSRC, len(b.Entries)))
	}
	sort.Strings(l)
	return fmt.Sprint(l)
}

// blockClass is the observation class of one block: length (capped), number
// received (capped), and the kinds of arrival time offsets present.
func blockClass(b *wireBlock) string {
	if b == nil {
		return "-;"
	}
	n, r := len(b.Entries), 0
	var small, big, after bool
	for _, e := range b.Entries {
		if !e.R {
			continue
		}
		r++
		switch e.ATO {
		case atoTooLarge:
			big = true
		case atoAfterReport:
			after = true
		default:
			small = true
		}
	}
	capn := func(v int) int {
		if v > 8 {
			return 9
		}
		return v
	}
	c := fmt.Sprintf("%d/%d", capn(n), capn(r))
	if small {
		c += "n"
	}
	if big {
		c += "L"
	}
	if after {
		c += "A"
	}
	return c + ";"
}
