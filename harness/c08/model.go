package c08

import (
	"fmt"
	"math"
	"sort"

	"github.com/pion/interceptor/verifh/hk"
)

// The reference model, written from the property statement. Sequence numbers
// are the true (unwrapped, 64-bit) numbers the harness generated; times are
// integer nanoseconds; the arrival time offset is computed in exact integer
// arithmetic.

const (
	atoTooLarge    = 0x1FFE
	atoAfterReport = 0x1FFF
	// RFC 8888 section 3.1: a report block carries at most 16384 metric blocks
	maxReportsPerBlock = 16384
)

// encATO is the statement's arrival-time offset for d = report time - first-copy arrival (ns).
func encATO(d int64) uint16 {
	if d < 0 {
		return atoAfterReport
	}
	v := d / 1_000_000_000 * 1024 // whole seconds
	v += d % 1_000_000_000 * 1024 / 1_000_000_000
	if v > 0x1FFD {
		return atoTooLarge
	}
	return uint16(v)
}

// ntp32 is the middle 32 bits of the NTP timestamp of a Unix instant (ns), by integer arithmetic.
func ntp32(ns int64) uint32 {
	sec := ns/1_000_000_000 + 2208988800
	frac := ns % 1_000_000_000 * 65536 / 1_000_000_000
	return uint32(sec&0xFFFF)<<16 | uint32(frac)
}

// guaranteedBudget is the number of metric blocks every stream can always be
// given without exceeding maxSize when the space left after the 12 fixed bytes
// and the 8-byte per-stream headers is shared evenly and every block is padded
// to 32 bits: 2*floor((maxSize-12-8s)/(4s)), and never more than the format's 16384 per block. A first-time arrival within this
// many numbers of the highest cannot have been "pushed out by the size limit".
func guaranteedBudget(maxSize, streams int) int64 {
	if streams == 0 {
		return 0
	}
	m := maxSize - 12 - 8*streams
	if m < 0 {
		return 0
	}
	b := int64(2 * (m / (4 * streams)))
	if b > maxReportsPerBlock {
		b = maxReportsPerBlock
	}
	return b
}

type stream struct {
	ssrc     uint32
	start    int64 // true number of the first packet
	started  bool
	firstNum int64
	reports  int
	highest  int64
	last     int64             // previous arrival (the quantifier keeps consecutive true values within 2^15)
	ack      int64             // numbers below are outside every future range: acknowledged in a gap-free prefix, or pushed out
	arr      map[int64]int64   // first-copy arrival instant of every number that ever arrived
	later    map[int64][]int64 // instants of later copies (only used to name the failure class)
	ever     map[int64]bool    // once reported received
	acked    map[int64]bool    // acknowledged in a gap-free prefix of an earlier report
	fresh    map[int64]bool    // first copy arrived since the previous report (at or above ack)
}

func newStream(ssrc uint32, start int64) *stream {
	return &stream{ssrc: ssrc, start: start, ack: math.MinInt64, arr: map[int64]int64{}, later: map[int64][]int64{},
		ever: map[int64]bool{}, acked: map[int64]bool{}, fresh: map[int64]bool{}}
}

func (st *stream) arrive(u, t int64) {
	if !st.started {
		st.started, st.firstNum, st.highest = true, u, u
	}
	if _, dup := st.arr[u]; dup {
		st.later[u] = append(st.later[u], t)
	} else {
		st.arr[u] = t
		if u >= st.ack {
			st.fresh[u] = true
		}
	}
	if u > st.highest {
		st.highest = u
	}
	st.last = u
}

type failure struct {
	key, msg string
}

func failf(key, format string, a ...any) *failure {
	return &failure{key: "C08:" + key, msg: fmt.Sprintf(format, a...)}
}

func (st *stream) missingFresh(b int64, n int, budget int64) (int64, bool) {
	var us []int64
	for u := range st.fresh {
		us = append(us, u)
	}
	sort.Slice(us, func(i, j int) bool { return us[i] < us[j] })
	for _, u := range us {
		if budget < 1 || u < st.highest-budget+1 {
			continue // may have been pushed out by the size limit (newest kept)
		}
		if n == 0 || u < b || u > st.highest {
			return u, true
		}
	}
	return 0, false
}

func (st *stream) freshFailure(u int64, blk string, budget int64) *failure {
	key := "new-arrival-not-reported"
	if st.reports == 0 && u < st.firstNum {
		key = "arrival-below-first-packet-not-reported"
	}
	return failf(key, "SSRC %#x: packet %d (seq %d) arrived for the first time since the previous report and is within the %d newest numbers (highest %d, size limit guarantees %d per stream) but the report lists %s",
		st.ssrc, u, uint16(u), st.highest-u+1, st.highest, budget, blk)
}

// check evaluates the report block of this stream (nil: none) built at instant
// now, and afterwards moves the model past the report.
func (st *stream) check(blk *wireBlock, now int64, budget int64) *failure {
	if !st.started {
		if blk != nil {
			return failf("block-for-unknown-stream", "report block for SSRC %#x from which no packet arrived", blk.SSRC)
		}
		return nil
	}
	n := 0
	if blk != nil {
		n = len(blk.Entries)
	}
	if n == 0 {
		if u, miss := st.missingFresh(0, 0, budget); miss {
			return st.freshFailure(u, "nothing", budget)
		}
		if st.ack <= st.highest && budget >= 1 {
			return failf("empty-block-although-unacknowledged", "SSRC %#x: empty range although highest received %d (seq %d) is not acknowledged (lowest unacknowledged %d) and the size limit leaves room for %d per stream",
				st.ssrc, st.highest, uint16(st.highest), st.ack, budget)
		}
		// zero-length range ending at the highest: everything below is pushed out
		st.ack = st.highest + 1
		st.fresh = map[int64]bool{}
		st.reports++
		return nil
	}
	if end := blk.Begin + uint16(n-1); end != uint16(st.highest) {
		return failf("range-end-not-highest", "SSRC %#x: range begin_seq=%d num_reports=%d ends at seq %d, highest received is %d (seq %d)",
			st.ssrc, blk.Begin, n, end, st.highest, uint16(st.highest))
	}
	b := st.highest - int64(n) + 1
	desc := fmt.Sprintf("begin_seq=%d num_reports=%d", blk.Begin, n)
	flagged := map[int64]bool{}
	for i, e := range blk.Entries {
		u := b + int64(i)
		first, arrived := st.arr[u]
		switch {
		case st.acked[u] && e.R:
			return failf("acknowledged-packet-reported-again", "SSRC %#x %s: packet %d (seq %d) was acknowledged in the gap-free prefix of an earlier report and is marked received again",
				st.ssrc, desc, u, uint16(u))
		case st.ever[u] && !e.R:
			return failf("received-then-reported-lost", "SSRC %#x %s: packet %d (seq %d) was reported received earlier and is now marked not received",
				st.ssrc, desc, u, uint16(u))
		case arrived && !e.R:
			return failf("arrived-packet-reported-lost", "SSRC %#x %s: packet %d (seq %d) arrived at %+d ns relative to the report time but is marked not received",
				st.ssrc, desc, u, uint16(u), first-now)
		case !arrived && e.R:
			return failf("never-arrived-packet-reported-received", "SSRC %#x %s: packet %d (seq %d) never arrived but is marked received (ATO %#x)",
				st.ssrc, desc, u, uint16(u), e.ATO)
		}
		if e.R && arrived {
			flagged[u] = true
			if want := encATO(now - first); e.ATO != want {
				key := "ato-wrong"
				for _, c := range st.later[u] {
					if encATO(now-c) == e.ATO {
						key = "ato-from-later-copy"
					}
				}
				switch {
				case key != "ato-wrong":
				case want == atoTooLarge:
					key = "ato-large-offset-not-saturated"
				case want == atoAfterReport:
					key = "ato-arrival-after-report-not-0x1FFF"
				}
				return failf(key, "SSRC %#x %s: packet %d (seq %d): arrival time offset %#x, expected %#x (report time - first-copy arrival = %d ns; later copies at %v ns before the report)",
					st.ssrc, desc, u, uint16(u), e.ATO, want, now-first, beforeReport(now, st.later[u]))
			}
		}
	}
	if u, miss := st.missingFresh(b, n, budget); miss {
		return st.freshFailure(u, desc, budget)
	}
	for u := range flagged {
		st.ever[u] = true
	}
	if b > st.ack {
		st.ack = b
	}
	for st.ack <= st.highest && flagged[st.ack] {
		st.acked[st.ack] = true
		st.ack++
	}
	st.fresh = map[int64]bool{}
	st.reports++
	return nil
}

func beforeReport(now int64, l []int64) []int64 {
	out := make([]int64, len(l))
	for i, c := range l {
		out[i] = now - c
	}
	return out
}

func sortedKeys(m map[int64]bool) []int64 {
	out := make([]int64, 0, len(m))
	for k := range m {
		out = append(out, k)
	}
	sort.Slice(out, func(i, j int) bool { return out[i] < out[j] })
	return out
}

// hash folds everything that can influence a future verdict.
func (st *stream) hash() uint64 {
	vs := []int64{int64(st.ssrc), st.highest, st.last, st.ack, st.firstNum, int64(st.reports)}
	if !st.started {
		vs = append(vs, -1)
	}
	var us []int64
	for u := range st.arr {
		us = append(us, u)
	}
	sort.Slice(us, func(i, j int) bool { return us[i] < us[j] })
	for _, u := range us {
		vs = append(vs, u, st.arr[u], int64(len(st.later[u])))
		vs = append(vs, st.later[u]...)
	}
	vs = append(vs, -2)
	vs = append(vs, sortedKeys(st.ever)...)
	vs = append(vs, -3)
	vs = append(vs, sortedKeys(st.acked)...)
	vs = append(vs, -4)
	vs = append(vs, sortedKeys(st.fresh)...)
	return hk.HashInts(vs...)
}
