package c08

import (
	"encoding/binary"
	"fmt"
)

// Own decoder of the RFC 8888 congestion control feedback packet (section 3.1
// of the RFC). It shares no code with pion/rtcp and works on marshalled bytes.
//
//	V=2|P|FMT=11 | PT=205 | length
//	SSRC of RTCP packet sender
//	{ SSRC of RTP stream | begin_seq | num_reports | num_reports x (R|ECN(2)|ATO(13)) | pad to 32 bits }*
//	report timestamp (32 bits)

type wireEntry struct {
	R   bool
	ECN uint8
	ATO uint16
}

type wireBlock struct {
	SSRC    uint32
	Begin   uint16
	Entries []wireEntry
}

type wireReport struct {
	Sender uint32
	Blocks []wireBlock
	RTS    uint32
}

func decodeCCFB(b []byte) (*wireReport, error) {
	if len(b) < 12 {
		return nil, fmt.Errorf("packet of %d bytes is shorter than header+sender SSRC+report timestamp (12)", len(b))
	}
	if len(b)%4 != 0 {
		return nil, fmt.Errorf("packet length %d is not a multiple of 4", len(b))
	}
	if v := b[0] >> 6; v != 2 {
		return nil, fmt.Errorf("RTCP version %d", v)
	}
	if b[0]&0x20 != 0 {
		return nil, fmt.Errorf("padding bit set")
	}
	if fmtv := b[0] & 0x1f; fmtv != 11 {
		return nil, fmt.Errorf("FMT %d, want 11 (CCFB)", fmtv)
	}
	if b[1] != 205 {
		return nil, fmt.Errorf("PT %d, want 205 (RTPFB)", b[1])
	}
	if l := int(binary.BigEndian.Uint16(b[2:])); 4*(l+1) != len(b) {
		return nil, fmt.Errorf("header length field %d words-1 but packet has %d bytes", l, len(b))
	}
	r := &wireReport{Sender: binary.BigEndian.Uint32(b[4:])}
	end := len(b) - 4
	off := 8
	for off < end {
		if end-off < 8 {
			return nil, fmt.Errorf("truncated report block header at offset %d", off)
		}
		blk := wireBlock{SSRC: binary.BigEndian.Uint32(b[off:]), Begin: binary.BigEndian.Uint16(b[off+4:])}
		n := int(binary.BigEndian.Uint16(b[off+6:]))
		off += 8
		padded := n + n%2
		if end-off < 2*padded {
			return nil, fmt.Errorf("report block for SSRC %#x announces %d reports (%d bytes with padding) but only %d bytes remain before the report timestamp",
				blk.SSRC, n, 2*padded, end-off)
		}
		blk.Entries = make([]wireEntry, n)
		for i := 0; i < n; i++ {
			w := binary.BigEndian.Uint16(b[off+2*i:])
			blk.Entries[i] = wireEntry{R: w&0x8000 != 0, ECN: uint8(w >> 13 & 3), ATO: w & 0x1FFF}
		}
		off += 2 * padded
		r.Blocks = append(r.Blocks, blk)
	}
	if off != end {
		return nil, fmt.Errorf("report blocks end at offset %d, report timestamp expected at %d", off, end)
	}
	r.RTS = binary.BigEndian.Uint32(b[end:])
	return r, nil
}
