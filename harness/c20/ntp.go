package c20

import (
	"fmt"
	"github.com/pion/interceptor/vsched"
	"time"

	"github.com/pion/interceptor/internal/ntp"
	"github.com/pion/interceptor/verifh/hk"
)

// ---------------------------------------------------------------------------
// NTP reference facts (integer arithmetic only, nothing from the package):
//   NTP second of a Unix instant  = floor(unix_ns / 1e9) + 2 208 988 800
//   NTP era 0 ends at NTP second 2^32 = Unix 2 085 978 496 s (2036-02-07T06:28:16Z)
//   a "window" of the 32-bit form  = the instants sharing floor(NTP second / 65536)
//     (ToTime32 takes the upper 16 bits of the NTP seconds from its reference
//      argument: a reference "in the same 18-hour window" is a reference inside the
//      same aligned 65536-second block of NTP seconds, not one within +-9 h)
// Demands, per instant t (Unix ns, 1970 <= t < end of era 0):
//   ToNTP(t-1ns) <= ToNTP(t)                                   (monotone)
//   |ToTime(ToNTP(t)) - t| <= 1000 ns                           (one microsecond)
//   |ToTime32(ToNTP32(t), ref) - t| <= 1/65536 s                for refs in t's window
// ---------------------------------------------------------------------------

const (
	ntpOffset  = int64(2208988800)
	second     = int64(1_000_000_000)
	eraEndUnix = (int64(1)<<32 - ntpOffset) // seconds
	eraEndNS   = eraEndUnix * second
	resNS      = second / 65536 // 15258: for an integer number of ns, d <= 1e9/65536 exactly when d <= 15258
)

type anchor struct {
	Name   string `json:"name"`
	Center int64  `json:"center_unix_ns"`
	Tail   bool   `json:"window_ends_here,omitempty"` // window is [center-W, center) instead of centred
}

func anchors() []anchor {
	var l []anchor
	l = append(l, anchor{Name: "Unix epoch 1970 (window starts at 0)", Center: 0})
	for k := 0; k <= 30; k++ {
		l = append(l, anchor{Name: fmt.Sprintf("Unix second 2^%d", k), Center: (int64(1) << k) * second})
	}
	for k := 53; k <= 60; k++ {
		l = append(l, anchor{Name: fmt.Sprintf("UnixNano 2^%d (float64 spacing of UnixNano doubles)", k), Center: int64(1) << k})
	}
	s0 := int64(1_700_000_000) * second
	l = append(l,
		anchor{Name: "integer second 1 700 000 000", Center: s0},
		anchor{Name: "1 700 000 000 + 1/2 s", Center: s0 + second/2},
		anchor{Name: "1 700 000 000 + 1/4 s", Center: s0 + second/4},
		anchor{Name: "1 700 000 000 + 3/4 s", Center: s0 + 3*second/4},
		anchor{Name: "1 700 000 000 + 1/256 s", Center: s0 + second/256},
		anchor{Name: "1 700 000 000 + 1/1024 s", Center: s0 + second/1024},
		anchor{Name: "first 65536-s NTP window boundary after 1970 (NTP second 33707*65536)", Center: (33707*65536 - ntpOffset) * second},
		anchor{Name: "65536-s NTP window boundary in 2023 (NTP second 59647*65536)", Center: (59647*65536 - ntpOffset) * second},
		anchor{Name: "last 65536-s NTP window boundary of era 0 (NTP second 65535*65536)", Center: (65535*65536 - ntpOffset) * second},
		anchor{Name: "2036-01-01T00:00:00Z - 1 s", Center: (2082758400 - 1) * second},
		anchor{Name: "end of NTP era 0 - 1 s", Center: (eraEndUnix - 1) * second},
		anchor{Name: "last instants of NTP era 0 (window ends at 2036-02-07T06:28:16Z)", Center: eraEndNS, Tail: true},
	)
	return l
}

func (a anchor) window(w int64) (lo, hi int64) {
	lo, hi = a.Center-w/2, a.Center+w/2
	if a.Tail {
		lo, hi = a.Center-w, a.Center
	}
	if lo < 0 {
		lo, hi = 0, w
	}
	if hi > eraEndNS {
		hi = eraEndNS
	}
	return lo, hi
}

func ntpSecond(ns int64) int64 { return ns/second + ntpOffset } // ns >= 0

// windowBounds returns the Unix-ns bounds [lo,hi) of the aligned 65536-s block of NTP seconds containing ns.
func windowBounds(ns int64) (lo, hi int64) {
	blk := ntpSecond(ns) / 65536
	return (blk*65536 - ntpOffset) * second, ((blk+1)*65536 - ntpOffset) * second
}

// refsFor lists the references used for instant ns: all inside its window.
func refsFor(ns int64, out *[6]int64) int {
	lo, hi := windowBounds(ns)
	n := 0
	add := func(r int64) {
		if r >= lo && r < hi && r >= 0 {
			out[n] = r
			n++
		}
	}
	add(ns)             // the instant itself
	add(ns + 1_000_000) // 1 ms later (a report read shortly after it was stamped)
	add(ns - second)    // 1 s earlier
	add(lo)             // first instant of the window
	add(lo + 32768*second)
	add(hi - 1) // last instant of the window
	return n
}

type nstats struct {
	instants int64
	calls    int64
	cases    int64
	oc       map[string]int
	viol     map[string]hk.Violation
	violN    map[string]int
	max64    int64
	max32    int64
	incs     int64
}

func newNstats() *nstats {
	return &nstats{oc: map[string]int{}, viol: map[string]hk.Violation{}, violN: map[string]int{}}
}

func (s *nstats) violation(key, msg string, rp replay) {
	s.violN[key]++
	if _, ok := s.viol[key]; !ok {
		s.viol[key] = hk.Violation{Key: key, Message: msg, Replay: rp}
	}
}

func abs(x int64) int64 {
	if x < 0 {
		return -x
	}
	return x
}

func fmtT(ns int64) string {
	return fmt.Sprintf("%s (Unix ns %d)", time.Unix(0, ns).UTC().Format("2006-01-02T15:04:05.000000000Z"), ns)
}

// eraWrapped: the 64-bit value's seconds field is more than 2^31 s away from the instant's NTP second
// (only used to name the mechanism, never for the verdict).
func eraWrapped(v uint64, ns int64) bool {
	return abs(int64(v>>32)-ntpSecond(ns)) >= 1<<31
}

// check64 judges monotonicity against the predecessor (havePrev) and the 64-bit round trip.
func check64(ns int64, havePrev bool, prev uint64) (v uint64, d int64, key, msg string) {
	v = ntp.ToNTP(time.Unix(0, ns))
	if havePrev && v < prev {
		key = "C20:ntp64-not-monotone"
		if eraWrapped(v, ns) {
			key = "C20:ntp64-wraps-to-era-1-before-era-0-ends"
		}
		return v, 0, key, fmt.Sprintf("ToNTP(%s) = %#016x but ToNTP of the instant 1 ns earlier = %#016x: not monotone", fmtT(ns), v, prev)
	}
	back := ntp.ToTime(v).UnixNano()
	if d = back - ns; abs(d) > 1000 {
		key = "C20:ntp64-roundtrip-off-by-more-than-1us"
		if eraWrapped(v, ns) {
			key = "C20:ntp64-wraps-to-era-1-before-era-0-ends"
		}
		return v, d, key, fmt.Sprintf("ToTime(ToNTP(%s)): ToNTP = %#016x, ToTime gives %s: off by %d ns (> 1000 ns)", fmtT(ns), v, fmtT(back), d)
	}
	return v, d, "", ""
}

// check32 judges the 32-bit round trip of instant ns with reference ref (same window).
func check32(ns, ref int64) (d int64, key, msg string) {
	x := ntp.ToNTP32(time.Unix(0, ns))
	back := ntp.ToTime32(x, time.Unix(0, ref)).UnixNano()
	d = back - ns
	if abs(d) <= resNS {
		return d, "", ""
	}
	whole := (abs(d) + 32768*second) / (65536 * second) // nearest whole number of windows
	rest := abs(abs(d) - whole*65536*second)
	lo, hi := windowBounds(ns)
	switch {
	case whole == 0 && abs(d) <= resNS+1000:
		key = "C20:ntp32-roundtrip-exceeds-resolution-by-under-1us"
	case whole > 0 && rest <= resNS+1000:
		// off by whole windows. Naming only (the verdict is above): if the same 32-bit value decodes
		// correctly with the first instant of the window (not before 1970) as reference, the reference handling is at fault.
		key = "C20:ntp32-instant-encoded-into-next-window"
		alt := lo
		if alt < 0 {
			alt = 0
		}
		if abs(ntp.ToTime32(x, time.Unix(0, alt)).UnixNano()-ns) <= resNS+1000 {
			key = "C20:ntp32-reference-in-same-window-decoded-into-other-window"
		}
	default:
		key = "C20:ntp32-roundtrip-error-large"
	}
	msg = fmt.Sprintf("ToTime32(ToNTP32(t), ref): t = %s, ToNTP32 = %#08x, ref = %s (both in the window [%d,%d) Unix ns), result %s: off by %d ns (allowed: 1/65536 s = 15258.79 ns)",
		fmtT(ns), x, fmtT(ref), lo, hi, fmtT(back), d)
	return d, key, msg
}

// ntpJob sweeps every nanosecond of one anchor's window.
func ntpJob(a anchor, w int64, deadline time.Time, s *nstats, cur *progress) string {
	lo, hi := a.window(w)
	var prev uint64
	var refs [6]int64
	havePrev, prevNS, prevRef := false, int64(0), int64(0)
	for ns := lo; ns < hi; ns++ {
		if ns&0xFFFF == 0 && !deadline.IsZero() && time.Now().After(deadline) {
			return fmt.Sprintf("deadline reached; instants [%d,%d) fully covered", lo, ns)
		}
		cur.p = ns
		v, d64, key, msg := check64(ns, ns > lo, prev)
		if key != "" {
			s.violation(key, msg, replay{Kind: "ntp64", NS: ns})
		}
		if ns > lo && v != prev {
			s.incs++
		}
		prev = v
		if key == "" && abs(d64) > s.max64 {
			s.max64 = abs(d64)
		}
		k := refsFor(ns, &refs)
		for i := 0; i < k; i++ {
			d, key, msg := check32(ns, refs[i])
			if key != "" {
				s.violation(key, msg, replay{Kind: "ntp32", NS: ns, Ref: refs[i], HavePrev: havePrev, PrevNS: prevNS, PrevRef: prevRef})
			} else if abs(d) > s.max32 {
				s.max32 = abs(d)
			}
			havePrev, prevNS, prevRef = true, ns, refs[i]
		}
		// the conversions are pure functions: the step budget is per instant, not per sweep
		vsched.StepBudget(100000)
		s.calls += 3 + 2*int64(k)
		s.cases += 2 + int64(k)
		s.instants++
	}
	return ""
}
