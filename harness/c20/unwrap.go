package c20

import (
	"fmt"
	"time"

	"github.com/pion/interceptor/internal/sequencenumber"
	"github.com/pion/interceptor/verifh/hk"
)

// ---------------------------------------------------------------------------
// Reference (written from the statement, DESIGN.md section 5 for the floor):
// after a previous result p >= 0, the result for input n must be a value c with
//   c >= 0,  c = n (mod 2^16),  |c - p| <= 2^15.
// The values congruent to n lie 2^16 apart, so the closed interval
// [p-2^15, p+2^15] holds exactly one of them, or two when the distance is
// exactly 2^15 (the statement does not say which of the two: both are accepted).
// If the only one is negative, "non-negative" and "within 2^15" cannot both
// hold, and the smallest non-negative congruent value (n itself) is demanded.
// ---------------------------------------------------------------------------

const (
	two16 = int64(65536)
	two15 = int64(32768)
)

// accept returns the results the statement allows (a == b when there is one).
func accept(p int64, n uint16) (a, b int64) {
	a, b, _ = accept3(p, n)
	return a, b
}

// accept3 also tells whether the floor-at-zero reading applies.
func accept3(p int64, n uint16) (a, b int64, floor bool) {
	base := p - p%two16 + int64(n)
	a, b = -1, -1
	for _, c := range [3]int64{base - two16, base, base + two16} {
		dist := c - p
		if dist < 0 {
			dist = -dist
		}
		if c >= 0 && dist <= two15 {
			if a < 0 {
				a = c
			} else {
				b = c
			}
		}
	}
	if a < 0 {
		a = int64(n) // floor at zero
		floor = true
	}
	if b < 0 {
		b = a
	}
	return a, b, floor
}

// judge names the way in which r is not an allowed result ("" = allowed).
func judge(p int64, n uint16, r int64) string {
	a, b, floor := accept3(p, n)
	if r == a || r == b {
		return ""
	}
	switch {
	case r < 0:
		return "negative-result"
	case r%two16 != int64(n):
		return "result-not-congruent-to-input"
	case floor:
		return "floor-at-zero-not-smallest-congruent-value"
	case r > p:
		return "result-more-than-2^15-above-previous"
	default:
		return "result-more-than-2^15-below-previous"
	}
}

func describePair(p int64, n uint16, r int64) string {
	a, b := accept(p, n)
	want := fmt.Sprint(a)
	if b != a {
		want = fmt.Sprintf("%d or %d", a, b)
	}
	return fmt.Sprintf("previous result %d (low 16 bits %d), input %d: Unwrap returned %d, allowed: %s", p, uint16(p), n, r, want)
}

// outcome classes of a judged pair (observation only)
const (
	ocSame = iota
	ocForward
	ocBackward
	ocTieForward
	ocTieBackward
	ocFloor
	ocN
)

var ocNames = [ocN]string{"unwrap:same", "unwrap:forward", "unwrap:backward", "unwrap:tie-forward", "unwrap:tie-backward", "unwrap:floor-at-zero"}

func classify(p int64, n uint16, r int64) int {
	d := int64(uint16(n - uint16(p)))
	switch {
	case d == 0:
		return ocSame
	case d == two15 && r > p:
		return ocTieForward
	case d == two15:
		return ocTieBackward
	case d < two15:
		return ocForward
	case r > p:
		return ocFloor
	default:
		return ocBackward
	}
}

// stats of one unwrapper job
type ustats struct {
	pairs    int64 // distinct (p,next) pairs judged in the all-nexts loops
	calls    int64 // Unwrap calls
	cases    int64 // judged cases (pairs, sequences, streams, walk steps)
	nontriv  int64
	oc       [ocN]int64
	viol     map[string]hk.Violation
	violN    map[string]int
	deduped  int64
	seqs     int64
	streams  int64
	maxState int64
}

func newUstats() *ustats { return &ustats{viol: map[string]hk.Violation{}, violN: map[string]int{}} }

func (s *ustats) violation(mech, msg string, rp replay) {
	key := "C20:unwrap-" + mech
	s.violN[key]++
	if _, ok := s.viol[key]; !ok {
		s.viol[key] = hk.Violation{Key: key, Message: msg, Replay: rp}
	}
}

// start describes how a state is reached through the public API.
type start struct {
	Init bool  `json:"init,omitempty"` // fresh Unwrapper, first input uint16(P)
	P    int64 `json:"p"`              // walk: fresh, Unwrap(0), then upward to P (see reach)
}

const bigStep = two15 - 1

// reach builds the state "previous result P" through Unwrap only: a fresh
// value, Unwrap(0), then steps of +(2^15-1) while more than 2^18 away, then
// steps of +1. Every step is one of the inputs the statement determines
// uniquely (distance < 2^15) and is judged; a failing step aborts.
func reach(st start, s *ustats, deadline time.Time) (u sequencenumber.Unwrapper, cur int64, fail string) {
	if st.Init {
		n := uint16(st.P)
		r := u.Unwrap(n)
		if s != nil {
			s.calls++
		}
		if r < 0 || r%two16 != int64(n) {
			return u, r, fmt.Sprintf("first input %d on a fresh Unwrapper returned %d (must be non-negative and congruent to the input)", n, r)
		}
		return u, r, ""
	}
	r := u.Unwrap(0)
	if r != 0 {
		// a non-negative multiple of 2^16 would satisfy the statement (the init job judges that); the walk needs origin 0
		return u, r, fmt.Sprintf("origin: first input 0 on a fresh Unwrapper returned %d, the walk assumes 0", r)
	}
	cur = 0
	target := st.P
	var steps int64
	for cur < target {
		step := int64(1)
		if target-cur > 1<<18 {
			step = bigStep
		}
		n := uint16(cur + step)
		r := u.Unwrap(n)
		if r != cur+step {
			if s != nil {
				s.violation("walk-"+judgeOr(cur, n, r), "while walking upward: "+describePair(cur, n, r), replay{Kind: "unwrap", Start: start{P: cur}, Seq: []uint16{n}})
			}
			return u, r, "while walking upward: " + describePair(cur, n, r)
		}
		cur = r
		steps++
		if steps&(1<<24-1) == 0 && !deadline.IsZero() && time.Now().After(deadline) {
			return u, cur, "deadline"
		}
	}
	if s != nil {
		s.calls += steps + 1
		s.cases += steps
	}
	return u, cur, ""
}

func judgeOr(p int64, n uint16, r int64) string {
	if m := judge(p, n, r); m != "" {
		return m
	}
	return "unexpected-result"
}

// allNexts applies every 16-bit input to a copy of u (previous result p).
func allNexts(u sequencenumber.Unwrapper, p int64, st start, prefix []uint16, s *ustats) {
	for i := 0; i < 65536; i++ {
		n := uint16(i)
		c := u
		r := c.Unwrap(n)
		a, b := accept(p, n)
		if r != a && r != b {
			s.violation(judge(p, n, r), describePair(p, n, r), replay{Kind: "unwrap", Start: st, Seq: append(append([]uint16{}, prefix...), n)})
		}
		s.oc[classify(p, n, r)]++
	}
	s.pairs += 65536
	s.calls += 65536
	s.cases += 65536
	s.nontriv += 65535
}

// boundary inputs: ten absolute ones and six relative to the previous result
// (p+2^15 and p-2^15 of DESIGN.md are the same 16-bit input).
func boundaryInputs(p int64, out *[16]uint16) {
	w := uint16(p)
	*out = [16]uint16{0, 1, 2, 32766, 32767, 32768, 32769, 65533, 65534, 65535,
		w, w + 1, w - 1, w + 32767, w + 32768, w + 32769}
}

// sequences judges every input sequence of length <= depth over the boundary
// inputs, each step against the previous *result* (depth-first over copies).
func sequences(u sequencenumber.Unwrapper, p int64, depth int, st start, hist []uint16, s *ustats) {
	var in [16]uint16
	boundaryInputs(p, &in)
	for _, n := range in {
		c := u
		r := c.Unwrap(n)
		s.calls++
		s.cases++
		s.seqs++
		if m := judge(p, n, r); m != "" {
			if len(hist) > 0 {
				m += "-after-history"
			}
			s.violation(m, fmt.Sprintf("after inputs %v from the walked state: ", hist)+describePair(p, n, r),
				replay{Kind: "unwrap", Start: st, Seq: append(append([]uint16{}, hist...), n)})
			continue // the futures of a wrong result are not meaningful
		}
		if r > s.maxState {
			s.maxState = r
		}
		if depth > 1 {
			sequences(c, r, depth-1, st, append(hist, n), s)
		}
	}
}

// stream deltas: true values change by less than 2^15 per step
var streamDeltas = [...]int64{0, 1, -1, 2, -2, 100, -100, 32766, -32766, 32767, -32767}

// streams feeds true-value streams v0=p, v1, v2.. (steps from streamDeltas,
// never negative) and demands exact reconstruction.
func streams(u sequencenumber.Unwrapper, p int64, depth int, st start, hist []uint16, s *ustats) {
	for _, d := range streamDeltas {
		v := p + d
		if v < 0 {
			continue
		}
		c := u
		n := uint16(v)
		r := c.Unwrap(n)
		s.calls++
		s.cases++
		s.streams++
		if r != v {
			s.violation("stream-not-reconstructed", fmt.Sprintf("true values %d -> %d (inputs so far %v): Unwrap(%d) returned %d", p, v, hist, n, r),
				replay{Kind: "unwrap", Start: st, Seq: append(append([]uint16{}, hist...), n)})
			continue
		}
		if depth > 1 {
			streams(c, r, depth-1, st, append(hist, n), s)
		}
	}
}

// pairsJob covers previous results p in [lo,hi): all nexts, boundary sequences, streams.
func pairsJob(lo, hi int64, seqDepth int, deadline time.Time, s *ustats, cur *progress) (done int64, note string) {
	u, p, fail := reach(start{P: lo}, s, deadline)
	if fail != "" {
		return 0, "state " + fmt.Sprint(lo) + " not reached: " + fail
	}
	for ; p < hi; p++ {
		if !deadline.IsZero() && time.Now().After(deadline) {
			return p - lo, fmt.Sprintf("deadline reached; previous results [%d,%d) fully covered", lo, p)
		}
		cur.p = p
		st := start{P: p}
		allNexts(u, p, st, nil, s)
		sequences(u, p, seqDepth, st, nil, s)
		streams(u, p, 3, st, nil, s)
		// one step up: itself one of the judged pairs
		n := uint16(p + 1)
		r := u.Unwrap(n)
		s.calls++
		if r != p+1 {
			s.violation("walk-"+judgeOr(p, n, r), "while walking upward: "+describePair(p, n, r), replay{Kind: "unwrap", Start: st, Seq: []uint16{n}})
			return p - lo + 1, fmt.Sprintf("walk broke at %d", p)
		}
	}
	return hi - lo, ""
}

// initJob: a fresh Unwrapper given each of the 65536 first inputs. The
// statement only demands a non-negative congruent result there. If the
// resulting value is indistinguishable (Go ==, no field is named) from the
// walked instance with the same previous result, its futures are those already
// covered by the pairs jobs; otherwise every next input is applied to it too.
func initJob(seqDepth int, deadline time.Time, s *ustats, cur *progress) string {
	w, p, fail := reach(start{P: 0}, s, deadline)
	if fail != "" {
		return fail
	}
	for ; p < two16; p++ {
		cur.p = p
		n := uint16(p)
		var f sequencenumber.Unwrapper
		r := f.Unwrap(n)
		s.calls++
		s.cases++
		s.pairs++ // (fresh, n)
		st := start{Init: true, P: p}
		switch {
		case r < 0:
			s.violation("first-negative-result", fmt.Sprintf("fresh Unwrapper, input %d: returned %d", n, r), replay{Kind: "unwrap", Start: st})
		case r%two16 != int64(n):
			s.violation("first-result-not-congruent-to-input", fmt.Sprintf("fresh Unwrapper, input %d: returned %d", n, r), replay{Kind: "unwrap", Start: st})
		case r == p && f == w:
			s.deduped++
		default:
			allNexts(f, r, st, nil, s)
			sequences(f, r, seqDepth, st, nil, s)
		}
		if rr := w.Unwrap(uint16(p + 1)); rr != p+1 {
			return fmt.Sprintf("walk broke at %d", p)
		}
		s.calls++
	}
	return ""
}

type progress struct{ p int64 }
