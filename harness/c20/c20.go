// Package c20 decides property C20 (sequence-number unwrapping and NTP
// conversion are exact and monotone) by exhaustive enumeration: every
// (previous result, next input) pair of the Unwrapper for every previous result
// below 2^17 and in regions around larger milestones, every short sequence over
// a boundary alphabet, and every nanosecond of windows around the instants
// where the NTP conversions change their float64 behaviour.
package c20

import (
	"encoding/json"
	"fmt"
	"sort"
	"time"

	"github.com/pion/interceptor/verifh/hk"
	"github.com/pion/interceptor/vsched"
)

type job struct {
	Kind   string  `json:"kind"` // pairs | init | ntp
	Lo     int64   `json:"p_lo,omitempty"`
	Hi     int64   `json:"p_hi,omitempty"`
	Seq    int     `json:"seq_depth,omitempty"`
	Region string  `json:"region,omitempty"`
	Anchor *anchor `json:"anchor,omitempty"`
	Win    int64   `json:"window_ns,omitempty"`
}

type region struct {
	name   string
	center int64
	half   int64
	jobs   int
}

// topLog is the largest milestone 2^topLog whose walk (2^topLog/32767 judged
// steps) fits the thorough budget of one worker and stays replayable.
const topLog = 51

func regions(tier string) []region {
	if tier == "thorough" {
		return []region{
			{"2^31", 1 << 31, 1 << 13, 4},
			{"2^32", 1 << 32, 1 << 15, 16},
			{"2^47", 1 << 47, 1 << 11, 2},
			{"2^48", 1 << 48, 1 << 11, 2},
			{fmt.Sprintf("2^%d", topLog), 1 << topLog, 1 << 10, 1},
		}
	}
	return []region{{"2^31", 1 << 31, 128, 1}, {"2^32", 1 << 32, 128, 1}}
}

func jobList(tier string) []job {
	seq, win := 3, int64(1)<<16
	if tier == "thorough" {
		seq, win = 4, 1<<20
	}
	var l []job
	// every previous result below 2^17, in 128 slices of 1024
	const slices = 128
	for i := int64(0); i < slices; i++ {
		l = append(l, job{Kind: "pairs", Lo: i * (1 << 17) / slices, Hi: (i + 1) * (1 << 17) / slices, Seq: seq, Region: "[0,2^17)"})
	}
	l = append(l, job{Kind: "init", Seq: seq})
	for _, r := range regions(tier) {
		lo, n := r.center-r.half, 2*r.half
		for i := int64(0); i < int64(r.jobs); i++ {
			l = append(l, job{Kind: "pairs", Lo: lo + i*n/int64(r.jobs), Hi: lo + (i+1)*n/int64(r.jobs), Seq: seq, Region: r.name})
		}
	}
	for _, a := range anchors() {
		a := a
		l = append(l, job{Kind: "ntp", Anchor: &a, Win: win})
	}
	// long jobs first
	sort.SliceStable(l, func(i, j int) bool {
		return l[i].Kind == "pairs" && l[i].Lo >= 1<<40 && !(l[j].Kind == "pairs" && l[j].Lo >= 1<<40)
	})
	return l
}

func jobs(tier string) []string {
	var names []string
	for _, j := range jobList(tier) {
		b, _ := json.Marshal(j)
		names = append(names, string(b))
	}
	return names
}

type replay struct {
	Kind  string   `json:"kind"` // unwrap | ntp64 | ntp32
	Start start    `json:"start,omitempty"`
	Seq   []uint16 `json:"seq,omitempty"`
	NS    int64    `json:"unix_ns,omitempty"`
	Ref   int64    `json:"ref_unix_ns,omitempty"`
	// the conversion made just before the failing one (the result must not depend on it, but a replay has to
	// be able to show that it does)
	HavePrev bool  `json:"preceded_by_another_conversion,omitempty"`
	PrevNS   int64 `json:"previous_unix_ns,omitempty"`
	PrevRef  int64 `json:"previous_ref_unix_ns,omitempty"`
}

func runFailure(res *vsched.Result) string {
	switch {
	case len(res.Panics) > 0:
		return "panic: " + res.Panics[0].Value + "\n" + res.Panics[0].Stack
	case res.Deadlock:
		return "deadlock"
	case res.StepLimit:
		return "step budget exceeded: " + res.StepWhere
	case len(res.Failures) > 0:
		return res.Failures[0]
	}
	return ""
}

func run(tier string, i int, deadline time.Time) *hk.JobResult {
	j := jobList(tier)[i]
	r := &hk.JobResult{Exhaustive: true, Outcomes: map[string]int{}, Bounds: map[string]any{}}
	var cur progress
	switch j.Kind {
	case "pairs", "init":
		s := newUstats()
		var note string
		res := vsched.Run(vsched.Options{Strategy: vsched.BackgroundFirst{}}, func() {
			if j.Kind == "init" {
				note = initJob(j.Seq, deadline, s, &cur)
			} else {
				_, note = pairsJob(j.Lo, j.Hi, j.Seq, deadline, s, &cur)
			}
		})
		if note != "" {
			r.Exhaustive = false
			r.Notes = append(r.Notes, note)
		}
		if msg := runFailure(res); msg != "" {
			r.Exhaustive = false
			s.violation("panic", fmt.Sprintf("while working on previous result %d: %s", cur.p, msg), replay{Kind: "unwrap", Start: start{P: cur.p}, Seq: allU16()})
		}
		r.States = s.pairs
		r.Transitions = s.calls
		r.Executions = s.cases
		r.Nontrivial = s.nontriv + s.seqs + s.streams
		for k, n := range s.oc {
			if n > 0 {
				r.Outcomes[ocNames[k]] = int(n)
			}
		}
		if s.deduped > 0 {
			r.Outcomes["unwrap:fresh-state-identical-to-walked-state"] = int(s.deduped)
		}
		for k, v := range s.viol {
			v.Message = fmt.Sprintf("%s   [%d cases of this class in job %s]", v.Message, s.violN[k], jobName(j))
			r.Violations = append(r.Violations, v)
		}
		r.Bounds["largest_result_seen_in_sequences"] = s.maxState
		if j.Kind == "pairs" && (j.Lo/1024)%40 == 0 {
			r.Samples = append(r.Samples, map[string]any{"previous_result": j.Lo, "input": uint16(j.Lo) + 40000, "allowed": first(accept(j.Lo, uint16(j.Lo)+40000))})
		}
	case "ntp":
		s := newNstats()
		var note string
		res := vsched.Run(vsched.Options{Strategy: vsched.BackgroundFirst{}}, func() {
			note = ntpJob(*j.Anchor, j.Win, deadline, s, &cur)
		})
		if note != "" {
			r.Exhaustive = false
			r.Notes = append(r.Notes, note)
		}
		if msg := runFailure(res); msg != "" {
			r.Exhaustive = false
			s.violation("C20:ntp-panic", fmt.Sprintf("at instant %s: %s", fmtT(cur.p), msg), replay{Kind: "ntp32", NS: cur.p, Ref: cur.p})
		}
		r.States = s.instants
		r.Transitions = s.calls
		r.Executions = s.cases
		r.Nontrivial = s.instants
		r.Outcomes[fmt.Sprintf("ntp64:max-roundtrip-error-%dns", s.max64/100*100)] = 1
		r.Outcomes[fmt.Sprintf("ntp32:max-roundtrip-error-%dns", s.max32/1000*1000)] = 1
		r.Bounds["max_roundtrip_error_ns_64"] = s.max64
		r.Bounds["max_roundtrip_error_ns_32"] = s.max32
		r.Bounds["distinct_ToNTP_values_minus_1"] = s.incs
		for k, v := range s.viol {
			v.Message = fmt.Sprintf("%s   [%d cases of this class in window %q]", v.Message, s.violN[k], j.Anchor.Name)
			r.Violations = append(r.Violations, v)
		}
		lo, hi := j.Anchor.window(j.Win)
		if lo%7 == 0 {
			r.Samples = append(r.Samples, map[string]any{"anchor": j.Anchor.Name, "first_instant": fmtT(lo), "instants": hi - lo})
		}
	}
	sort.Slice(r.Violations, func(a, b int) bool { return r.Violations[a].Key < r.Violations[b].Key })
	return r
}

func first(a, _ int64) int64 { return a }

func jobName(j job) string {
	if j.Kind == "init" {
		return "init"
	}
	return fmt.Sprintf("p in [%d,%d)", j.Lo, j.Hi)
}

func allU16() []uint16 { return nil }

// replayFn re-executes one recorded case.
func replayFn(raw json.RawMessage) string {
	var rp replay
	if err := json.Unmarshal(raw, &rp); err != nil {
		return "bad replay: " + err.Error()
	}
	var msg string
	res := vsched.Run(vsched.Options{Strategy: vsched.BackgroundFirst{}}, func() {
		switch rp.Kind {
		case "unwrap":
			msg = replayUnwrap(rp)
		case "ntp64":
			var prev uint64
			if rp.NS > 0 {
				prev, _, _, _ = check64(rp.NS-1, false, 0)
			}
			_, _, _, msg = check64(rp.NS, rp.NS > 0, prev)
		case "ntp32":
			if rp.HavePrev {
				_, _, _ = check32(rp.PrevNS, rp.PrevRef)
			}
			_, _, msg = check32(rp.NS, rp.Ref)
		default:
			msg = "bad replay kind " + rp.Kind
		}
	})
	if msg == "" {
		msg = runFailure(res)
	}
	return msg
}

func replayUnwrap(rp replay) string {
	u, p, fail := reach(rp.Start, nil, time.Time{})
	if fail != "" {
		return fail
	}
	if len(rp.Seq) == 0 && !rp.Start.Init {
		// a panic somewhere among all nexts of this state
		for i := 0; i < 65536; i++ {
			c := u
			if r := c.Unwrap(uint16(i)); judge(p, uint16(i), r) != "" {
				return describePair(p, uint16(i), r)
			}
		}
		return ""
	}
	for _, n := range rp.Seq {
		r := u.Unwrap(n)
		if judge(p, n, r) != "" {
			return describePair(p, n, r)
		}
		p = r
	}
	return ""
}

func init() {
	hk.Register(&hk.Check{
		ID: "C20",
		Rule: "E3 exhaustive enumeration on the real code. Unwrapper: every (previous result p, next input) pair for every p in [0,2^17) and in the listed regions around larger milestones " +
			"(p reached through Unwrap only: fresh value, Unwrap(0), judged steps of +32767 / +1; every next applied to a copy), the 65536 first inputs of a fresh value, " +
			"every sequence of length <= seq_depth over 16 boundary inputs {0,1,2,32766,32767,32768,32769,65533,65534,65535,p,p+1,p-1,p+32767,p+32768,p+32769} from every such p (each step judged against the previous result), " +
			"and every true-value stream of 3 steps over the deltas {0,+-1,+-2,+-100,+-32766,+-32767}; a result is allowed iff it is non-negative, congruent to the input mod 2^16 and within 2^15 (inclusive: either value at distance exactly 2^15) of the previous result, " +
			"or, when the only such value is negative, the smallest non-negative congruent value. NTP: every nanosecond of a window around each anchor: ToNTP(t-1ns) <= ToNTP(t), |ToTime(ToNTP(t))-t| <= 1000 ns, " +
			"|ToTime32(ToNTP32(t),ref)-t| <= 1/65536 s for up to six references inside t's aligned 65536-second block of NTP seconds. " +
			"states = distinct (p,next) pairs + instants; transitions = calls of the code under test; a pair is non-trivial when next differs from p's low 16 bits, every sequence step and every instant is non-trivial",
		Assumptions: []string{
			"a reference 'in the same 18-hour window' is read as: inside the same aligned 65536-second block of NTP seconds (ToTime32 copies the upper 16 bits of the reference's NTP seconds)",
			"'within 2^15' is inclusive; at distance exactly 2^15 either congruent value is accepted; floor-at-zero reading of DESIGN.md section 5",
			"'between 1970 and 2036' is read as Unix epoch up to the end of NTP era 0 (2036-02-07T06:28:16Z), exclusive",
			"amd64 float64-to-integer conversion semantics",
		},
		Jobs:   jobs,
		Run:    run,
		Replay: replayFn,
		Bounds: func(tier string) map[string]any {
			b := map[string]any{"tier": tier, "unwrapper_base": "all p in [0,2^17) x all 65536 nexts", "ntp_anchors": len(anchors())}
			var rs []string
			for _, r := range regions(tier) {
				rs = append(rs, fmt.Sprintf("%s +-%d", r.name, r.half))
			}
			b["unwrapper_regions"] = rs
			if tier == "thorough" {
				b["seq_depth"], b["ntp_window_ns"] = 4, 1<<20
			} else {
				b["seq_depth"], b["ntp_window_ns"] = 3, 1<<16
			}
			return b
		},
	})
}
