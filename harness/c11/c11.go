// Package c11 decides property C11 (lifecycle: Close and Unbind stop activity
// and never strand a caller): explicit-state search over every sequence of
// lifecycle and traffic calls for every interceptor of the library (C11), and
// schedule exploration of Close/Unbind racing in-flight traffic (C11R).
package c11

import (
	"encoding/json"
	"fmt"
	"github.com/pion/interceptor"
	"sort"
	"strings"
	"time"

	"github.com/pion/interceptor/verifh/hk"
	"github.com/pion/interceptor/vsched"
)

type caps struct{ local, remote, rtcpR, rtcpW bool }

var kindCaps = map[string]caps{
	"nack-generator":        {remote: true, rtcpW: true},
	"nack-responder":        {local: true, rtcpR: true},
	"receiver-report":       {remote: true, rtcpR: true, rtcpW: true},
	"sender-report":         {local: true, rtcpW: true},
	"twcc-sender":           {remote: true, rtcpW: true},
	"twcc-header-extension": {local: true},
	"rfc8888":               {remote: true, rtcpW: true},
	"rtpfb":                 {local: true, rtcpR: true},
	"stats":                 {local: true, remote: true, rtcpR: true, rtcpW: true},
	"packetdump-receiver":   {remote: true, rtcpR: true},
	"packetdump-sender":     {local: true, rtcpW: true},
	"intervalpli":           {remote: true, rtcpW: true},
	"flexfec":               {local: true},
	"cc-gcc-noop-pacer":     {local: true, rtcpR: true},
	"cc-gcc-leaky-bucket":   {local: true, rtcpR: true},
	"pacing":                {local: true},
	"jitterbuffer":          {remote: true},
}

// symbols
const (
	sBindW = iota
	sBindR
	sReadRTCP
	sFailW // toggle: the transport's RTCP writer fails from now on / works again
	sTick
	sClose
	sBindL1
	sBindL2
	sUnbindL1
	sUnbindL2
	sWriteL1
	sWriteL2
	sBindR1
	sBindR2
	sUnbindR1
	sUnbindR2
	sReadR1
	sReadR2
	nSyms
)

var symNames = [nSyms]string{"BindRTCPWriter", "BindRTCPReader", "ReadRTCP", "ToggleRTCPWriterFailure", "Tick", "Close",
	"BindLocal(1)", "BindLocal(2)", "UnbindLocal(1)", "UnbindLocal(2)", "Write(1)", "Write(2)",
	"BindRemote(1)", "BindRemote(2)", "UnbindRemote(1)", "UnbindRemote(2)", "Read(1)", "Read(2)"}

type config struct {
	Kind  string `json:"kind"`
	Depth int    `json:"depth"`
	// Prefix is a history applied before the search starts: the search then explores every sequence of
	// Depth symbols from the state it reaches (a stream that is bound and has carried traffic with gaps)
	Prefix []int `json:"prefix,omitempty"`
}

type pendingOp struct {
	name string
	th   *vsched.Thread
	life bool
}

type system struct {
	c        config
	cp       caps
	s        *hk.Session
	wBound   bool
	rBound   bool
	closed   bool
	failW    bool
	lBound   [3]bool
	rmBound  [3]bool
	lUnbound [3]bool // was bound and has been unbound (and not re-bound)
	rUnbound [3]bool
	lSeq     [3]uint16
	rSeq     [3]uint16
	warm     [3]bool // jitterbuffer: the warm-up run of stream k has been delivered
	pending  []pendingOp
	interval time.Duration
}

type failure struct{ key, msg string }

func (f *failure) Error() string { return f.msg }

func fail(key, format string, a ...any) error { return &failure{key, fmt.Sprintf(format, a...)} }

func newSystem(c config) (*system, error) {
	k := hk.KindByName(c.Kind)
	i, x, err := k.New(0)
	if err != nil {
		return nil, err
	}
	sys := &system{c: c, cp: kindCaps[c.Kind], s: hk.NewSession(i, x), interval: x.Interval}
	if sys.interval == 0 {
		sys.interval = hk.ReportInterval
	}
	for k := range sys.lSeq {
		// the third packet read on a stream carries sequence number 65535, the following ones have wrapped
		sys.lSeq[k], sys.rSeq[k] = 1000, 65529
	}
	return sys, nil
}

// allowed lists the symbols that make sense in the current state for this kind.
func (sys *system) allowed() []int {
	cp := sys.cp
	var out []int
	add := func(ok bool, s int) {
		if ok {
			out = append(out, s)
		}
	}
	add(cp.rtcpW && !sys.wBound, sBindW)
	add(cp.rtcpR && !sys.rBound, sBindR)
	add(cp.rtcpR && sys.rBound, sReadRTCP)
	add(cp.rtcpW && sys.wBound, sFailW)
	add(true, sTick)
	add(!sys.closed, sClose)
	for k := 1; k <= 2; k++ {
		add(cp.local && !sys.lBound[k], sBindL1+k-1)
		add(cp.local && sys.lBound[k], sUnbindL1+k-1)
		// traffic on a stream is generated while it is bound, and after Close (the property speaks about both);
		// a packet read or written on an unbound stream is outside what the interface permits
		add(cp.local && sys.s.Locals[k] != nil && (sys.lBound[k] || sys.closed), sWriteL1+k-1)
		add(cp.remote && !sys.rmBound[k], sBindR1+k-1)
		add(cp.remote && sys.rmBound[k], sUnbindR1+k-1)
		add(cp.remote && sys.s.Remotes[k] != nil && (sys.rmBound[k] || sys.closed), sReadR1+k-1)
	}
	return out
}

// runOp executes f on its own application thread and lets everything run to
// quiescence. It reports whether f returned.
func (sys *system) runOp(name string, life bool, f func()) (bool, error) {
	th := vsched.GoApp(name, f)
	vsched.Quiesce()
	if th.Done() {
		return true, nil
	}
	// not returned: give the interceptor's timers a chance to release it
	for k := 0; k < 3 && !th.Done(); k++ {
		vsched.Advance(sys.interval)
	}
	if th.Done() {
		return true, nil
	}
	if life {
		state := ""
		if sys.cp.rtcpW && !sys.wBound {
			state += ":no-rtcp-writer-bound"
		}
		if sys.closed {
			state += ":closed"
		}
		return false, fail("C11:lifecycle-call-blocks:"+name+":"+th.BlockedWhy()+state, "%s does not return: blocked in %q with no goroutine or timer able to release it (history so far includes closed=%v)",
			name, th.BlockedWhy(), sys.closed)
	}
	if sys.closed {
		return false, fail("C11:traffic-call-blocks-after-close:"+name, "%s after Close does not return: blocked in %q", name, th.BlockedWhy())
	}
	if !sys.cp.rtcpW || sys.wBound {
		// everything the interceptor needs is bound, it is open, three timer intervals have passed and nothing
		// can release the call any more: the caller is stranded (it may be the very goroutine that would call Close)
		return false, fail("C11:traffic-call-stranded:"+name+":"+th.BlockedWhy(), "%s on an open interceptor with its RTCP writer bound does not return: blocked in %q with no goroutine or timer able to release it", name, th.BlockedWhy())
	}
	sys.pending = append(sys.pending, pendingOp{name, th, life})
	return false, nil
}

func (sys *system) apply(sym int) (string, error) {
	s := sys.s
	name := symNames[sym]
	switch sym {
	case sBindW:
		sys.wBound = true
		_, err := sys.runOp(name, true, func() { s.BindRTCPWriter() })
		return "bw", err
	case sBindR:
		sys.rBound = true
		_, err := sys.runOp(name, true, func() { s.BindRTCPReader() })
		return "br", err
	case sReadRTCP:
		raw := hk.RawSR(hk.StreamInfo(false, 1, true).SSRC, 0xe000000000000000, 99)
		raw = append(raw, hk.RawNACK(hk.StreamInfo(true, 1, true).SSRC, 1000)...)
		done, err := sys.runOp(name, false, func() { _, _, _ = s.ReadRTCP(raw) })
		return fmt.Sprint("rr", done), err
	case sFailW:
		sys.failW = !sys.failW
		s.T.FailRTCP = sys.failW
		return "fw", nil
	case sTick:
		vsched.Advance(sys.interval)
		return "t", nil
	case sClose:
		var cerr error
		done, err := sys.runOp(name, true, func() { cerr = s.I.Close() })
		_ = cerr
		sys.closed = true
		if err != nil {
			return "", err
		}
		if done {
			if err := sys.afterClose(); err != nil {
				return "", err
			}
		}
		return "c", nil
	}
	k := 1 + (sym-sBindL1)%2
	switch sym {
	case sBindL1, sBindL2:
		sys.lBound[k], sys.lUnbound[k] = true, false
		_, err := sys.runOp(name, true, func() { s.BindLocal(k, k == 1) })
		return "bl", err
	case sUnbindL1, sUnbindL2:
		sys.lBound[k], sys.lUnbound[k] = false, true
		info := s.Locals[k].Info
		if k == 1 {
			// the stream is identified by its SSRC: what it negotiated may have changed since it was bound
			info = &interceptor.StreamInfo{ID: info.ID, SSRC: info.SSRC}
		}
		_, err := sys.runOp(name, true, func() { s.I.UnbindLocalStream(info) })
		return "ul", err
	case sWriteL1, sWriteL2:
		l := s.Locals[k]
		sys.lSeq[k]++
		q := sys.lSeq[k]
		var werr error
		done, err := sys.runOp(name, false, func() {
			h, p := hk.Shape(0, l.Info.SSRC, q, uint32(q)*3000)
			if k == 1 {
				_ = h.SetExtension(hk.TwccExtID, []byte{byte(q >> 8), byte(q)})
			}
			_, werr = l.W.Write(&h, p, nil)
		})
		_ = werr
		return fmt.Sprint("w", done), err
	}
	k = 1 + (sym-sBindR1)%2
	switch sym {
	case sBindR1, sBindR2:
		sys.rmBound[k], sys.rUnbound[k] = true, false
		_, err := sys.runOp(name, true, func() { s.BindRemote(k, k == 1) })
		return "brm", err
	case sUnbindR1, sUnbindR2:
		sys.rmBound[k], sys.rUnbound[k] = false, true
		info := s.Remotes[k].Info
		if k == 1 {
			info = &interceptor.StreamInfo{ID: info.ID, SSRC: info.SSRC}
		}
		_, err := sys.runOp(name, true, func() { s.I.UnbindRemoteStream(info) })
		return "urm", err
	case sReadR1, sReadR2:
		rm := s.Remotes[k]
		warm := 0
		if sys.c.Kind == "jitterbuffer" && !sys.warm[k] {
			// the jitter buffer starts playing after 50 packets: the first read of a stream is preceded by a
			// run of 50 consecutive ones, so that the gaps below meet a buffer that is emitting
			sys.warm[k], warm = true, 52
		}
		first := sys.rSeq[k] + 1
		sys.rSeq[k] += uint16(warm)
		sys.rSeq[k] += 2 // leave gaps so that NACK generators have something to ask for
		q := sys.rSeq[k]
		done, err := sys.runOp(name, false, func() {
			for j := 0; j < warm; j++ {
				if j == 1 {
					continue // the second number of the run never arrives: playout reaches the gap at once
				}
				h, p := hk.Shape(0, rm.Info.SSRC, first+uint16(j), uint32(first+uint16(j))*3000)
				_, _, _ = rm.ReadRTP(hk.MarshalRTP(h, p))
			}
			h, p := hk.Shape(0, rm.Info.SSRC, q, uint32(q)*3000)
			if k == 1 {
				_ = h.SetExtension(hk.TwccExtID, []byte{byte(q >> 8), byte(q)})
			}
			_, _, _ = rm.ReadRTP(hk.MarshalRTP(h, p))
		})
		return fmt.Sprint("r", done), err
	}
	return "", fmt.Errorf("unknown symbol %d", sym)
}

// afterClose: Close has returned. Every pending traffic call must have been released, no goroutine of
// the interceptor may be alive, and five more intervals must produce nothing at the transport.
func (sys *system) afterClose() error {
	for _, p := range sys.pending {
		if !p.th.Done() {
			return fail("C11:close-strands-caller:"+p.name, "Close returned but %s, issued before Close, is still blocked in %q", p.name, p.th.BlockedWhy())
		}
	}
	sys.pending = nil
	if live := vsched.LiveNonApp(); len(live) > 0 {
		var names []string
		for _, t := range live {
			names = append(names, t.Name+"/"+t.Why)
		}
		sort.Strings(names)
		return fail("C11:goroutine-alive-after-close:"+strings.Join(names, ","), "Close returned while goroutines started by the interceptor are still alive: %s", strings.Join(names, ", "))
	}
	sys.s.T.TakeRTP()
	sys.s.T.TakeRTCP()
	for k := 0; k < 5; k++ {
		vsched.Advance(sys.interval)
	}
	if n := len(sys.s.T.TakeRTCP()); n > 0 {
		return fail("C11:rtcp-written-after-close", "%d RTCP batches written to the transport after Close returned", n)
	}
	if n := len(sys.s.T.TakeRTP()); n > 0 {
		return fail("C11:rtp-written-after-close", "%d RTP packets written to the transport after Close returned", n)
	}
	return nil
}

// checkQuiet is evaluated after every transition: nothing may be emitted after Close, and nothing
// about an unbound SSRC may be emitted in a timer interval that started after Unbind returned.
func (sys *system) checkQuiet(sym int, rtcpBefore []hk.RTCPRec) error {
	recs := rtcpBefore
	if sys.closed && sym != sClose {
		if len(recs) > 0 {
			return fail("C11:rtcp-written-after-close", "RTCP written to the transport after Close (during %s)", symNames[sym])
		}
	}
	if sym != sTick || len(sys.pending) > 0 {
		// a traffic call that is still in flight may legitimately be accounted later
		return nil
	}
	for _, rec := range recs {
		for _, raw := range rec.Raw {
			if len(raw) > 1 && raw[1] == 205 && raw[0]&0x1f == 15 {
				// transport-wide feedback is about transport sequence numbers, not about a stream:
				// its media SSRC field is a formality and every received packet must be reported
				continue
			}
			for _, ssrc := range hk.NamedSSRCs(raw) {
				for k := 1; k <= 2; k++ {
					if sys.rUnbound[k] && ssrc == hk.StreamInfo(false, k, k == 1).SSRC {
						return fail(fmt.Sprintf("C11:report-about-unbound-remote-stream:%s:pt%d-fmt%d", sys.c.Kind, raw[1], raw[0]&0x1f),
							"a whole timer interval after UnbindRemoteStream(%#x) returned, an RTCP packet (PT %d, FMT %d) about that SSRC was written", ssrc, raw[1], raw[0]&0x1f)
					}
					if sys.lUnbound[k] && ssrc == hk.StreamInfo(true, k, k == 1).SSRC {
						return fail(fmt.Sprintf("C11:report-about-unbound-local-stream:%s:pt%d-fmt%d", sys.c.Kind, raw[1], raw[0]&0x1f),
							"a whole timer interval after UnbindLocalStream(%#x) returned, an RTCP packet (PT %d, FMT %d) about that SSRC was written", ssrc, raw[1], raw[0]&0x1f)
					}
				}
			}
		}
	}
	return nil
}

type replay struct {
	Config  config   `json:"config"`
	History []string `json:"history"`
	Syms    []int    `json:"syms"`
}

func describe(c config, h []int) replay {
	r := replay{Config: c, Syms: h}
	for _, a := range h {
		r.History = append(r.History, symNames[a])
	}
	return r
}

type stepInfo struct {
	hk.Step
	allowed []int
}

func exec(c config, hist []int) stepInfo {
	var st stepInfo
	res := vsched.Run(vsched.Options{Strategy: vsched.BackgroundFirst{}, MaxSteps: 2_000_000}, func() {
		sys, err := newSystem(c)
		if err != nil {
			vsched.Failf("setup: %v", err)
			return
		}
		// an "unbound" mark only counts from the first full interval after the Unbind:
		// one report may already be in flight
		inFlight := map[int]bool{}
		for i, a := range hist {
			ok := false
			for _, b := range sys.allowed() {
				if a == b {
					ok = true
				}
			}
			if !ok {
				st.Dead = true
				return
			}
			sys.s.T.TakeRTCP()
			sys.s.T.TakeRTP()
			out, err := sys.apply(a)
			recs := sys.s.T.TakeRTCP()
			if err == nil {
				if a == sTick {
					// the first tick after an Unbind may carry the report that was in flight
					for k := range inFlight {
						delete(inFlight, k)
						_ = k
						recs = nil
					}
				}
				if a == sUnbindL1 || a == sUnbindL2 || a == sUnbindR1 || a == sUnbindR2 {
					inFlight[a] = true
				}
				err = sys.checkQuiet(a, recs)
			}
			if err != nil {
				if i == len(hist)-1 {
					key := "C11:other"
					if f, ok := err.(*failure); ok {
						key = f.key
					}
					st.Violation = &hk.Violation{Key: key, Message: err.Error(), Replay: describe(c, hist)}
				} else {
					st.Dead = true
				}
				return
			}
			if i == len(hist)-1 {
				st.Outcome = out
				st.Nontrivial = a == sClose || a >= sUnbindL1 || a == sTick
			}
		}
		st.allowed = sys.allowed()
		flags := []int64{b2i(sys.wBound), b2i(sys.rBound), b2i(sys.closed), b2i(sys.failW), int64(len(sys.pending)), int64(len(inFlight))}
		for k := 1; k <= 2; k++ {
			flags = append(flags, b2i(sys.lBound[k]), b2i(sys.rmBound[k]), b2i(sys.lUnbound[k]), b2i(sys.rUnbound[k]), int64(sys.lSeq[k]), int64(sys.rSeq[k]),
				b2i(sys.s.Locals[k] != nil), b2i(sys.s.Remotes[k] != nil))
		}
		st.Key = hk.DeepHash(sys.s.I) ^ hk.HashInts(flags...) ^ hk.EnvHash()
	})
	if st.Violation == nil && !st.Dead {
		switch {
		case len(res.Panics) > 0:
			p := res.Panics[0]
			st.Violation = &hk.Violation{Key: "C11:panic:" + topFrame(p.Stack), Message: "panic in " + p.Name + ": " + p.Value + "\n" + p.Stack, Replay: describe(c, hist)}
		case res.StepLimit:
			st.Violation = &hk.Violation{Key: "C11:livelock", Message: "step budget exceeded: " + res.StepWhere, Replay: describe(c, hist)}
		case len(res.Failures) > 0:
			st.Violation = &hk.Violation{Key: "C11:harness", Message: res.Failures[0], Replay: describe(c, hist)}
		}
	}
	return st
}

func topFrame(stack string) string {
	for _, l := range strings.Split(stack, "\n") {
		l = strings.TrimSpace(l)
		if strings.HasPrefix(l, "github.com/pion/") && !strings.Contains(l, "/verifh/") {
			if i := strings.LastIndex(l, "("); i > 0 {
				l = l[:i]
			}
			return strings.TrimPrefix(l, "github.com/pion/interceptor/")
		}
	}
	return "?"
}

func b2i(b bool) int64 {
	if b {
		return 1
	}
	return 0
}

func configs(tier string) []config {
	var out []config
	for _, k := range hk.Kinds() {
		cp := kindCaps[k.Name]
		n := 2 // tick, close
		if cp.rtcpW {
			n += 2
		}
		if cp.rtcpR {
			n += 2
		}
		if cp.local {
			n += 6
		}
		if cp.remote {
			n += 6
		}
		d := 6
		if n > 10 {
			d = 5
		}
		if tier == "thorough" {
			d++
		}
		out = append(out, config{Kind: k.Name, Depth: d})
	}
	// the same search from warmed-up states: writer (and reader) bound, stream 1 bound, two traffic calls
	for _, k := range hk.Kinds() {
		cp := kindCaps[k.Name]
		d := 4
		if tier == "thorough" {
			d = 5
		}
		var pre []int
		if cp.rtcpW {
			pre = append(pre, sBindW)
		}
		if cp.rtcpR {
			pre = append(pre, sBindR)
		}
		if cp.remote {
			out = append(out, config{Kind: k.Name, Depth: d, Prefix: append(append([]int{}, pre...), sBindR1, sReadR1, sReadR1)})
		}
		if cp.local {
			out = append(out, config{Kind: k.Name, Depth: d, Prefix: append(append([]int{}, pre...), sBindL1, sWriteL1, sWriteL1)})
		}
	}
	return out
}

func init() {
	hk.Register(&hk.Check{
		ID: "C11",
		Rule: "E2 explicit-state search: for every interceptor of the library, all sequences up to the depth of BindRTCPWriter, BindRTCPReader, ReadRTCP, toggle-RTCP-writer-failure, Tick, Close, and per stream s in {1 (everything negotiated), 2 (nothing negotiated)} Bind/Unbind/Write (local) and Bind/Unbind/Read (remote), restricted to the calls the interceptor implements; " +
			"every call runs on its own application thread so that a call that never returns is observed (after three timer intervals) instead of hanging the checker; a transition is non-trivial if it is Close, an Unbind or a Tick; states distinct by deep hash of the interceptor + session flags + clock",
		Assumptions: []string{"vsched model (litmus suite)", "a second Close is not issued (io.Closer leaves it undefined and the property does not mention it)",
			"a traffic call issued before BindRTCPWriter may stay blocked until the writer is bound or Close (DESIGN.md section 5); lifecycle calls may not, and neither may a traffic call once the writer is bound",
			"the first timer interval after an Unbind may still carry the report that was in flight"},
		Jobs: func(tier string) []string {
			var n []string
			for _, c := range configs(tier) {
				b, _ := json.Marshal(c)
				n = append(n, string(b))
			}
			for _, k := range hk.Kinds() {
				n = append(n, "rebind-differential:"+k.Name)
			}
			return n
		},
		Run: func(tier string, i int, deadline time.Time) *hk.JobResult {
			if cs := configs(tier); i >= len(cs) {
				d := 3
				if tier == "thorough" {
					d = 5
				}
				r := &hk.JobResult{Exhaustive: true, Bounds: map[string]any{"rebind_depth": d, "rebind_operations": len(rebindOps)}}
				rebindJob(hk.Kinds()[i-len(cs)].Name, d, r)
				return r
			}
			c := configs(tier)[i]
			r := &hk.JobResult{Exhaustive: true, Bounds: map[string]any{"depth": c.Depth}}
			allowedAfter := map[string][]int{}
			key := func(h []int) string { return fmt.Sprint(h) }
			full := func(h []int) []int { return append(append([]int{}, c.Prefix...), h...) }
			s := &hk.Search{Alphabet: nSyms, Depth: c.Depth, Dedup: true, Deadline: deadline, MaxViolations: 12,
				Exec: func(h []int) hk.Step {
					st := exec(c, full(h))
					if st.allowed != nil && len(h) < c.Depth {
						allowedAfter[key(h)] = st.allowed
					}
					return st.Step
				},
				Allowed: func(h []int) []int {
					if len(h) == 0 {
						if len(c.Prefix) > 0 {
							return exec(c, c.Prefix).allowed
						}
						sys := &system{cp: kindCaps[c.Kind], s: hk.NewSession(nil, nil)}
						return sys.allowed()
					}
					a := allowedAfter[key(h)]
					delete(allowedAfter, key(h))
					return a
				},
				Describe: func(h []int) any { return describe(c, full(h)) }}
			s.Run().Fill(r)
			return r
		},
		Replay: func(raw json.RawMessage) string {
			var rb struct {
				Kind string `json:"rebind_kind"`
				Ops  []int  `json:"ops"`
			}
			if json.Unmarshal(raw, &rb) == nil && rb.Kind != "" {
				a, _ := rebindCase(rb.Kind, rb.Ops, true)
				b, _ := rebindCase(rb.Kind, rb.Ops, false)
				if a != b {
					return "rebind not fresh: " + diffLines(a, b)
				}
				return ""
			}
			var rp replay
			if err := json.Unmarshal(raw, &rp); err != nil {
				return "bad replay"
			}
			if st := exec(rp.Config, rp.Syms); st.Violation != nil {
				return st.Violation.Message
			}
			return ""
		},
		Bounds: func(tier string) map[string]any {
			return map[string]any{"interceptors": len(configs(tier)), "symbols": nSyms}
		},
	})
}
