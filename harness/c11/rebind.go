package c11

import (
	"fmt"
	"sort"
	"strings"

	"github.com/pion/interceptor/verifh/hk"
	"github.com/pion/interceptor/vsched"
)

// Rebind differential: "binding the same SSRC again starts from fresh state". For every short history H of
// traffic on stream 1, run A = H, Unbind(1), Bind(1), probe; run B = the ticks of H only (same virtual
// times), Bind(1), probe. H may contain earlier unbind/bind cycles of the stream. Everything the probe makes the interceptor emit about stream 1 must be the same.

var rebindOps = []string{"traffic", "traffic-with-gap", "tick", "rtcp-in", "unbind+bind"}

type rebindRun struct {
	kind string
	cp   caps
	s    *hk.Session
	lseq uint16
	rseq uint16
}

func (r *rebindRun) op(o int) {
	s := r.s
	switch o {
	case 0, 1:
		step := uint16(1 + o)
		if r.cp.local && s.Locals[1] != nil {
			r.lseq += step
			h, p := hk.Shape(0, s.Locals[1].Info.SSRC, r.lseq, uint32(r.lseq)*3000)
			_ = h.SetExtension(hk.TwccExtID, []byte{byte(r.lseq >> 8), byte(r.lseq)})
			_, _ = s.Locals[1].W.Write(&h, p, nil)
		}
		if r.cp.remote && s.Remotes[1] != nil {
			r.rseq += step
			h, p := hk.Shape(0, s.Remotes[1].Info.SSRC, r.rseq, uint32(r.rseq)*3000)
			_ = h.SetExtension(hk.TwccExtID, []byte{byte(r.rseq >> 8), byte(r.rseq)})
			_, _, _ = s.Remotes[1].ReadRTP(hk.MarshalRTP(h, p))
		}
	case 2:
		vsched.Advance(hk.ReportInterval)
	case 4:
		// an earlier unbind/bind cycle of the same SSRC (the reference run never had the stream: nothing happens there)
		if r.cp.local && s.Locals[1] != nil {
			s.I.UnbindLocalStream(s.Locals[1].Info)
			s.BindLocal(1, true)
		}
		if r.cp.remote && s.Remotes[1] != nil {
			s.I.UnbindRemoteStream(s.Remotes[1].Info)
			s.BindRemote(1, true)
		}
	case 3:
		if r.cp.rtcpR {
			raw := hk.RawSR(hk.StreamInfo(false, 1, true).SSRC, 0xe000000000000000, 99)
			raw = append(raw, hk.RawNACK(hk.StreamInfo(true, 1, true).SSRC, r.lseq)...)
			_, _, _ = s.ReadRTCP(raw)
		}
	}
	vsched.Quiesce()
}

// probeTranscript binds stream 1 (again), runs the probe and returns what was emitted about stream 1.
func (r *rebindRun) probeTranscript() string {
	s := r.s
	s.T.TakeRTCP()
	s.T.TakeRTP()
	if r.cp.local {
		s.BindLocal(1, true)
	}
	if r.cp.remote {
		s.BindRemote(1, true)
	}
	vsched.Quiesce()
	r.lseq, r.rseq = 5000, 5000
	for _, o := range []int{0, 0, 1, 2, 3, 2} {
		r.op(o)
	}
	l := hk.StreamInfo(true, 1, true)
	rm := hk.StreamInfo(false, 1, true)
	mine := map[uint32]bool{l.SSRC: true, l.SSRCRetransmission: true, l.SSRCForwardErrorCorrection: true, rm.SSRC: true}
	var out []string
	for _, rec := range s.T.TakeRTCP() {
		for _, raw := range rec.Raw {
			if len(raw) > 1 && raw[1] == 205 && raw[0]&0x1f == 15 {
				continue // transport-wide feedback is not per-stream state
			}
			named := false
			for _, ssrc := range hk.NamedSSRCs(raw) {
				if mine[ssrc] {
					named = true
				}
			}
			if !named {
				continue
			}
			b := append([]byte(nil), raw...)
			if len(b) >= 8 && (b[1] == 201 || b[1] == 205 || b[1] == 206) {
				b[4], b[5], b[6], b[7] = 0, 0, 0, 0 // the sender SSRC is drawn at random per instance
			}
			out = append(out, fmt.Sprintf("rtcp %x", b))
		}
	}
	for _, rec := range s.T.TakeRTP() {
		if rec.App {
			continue
		}
		if rec.Header.SSRC == l.SSRC && rec.Header.PayloadType == 96 && hk.KindByName(r.kind).Buffering {
			continue // an application packet a pacer accepted earlier and releases now: delivery, not stream state
		}
		h := rec.Header.Clone()
		if h.SSRC == l.SSRCRetransmission {
			h.SequenceNumber = 0 // RTX numbering comes from pion/randutil
		}
		hb, _ := h.Marshal()
		out = append(out, fmt.Sprintf("rtp %x %x", hb, rec.Payload))
	}
	sort.Strings(out)
	if s.X != nil && s.X.Stats != nil {
		// statistics are what a stats interceptor "emits" about a stream
		for _, ssrc := range []uint32{l.SSRC, rm.SSRC} {
			if st := s.X.Stats.Get(ssrc); st != nil {
				out = append(out, fmt.Sprintf("stats %#x out=%+v in=%+v", ssrc, st.OutboundRTPStreamStats.SentRTPStreamStats, st.InboundRTPStreamStats.ReceivedRTPStreamStats))
			}
		}
	}
	return strings.Join(out, "\n")
}

func rebindCase(kind string, hist []int, rebound bool) (string, *vsched.Result) {
	var tr string
	res := vsched.Run(vsched.Options{Strategy: vsched.BackgroundFirst{}, MaxSteps: 5_000_000}, func() {
		i, x, err := hk.KindByName(kind).New(0)
		if err != nil {
			vsched.Failf("setup: %v", err)
			return
		}
		r := &rebindRun{kind: kind, cp: kindCaps[kind], s: hk.NewSession(i, x), lseq: 1000, rseq: 2000}
		r.s.BindRTCPWriter()
		r.s.BindRTCPReader()
		if rebound {
			if r.cp.local {
				r.s.BindLocal(1, true)
			}
			if r.cp.remote {
				r.s.BindRemote(1, true)
			}
			for _, o := range hist {
				r.op(o)
			}
			if r.cp.local {
				i.UnbindLocalStream(r.s.Locals[1].Info)
			}
			if r.cp.remote {
				i.UnbindRemoteStream(r.s.Remotes[1].Info)
			}
		} else {
			for _, o := range hist {
				if o == 2 {
					r.op(o) // only time passes
				}
			}
		}
		tr = r.probeTranscript()
		_ = i.Close()
	})
	return tr, res
}

// rebindJob enumerates all histories up to the depth for one interceptor kind.
func rebindJob(kind string, depth int, r *hk.JobResult) {
	var hist []int
	var rec func()
	keys := map[string]bool{}
	rec = func() {
		if len(hist) > 0 {
			a, ra := rebindCase(kind, hist, true)
			b, rb := rebindCase(kind, hist, false)
			r.Executions += 2
			r.States++
			r.Transitions++
			r.Nontrivial++
			bad := len(ra.Panics) > 0 || ra.StepLimit || ra.Deadlock || len(rb.Panics) > 0 || rb.StepLimit || rb.Deadlock
			if !bad && a != b {
				key := "C11:rebind-not-fresh:" + kind
				if !keys[key] {
					keys[key] = true
					var names []string
					for _, o := range hist {
						names = append(names, rebindOps[o])
					}
					r.Violations = append(r.Violations, hk.Violation{Key: key,
						Message: fmt.Sprintf("%s: after the history %v on stream 1, UnbindStream and a new Bind of the same SSRC, a fixed probe makes the interceptor emit something different about that stream than on an instance that never had it:\n%s", kind, names, diffLines(a, b)),
						Replay:  map[string]any{"rebind_kind": kind, "ops": append([]int(nil), hist...)}})
				}
			}
		}
		if len(hist) == depth {
			return
		}
		for o := range rebindOps {
			hist = append(hist, o)
			rec()
			hist = hist[:len(hist)-1]
		}
	}
	rec()
	r.Samples = append(r.Samples, map[string]any{"rebind_kind": kind, "history": []string{"traffic", "traffic-with-gap", "tick"}})
}

func diffLines(a, b string) string {
	count := map[string]int{}
	for _, l := range strings.Split(a, "\n") {
		count[l]++
	}
	for _, l := range strings.Split(b, "\n") {
		count[l]--
	}
	var onlyA, onlyB []string
	for l, n := range count {
		for ; n > 0; n-- {
			onlyA = append(onlyA, l)
		}
		for ; n < 0; n++ {
			onlyB = append(onlyB, l)
		}
	}
	sort.Strings(onlyA)
	sort.Strings(onlyB)
	clip := func(l []string) string {
		s := strings.Join(l, "\n")
		if len(s) > 500 {
			s = s[:500] + "…"
		}
		return s
	}
	return "--- only after Unbind+Bind\n" + clip(onlyA) + "\n--- only on the fresh instance\n" + clip(onlyB)
}
