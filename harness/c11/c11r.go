package c11

import (
	"encoding/json"
	"fmt"
	"strings"
	"time"

	"github.com/pion/interceptor/verifh/hk"
	"github.com/pion/interceptor/vsched"
)

// rscen: Close (or Unbind) issued from its own goroutine while traffic is in flight.
type rscen struct {
	Kind    string `json:"kind"`
	Traffic string `json:"traffic"` // "w" local writes, "r" remote reads, "rtcp" RTCP read
	Life    string `json:"lifecycle"`
	Horizon int    `json:"horizon"`
	Bound   int    `json:"deviation_bound"`
}

func (c rscen) name() string { b, _ := json.Marshal(c); return string(b) }

func rbody(c rscen, ctx *hk.Ctx) {
	k := hk.KindByName(c.Kind)
	i, x, err := k.New(0)
	if err != nil {
		ctx.Fail("C11:setup", "%v", err)
		return
	}
	s := hk.NewSession(i, x)
	cp := kindCaps[c.Kind]
	if cp.rtcpW {
		s.BindRTCPWriter()
	}
	if cp.rtcpR {
		s.BindRTCPReader()
	}
	var l *hk.Local
	var rm *hk.Remote
	if cp.local {
		l = s.BindLocal(1, true)
		for q := uint16(98); q <= 100; q++ {
			h, p := hk.Shape(0, l.Info.SSRC, q, 1)
			_ = h.SetExtension(hk.TwccExtID, []byte{0, byte(q)})
			_, _ = l.W.Write(&h, p, nil)
		}
	}
	if cp.remote {
		rm = s.BindRemote(1, true)
		h, p := hk.Shape(0, rm.Info.SSRC, 200, 1)
		_ = h.SetExtension(hk.TwccExtID, []byte{0, 200})
		_, _, _ = rm.ReadRTP(hk.MarshalRTP(h, p))
	}
	closeSeq, closeSeq2, unbindSeq := -1, -1, -1
	var ths []*vsched.Thread
	ths = append(ths, vsched.GoApp("traffic", func() {
		for n := 0; n < 2; n++ {
			switch c.Traffic {
			case "w":
				q := uint16(101 + n)
				h, p := hk.Shape(0, l.Info.SSRC, q, uint32(q))
				_ = h.SetExtension(hk.TwccExtID, []byte{0, byte(q)})
				_, _ = l.W.Write(&h, p, nil)
			case "r":
				q := uint16(202 + 2*n)
				h, p := hk.Shape(0, rm.Info.SSRC, q, uint32(q))
				_ = h.SetExtension(hk.TwccExtID, []byte{0, byte(q)})
				_, _, _ = rm.ReadRTP(hk.MarshalRTP(h, p))
			case "rtcp":
				raw := hk.RawSR(hk.StreamInfo(false, 1, true).SSRC, 0xe000000000000000, 9)
				raw = append(raw, hk.RawNACKPair(hk.StreamInfo(true, 1, true).SSRC, 98, 0b11)...) // 98, 99, 100 in one FCI entry
				raw = append(raw, hk.RawTWCC(hk.StreamInfo(true, 1, true).SSRC, 100, 2, byte(n))...)
				_, _, _ = s.ReadRTCP(raw)
			}
		}
	}))
	if c.Life == "close2" {
		// a second Close from another goroutine. Whether Close may be repeated is left open (io.Closer); what is
		// demanded is only that a Close call that returns does so after the interceptor's goroutines have
		// stopped writing - also when another Close is still waiting for them
		ths = append(ths, vsched.GoApp("lifecycle-2", func() {
			_ = s.I.Close()
			closeSeq2 = s.T.SeqNow()
		}))
	}
	ths = append(ths, vsched.GoApp("lifecycle", func() {
		switch c.Life {
		case "close", "close2":
			_ = s.I.Close()
			closeSeq = s.T.SeqNow()
		case "unbind":
			if l != nil {
				s.I.UnbindLocalStream(l.Info)
				unbindSeq = s.T.SeqNow()
			}
			if rm != nil {
				s.I.UnbindRemoteStream(rm.Info)
			}
		}
	}))
	for _, t := range ths {
		t.Join()
	}
	if c.Life != "close" && c.Life != "close2" {
		_ = s.I.Close()
		closeSeq = s.T.SeqNow()
	}
	vsched.Quiesce()
	vsched.AcquireFinished()
	if ctx.Failed() {
		return
	}
	if closeSeq2 >= 0 && closeSeq2 < closeSeq {
		closeSeq = closeSeq2 // the Close call that returned first
	}
	late := 0
	for _, r := range s.T.RTCP {
		if r.Seq > closeSeq && !r.App {
			late++
		}
	}
	for _, r := range s.T.RTP {
		if r.Seq > closeSeq && !r.App {
			late++
		}
	}
	if c.Kind == "nack-responder" && unbindSeq >= 0 {
		// "after Unbind of a stream returns, no further [retransmission] is emitted (beyond one already in flight)"
		per := map[int]int{}
		for _, r := range s.T.RTP {
			if r.Seq > unbindSeq && !r.App {
				per[r.Thread]++
			}
		}
		for _, n := range per {
			if n > 1 {
				ctx.Fail("C11:retransmissions-after-unbind-returned", "one request's goroutine wrote %d retransmissions after UnbindLocalStream had returned (one may be in flight)", n)
				return
			}
		}
	}
	if late > 0 {
		ctx.Fail("C11:written-after-close-returned", "%d packets/batches were written to the transport by the interceptor's goroutines after Close had returned", late)
		return
	}
	ctx.Outcome("rtcp=%d rtp=%d", len(s.T.RTCP), len(s.T.RTP))
}

func rscenarios(tier string) []rscen {
	b := 3
	if tier == "thorough" {
		b = 4
	}
	var out []rscen
	for _, k := range hk.Kinds() {
		cp := kindCaps[k.Name]
		h := 0
		if x := k.Name; x == "nack-generator" || x == "receiver-report" || x == "sender-report" || x == "twcc-sender" || x == "rfc8888" || x == "intervalpli" || x == "pacing" || x == "cc-gcc-leaky-bucket" {
			h = 2
		}
		var traffic []string
		if cp.local {
			traffic = append(traffic, "w")
		}
		if cp.remote {
			traffic = append(traffic, "r")
		}
		if cp.rtcpR {
			traffic = append(traffic, "rtcp")
		}
		for _, t := range traffic {
			out = append(out, rscen{Kind: k.Name, Traffic: t, Life: "close", Horizon: h, Bound: b})
		}
		if len(traffic) > 0 {
			out = append(out, rscen{Kind: k.Name, Traffic: traffic[0], Life: "unbind", Horizon: h, Bound: b})
		}
		if k.Name == "nack-responder" {
			out = append(out, rscen{Kind: k.Name, Traffic: "rtcp", Life: "unbind", Horizon: h, Bound: b})
		}
		if h > 0 && !strings.HasPrefix(k.Name, "cc-gcc") && k.Name != "pacing" {
			// interceptors with goroutines of their own whose Close tolerates being called again
			out = append(out, rscen{Kind: k.Name, Traffic: traffic[len(traffic)-1], Life: "close2", Horizon: h, Bound: b})
		}
	}
	return out
}

func rscenario(c rscen) *hk.Scenario {
	return &hk.Scenario{ID: "C11", Name: c.name(), MaxBound: c.Bound, Horizon: c.Horizon, MaxSteps: 400000, Body: func(ctx *hk.Ctx) { rbody(c, ctx) }}
}

func init() {
	hk.Register(&hk.Check{
		ID:          "C11R",
		Rule:        "E1 schedule exploration (-race): for every interceptor, a traffic thread (two writes, two reads or two RTCP reads) || a lifecycle thread issuing Close (or Unbind followed by Close; for interceptors with timers whose Close tolerates repetition also two threads issuing Close) plus up to two timer firings; oracle: no call deadlocks or panics, no goroutine of the interceptor survives Close, nothing is written to the transport by the interceptor's goroutines after Close has returned; every schedule is non-trivial",
		Assumptions: []string{"vsched model and race annotations (litmus suite)"},
		Jobs: func(tier string) []string {
			var n []string
			for _, c := range rscenarios(tier) {
				n = append(n, c.name())
			}
			return n
		},
		Run: func(tier string, i int, deadline time.Time) *hk.JobResult {
			r := &hk.JobResult{Exhaustive: true}
			rscenario(rscenarios(tier)[i]).Explore(deadline, r)
			return r
		},
		Replay: func(raw json.RawMessage) string {
			var rp hk.E1Replay
			if err := json.Unmarshal(raw, &rp); err != nil {
				return "bad replay"
			}
			var c rscen
			if err := json.Unmarshal([]byte(rp.Scenario), &c); err != nil {
				return "bad scenario"
			}
			return rscenario(c).ReplaySchedule(rp.Schedule)
		},
		Bounds: func(tier string) map[string]any { return map[string]any{"scenarios": len(rscenarios(tier))} },
	})
	_ = fmt.Sprint
}
