// Package c12 decides property C12 (memory held per interceptor is bounded
// regardless of stream length) by pumping every short workload cycle through
// every interceptor for several equal-length phases under the virtual clock
// and comparing a deterministic reflective retained-size measure at the phase
// boundaries, and by comparing the size after Unbind with that of an instance
// that never had the stream.
package c12

import (
	"encoding/json"
	"fmt"
	"github.com/pion/interceptor"
	"sort"
	"strings"
	"time"

	"github.com/pion/interceptor/verifh/hk"
	"github.com/pion/interceptor/vsched"
	"github.com/pion/rtcp"
)

type job struct {
	Kind   string `json:"kind"`
	MaxLen int    `json:"max_cycle_length"`
	P      int    `json:"iterations_per_phase"`
	Chunk  int    `json:"chunk"`
	Chunks int    `json:"chunks"`
}

var opNames = []string{"pkt", "skip", "dup", "late", "feedback", "rtcp-out", "tick", "nop"}

type caps struct{ local, remote, rtcpR bool }

var kindCaps = map[string]caps{
	"nack-generator": {remote: true}, "nack-responder": {local: true, rtcpR: true}, "receiver-report": {remote: true, rtcpR: true},
	"sender-report": {local: true}, "twcc-sender": {remote: true}, "twcc-header-extension": {local: true}, "rfc8888": {remote: true},
	"rtpfb": {local: true, rtcpR: true}, "stats": {local: true, remote: true, rtcpR: true}, "packetdump-receiver": {remote: true, rtcpR: true},
	"packetdump-sender": {local: true}, "intervalpli": {remote: true}, "flexfec": {local: true}, "cc-gcc-noop-pacer": {local: true, rtcpR: true},
	"cc-gcc-leaky-bucket": {local: true, rtcpR: true}, "pacing": {local: true}, "jitterbuffer": {remote: true},
}

type pump struct {
	kind  string
	cp    caps
	s     *hk.Session
	lseq  uint16 // last local sequence number written
	rseq  uint16 // last remote sequence number read
	tseq  uint16 // transport-wide number of the last local packet
	acked uint16
	fb    uint8
	// failing-writer measurement
	written int
	atPhase func()
}

func newPump(kind string) (*pump, error) {
	i, x, err := hk.KindByName(kind).New(0)
	if err != nil {
		return nil, err
	}
	p := &pump{kind: kind, cp: kindCaps[kind], s: hk.NewSession(i, x), lseq: 65000, rseq: 65000, tseq: 65000, acked: 65000}
	p.s.BindRTCPWriter()
	p.s.BindRTCPReader()
	if p.cp.local {
		p.s.BindLocal(1, true)
		p.s.BindLocal(2, false) // nothing negotiated: tracked by SSRC and sequence number where it is tracked at all
	}
	if p.cp.remote {
		p.s.BindRemote(1, true)
	}
	return p, nil
}

func (p *pump) write(seq uint16) {
	l := p.s.Locals[1]
	p.tseq++
	h, pl := hk.Shape(0, l.Info.SSRC, seq, uint32(seq)*90)
	_ = h.SetExtension(hk.TwccExtID, []byte{byte(p.tseq >> 8), byte(p.tseq)})
	_, _ = l.W.Write(&h, pl, nil)
	p.written += 2
	if seq%4 == 0 {
		// the application retransmits on its own now and then: a packet with the stream's RTX SSRC on the stream's
		// writer (pacers that route by SSRC have no writer for it; whatever they do with it, they do not keep it)
		hr, plr := hk.Shape(0, l.Info.SSRCRetransmission, seq, uint32(seq)*90)
		_, _ = l.W.Write(&hr, plr[:20], nil)
	}
	// the same sequence number pattern (incl. duplicates and late packets) on the plain stream
	l2 := p.s.Locals[2]
	h2, pl2 := hk.Shape(0, l2.Info.SSRC, seq, uint32(seq)*90)
	_, _ = l2.W.Write(&h2, pl2, nil)
}

func (p *pump) read(seq uint16) {
	rm := p.s.Remotes[1]
	h, pl := hk.Shape(0, rm.Info.SSRC, seq, uint32(seq)*90)
	_ = h.SetExtension(hk.TwccExtID, []byte{byte(seq >> 8), byte(seq)})
	raw := hk.MarshalRTP(h, pl)
	if seq%64 == 5 {
		// a padding-only packet (bandwidth probe) with a sequence number of its own
		hp := h
		hp.Padding, hp.PaddingSize = true, 4
		raw = hk.MarshalRTP(hp, nil)
	}
	_, _, _ = rm.ReadRTP(raw)
}

// op applies one workload operation. Every packet operation advances the virtual clock by 1 ms, so the
// interceptor's own timers fire as they would at 1000 packets per second.
func (p *pump) op(o int) {
	packet := func(ldelta, rdelta int) {
		if p.cp.local {
			p.write(uint16(int(p.lseq) + ldelta))
		}
		if p.cp.remote {
			p.read(uint16(int(p.rseq) + rdelta))
		}
	}
	switch o {
	case 0: // in-order packet
		p.lseq++
		p.rseq++
		packet(0, 0)
	case 1: // a number is skipped (lost for good)
		p.lseq += 2
		p.rseq += 2
		packet(0, 0)
	case 2: // duplicate of the last packet
		packet(0, 0)
	case 3: // late packet: three behind the newest
		packet(-3, -3)
	case 4: // feedback about what was sent / a sender report about what was received
		if p.cp.rtcpR {
			l := hk.StreamInfo(true, 1, true).SSRC
			r := hk.StreamInfo(false, 1, true).SSRC
			n := int(p.tseq - p.acked)
			if n > 20 {
				n = 20
				p.acked = p.tseq - 20
			}
			var raw []byte
			if n > 0 {
				p.fb++
				raw = hk.RawTWCC(l, p.acked+1, n, p.fb)
				p.acked += uint16(n)
			}
			raw = append(raw, hk.RawRR(0x99, l, uint32(p.lseq), 0, 0)...)
			raw = append(raw, hk.RawNACK(l, p.lseq-1)...)
			raw = append(raw, hk.RawSR(r, 0xe000000000000000+uint64(p.rseq)<<32, uint32(p.rseq)*90)...)
			raw = append(raw, hk.RawXRDLRR(r, l, uint32(p.fb)<<16, 1)...)
			_, _, _ = p.s.ReadRTCP(raw)
		}
	case 5: // the application writes RTCP of its own: SR/RR, an XR with a receiver reference time, a PLI, a NACK
		l := hk.StreamInfo(true, 1, true).SSRC
		r := hk.StreamInfo(false, 1, true).SSRC
		p.fb++
		pkts := []rtcp.Packet{
			&rtcp.SenderReport{SSRC: l, NTPTime: 0xe0000000_00000000 + uint64(p.fb)<<32, RTPTime: uint32(p.fb), PacketCount: uint32(p.lseq), OctetCount: 1},
			&rtcp.ReceiverReport{SSRC: l, Reports: []rtcp.ReceptionReport{{SSRC: r, LastSequenceNumber: uint32(p.rseq)}}},
			&rtcp.ExtendedReport{SenderSSRC: l, Reports: []rtcp.ReportBlock{&rtcp.ReceiverReferenceTimeReportBlock{NTPTimestamp: 0xe0000000_00000000 + uint64(p.fb)<<32}}},
			&rtcp.PictureLossIndication{SenderSSRC: l, MediaSSRC: r},
			&rtcp.TransportLayerNack{SenderSSRC: l, MediaSSRC: r, Nacks: []rtcp.NackPair{{PacketID: p.rseq}}},
		}
		_, _ = p.s.RTCPW.Write(pkts, nil)
	case 6:
		vsched.Advance(hk.ReportInterval)
		return
	case 7:
		return
	}
	vsched.Advance(time.Millisecond)
	// the mock transport is not part of the interceptor: forget what reached it
	p.s.T.RTP, p.s.T.RTCP, p.s.T.AllRTCP = nil, nil, nil
}

func (p *pump) size() int64 {
	vsched.Quiesce()
	return hk.DeepSize(p.s.I)
}

type replay struct {
	Job   job      `json:"job"`
	Cycle []string `json:"cycle"`
	Ops   []int    `json:"ops"`
	Kind  string   `json:"what"`
}

// pumpCycle runs the cycle for five phases and returns the sizes at the phase boundaries.
func pumpCycle(j job, cycle []int) ([]int64, *vsched.Result) {
	return pumpCycleWith(j, cycle, nil)
}

func pumpCycleWith(j job, cycle []int, prepare func(*pump)) ([]int64, *vsched.Result) {
	var sizes []int64
	res := vsched.Run(vsched.Options{Strategy: vsched.BackgroundFirst{}, MaxSteps: 2_000_000_000}, func() {
		p, err := newPump(j.Kind)
		if err != nil {
			vsched.Failf("setup: %v", err)
			return
		}
		if prepare != nil {
			prepare(p)
		}
		for phase := 0; phase < 5; phase++ {
			for it := 0; it < j.P; it++ {
				for _, o := range cycle {
					p.op(o)
				}
			}
			sizes = append(sizes, p.size())
			if p.atPhase != nil {
				p.atPhase()
			}
		}
		_ = p.s.I.Close()
	})
	return sizes, res
}

// cause names what a growing cycle needs: nothing if the kind already grows on in-order traffic alone (then
// every cycle grows for that reason), else the irregular operations of the cycle (skip, dup, late) or, without
// any, the whole cycle. Known findings are keyed by it, so that growth for another reason is still reported.
var inOrderGrows = map[string]int{}

func cause(j job, c []int) string {
	g, ok := inOrderGrows[j.Kind]
	if !ok {
		g = 0
		if sizes, res := pumpCycle(j, []int{0}); len(res.Panics) == 0 && !res.StepLimit && !res.Deadlock && leak(sizes, j.P) {
			g = 1
		}
		inOrderGrows[j.Kind] = g
	}
	if g == 1 {
		return ""
	}
	set := map[string]bool{}
	for _, o := range c {
		if o >= 1 && o <= 3 {
			set[opNames[o]] = true
		}
	}
	var l []string
	for n := range set {
		l = append(l, n)
	}
	if len(l) == 0 {
		l = names(c)
	} else {
		sort.Strings(l)
	}
	return ":on-" + strings.Join(l, "+")
}

// leak: the retained size grew in every one of the last three phases by at least one byte per iteration.
func leak(sizes []int64, P int) bool {
	if len(sizes) < 5 {
		return false
	}
	for k := 2; k < 5; k++ {
		if sizes[k]-sizes[k-1] < int64(P) {
			return false
		}
	}
	return true
}

func cycles(maxLen int) [][]int {
	var out [][]int
	n := len(opNames)
	for a := 0; a < n-1; a++ { // a cycle consisting of "nop" only is pointless
		out = append(out, []int{a})
	}
	if maxLen >= 2 {
		for a := 0; a < n-1; a++ {
			for b := 0; b < n-1; b++ {
				if a != b {
					out = append(out, []int{a, b})
				}
			}
		}
	}
	if maxLen >= 3 {
		for a := 0; a < n-1; a++ {
			for b := 0; b < n-1; b++ {
				for c := 0; c < n-1; c++ {
					if a != b || b != c {
						out = append(out, []int{a, b, c})
					}
				}
			}
		}
	}
	return out
}

func names(c []int) []string {
	var s []string
	for _, o := range c {
		s = append(s, opNames[o])
	}
	return s
}

// unbindCheck: two streams (1 and 3, both fully negotiated) carry the same traffic; stream 1 is unbound
// and stream 3 carries two more seconds of traffic (so that count- and time-based windows turn over).
// The retained size must not exceed (by more than 256 bytes) that of an instance that only ever had
// stream 3 with the same traffic at the same times.
// manyStreams: 120 remote streams on one instance receive in-order packets in turn (1 ms apart) for five
// equal phases. What a feedback generator keeps per stream must not depend on how many streams share its
// report budget. Only kinds that see nothing but incoming RTP are measured this way: their per-stream state is
// of fixed size or bounded by time, so it is saturated well within the first phase.
const manyN = 120

func manyStreams(j job) ([]int64, *vsched.Result) {
	var sizes []int64
	res := vsched.Run(vsched.Options{Strategy: vsched.BackgroundFirst{}, MaxSteps: 2_000_000_000}, func() {
		i, x, err := hk.KindByName(j.Kind).New(0)
		if err != nil {
			vsched.Failf("setup: %v", err)
			return
		}
		s := hk.NewSession(i, x)
		s.BindRTCPWriter()
		s.BindRTCPReader()
		for k := 1; k <= manyN; k++ {
			s.BindRemote(k, true)
		}
		seq := make([]uint16, manyN+1)
		for phase := 0; phase < 5; phase++ {
			for it := 0; it < j.P; it++ {
				k := 1 + it%manyN
				seq[k]++
				rm := s.Remotes[k]
				h, pl := hk.Shape(0, rm.Info.SSRC, 65000+seq[k], uint32(seq[k])*90)
				t := uint16(phase*j.P + it)
				_ = h.SetExtension(hk.TwccExtID, []byte{byte(t >> 8), byte(t)})
				_, _, _ = rm.ReadRTP(hk.MarshalRTP(h, pl))
				vsched.Advance(time.Millisecond)
				s.T.RTP, s.T.RTCP, s.T.AllRTCP = nil, nil, nil
			}
			vsched.Quiesce()
			sizes = append(sizes, hk.DeepSize(s.I))
		}
		_ = i.Close()
	})
	return sizes, res
}

func unbindCheck(j job) (string, int64, int64) {
	cp := kindCaps[j.Kind]
	msg := ""
	measure := func(withOne bool) int64 {
		var size int64
		vsched.Run(vsched.Options{Strategy: vsched.BackgroundFirst{}, MaxSteps: 500_000_000}, func() {
			i, x, err := hk.KindByName(j.Kind).New(0)
			if err != nil {
				msg = err.Error()
				return
			}
			s := hk.NewSession(i, x)
			s.BindRTCPWriter()
			s.BindRTCPReader()
			streams := []int{3}
			if withOne {
				streams = []int{1, 3}
			}
			for _, k := range streams {
				if cp.local {
					s.BindLocal(k, true)
				}
				if cp.remote {
					s.BindRemote(k, true)
				}
			}
			tseq := uint16(0)
			traffic := func(it int, ks []int) {
				for _, k := range ks {
					q := uint16(1000 + it + it/7) // every seventh number is skipped
					if cp.local {
						l := s.Locals[k]
						tseq++
						h, pl := hk.Shape(0, l.Info.SSRC, q, uint32(q)*90)
						_ = h.SetExtension(hk.TwccExtID, []byte{byte(tseq >> 8), byte(tseq)})
						_, _ = l.W.Write(&h, pl, nil)
					}
					if cp.remote {
						rm := s.Remotes[k]
						h, pl := hk.Shape(0, rm.Info.SSRC, q, uint32(q)*90)
						_ = h.SetExtension(hk.TwccExtID, []byte{byte(q >> 8), byte(q + uint16(k))})
						_, _, _ = rm.ReadRTP(hk.MarshalRTP(h, pl))
					}
				}
				if !withOne {
					tseq += uint16(len(ks)) // keep transport-wide numbers aligned between the two runs
				}
				vsched.Advance(time.Millisecond)
				s.T.RTP, s.T.RTCP, s.T.AllRTCP = nil, nil, nil
			}
			for it := 0; it < 300; it++ {
				traffic(it, streams)
			}
			if withOne {
				if cp.local {
					s.I.UnbindLocalStream(&interceptor.StreamInfo{ID: s.Locals[1].Info.ID, SSRC: s.Locals[1].Info.SSRC}) // identified by its SSRC
				}
				if cp.remote {
					s.I.UnbindRemoteStream(&interceptor.StreamInfo{ID: s.Remotes[1].Info.ID, SSRC: s.Remotes[1].Info.SSRC})
				}
			}
			for it := 300; it < 2300; it++ {
				traffic(it, []int{3})
			}
			vsched.Quiesce()
			size = hk.DeepSize(s.I)
			_ = i.Close()
		})
		return size
	}
	after := measure(true)
	never := measure(false)
	return msg, after, never
}

func jobs(tier string) []job {
	var out []job
	for _, k := range hk.Kinds() {
		j := job{Kind: k.Name, MaxLen: 2, P: 3000}
		if tier == "thorough" {
			j.MaxLen, j.P = 3, 10000
			if k.Name == "pacing" || k.Name == "cc-gcc-leaky-bucket" || k.Name == "jitterbuffer" {
				j.P = 4000 // 200 timer wake-ups per 1000 packets (pacers) and the buffer walk make these the slowest
			}
		}
		j.Chunks = 4
		if tier == "thorough" {
			j.Chunks = 8
		}
		for c := 0; c < j.Chunks; c++ {
			j.Chunk = c
			out = append(out, j)
		}
	}
	return out
}

func run(tier string, i int, deadline time.Time) *hk.JobResult {
	j := jobs(tier)[i]
	r := &hk.JobResult{Exhaustive: true, Outcomes: map[string]int{}, Bounds: map[string]any{"iterations_per_phase": j.P, "phases": 5, "max_cycle_length": j.MaxLen}}
	cs := cycles(j.MaxLen)
	for n, c := range cs {
		if n%j.Chunks != j.Chunk {
			continue
		}
		if !deadline.IsZero() && time.Now().After(deadline) {
			r.Exhaustive = false
			r.Notes = append(r.Notes, fmt.Sprintf("deadline reached after %d of %d cycles", n, len(cs)))
			break
		}
		sizes, res := pumpCycle(j, c)
		r.Executions++
		r.States++
		r.Transitions += int64(5 * j.P * len(c))
		r.Nontrivial++
		switch {
		case len(res.Panics) > 0 || res.StepLimit || res.Deadlock:
			// crashes and hangs are C02/C11's subject
			r.Outcomes["not-judged(crash-or-hang)"]++
			continue
		case len(res.Failures) > 0:
			r.Violations = append(r.Violations, hk.Violation{Key: "C12:harness", Message: res.Failures[0], Replay: replay{j, names(c), c, "cycle"}})
			continue
		}
		if leak(sizes, j.P) {
			r.Outcomes["grows"]++
			if len(r.Violations) < 12 {
				r.Violations = append(r.Violations, hk.Violation{Key: fmt.Sprintf("C12:%s:grows-with-traffic%s", j.Kind, cause(j, c)),
					Message: fmt.Sprintf("%s: retained size at the end of five equal phases of %d x %v: %v bytes - it grows by at least a byte per iteration in every phase", j.Kind, j.P, names(c), sizes),
					Replay:  replay{j, names(c), c, "cycle"}})
			}
		} else {
			r.Outcomes["bounded"]++
		}
		if n == len(cs)/2 {
			r.Samples = append(r.Samples, map[string]any{"kind": j.Kind, "cycle": names(c), "sizes_after_each_phase": sizes})
		}
	}
	if cp := kindCaps[j.Kind]; j.Chunk == 1 && cp.remote && !cp.local && j.Kind != "jitterbuffer" {
		sizes, res := manyStreams(j)
		r.Executions++
		r.Transitions += int64(5 * j.P)
		if len(res.Panics) == 0 && !res.StepLimit && !res.Deadlock && len(res.Failures) == 0 && leak(sizes, j.P) {
			r.Violations = append(r.Violations, hk.Violation{Key: "C12:" + j.Kind + ":grows-with-traffic:many-streams",
				Message: fmt.Sprintf("%s: %d remote streams receive in-order packets in turn; retained size at the end of five equal phases of %d packets: %v bytes - it grows by at least a byte per packet in every phase", j.Kind, manyN, j.P, sizes),
				Replay:  replay{Job: j, Kind: "many-streams"}})
		}
	}
	if cp := kindCaps[j.Kind]; j.Chunk == 2 && cp.local {
		// the next writer of every local stream fails persistently (a track closed underneath the interceptor)
		// while the application keeps writing: what cannot be sent must not pile up
		var pp *pump
		var backlog []int64
		sizes, res := pumpCycleWith(j, []int{0}, func(p *pump) {
			p.s.T.FailAllRTP = true
			pp = p
			// the part of the queue that lives in a goroutine's local variables is invisible to the walk from the
			// interceptor: what was written but never offered to the (failing) next writer is counted as well
			p.atPhase = func() { backlog = append(backlog, int64(p.written-p.s.T.Attempts)) }
		})
		_ = pp
		r.Executions++
		r.Transitions += int64(5 * j.P)
		if len(res.Panics) == 0 && !res.StepLimit && !res.Deadlock && len(res.Failures) == 0 && leak(backlog, j.P) {
			r.Violations = append(r.Violations, hk.Violation{Key: "C12:" + j.Kind + ":backlog-grows-on-failing-writer",
				Message: fmt.Sprintf("%s: the transport's RTP writer fails on every call; packets written by the application minus packets offered to the next writer at the end of five equal phases of %d iterations: %v - what cannot be sent piles up", j.Kind, j.P, backlog),
				Replay:  replay{Job: j, Kind: "failing-writer"}})
		}
		if len(res.Panics) == 0 && !res.StepLimit && !res.Deadlock && len(res.Failures) == 0 && leak(sizes, j.P) {
			key := "C12:" + j.Kind + ":grows-with-traffic"
			if cause(j, []int{1}) != "" {
				key += ":on-failing-writer" // the kind is bounded on in-order traffic while the writer works
			}
			r.Violations = append(r.Violations, hk.Violation{Key: key,
				Message: fmt.Sprintf("%s: the transport's RTP writer fails on every call; retained size at the end of five equal phases of %d written packets: %v bytes - it grows by at least a byte per packet in every phase", j.Kind, j.P, sizes),
				Replay:  replay{Job: j, Kind: "failing-writer"}})
		}
	}
	if j.Chunk == 0 {
		msg, after, never := unbindCheck(j)
		r.Executions++
		if msg == "" && after > never+256 {
			r.Violations = append(r.Violations, hk.Violation{Key: "C12:" + j.Kind + ":per-stream-state-kept-after-unbind",
				Message: fmt.Sprintf("%s: two streams carried the same traffic; after Unbind of one of them (and two more seconds of traffic on the other) %d bytes are retained, an instance that only ever had the other stream retains %d", j.Kind, after, never),
				Replay:  replay{Job: j, Kind: "unbind"}})
		}
	}
	return r
}

func init() {
	hk.Register(&hk.Check{
		ID: "C12",
		Rule: "E2 pumping search: for every interceptor, every workload cycle of length <= 2 (thorough 3) over {in-order packet, skipped number, duplicate, late packet, incoming feedback (TWCC, RR, NACK, SR, XR-DLRR), outgoing application RTCP (SR, RR, XR-RRTR, PLI, NACK), extra tick} is repeated P times per phase for five phases on one instance, every packet operation advancing the virtual clock by 1 ms (so the interceptor's own timers fire as at 1000 packets/s); the retained size - a deterministic reflective walk of everything reachable from the interceptor, maps by length, slices by capacity, channel models by queued elements - is taken at each phase boundary and must not grow by >= 1 byte per iteration in each of the last three phases. " +
			"Plus: after 300 packets and Unbind of the only stream the size must be within 256 bytes of an instance that never had a stream. Every cycle is non-trivial; states = cycles",
		Assumptions: []string{"vsched model (litmus suite)", "package-level pools are not roots of the size walk", "a structure whose capacity exceeds 3xP elements would look like growth (P is chosen above every configured window: 64/8/250/8192-bit history/500 ms)"},
		Jobs: func(tier string) []string {
			var n []string
			for _, j := range jobs(tier) {
				b, _ := json.Marshal(j)
				n = append(n, string(b))
			}
			return n
		},
		Run: run,
		Replay: func(raw json.RawMessage) string {
			var rp replay
			if err := json.Unmarshal(raw, &rp); err != nil {
				return "bad replay"
			}
			if rp.Kind == "unbind" {
				msg, after, never := unbindCheck(rp.Job)
				if msg == "" && after > never+256 {
					return fmt.Sprintf("%d bytes retained after Unbind, %d for an instance that never had a stream", after, never)
				}
				return ""
			}
			if rp.Kind == "failing-writer" {
				var backlog []int64
				sizes, _ := pumpCycleWith(rp.Job, []int{0}, func(p *pump) {
					p.s.T.FailAllRTP = true
					p.atPhase = func() { backlog = append(backlog, int64(p.written-p.s.T.Attempts)) }
				})
				if leak(sizes, rp.Job.P) || leak(backlog, rp.Job.P) {
					return fmt.Sprintf("sizes %v backlog %v", sizes, backlog)
				}
				return ""
			}
			if rp.Kind == "many-streams" {
				if sizes, _ := manyStreams(rp.Job); leak(sizes, rp.Job.P) {
					return fmt.Sprintf("sizes %v", sizes)
				}
				return ""
			}
			sizes, _ := pumpCycle(rp.Job, rp.Ops)
			if leak(sizes, rp.Job.P) {
				return fmt.Sprintf("sizes %v", sizes)
			}
			return ""
		},
		Bounds: func(tier string) map[string]any { return map[string]any{"interceptors": len(jobs(tier))} },
	})
}
