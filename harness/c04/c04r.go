package c04

import (
	"bytes"
	"encoding/json"
	"fmt"
	"time"
	"unsafe"

	"github.com/pion/interceptor"
	"github.com/pion/interceptor/verifh/hk"
	"github.com/pion/interceptor/vsched"
	"github.com/pion/rtp"
)

// rconfig is one concurrent scenario: a writer evicting ring slots while a
// NACK for those slots is processed, optionally racing Unbind or Close.
type rconfig struct {
	Size   int    `json:"size"`
	RTX    bool   `json:"rtx"`
	Writes int    `json:"concurrent_writes"`
	Third  string `json:"third_thread"` // "", "unbind", "close", "nack2", "compound" (no third thread: the reader reads two compounds of two NACK packets)
	Bound  int    `json:"deviation_bound"`
	// Gap is the number of sequence numbers the concurrent writer skips after the two packets sent before the race:
	// the skipped numbers' slots (those of the packets being retransmitted) are invalidated by the jump, then overwritten
	Gap int `json:"gap,omitempty"`
}

func (c rconfig) name() string { b, _ := json.Marshal(c); return string(b) }

type rsink struct {
	app  []hk.SentRTP // written by application threads (pass-through)
	back []hk.SentRTP // written by goroutines the interceptor started (retransmissions)
	// n counts the writes; lastBack is the count at the most recent retransmission
	n, lastBack int
}

//go:norace
func (s *rsink) Write(h *rtp.Header, p []byte, _ interceptor.Attributes) (int, error) {
	vsched.Yield() // a write to the transport is an observable event: other threads may run before it
	// the order in which packets reach the transport is observable (a held retransmission reads its copy later):
	// it is folded into the happens-before fingerprint so that such schedules are not merged
	vsched.HBNote(unsafe.Pointer(s), uint64(s.n))
	rec := hk.SentRTP{Header: h.Clone(), Payload: append([]byte(nil), p...), Thread: vsched.CurrentID()}
	s.n++
	if vsched.CurrentIsApp() {
		s.app = append(s.app, rec)
	} else {
		s.back = append(s.back, rec)
		s.lastBack = s.n
	}
	return h.MarshalSize() + len(p), nil
}

func rscenario(c rconfig) *hk.Scenario {
	return &hk.Scenario{ID: "C04", Name: c.name(), MaxBound: c.Bound, MaxSteps: 200000, Body: func(ctx *hk.Ctx) { rbody(c, ctx) }}
}

func rbody(c rconfig, ctx *hk.Ctx) {
	cfg := config{Size: c.Size, RTX: c.RTX}
	s, err := newSystem(cfg, false)
	if err != nil {
		ctx.Fail("C04:setup", "%v", err)
		return
	}
	sink := &rsink{}
	s.icpt.UnbindLocalStream(s.info)
	s.w = s.icpt.BindLocalStream(s.info, sink)
	v0 := int64(1<<20 + 500)
	// two packets sent before the race starts
	for _, v := range []int64{v0, v0 + 1} {
		h, p := original(v)
		if _, err := s.w.Write(&h, p, nil); err != nil {
			ctx.Fail("C04:write-error", "%v", err)
			return
		}
	}
	sentAll := map[int64]bool{v0: true, v0 + 1: true}
	for k := 0; k < c.Writes; k++ {
		sentAll[v0+2+int64(c.Gap)+int64(k)] = true
	}
	never := v0 + 7 // never sent
	if c.Gap > 0 {
		never = v0 + 2 // the first number the writer skips
	}
	if sentAll[never] {
		ctx.Fail("C04:setup", "harness: %d is sent in this scenario", never)
		return
	}
	reqs := []uint16{uint16(v0), uint16(v0 + 1), uint16(never)}
	writer := vsched.GoApp("writer", func() {
		for k := 0; k < c.Writes; k++ {
			h, p := original(v0 + 2 + int64(c.Gap) + int64(k))
			if _, err := s.w.Write(&h, p, nil); err != nil {
				ctx.Fail("C04:write-error", "%v", err)
			}
		}
	})
	nacker := vsched.GoApp("rtcp-reader", func() {
		buf := make([]byte, 1500)
		if c.Third == "compound" {
			// two reads on the same reader, each a compound of two NACK packets: the second read arrives while
			// the requests of the first may still be under way
			for _, comp := range [][][]uint16{{{uint16(v0)}, {uint16(v0 + 1)}}, {{uint16(v0 + 7)}, {uint16(v0)}}} {
				s.feed.next = append(nackFor(ssrcMain, comp[0]), nackFor(ssrcMain, comp[1])...)
				if _, _, err := s.rd.Read(buf, nil); err != nil {
					ctx.Fail("C04:read-error", "%v", err)
				}
			}
			return
		}
		s.feed.next = nackFor(ssrcMain, reqs)
		if _, _, err := s.rd.Read(buf, nil); err != nil {
			ctx.Fail("C04:read-error", "%v", err)
		}
	})
	var third *vsched.Thread
	closedAt := -1 // number of writes that had reached the transport when Close returned
	switch c.Third {
	case "unbind":
		third = vsched.GoApp("unbind", func() { s.icpt.UnbindLocalStream(s.info) })
	case "close":
		third = vsched.GoApp("close", func() { _ = s.icpt.Close(); closedAt = sink.n })
	case "unbind+close":
		// the usual teardown order: every stream is removed, then the interceptor is closed
		third = vsched.GoApp("unbind+close", func() {
			s.icpt.UnbindLocalStream(s.info)
			_ = s.icpt.Close()
			closedAt = sink.n
		})
	case "nack2":
		feed2 := &rtcpFeed{next: nackFor(ssrcMain, []uint16{uint16(v0 + 1)})}
		rd2 := s.icpt.BindRTCPReader(feed2)
		third = vsched.GoApp("rtcp-reader-2", func() {
			buf := make([]byte, 1500)
			_, _, _ = rd2.Read(buf, nil)
		})
	}
	writer.Join()
	nacker.Join()
	if third != nil {
		third.Join()
	}
	vsched.Quiesce() // resend goroutines finish
	vsched.AcquireFinished()
	if ctx.Failed() {
		return
	}
	if closedAt >= 0 && sink.lastBack > closedAt {
		ctx.Fail("C04:retransmission-after-close-returned", "Close had returned (after %d writes to the transport) when a retransmission was written (write %d)", closedAt, sink.lastBack)
		return
	}
	// pass-through: the application's packets reach the transport exactly once, in order, unchanged
	if len(sink.app) != 2+c.Writes {
		ctx.Fail("C04:passthrough", "%d application packets written, %d reached the transport on application threads", 2+c.Writes, len(sink.app))
		return
	}
	for i, g := range sink.app {
		v := v0 + int64(i)
		if i >= 2 {
			v += int64(c.Gap)
		}
		h, p := original(v)
		if !hdrEq(&g.Header, &h) || !bytes.Equal(g.Payload, p) {
			ctx.Fail("C04:passthrough", "application packet %d altered or reordered on its way to the transport", i)
			return
		}
	}
	// retransmissions: each must be the packet of its own sequence number as originally sent;
	// at most one per request; none for numbers never sent
	allowed := map[uint16]int{uint16(v0): 1, uint16(v0 + 1): 1}
	if c.Third == "nack2" {
		allowed[uint16(v0+1)] = 2
	}
	if c.Third == "compound" {
		allowed[uint16(v0)] = 2
	}
	count := map[uint16]int{}
	for _, g := range sink.back {
		q := origSeq(cfg, &g)
		var v int64 = -1
		for cand := range sentAll {
			if uint16(cand) == q {
				v = cand
			}
		}
		if v < 0 {
			ctx.Fail("C04:retransmission-of-never-sent", "retransmission names sequence number %d which was never sent: header %+v payload %x", q, g.Header, g.Payload)
			return
		}
		wh, wp := expectedRetransmission(cfg, v)
		gh := g.Header.Clone()
		if c.RTX {
			gh.SequenceNumber = wh.SequenceNumber
		}
		if !hdrEq(&gh, &wh) || !bytes.Equal(g.Payload, wp) {
			ctx.Fail("C04:retransmission-differs-from-original", "retransmission of %d differs from the packet as sent (recycled buffer?):\n got header %+v payload %x\nwant header %+v payload %x",
				q, g.Header, g.Payload, wh, wp)
			return
		}
		count[q]++
		if count[q] > allowed[q] {
			ctx.Fail("C04:duplicate-retransmission", "%d retransmissions of %d for %d request(s)", count[q], q, allowed[q])
			return
		}
	}
	// a request for a packet that stays inside the window for the whole run must be answered
	if c.Third == "" || c.Third == "nack2" || c.Third == "compound" {
		if int64(c.Size) >= int64(c.Writes)+2+int64(c.Gap) {
			for q, n := range allowed {
				if count[q] != n {
					ctx.Fail("C04:missing-retransmission", "packet %d stayed inside the window (size %d) for the whole run but was retransmitted %d times for %d request(s)", q, c.Size, count[q], n)
					return
				}
			}
		}
	}
	ctx.Outcome("%d/%d", count[uint16(v0)], count[uint16(v0+1)])
}

func rconfigs(tier string) []rconfig {
	var out []rconfig
	b := 2
	if tier == "thorough" {
		b = 3
	}
	for _, size := range []int{1, 2, 4} {
		for _, rtx := range []bool{false, true} {
			for _, third := range []string{"", "unbind", "close", "nack2", "compound", "unbind+close"} {
				if third == "unbind+close" && size != 2 {
					continue
				}
				if third == "compound" && size == 1 {
					continue
				}
				w := 2
				if size == 4 {
					w = 2 // packets stay in the window: exactly-once is demanded
				}
				bb := b
				if third == "unbind+close" {
					bb = b + 1 // the retransmission has to be held at the transport while two calls complete
				}
				out = append(out, rconfig{Size: size, RTX: rtx, Writes: w, Third: third, Bound: bb})
			}
		}
	}
	// a jump in the writer's sequence numbers across the slot of a packet whose retransmission is under way, then
	// consecutive packets round the ring onto that slot (a slot released twice recycles the copy being retransmitted)
	for _, rtx := range []bool{false, true} {
		out = append(out, rconfig{Size: 2, RTX: rtx, Writes: 3, Third: "", Bound: b + 2, Gap: 1})
	}
	out = append(out, rconfig{Size: 4, RTX: false, Writes: 3, Third: "unbind", Bound: b, Gap: 4})
	if tier == "thorough" {
		out = append(out, rconfig{Size: 2, RTX: true, Writes: 3, Third: "", Bound: 4})
		out = append(out, rconfig{Size: 1, RTX: false, Writes: 3, Third: "close", Bound: 4})
	}
	return out
}

func init() {
	hk.Register(&hk.Check{
		ID: "C04R",
		Rule: "E1 schedule exploration (-race): a writer sending 2-3 packets (consecutive, or after a jump of 1-4 sequence numbers across the slots being retransmitted) into a ring of size 1, 2 or 4 (every send evicts) || an RTCP reader processing a NACK for the slots being evicted and a never-sent number (asynchronous resend goroutine) || optionally UnbindLocalStream, Close or a second NACK reader; " +
			"sync.Pool modelled as LIFO so a released buffer is recycled by the very next send; every schedule is non-trivial; outcomes = retransmission counts per requested number",
		Assumptions: []string{"vsched model and race annotations (litmus suite)", "retransmissions are recognised as packets written by goroutines the interceptor started"},
		Jobs: func(tier string) []string {
			var n []string
			for _, c := range rconfigs(tier) {
				n = append(n, c.name())
			}
			return n
		},
		Run: func(tier string, i int, deadline time.Time) *hk.JobResult {
			r := &hk.JobResult{Exhaustive: true}
			rscenario(rconfigs(tier)[i]).Explore(deadline, r)
			return r
		},
		Replay: func(raw json.RawMessage) string {
			var rp hk.E1Replay
			if err := json.Unmarshal(raw, &rp); err != nil {
				return "bad replay"
			}
			var c rconfig
			if err := json.Unmarshal([]byte(rp.Scenario), &c); err != nil {
				return "bad scenario"
			}
			return rscenario(c).ReplaySchedule(rp.Schedule)
		},
		Bounds: func(tier string) map[string]any { return map[string]any{"scenarios": len(rconfigs(tier))} },
	})
	_ = fmt.Sprint
	_ = time.Now
}
