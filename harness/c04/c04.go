// Package c04 decides property C04 (NACK responder retransmits exactly what
// was sent): explicit-state search over send/NACK/lifecycle histories (C04)
// and schedule exploration of sends racing NACK processing, eviction, Unbind
// and Close with the race detector in the loop (C04R).
package c04

import (
	"bytes"
	"encoding/binary"
	"encoding/json"
	"fmt"
	"sort"
	"time"

	"github.com/pion/interceptor"
	"github.com/pion/interceptor/pkg/nack"
	"github.com/pion/interceptor/verifh/hk"
	"github.com/pion/interceptor/vsched"
	"github.com/pion/rtcp"
	"github.com/pion/rtp"
)

const (
	ssrcMain  = 0x4000
	ssrcRTX   = 0x4001
	ptMain    = 96
	ptRTX     = 97
	ssrcOther = 0x4abc
)

type config struct {
	Size  int    `json:"size"`
	RTX   bool   `json:"rtx"`
	Start uint16 `json:"start"`
	Depth int    `json:"depth"`
}

var symNames = []string{"W+1", "W+2", "W+S", "W+S+1", "Wdup", "W-1", "W-(S-1)", "W-S", "W-(S+1)",
	"N(H)", "N(H-1)", "N(H-S+1)", "N(H-S)", "N(H+1)", "N(gap)", "N(all)", "N(unbound-ssrc)", "Unbind", "Rebind", "Close"}

func (c config) woff(sym int) int64 {
	s := int64(c.Size)
	return []int64{1, 2, s, s + 1, 0, -1, -(s - 1), -s, -(s + 1)}[sym]
}

// original builds the packet the application sends for true sequence number v.
// The payload encodes v; the padding form rotates with v.
func original(v int64) (rtp.Header, []byte) {
	h := rtp.Header{Version: 2, PayloadType: ptMain, SequenceNumber: uint16(v), Timestamp: uint32(v * 90), SSRC: ssrcMain, Marker: v%2 == 0}
	if v%4 == 1 {
		h.CSRC = []uint32{0xC0, 0xC1}
	}
	if v%5 == 2 {
		h.Extension, h.ExtensionProfile = true, 0xBEDE
		_ = h.SetExtension(3, []byte{byte(v), 0x77})
	}
	payload := make([]byte, 8+int(v%3))
	binary.BigEndian.PutUint64(payload, uint64(v))
	for i := 8; i < len(payload); i++ {
		payload[i] = 0xA0 + byte(i)
	}
	switch v % 3 {
	case 1: // padding through the header field
		h.Padding, h.PaddingSize = true, 4
	case 2: // legacy: padding bytes inside the payload, count in the last byte
		h.Padding = true
		payload = append(payload, 0, 0, 3)
	}
	if v%7 == 4 {
		// a padding-only packet (bandwidth probe): no payload, five octets of padding. It has a sequence number
		// of its own, can be lost and can be asked for like any other packet.
		h.Padding, h.PaddingSize = true, 5
		payload = nil
	}
	return h, payload
}

// expectedRetransmission is what must reach the transport for a request of v.
func expectedRetransmission(c config, v int64) (rtp.Header, []byte) {
	h, p := original(v)
	if !c.RTX {
		return h, p
	}
	if h.Padding && h.PaddingSize == 0 && len(p) > 0 {
		p = p[:len(p)-int(p[len(p)-1])]
	}
	out := make([]byte, 2+len(p))
	binary.BigEndian.PutUint16(out, uint16(v))
	copy(out[2:], p)
	h.SSRC, h.PayloadType = ssrcRTX, ptRTX
	h.Padding, h.PaddingSize = false, 0
	return h, out
}

type model struct {
	bound   bool
	started bool
	h       int64
	sent    map[int64]bool
}

func (m *model) inWindow(c config, v int64) bool {
	return m.bound && m.started && m.sent[v] && v <= m.h && v > m.h-int64(c.Size)
}

// resolve maps a 16-bit request to the true number it can denote inside the window.
func (m *model) resolve(c config, q uint16) (int64, bool) {
	if !m.started {
		return 0, false
	}
	for v := m.h; v > m.h-int64(c.Size); v-- {
		if uint16(v) == q {
			return v, m.inWindow(c, v)
		}
	}
	return 0, false
}

func (m *model) hash() uint64 {
	var vs []int64
	for v := range m.sent {
		if v > m.h-70000 {
			vs = append(vs, v)
		}
	}
	sort.Slice(vs, func(i, j int) bool { return vs[i] < vs[j] })
	b := int64(0)
	if m.bound {
		b = 1
	}
	if m.started {
		b += 2
	}
	return hk.HashInts(append([]int64{b, m.h}, vs...)...)
}

type rtcpFeed struct{ next []byte }

func (f *rtcpFeed) Read(b []byte, a interceptor.Attributes) (int, interceptor.Attributes, error) {
	return copy(b, f.next), a, nil
}

type system struct {
	cfg    config
	icpt   interceptor.Interceptor
	info   *interceptor.StreamInfo
	sink   *hk.RTPSink
	w      interceptor.RTPWriter
	feed   *rtcpFeed
	rd     interceptor.RTCPReader
	m      *model
	base   int64
	closed bool
	noCopy bool
	buf    []byte
}

func newSystem(c config, disableCopy bool) (*system, error) {
	opts := []nack.ResponderOption{nack.ResponderSize(uint16(c.Size))}
	if disableCopy {
		opts = append(opts, nack.DisableCopy())
	}
	f, err := nack.NewResponderInterceptor(opts...)
	if err != nil {
		return nil, err
	}
	i, err := f.NewInterceptor("")
	if err != nil {
		return nil, err
	}
	s := &system{cfg: c, icpt: i, sink: &hk.RTPSink{}, feed: &rtcpFeed{}, m: &model{sent: map[int64]bool{}}, base: 1<<20 + int64(c.Start), buf: make([]byte, 1500), noCopy: disableCopy}
	s.info = &interceptor.StreamInfo{SSRC: ssrcMain, PayloadType: ptMain, RTCPFeedback: hk.NackFB}
	if c.RTX {
		s.info.SSRCRetransmission, s.info.PayloadTypeRetransmission = ssrcRTX, ptRTX
	}
	s.rd = i.BindRTCPReader(s.feed)
	s.bind()
	return s, nil
}

func (s *system) bind() {
	s.w = s.icpt.BindLocalStream(s.info, s.sink)
	s.m.bound = true
	s.m.started = false
	s.m.sent = map[int64]bool{}
}

func (s *system) write(v int64) error {
	h, p := original(v)
	hc := h.Clone()
	pc := append([]byte(nil), p...)
	n, err := s.w.Write(&h, p, nil)
	if err != nil {
		return fmt.Errorf("write of %d failed: %v", uint16(v), err)
	}
	got := s.sink.Pkts
	s.sink.Pkts = nil
	if len(got) != 1 || !hdrEq(&got[0].Header, &hc) || !bytes.Equal(got[0].Payload, pc) {
		return fmt.Errorf("write of %d: %d packets reached the transport, want exactly the packet written", uint16(v), len(got))
	}
	_ = n
	if !s.noCopy {
		// "as it was originally sent": the caller now reuses everything it passed (the documented exception is
		// DisableCopy, where the caller promises not to)
		for j := range p {
			p[j] = 0xEE
		}
		for j := range h.CSRC {
			h.CSRC[j] = 0xEEEEEEEE
		}
		for _, id := range h.GetExtensionIDs() {
			x := h.GetExtension(id)
			for j := range x {
				x[j] = 0xEE
			}
		}
		h.SequenceNumber, h.Timestamp, h.SSRC, h.PayloadType, h.Marker = 0xEEEE, 0xEEEEEEEE, 0xEEEEEEEE, 0x7E, !h.Marker
	}
	if !s.m.bound {
		return nil
	}
	if !s.m.started {
		s.m.started, s.m.h = true, v
	}
	s.m.sent[v] = true
	if v > s.m.h {
		s.m.h = v
	}
	return nil
}

func hdrEq(a, b *rtp.Header) bool {
	x, e1 := a.Marshal()
	y, e2 := b.Marshal()
	return e1 == nil && e2 == nil && bytes.Equal(x, y) && a.PaddingSize == b.PaddingSize
}

// nackFor builds the RTCP bytes of one generic NACK naming the given numbers (own FCI packing: one pair per number).
func nackFor(media uint32, qs []uint16) []byte {
	n := &rtcp.TransportLayerNack{SenderSSRC: 0x99, MediaSSRC: media}
	for _, q := range qs {
		n.Nacks = append(n.Nacks, rtcp.NackPair{PacketID: q})
	}
	b, _ := n.Marshal()
	return b
}

var errSkip = fmt.Errorf("symbol not applicable")

type failure struct {
	key, msg string
}

func (f *failure) Error() string { return f.msg }

// request reads a NACK and compares the retransmissions with the reference.
func (s *system) request(media uint32, qs []uint16) error {
	s.feed.next = nackFor(media, qs)
	n, _, err := s.rd.Read(s.buf, nil)
	if err != nil || n != len(s.feed.next) {
		return fmt.Errorf("RTCP read returned (%d, %v), transport gave %d bytes", n, err, len(s.feed.next))
	}
	vsched.Quiesce() // the resend goroutine runs to completion
	got := s.sink.Pkts
	s.sink.Pkts = nil
	type exp struct {
		h rtp.Header
		p []byte
		v int64
	}
	var want []exp
	if media == ssrcMain {
		for _, q := range qs {
			if v, ok := s.m.resolve(s.cfg, q); ok {
				h, p := expectedRetransmission(s.cfg, v)
				want = append(want, exp{h, p, v})
			}
		}
	}
	used := make([]bool, len(got))
	for _, w := range want {
		found := false
		for i, g := range got {
			if used[i] {
				continue
			}
			gh := g.Header.Clone()
			if s.cfg.RTX {
				gh.SequenceNumber = w.h.SequenceNumber // the RTX stream's own numbering is not constrained
			}
			if hdrEq(&gh, &w.h) && bytes.Equal(g.Payload, w.p) {
				used[i], found = true, true
				break
			}
		}
		if !found {
			// is there a retransmission carrying the right number but wrong bytes?
			for i, g := range got {
				if !used[i] && origSeq(s.cfg, &g) == uint16(w.v) {
					return &failure{"C04:retransmission-differs-from-original", fmt.Sprintf("NACK %v: retransmission of %d differs from the packet as sent:\n got header %+v payload %x\nwant header %+v payload %x",
						qs, uint16(w.v), g.Header, g.Payload, w.h, w.p)}
				}
			}
			return &failure{"C04:missing-retransmission", fmt.Sprintf("NACK %v (highest sent %d, size %d): no retransmission of %d although it was sent and is inside the window; %d packets written",
				qs, uint16(s.m.h), s.cfg.Size, uint16(w.v), len(got))}
		}
	}
	for i, g := range got {
		if !used[i] {
			return &failure{"C04:unexpected-retransmission", fmt.Sprintf("NACK %v for SSRC %#x (bound=%v highest sent %d, size %d): unexpected packet written: header %+v payload %x",
				qs, media, s.m.bound, uint16(s.m.h), s.cfg.Size, g.Header, g.Payload)}
		}
	}
	return nil
}

func origSeq(c config, g *hk.SentRTP) uint16 {
	if c.RTX && g.Header.SSRC == ssrcRTX && len(g.Payload) >= 2 {
		return binary.BigEndian.Uint16(g.Payload)
	}
	return g.Header.SequenceNumber
}

func (s *system) apply(sym int) (string, error) {
	c := s.cfg
	m := s.m
	hi := m.h
	if !m.started {
		hi = s.base
	}
	switch {
	case sym < 9:
		off := c.woff(sym)
		if off > 0x7FFF || off < -0x7FFF {
			// a jump of 2^15 or more is ambiguous in 16-bit arithmetic and outside what the property quantifies over
			return "skip", errSkip
		}
		v := hi + off
		if !m.started {
			v = s.base + off
		}
		return "w", s.write(v)
	case sym <= 16:
		media := uint32(ssrcMain)
		var qs []uint16
		S := int64(c.Size)
		switch sym {
		case 9:
			qs = []uint16{uint16(hi)}
		case 10:
			qs = []uint16{uint16(hi - 1)}
		case 11:
			qs = []uint16{uint16(hi - S + 1)}
		case 12:
			qs = []uint16{uint16(hi - S)}
		case 13:
			qs = []uint16{uint16(hi + 1)}
		case 14: // a number inside the window that was never sent, if there is one; else far away
			qs = []uint16{uint16(hi + 0x4000)}
			for v := hi; v > hi-S; v-- {
				if !m.sent[v] {
					qs = []uint16{uint16(v)}
					break
				}
			}
		case 15:
			qs = []uint16{uint16(hi), uint16(hi - 1), uint16(hi - S + 1), uint16(hi - S), uint16(hi + 1), uint16(hi - S - 1)}
			// drop duplicates (S=1, S=2 make some coincide): one request per number
			seen := map[uint16]bool{}
			var u []uint16
			for _, q := range qs {
				if !seen[q] {
					seen[q] = true
					u = append(u, q)
				}
			}
			qs = u
		case 16:
			media = ssrcOther
			qs = []uint16{uint16(hi)}
		}
		before := len(qs)
		err := s.request(media, qs)
		return fmt.Sprintf("n%d", before), err
	case sym == 17:
		if s.cfg.RTX {
			// the stream is identified by its SSRC: the description handed to Unbind need not list the
			// feedback types any more (a renegotiation that removed them precedes the removal of the track)
			u := *s.info
			u.RTCPFeedback = nil
			s.icpt.UnbindLocalStream(&u)
		} else {
			s.icpt.UnbindLocalStream(s.info)
		}
		m.bound = false
		return "u", nil
	case sym == 18:
		if s.closed {
			return "x", nil
		}
		s.icpt.UnbindLocalStream(s.info)
		s.bind()
		return "r", nil
	default:
		if s.closed {
			return "x", nil
		}
		s.closed = true
		m.bound = false
		return "c", s.icpt.Close()
	}
}

type replay struct {
	Config  config   `json:"config"`
	History []string `json:"history"`
	Syms    []int    `json:"syms"`
}

func describe(c config, hist []int) replay {
	r := replay{Config: c, Syms: hist}
	for _, a := range hist {
		r.History = append(r.History, symNames[a])
	}
	return r
}

func exec(c config, hist []int) hk.Step {
	var step hk.Step
	res := vsched.Run(vsched.Options{Strategy: vsched.BackgroundFirst{}, MaxSteps: 1_000_000}, func() {
		s, err := newSystem(c, false)
		if err != nil {
			vsched.Failf("setup: %v", err)
			return
		}
		for i, a := range hist {
			out, err := s.apply(a)
			if err == errSkip {
				step.Dead = true
				return
			}
			if err != nil {
				if i == len(hist)-1 {
					key := "C04:other"
					if f, ok := err.(*failure); ok {
						key = f.key
					}
					step.Violation = &hk.Violation{Key: key, Message: err.Error(), Replay: describe(c, hist)}
				} else {
					step.Dead = true
				}
				return
			}
			if i == len(hist)-1 {
				step.Outcome = out
				step.Nontrivial = a >= 9 && a <= 16
			}
		}
		step.Key = hk.DeepHash(s.icpt) ^ s.m.hash()
		if !s.closed {
			_ = s.icpt.Close()
		}
	})
	if step.Violation == nil {
		if msg := runFailure(res); msg != "" {
			step.Violation = &hk.Violation{Key: "C04:runtime", Message: msg, Replay: describe(c, hist)}
		}
	}
	return step
}

func runFailure(res *vsched.Result) string {
	switch {
	case len(res.Panics) > 0:
		return "panic: " + res.Panics[0].Value + "\n" + res.Panics[0].Stack
	case res.Deadlock:
		return fmt.Sprintf("deadlock: %+v", res.Blocked)
	case res.StepLimit:
		return "step budget exceeded: " + res.StepWhere
	case len(res.Failures) > 0:
		return res.Failures[0]
	}
	for _, b := range res.Blocked {
		if !b.App {
			return fmt.Sprintf("goroutine still alive at the end: %+v", b)
		}
	}
	return ""
}

func configs(tier string) []config {
	var out []config
	sizes := []int{1, 2, 8}
	d := 4
	if tier == "thorough" {
		d = 5
	}
	for _, size := range sizes {
		for _, rtx := range []bool{false, true} {
			for _, st := range []uint16{100, 65533} {
				out = append(out, config{Size: size, RTX: rtx, Start: st, Depth: d})
			}
		}
	}
	if tier == "thorough" {
		out = append(out, config{Size: 1024, RTX: false, Start: 65000, Depth: 3})
		out = append(out, config{Size: 32768, RTX: true, Start: 65000, Depth: 3})
	} else {
		out = append(out, config{Size: 1024, RTX: true, Start: 65000, Depth: 3})
		out = append(out, config{Size: 32768, RTX: false, Start: 65000, Depth: 3}) // the largest legal size
	}
	return out
}

func init() {
	hk.Register(&hk.Check{
		ID: "C04",
		Rule: "E2 explicit-state search: all histories up to the depth over 20 symbols (sends at +1,+2,+S,+S+1,dup,-1,-(S-1),-S,-(S+1) relative to the highest number sent; NACKs for H, H-1, H-S+1, H-S, H+1, a never-sent number, all of them, and for an unbound SSRC; Unbind, Rebind, Close) " +
			"per (buffer size, RTX on/off, start) configuration through ResponderInterceptor's public API; payloads encode the true sequence number and rotate three padding forms; a transition is non-trivial if it is a NACK; states distinct by deep hash of interceptor + reference",
		Assumptions: []string{"vsched model (litmus suite)", "one NackPair per requested number (own packing); rtcp.Marshal used to serialise the NACK fed to the reader"},
		Jobs: func(tier string) []string {
			var n []string
			for _, c := range configs(tier) {
				b, _ := json.Marshal(c)
				n = append(n, string(b))
			}
			return n
		},
		Run: func(tier string, i int, deadline time.Time) *hk.JobResult {
			c := configs(tier)[i]
			r := &hk.JobResult{Exhaustive: true, Bounds: map[string]any{"depth": c.Depth, "alphabet": len(symNames)}}
			s := &hk.Search{Alphabet: len(symNames), Depth: c.Depth, Dedup: true, Deadline: deadline,
				Exec:     func(h []int) hk.Step { return exec(c, h) },
				Describe: func(h []int) any { return describe(c, h) }}
			s.Run().Fill(r)
			return r
		},
		Replay: func(raw json.RawMessage) string {
			var rp replay
			if err := json.Unmarshal(raw, &rp); err != nil {
				return "bad replay"
			}
			if st := exec(rp.Config, rp.Syms); st.Violation != nil {
				return st.Violation.Message
			}
			return ""
		},
		Bounds: func(tier string) map[string]any {
			return map[string]any{"configurations": len(configs(tier)), "alphabet": len(symNames)}
		},
	})
}
