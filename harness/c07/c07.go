// Package c07 decides property C07 (sender reports count what was sent and map
// RTP time to wall time) by explicit-state search over write/tick histories
// driven through the public SenderInterceptor API under the virtual clock.
package c07

import (
	"encoding/binary"
	"encoding/json"
	"fmt"
	"math/big"
	"time"

	"github.com/pion/interceptor"
	"github.com/pion/interceptor/pkg/report"
	"github.com/pion/interceptor/verifh/hk"
	"github.com/pion/interceptor/vsched"
	"github.com/pion/rtcp"
	"github.com/pion/rtp"
)

// ntpTolerance is the allowed distance between the reported NTP timestamp and
// the exact conversion of the report instant, in units of 2^-32 s: one
// microsecond, the precision the library states for its NTP conversion
// (property C20: "converting back returns the original instant to within one
// microsecond"). A nanosecond clock cannot be represented exactly in 2^-32 s anyway.
const ntpTolerance = 4295 // ceil(2^32 / 10^6)

// ---------------------------------------------------------------------------
// reference model

type model struct {
	rate      int64
	useLatest bool
	sent      bool
	newest    int64 // unwrapped sequence number of the newest packet (by number, or by send order with use-latest)
	refTs     int64 // unwrapped RTP timestamp of the reference packet
	refAt     int64 // its send instant, ns
	packets   uint64
	octets    uint64
	// classification aids
	firstTsZero bool
	refIsFirst  bool
	backwards   bool // the reference moved to an older packet (only legal with use-latest)
}

func (m *model) write(u, ts, now int64, size int) {
	accepted := m.useLatest || !m.sent || u > m.newest
	if accepted {
		if m.sent && u < m.newest {
			m.backwards = true
		}
		m.newest = u
		// first packet of its frame: a packet that shares the reference's timestamp does not move the reference
		if !m.sent || uint32(ts) != uint32(m.refTs) {
			m.refIsFirst = !m.sent
			m.refTs, m.refAt = ts, now
		}
	}
	if !m.sent {
		m.firstTsZero = uint32(ts) == 0
	}
	m.sent = true
	m.packets++
	m.octets += uint64(size)
}

// exactNTP converts ns since the Unix epoch to the 64-bit NTP format with integer arithmetic (floor).
func exactNTP(ns int64) uint64 {
	sec := uint64(ns/1_000_000_000) + 2208988800
	frac := new(big.Int).Lsh(big.NewInt(ns%1_000_000_000), 32)
	frac.Div(frac, big.NewInt(1_000_000_000))
	return sec<<32 | frac.Uint64()
}

func (m *model) rtpTime(now int64) uint32 {
	x := new(big.Int).Mul(big.NewInt(now-m.refAt), big.NewInt(m.rate))
	x.Div(x, big.NewInt(1_000_000_000))
	x.Add(x, big.NewInt(m.refTs))
	x.And(x, big.NewInt(0xFFFFFFFF)) // big.Int And on negative values uses two's complement semantics
	return uint32(x.Uint64())
}

func (m *model) hash() uint64 {
	b := int64(0)
	if m.sent {
		b = 1
	}
	return hk.HashInts(b, m.newest, m.refTs, m.refAt, int64(m.packets), int64(m.octets))
}

// ---------------------------------------------------------------------------
// own decoder of a marshalled sender report (RFC 3550 6.4.1)

type srFields struct {
	ssrc    uint32
	ntp     uint64
	rtp     uint32
	packets uint32
	octets  uint32
	blocks  int
}

func decodeSR(b []byte) (srFields, error) {
	var f srFields
	if len(b) < 28 {
		return f, fmt.Errorf("sender report of %d bytes", len(b))
	}
	if b[0]>>6 != 2 {
		return f, fmt.Errorf("RTCP version %d", b[0]>>6)
	}
	if b[1] != 200 {
		return f, fmt.Errorf("RTCP packet type %d, want 200 (SR)", b[1])
	}
	f.blocks = int(b[0] & 0x1f)
	if (int(binary.BigEndian.Uint16(b[2:]))+1)*4 != len(b) {
		return f, fmt.Errorf("RTCP length field %d does not match %d bytes", binary.BigEndian.Uint16(b[2:]), len(b))
	}
	f.ssrc = binary.BigEndian.Uint32(b[4:])
	f.ntp = binary.BigEndian.Uint64(b[8:])
	f.rtp = binary.BigEndian.Uint32(b[16:])
	f.packets = binary.BigEndian.Uint32(b[20:])
	f.octets = binary.BigEndian.Uint32(b[24:])
	return f, nil
}

// ---------------------------------------------------------------------------
// configuration and alphabet

type streamCfg struct {
	SSRC     uint32 `json:"ssrc"`
	Rate     uint32 `json:"rate"`
	StartSeq uint16 `json:"start_seq"`
	StartTS  uint32 `json:"start_ts"`
}

type config struct {
	Kind      string      `json:"kind"` // one, two, idle, octets
	UseLatest bool        `json:"use_latest_packet"`
	Streams   []streamCfg `json:"streams"`
	Depth     int         `json:"depth,omitempty"`
	Prefix    []int       `json:"prefix,omitempty"`
	IntervalS int         `json:"interval_s"`
	Ticks     int         `json:"ticks,omitempty"`
	ClockNs   int64       `json:"clock_start_unix_ns,omitempty"` // 0: the scheduler's default (2023)
	Writes    int         `json:"writes,omitempty"`
}

type sym struct {
	Name   string
	Tick   bool
	Stream int
	DSeq   int64 // relative to the newest packet of the reference
	DTs    int64 // relative to the reference timestamp
	Size   int
	DClock time.Duration
}

const (
	ms    = time.Millisecond
	frame = 33_333_333 * time.Nanosecond
)

var oneTable = []sym{
	{Name: "W(+1,ts=,1460B,clk+0)", DSeq: 1, DTs: 0, Size: 1460},
	{Name: "W(+1,ts+3000,1460B,clk+33.3ms)", DSeq: 1, DTs: 3000, Size: 1460, DClock: frame},
	{Name: "W(+1,ts+3000,0B,clk+0)", DSeq: 1, DTs: 3000, Size: 0},
	{Name: "W(+2,ts+3000,1B,clk+10ms)", DSeq: 2, DTs: 3000, Size: 1, DClock: 10 * ms},
	{Name: "W(-1,ts=,1B,clk+10ms)", DSeq: -1, DTs: 0, Size: 1, DClock: 10 * ms},
	{Name: "W(-1,ts-3000,1460B,clk+10ms)", DSeq: -1, DTs: -3000, Size: 1460, DClock: 10 * ms},
	{Name: "W(dup,ts-3000,7B,clk+1s)", DSeq: 0, DTs: -3000, Size: 7, DClock: time.Second},
	{Name: "W(+0x7FFF,ts+3000,0B,clk+1s)", DSeq: 0x7FFF, DTs: 3000, Size: 0, DClock: time.Second},
	{Name: "W(-0x7FFF,ts-3000,1B,clk+33.3ms)", DSeq: -0x7FFF, DTs: -3000, Size: 1, DClock: frame},
	{Name: "W(+1,ts-3000,100B,clk+10ms)", DSeq: 1, DTs: -3000, Size: 100, DClock: 10 * ms},
	{Name: "W(+1,ts+2^31-1,1B,clk+1s)", DSeq: 1, DTs: 1<<31 - 1, Size: 1, DClock: time.Second},
	{Name: "W(+1,ts=,0B,clk+1s)", DSeq: 1, DTs: 0, Size: 0, DClock: time.Second},
	{Name: "T", Tick: true},
}

func (c config) table() []sym {
	switch c.Kind {
	case "one":
		return oneTable
	case "two":
		var t []sym
		for k := 0; k < 2; k++ {
			for _, i := range []int{0, 1, 5, 9} {
				s := oneTable[i]
				s.Stream = k
				s.Name = fmt.Sprintf("s%d:%s", k, s.Name)
				t = append(t, s)
			}
		}
		return append(t, sym{Name: "T", Tick: true})
	}
	return nil
}

// ---------------------------------------------------------------------------
// system under test + reference

type stream struct {
	cfg  streamCfg
	w    interceptor.RTPWriter
	sink *hk.RTPSink
	m    *model
}

type system struct {
	cfg      config
	interval time.Duration
	icpt     interceptor.Interceptor
	sink     *hk.RTCPSink
	st       []*stream
	t0       int64
	ticks    int64
	outcome  string
	nontriv  bool
}

func newSystem(c config) (*system, error) {
	if c.ClockNs != 0 {
		vsched.SetNow(c.ClockNs)
	}
	iv := time.Duration(c.IntervalS) * time.Second
	opts := []report.SenderOption{report.SenderNow(vsched.Now), report.SenderInterval(iv)}
	if c.UseLatest {
		opts = append(opts, report.SenderUseLatestPacket())
	}
	f, err := report.NewSenderInterceptor(opts...)
	if err != nil {
		return nil, err
	}
	i, err := f.NewInterceptor("")
	if err != nil {
		return nil, err
	}
	s := &system{cfg: c, interval: iv, icpt: i, sink: &hk.RTCPSink{}}
	s.t0 = vsched.NowNanos()
	i.BindRTCPWriter(s.sink)
	for _, sc := range c.Streams {
		st := &stream{cfg: sc, sink: &hk.RTPSink{}, m: &model{rate: int64(sc.Rate), useLatest: c.UseLatest}}
		st.w = i.BindLocalStream(&interceptor.StreamInfo{SSRC: sc.SSRC, ClockRate: sc.Rate}, st.sink)
		s.st = append(s.st, st)
	}
	vsched.Quiesce()
	return s, nil
}

type mismatch struct{ key, msg string }

func (e *mismatch) Error() string { return e.msg }

func (s *system) advance(d time.Duration) error {
	for d > 0 {
		now := vsched.NowNanos()
		next := s.t0 + (s.ticks+1)*int64(s.interval)
		if now+int64(d) < next {
			vsched.Advance(d)
			break
		}
		step := time.Duration(next - now)
		vsched.Advance(step)
		d -= step
		s.ticks++
		if err := s.drain(true); err != nil {
			return err
		}
	}
	return s.drain(false)
}

func (s *system) drain(atTick bool) error {
	now := vsched.NowNanos()
	seen := map[uint32]int{}
	for _, p := range s.sink.Take() {
		sr, ok := p.(*rtcp.SenderReport)
		if !ok {
			return &mismatch{"C07:unexpected-rtcp", fmt.Sprintf("unexpected RTCP packet %T written", p)}
		}
		raw, err := sr.Marshal()
		if err != nil {
			return &mismatch{"C07:report-does-not-marshal", fmt.Sprintf("sender report %+v does not marshal: %v", sr, err)}
		}
		f, err := decodeSR(raw)
		if err != nil {
			return &mismatch{"C07:report-wire-form", err.Error()}
		}
		var st *stream
		for _, x := range s.st {
			if x.cfg.SSRC == f.ssrc {
				st = x
			}
		}
		if st == nil {
			return &mismatch{"C07:report-for-unbound-ssrc", fmt.Sprintf("sender report for SSRC %#x which is not bound", f.ssrc)}
		}
		seen[f.ssrc]++
		if err := s.compare(st, f, now); err != nil {
			return err
		}
	}
	if atTick {
		for _, st := range s.st {
			if seen[st.cfg.SSRC] == 0 {
				return &mismatch{"C07:report-missing", fmt.Sprintf("no sender report for SSRC %#x at report tick %d", st.cfg.SSRC, s.ticks)}
			}
		}
	}
	return nil
}

func (s *system) compare(st *stream, f srFields, now int64) error {
	m := st.m
	ctx := fmt.Sprintf(" [SSRC %#x rate %d use-latest=%v]", f.ssrc, m.rate, m.useLatest)
	if f.packets != uint32(m.packets) {
		return &mismatch{"C07:packet-count", fmt.Sprintf("packet count %d, %d packets were written%s", f.packets, m.packets, ctx)}
	}
	if f.octets != uint32(m.octets) {
		return &mismatch{"C07:octet-count", fmt.Sprintf("octet count %d, payload bytes written %d (mod 2^32: %d)%s", f.octets, m.octets, uint32(m.octets), ctx)}
	}
	want := exactNTP(now)
	d := int64(f.ntp - want)
	if d < -ntpTolerance || d > ntpTolerance {
		return &mismatch{"C07:ntp-time", fmt.Sprintf("NTP time %#x, report instant is %#x (difference %d units of 2^-32 s)%s", f.ntp, want, d, ctx)}
	}
	if m.sent {
		wr := m.rtpTime(now)
		if dd := int32(f.rtp - wr); dd < -1 || dd > 1 {
			key := "C07:rtp-time"
			switch {
			case m.firstTsZero && m.refIsFirst:
				key = "C07:rtp-time-wrong-while-reference-is-a-first-packet-with-timestamp-zero"
			case m.backwards && !m.useLatest:
				key = "C07:rtp-time-reference-moved-backwards"
			}
			return &mismatch{key, fmt.Sprintf("RTP time %d, reference %d (= %d + floor(%d ns * %d Hz) mod 2^32)%s",
				f.rtp, wr, uint32(m.refTs), now-m.refAt, m.rate, ctx)}
		}
		s.nontriv = true
	}
	s.outcome += fmt.Sprintf("r[sent=%v first=%v octets>0=%v wrapTs=%v]", m.sent, m.refIsFirst, m.octets > 0, m.sent && (m.refTs < 0 || m.refTs >= 1<<32))
	return nil
}

func (s *system) apply(y sym) error {
	s.outcome = ""
	s.nontriv = false
	if y.Tick {
		now := vsched.NowNanos()
		next := s.t0 + (s.ticks+1)*int64(s.interval)
		return s.advance(time.Duration(next - now))
	}
	st := s.st[y.Stream]
	m := st.m
	u, ts := int64(st.cfg.StartSeq), int64(st.cfg.StartTS)
	if m.sent {
		u, ts = m.newest+y.DSeq, m.refTs+y.DTs
	}
	if y.DClock > 0 {
		if err := s.advance(y.DClock); err != nil {
			return err
		}
	}
	payload := make([]byte, y.Size)
	for i := range payload {
		payload[i] = byte(i)
	}
	before := len(st.sink.Pkts)
	h := &rtp.Header{Version: 2, PayloadType: 96, SSRC: st.cfg.SSRC, SequenceNumber: uint16(u), Timestamp: uint32(ts)}
	switch y.Size {
	case 7, 100:
		// padded packets: the padding octets are appended when the packet is marshalled and are not part of
		// the payload handed to the writer ("the sum of their payload lengths")
		h.Padding, h.PaddingSize = true, 3
	case 1:
		h.Marker, h.CSRC = true, []uint32{1, 2}
	}
	if _, err := st.w.Write(h, payload, interceptor.Attributes{}); err != nil {
		return &mismatch{"C07:write-error", fmt.Sprintf("write returned %v", err)}
	}
	if len(st.sink.Pkts) != before+1 {
		return &mismatch{"C07:packet-not-forwarded", "the written packet did not reach the next writer exactly once"}
	}
	st.sink.Pkts = st.sink.Pkts[:0]
	accepted := m.useLatest || !m.sent || u > m.newest
	m.write(u, ts, vsched.NowNanos(), y.Size)
	s.outcome = fmt.Sprintf("w[acc=%v]", accepted)
	vsched.Quiesce()
	return s.drain(false)
}

// ---------------------------------------------------------------------------

type replay struct {
	Config  config   `json:"config"`
	History []string `json:"history,omitempty"`
	Syms    []int    `json:"syms,omitempty"`
}

func describe(c config, hist []int) replay {
	t := c.table()
	r := replay{Config: c, Syms: hist}
	for _, a := range hist {
		r.History = append(r.History, t[a].Name)
	}
	return r
}

func violationOf(err error, rp any) *hk.Violation {
	key := "C07:other"
	if mm, ok := err.(*mismatch); ok {
		key = mm.key
	}
	return &hk.Violation{Key: key, Message: err.Error(), Replay: rp}
}

func exec(c config, table []sym, hist []int) hk.Step {
	var step hk.Step
	res := vsched.Run(vsched.Options{Strategy: vsched.BackgroundFirst{}, MaxSteps: 2_000_000}, func() {
		s, err := newSystem(c)
		if err != nil {
			vsched.Failf("setup: %v", err)
			return
		}
		for i, a := range hist {
			if err := s.apply(table[a]); err != nil {
				if i == len(hist)-1 {
					step.Violation = violationOf(err, describe(c, hist))
				} else {
					step.Dead = true
				}
				break
			}
			if i == len(hist)-1 {
				step.Outcome = s.outcome
				step.Nontrivial = s.nontriv
			}
		}
		if step.Violation == nil && !step.Dead {
			key := hk.DeepHash(s.icpt) ^ hk.EnvHash()
			for _, st := range s.st {
				key = key*31 + st.m.hash()
			}
			step.Key = key
		}
		s.icpt.Close()
	})
	if step.Violation == nil {
		if msg := runFailure(res); msg != "" {
			step.Violation = &hk.Violation{Key: "C07:runtime", Message: msg, Replay: describe(c, hist)}
		}
	}
	return step
}

func runFailure(res *vsched.Result) string {
	switch {
	case len(res.Panics) > 0:
		return "panic: " + res.Panics[0].Value + "\n" + res.Panics[0].Stack
	case res.Deadlock:
		return fmt.Sprintf("deadlock: %+v", res.Blocked)
	case res.StepLimit:
		return "step budget exceeded (loops forever?): " + res.StepWhere
	case len(res.Failures) > 0:
		return res.Failures[0]
	case len(res.Blocked) > 0:
		return fmt.Sprintf("goroutines still alive after Close: %+v", res.Blocked)
	}
	return ""
}

// scripted runs a long deterministic history: Writes packets of 1460 bytes
// (one frame per packet, 1 ms apart), then Ticks report ticks.
func scripted(c config) (*hk.Violation, int64, string) {
	var viol *hk.Violation
	var transitions int64
	last := ""
	res := vsched.Run(vsched.Options{Strategy: vsched.BackgroundFirst{}, MaxSteps: 4_000_000_000}, func() {
		s, err := newSystem(c)
		if err != nil {
			vsched.Failf("setup: %v", err)
			return
		}
		writes := c.Writes
		if writes == 0 {
			writes = 1
		}
		w := sym{Name: "W", DSeq: 1, DTs: 90, Size: 1460, DClock: ms}
		for n := 0; n < writes; n++ {
			if err := s.apply(w); err != nil {
				viol = violationOf(fmt.Errorf("write %d: %w", n+1, err), replay{Config: c})
				if mm, ok := err.(*mismatch); ok {
					viol.Key = mm.key
				}
				s.icpt.Close()
				return
			}
			transitions++
		}
		for n := 0; n < c.Ticks; n++ {
			if err := s.apply(sym{Tick: true}); err != nil {
				viol = violationOf(err, replay{Config: c})
				viol.Message = fmt.Sprintf("tick %d after %d writes: %s", n+1, writes, viol.Message)
				break
			}
			transitions++
			last = s.outcome
		}
		s.icpt.Close()
	})
	if viol == nil {
		if msg := runFailure(res); msg != "" {
			viol = &hk.Violation{Key: "C07:runtime", Message: msg, Replay: replay{Config: c}}
		}
	}
	return viol, transitions, last
}

// ---------------------------------------------------------------------------
// job list

func configs(tier string) []config {
	var out []config
	th := tier == "thorough"
	starts := []struct {
		seq uint16
		ts  uint32
	}{{0, 0}, {65535, 1}, {65534, 1<<32 - 1}, {32767, 1<<32 - 3000}}
	rates := []uint32{90000, 8000, 48000}
	for _, ul := range []bool{false, true} {
		for _, rate := range rates {
			for _, st := range starts {
				c := config{Kind: "one", UseLatest: ul, IntervalS: 10, Depth: 4,
					Streams: []streamCfg{{SSRC: 0xABCD, Rate: rate, StartSeq: st.seq, StartTS: st.ts}}}
				if th {
					c.Depth = 6
					for k := range oneTable {
						for j := range oneTable {
							d := c
							d.Prefix = []int{k, j}
							out = append(out, d)
						}
					}
				} else if rate == 90000 {
					// the sequence/timestamp logic does not depend on the clock rate: one rate goes a level deeper
					c.Depth = 5
					for k := range oneTable {
						d := c
						d.Prefix = []int{k}
						out = append(out, d)
					}
				} else {
					out = append(out, c)
				}
			}
		}
	}
	// report instants after the end of NTP era 0 (2036-02-07T06:28:16Z): the 32-bit seconds field has wrapped,
	// the fraction must still be that of the instant; one start lets the second tick cross the era boundary
	const eraEnd = int64(1<<32-2208988800) * 1_000_000_000
	for _, at := range []int64{eraEnd - 15_700_000_000, eraEnd + 86400_500_000_000, 2_208_988_800_250_000_000} {
		out = append(out, config{Kind: "one", IntervalS: 10, Depth: 4, ClockNs: at,
			Streams: []streamCfg{{SSRC: 0xABCD, Rate: 90000, StartSeq: 65535, StartTS: 1}}})
	}
	for _, ul := range []bool{false, true} {
		c := config{Kind: "two", UseLatest: ul, IntervalS: 10, Depth: 5,
			Streams: []streamCfg{{SSRC: 0xABCD, Rate: 90000, StartSeq: 65535, StartTS: 0}, {SSRC: 0x1234, Rate: 8000, StartSeq: 7, StartTS: 1<<32 - 3000}}}
		if th {
			c.Depth = 6
		}
		out = append(out, c)
	}
	// a stream that stays idle for longer than 2^32 RTP ticks
	out = append(out,
		config{Kind: "idle", IntervalS: 10, Ticks: 5000, Streams: []streamCfg{{SSRC: 0xABCD, Rate: 90000, StartSeq: 1, StartTS: 12345}}},
		config{Kind: "idle", IntervalS: 100, Ticks: 5500, Streams: []streamCfg{{SSRC: 0xABCD, Rate: 8000, StartSeq: 1, StartTS: 1<<32 - 1}}},
		config{Kind: "idle", UseLatest: true, IntervalS: 10, Ticks: 9100, Streams: []streamCfg{{SSRC: 0xABCD, Rate: 48000, StartSeq: 1, StartTS: 1 << 31}}},
		// clock rates above 99 kHz: elapsed x rate passes 2^31 ticks within hours (192 kHz: after 3 h 6 min) or minutes (1 MHz: after 36 min)
		config{Kind: "idle", IntervalS: 600, Ticks: 40, Streams: []streamCfg{{SSRC: 0xABCD, Rate: 192000, StartSeq: 65535, StartTS: 1<<32 - 5}}},
		config{Kind: "idle", UseLatest: true, IntervalS: 60, Ticks: 150, Streams: []streamCfg{{SSRC: 0xABCD, Rate: 1_000_000, StartSeq: 1, StartTS: 77}}},
		// octet count beyond 2^32 (2 941 760 packets of 1460 bytes), sequence number wraps 44 times on the way
		config{Kind: "octets", IntervalS: 3600, Writes: 2_941_760, Ticks: 2, Streams: []streamCfg{{SSRC: 0xABCD, Rate: 90000, StartSeq: 65000, StartTS: 1<<32 - 100000}}},
	)
	return out
}

func jobs(tier string) []string {
	var names []string
	for _, c := range configs(tier) {
		b, _ := json.Marshal(c)
		names = append(names, string(b))
	}
	return names
}

func run(tier string, i int, deadline time.Time) *hk.JobResult {
	c := configs(tier)[i]
	r := &hk.JobResult{Exhaustive: true, Bounds: map[string]any{"depth": c.Depth, "kind": c.Kind}}
	if c.Kind == "idle" || c.Kind == "octets" {
		v, tr, last := scripted(c)
		r.Executions, r.Transitions, r.States, r.Nontrivial = 1, tr, tr, 1
		r.Outcomes = map[string]int{c.Kind + ":" + last: 1}
		r.Samples = append(r.Samples, map[string]any{"config": c})
		if v != nil {
			r.Violations = append(r.Violations, *v)
		}
		return r
	}
	table := c.table()
	r.Bounds["alphabet"] = len(table)
	all := make([]int, len(table))
	for k := range all {
		all[k] = k
	}
	s := &hk.Search{Alphabet: len(table), Depth: c.Depth, Dedup: true, Deadline: deadline,
		Allowed: func(h []int) []int {
			if len(h) < len(c.Prefix) {
				return []int{c.Prefix[len(h)]}
			}
			return all
		},
		Exec:     func(h []int) hk.Step { return exec(c, table, h) },
		Describe: func(h []int) any { return describe(c, h) }}
	st := s.Run()
	st.Fill(r)
	return r
}

func replayFn(raw json.RawMessage) string {
	var rp replay
	if err := json.Unmarshal(raw, &rp); err != nil {
		return "bad replay: " + err.Error()
	}
	if rp.Config.Kind == "idle" || rp.Config.Kind == "octets" {
		if v, _, _ := scripted(rp.Config); v != nil {
			return v.Message
		}
		return ""
	}
	table := rp.Config.table()
	for _, a := range rp.Syms {
		if a < 0 || a >= len(table) {
			return "bad replay: symbol out of range"
		}
	}
	if st := exec(rp.Config, table, rp.Syms); st.Violation != nil {
		return st.Violation.Message
	}
	return ""
}

func init() {
	hk.Register(&hk.Check{
		ID: "C07",
		Rule: "E2 explicit-state search through SenderInterceptor (BindLocalStream/BindRTCPWriter, SenderNow = virtual clock, default ticker on the virtual clock, interval 10 s): " +
			"all write/tick histories up to the stated depth over 12 write symbols (sequence step {+1,+2,-1,dup,+0x7FFF,-0x7FFF} relative to the newest packet, " +
			"timestamp {same frame, +3000, -3000, +2^31-1} relative to the reference, payload {0,1,7,100,1460} bytes, clock step {0,10 ms,33.333333 ms,1 s}) and the report tick, " +
			"for both settings of use-latest-packet x clock rates {90000,8000,48000} x starts (seq,ts) in {(0,0),(65535,1),(65534,2^32-1),(32767,2^32-3000)}; two streams on one interceptor (product alphabet); " +
			"scripted: idle for more than 2^32 RTP ticks at three rates, and 2 941 760 packets of 1460 bytes (octet count beyond 2^32). " +
			"Every sender report written is marshalled, decoded by the harness's own decoder and compared: counts mod 2^32, NTP time against an exact integer conversion of the report instant (within 1 us), " +
			"RTP time against reference timestamp + floor(elapsed * rate) mod 2^32 with exact arithmetic (+-1). A transition is non-trivial if it writes a report after at least one packet",
		Assumptions: []string{
			"vsched channel/timer model (litmus suite)",
			"sequence steps stay within 2^15-1 of the newest packet so that 'newer' is unambiguous",
			"a frame is a run of accepted packets sharing one RTP timestamp; out-of-order packets never introduce a timestamp newer than the reference",
			"NTP tolerance 1 us (the precision stated for the library's NTP conversion, C20); RTP time +-1 tick (float truncation)",
			"no RTP time expectation before the first packet",
			"idle longer than 2^32 ticks relies on amd64 float-to-uint32 conversion being modular in the implementation",
		},
		Jobs:   jobs,
		Run:    run,
		Replay: replayFn,
		Bounds: func(tier string) map[string]any {
			depth := map[string]int{}
			for _, c := range configs(tier) {
				if c.Depth > depth[c.Kind] {
					depth[c.Kind] = c.Depth
				}
			}
			return map[string]any{"jobs": len(configs(tier)), "tier": tier, "alphabet": len(oneTable), "alphabet_two_streams": 9, "depth_by_kind": depth}
		},
	})
}
