package c07

import (
	"encoding/json"
	"time"

	"github.com/pion/interceptor"
	"github.com/pion/interceptor/pkg/report"
	"github.com/pion/interceptor/verifh/hk"
	"github.com/pion/interceptor/vsched"
)

// C07R: the report loop reads the clock first and generates the reports afterwards, while writers stamp
// their packets with their own reading of the clock. The clock handed to the interceptor is a sequence clock
// (every reading is 10 ms later than the previous one), so the order in which loop and writers read it is
// decided by the schedule: a packet can be stamped later than the report instant. On every schedule the
// report must still map its NTP instant to reference timestamp + (report instant - send instant) * rate.

type rscen struct {
	Rate    uint32 `json:"rate"`
	Streams int    `json:"streams"`
	Writes  int    `json:"writes_per_stream"`
	Bound   int    `json:"deviation_bound"`
}

func (c rscen) name() string { b, _ := json.Marshal(c); return string(b) }

type seqClock struct {
	base  int64
	n     int64
	calls []clockCall
}

type clockCall struct {
	tid int
	at  int64
}

const clockStep = int64(10 * time.Millisecond)

//go:norace
func (c *seqClock) now() time.Time {
	c.n++
	at := c.base + c.n*clockStep
	c.calls = append(c.calls, clockCall{vsched.CurrentID(), at})
	return time.Unix(0, at)
}

//go:norace
func (c *seqClock) by(tid int) []int64 {
	var out []int64
	for _, k := range c.calls {
		if k.tid == tid {
			out = append(out, k.at)
		}
	}
	return out
}

//go:norace
func (c *seqClock) others(tids []int) []int64 {
	var out []int64
next:
	for _, k := range c.calls {
		for _, t := range tids {
			if k.tid == t {
				continue next
			}
		}
		out = append(out, k.at)
	}
	return out
}

func rbody(c rscen, ctx *hk.Ctx) {
	clk := &seqClock{base: vsched.NowNanos()}
	iv := 10 * time.Second
	f, err := report.NewSenderInterceptor(report.SenderNow(clk.now), report.SenderInterval(iv))
	if err != nil {
		ctx.Fail("C07:setup", "%v", err)
		return
	}
	i, err := f.NewInterceptor("")
	if err != nil {
		ctx.Fail("C07:setup", "%v", err)
		return
	}
	sink := &hk.RTCPSink{}
	i.BindRTCPWriter(sink)
	type st struct {
		ssrc uint32
		w    interceptor.RTPWriter
		tid  int
		at0  int64 // instant of the packet written before the race starts
	}
	sts := make([]*st, c.Streams)
	for k := range sts {
		sts[k] = &st{ssrc: uint32(0x100 + k)}
		sts[k].w = i.BindLocalStream(&interceptor.StreamInfo{SSRC: sts[k].ssrc, ClockRate: c.Rate}, &hk.RTPSink{})
	}
	vsched.Quiesce()
	tsOf := func(k, n int) uint32 { return uint32(1000*(k+1) + 3000*n) }
	write := func(s *st, k, n int) {
		h, p := hk.Shape(0, s.ssrc, uint16(n+1), 1)
		h.Timestamp = tsOf(k, n)
		_, _ = s.w.Write(&h, p[:100], nil)
	}
	me := vsched.CurrentID()
	for k, s := range sts {
		write(s, k, 0)
	}
	mine := clk.by(me)
	if len(mine) != c.Streams {
		ctx.Fail("C07:setup", "the clock was read %d times for %d initial packets", len(mine), c.Streams)
		return
	}
	for k, s := range sts {
		s.at0 = mine[k]
	}
	var ths []*vsched.Thread
	for k, s := range sts {
		k, s := k, s
		ths = append(ths, vsched.GoApp("writer", func() {
			s.tid = vsched.CurrentID()
			for n := 1; n <= c.Writes; n++ {
				write(s, k, n)
			}
		}))
	}
	vsched.Advance(iv) // the tick fires; loop and writers interleave
	for _, t := range ths {
		t.Join()
	}
	vsched.Quiesce()
	_ = i.Close() // waits for the report loop: what it wrote to the sink is ordered before the reads below
	vsched.AcquireFinished()
	tids := []int{me}
	for _, s := range sts {
		tids = append(tids, s.tid)
	}
	loopReads := clk.others(tids)
	if len(loopReads) != 1 {
		ctx.Fail("C07:concurrent:tick-count", "the report loop read the clock %d times during one interval", len(loopReads))
		return
	}
	at := loopReads[0]
	seen := 0
	out := ""
	for _, p := range sink.Take() {
		raw, err := p.Marshal()
		if err != nil {
			ctx.Fail("C07:concurrent:marshal", "%v", err)
			return
		}
		f, err := decodeSR(raw)
		if err != nil {
			ctx.Fail("C07:concurrent:malformed", "%v", err)
			return
		}
		var s *st
		var k int
		for j, x := range sts {
			if x.ssrc == f.ssrc {
				s, k = x, j
			}
		}
		if s == nil {
			ctx.Fail("C07:concurrent:unknown-ssrc", "sender report for SSRC %#x", f.ssrc)
			return
		}
		seen++
		n := int(f.packets) - 1 // index of the newest packet accounted
		if n < 0 || n > c.Writes {
			ctx.Fail("C07:concurrent:packet-count", "sender report counts %d packets, between 1 and %d were written", f.packets, c.Writes+1)
			return
		}
		if int(f.octets) != 100*(n+1) {
			ctx.Fail("C07:concurrent:octet-count", "sender report counts %d packets and %d octets; every packet carried 100", f.packets, f.octets)
			return
		}
		sendAt := s.at0
		if n > 0 {
			sendAt = clk.by(s.tid)[n-1]
		}
		m := &model{rate: int64(c.Rate), refTs: int64(tsOf(k, n)), refAt: sendAt}
		want := m.rtpTime(at)
		if d := int32(f.rtp - want); d < -1 || d > 1 {
			ctx.Fail("C07:concurrent:rtp-time", "report instant %+d ms relative to the send instant of the newest accounted packet (timestamp %d, rate %d): RTP time %d, want %d",
				(at-sendAt)/int64(time.Millisecond), tsOf(k, n), c.Rate, f.rtp, want)
			return
		}
		if e := exactNTP(at); f.ntp-e > 4295 && e-f.ntp > 4295 {
			ctx.Fail("C07:concurrent:ntp-time", "NTP time %#x, the loop read the clock at %#x", f.ntp, e)
			return
		}
		out += string(rune('0' + n))
		if at < sendAt {
			out += "-"
		} else {
			out += "+"
		}
	}
	if seen != c.Streams {
		ctx.Fail("C07:concurrent:missing-report", "%d sender reports for %d streams that had sent", seen, c.Streams)
		return
	}
	ctx.Outcome(out)
}

func rscenarios(tier string) []rscen {
	b := 3
	if tier == "thorough" {
		b = 5
	}
	return []rscen{
		{90000, 1, 2, b},
		{8000, 2, 1, b},
		{48000, 2, 2, b},
	}
}

func rscenario(c rscen) *hk.Scenario {
	return &hk.Scenario{ID: "C07", Name: c.name(), MaxBound: c.Bound, MaxSteps: 400000, Body: func(ctx *hk.Ctx) { rbody(c, ctx) }}
}

func init() {
	hk.Register(&hk.Check{
		ID: "C07R",
		Rule: "E1 schedule exploration (-race): one writer per stream and the report loop run concurrently through SenderInterceptor with a sequence clock " +
			"(every reading 10 ms after the previous one, so the schedule decides whether a packet is stamped before or after the report instant); " +
			"on every schedule each sender report's counts are a prefix of the stream's writes and its RTP time is the timestamp of the newest accounted packet + (report instant - its send instant) * rate (+-1), " +
			"also when that difference is negative; outcomes name the prefix and the sign",
		Assumptions: []string{"vsched model and race annotations (litmus suite)", "amd64 float-to-uint32 conversion of a negative value is modular in the implementation"},
		Jobs: func(tier string) []string {
			var n []string
			for _, c := range rscenarios(tier) {
				n = append(n, c.name())
			}
			return n
		},
		Run: func(tier string, i int, deadline time.Time) *hk.JobResult {
			r := &hk.JobResult{Exhaustive: true}
			rscenario(rscenarios(tier)[i]).Explore(deadline, r)
			return r
		},
		Replay: func(raw json.RawMessage) string {
			var rp hk.E1Replay
			if err := json.Unmarshal(raw, &rp); err != nil {
				return "bad replay"
			}
			var c rscen
			if err := json.Unmarshal([]byte(rp.Scenario), &c); err != nil {
				return "bad scenario"
			}
			return rscenario(c).ReplaySchedule(rp.Schedule)
		},
		Bounds: func(tier string) map[string]any { return map[string]any{"scenarios": len(rscenarios(tier))} },
	})
}
