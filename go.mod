module verif

go 1.23
