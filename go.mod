module verif

go 1.24.0
