// Package cli implements the verif command.
package cli

import (
	"fmt"
	"os"
	"os/exec"
	"path/filepath"

	"verif/engine/build"
)

func verifRoot() string {
	if v := os.Getenv("VERIF_ROOT"); v != "" {
		return v
	}
	return "/verif"
}

func repoRoot() string {
	if v := os.Getenv("VERIF_REPO"); v != "" {
		return v
	}
	return "/repo"
}

// Main runs the CLI and returns the exit code.
func Main(args []string) int {
	if len(args) == 0 {
		fmt.Fprintln(os.Stderr, "usage: verif build|check|replay|raw ...")
		return 2
	}
	switch args[0] {
	case "raw":
		return raw(args[1:])
	case "build":
		// verif build [-race] <out>: developer aid, keeps the harness binary
		race := len(args) > 1 && args[1] == "-race"
		out := args[len(args)-1]
		scratch, err := os.MkdirTemp("", "verif-")
		if err != nil {
			return 2
		}
		if os.Getenv("VERIF_KEEP") == "" {
			defer os.RemoveAll(scratch)
		} else {
			fmt.Fprintln(os.Stderr, "scratch kept:", scratch)
		}
		if err := build.Build(build.Config{Repo: repoRoot(), Verif: verifRoot(), Race: race, Out: out, Scratch: scratch}); err != nil {
			fmt.Fprintln(os.Stderr, err)
			return 2
		}
		return 0
	case "check":
		return check(args[1:])
	case "replay":
		return replay(args[1:])
	case "setup":
		return setup(args[1:])
	}
	fmt.Fprintln(os.Stderr, "unknown command", args[0])
	return 2
}

// buildHarness builds the harness binary into a fresh scratch dir.
func buildHarness(race, plain bool) (bin string, cleanup func(), err error) {
	scratch, err := os.MkdirTemp("", "verif-")
	if err != nil {
		return "", nil, err
	}
	cleanup = func() { os.RemoveAll(scratch) }
	bin = filepath.Join(scratch, "verifh")
	err = build.Build(build.Config{Repo: repoRoot(), Verif: verifRoot(), Race: race, Plain: plain, Out: bin, Scratch: scratch})
	if err != nil {
		cleanup()
		return "", nil, err
	}
	return bin, cleanup, nil
}

// raw builds the harness and runs it with the given arguments (developer aid).
func raw(args []string) int {
	race := false
	if len(args) > 0 && args[0] == "-race" {
		race = true
		args = args[1:]
	}
	bin, cleanup, err := buildHarness(race, false)
	if err != nil {
		fmt.Fprintln(os.Stderr, err)
		return 3
	}
	defer cleanup()
	cmd := exec.Command(bin, args...)
	cmd.Stdout, cmd.Stderr = os.Stdout, os.Stderr
	if err := cmd.Run(); err != nil {
		if ee, ok := err.(*exec.ExitError); ok {
			return ee.ExitCode()
		}
		fmt.Fprintln(os.Stderr, err)
		return 3
	}
	return 0
}

// setup pre-warms the Go build cache with the plain and -race instrumented
// harness builds and runs the shim litmus suite once in each.
func setup(args []string) int {
	for _, race := range []bool{false, true} {
		bin, cleanup, err := buildHarness(race, false)
		if err != nil {
			fmt.Fprintln(os.Stderr, err)
			return 2
		}
		cmd := exec.Command(bin, "litmus")
		cmd.Env = append(os.Environ(), "GORACE=halt_on_error=0 exitcode=0 suppress_equal_stacks=0 suppress_equal_addresses=0")
		cmd.Stdout = os.Stdout
		err = cmd.Run()
		cleanup()
		if err != nil {
			fmt.Fprintln(os.Stderr, "litmus failed:", err)
			return 2
		}
	}
	return 0
}
