package cli

import (
	"bytes"
	"crypto/sha256"
	"encoding/json"
	"fmt"
	"os"
	"os/exec"
	"path/filepath"
	"runtime"
	"sort"
	"strconv"
	"strings"
	"sync"
	"time"
)

// part is one harness registration contributing to a property's check.
type part struct {
	ID   string
	Race bool
}

// parts lists, per property, the harness checks that decide it and the build
// flavour each needs (schedule exploration runs under the race detector).
var parts = loadParts()

func loadParts() map[string][]part {
	m := map[string][]part{}
	b, err := os.ReadFile(filepath.Join(verifRoot(), "checks.json"))
	if err != nil {
		return m
	}
	var raw map[string][]struct {
		ID   string `json:"id"`
		Race bool   `json:"race"`
	}
	if json.Unmarshal(b, &raw) != nil {
		return m
	}
	for k, v := range raw {
		for _, p := range v {
			m[k] = append(m[k], part{p.ID, p.Race})
		}
	}
	return m
}

type violation struct {
	Key     string          `json:"key"`
	Message string          `json:"message"`
	Replay  json.RawMessage `json:"replay"`
}

type report struct {
	Property    string         `json:"property"`
	Tier        string         `json:"tier"`
	Jobs        int            `json:"jobs"`
	States      int64          `json:"states"`
	Transitions int64          `json:"transitions"`
	Executions  int64          `json:"executions"`
	Nontrivial  int64          `json:"nontrivial"`
	Outcomes    int            `json:"distinct_outcomes"`
	Violations  []violation    `json:"violations"`
	Samples     []any          `json:"samples"`
	Exhaustive  bool           `json:"exhaustive"`
	Bounds      map[string]any `json:"bounds"`
	Rule        string         `json:"rule"`
	Assumptions []string       `json:"assumptions"`
	Notes       []string       `json:"notes"`
	Errors      []string       `json:"errors"`
	Race        bool           `json:"race_build"`
	WallS       float64        `json:"wall_s"`
}

type knownFile struct {
	Findings []struct {
		Property    string `json:"property"`
		Key         string `json:"key"`
		Description string `json:"description"`
	} `json:"findings"`
	Fixed []struct {
		Property string `json:"property"`
		Commit   string `json:"commit"`
		What     string `json:"what"`
	} `json:"fixed"`
}

func loadKnown() *knownFile {
	k := &knownFile{}
	b, err := os.ReadFile(filepath.Join(verifRoot(), "known_findings.json"))
	if err == nil {
		_ = json.Unmarshal(b, k)
	}
	return k
}

func check(args []string) int {
	if len(args) < 1 {
		fmt.Fprintln(os.Stderr, "usage: verif check <ID> [--tier quick|thorough]")
		return 2
	}
	id := args[0]
	tier := ""
	for i := 1; i < len(args); i++ {
		if args[i] == "--tier" && i+1 < len(args) {
			tier = args[i+1]
			i++
		}
	}
	if tier == "" {
		tier = os.Getenv("VERIF_TIER")
	}
	if tier != "thorough" {
		tier = "quick"
	}
	var seed int64
	if v := os.Getenv("VERIF_SEED"); v != "" {
		seed, _ = strconv.ParseInt(v, 10, 64)
	}
	ps, ok := parts[id]
	if !ok {
		fmt.Fprintf(os.Stderr, "verif: property %s has no registered check\n", id)
		return 2
	}
	start := time.Now()
	budget := 110 * time.Second
	if tier == "thorough" {
		budget = 18 * time.Minute
	}
	if v := os.Getenv("VERIF_BUDGET_S"); v != "" {
		if n, err := strconv.Atoi(v); err == nil {
			budget = time.Duration(n) * time.Second
		}
	}
	// build the flavours needed, in parallel
	needRace, needPlain := false, false
	for _, p := range ps {
		if p.Race {
			needRace = true
		} else {
			needPlain = true
		}
	}
	bins := map[bool]string{}
	var cleanups []func()
	defer func() {
		for _, c := range cleanups {
			c()
		}
	}()
	var mu sync.Mutex
	var wg sync.WaitGroup
	var buildErr error
	for _, race := range []bool{false, true} {
		if (race && !needRace) || (!race && !needPlain) {
			continue
		}
		wg.Add(1)
		go func(race bool) {
			defer wg.Done()
			bin, cleanup, err := buildHarness(race, false)
			mu.Lock()
			defer mu.Unlock()
			if err != nil {
				buildErr = err
				return
			}
			bins[race] = bin
			cleanups = append(cleanups, cleanup)
		}(race)
	}
	wg.Wait()
	if buildErr != nil {
		fmt.Fprintf(os.Stderr, "verif: INFRASTRUCTURE: instrumented build of /repo failed (not a verdict on the property):\n%v\n", buildErr)
		return 2
	}
	// the shim litmus suite must pass in every binary used
	for race, bin := range bins {
		out, err := runCmd(bin, 120*time.Second, nil, "litmus")
		if err != nil {
			fmt.Fprintf(os.Stderr, "verif: INFRASTRUCTURE: vsched litmus suite failed (race=%v): %v\n%s\n", race, err, out)
			return 2
		}
	}
	deadline := start.Add(budget)
	merged := &report{Property: id, Tier: tier, Exhaustive: true, Bounds: map[string]any{}}
	var rules []string
	for _, p := range ps {
		env := []string{"VERIF_DEADLINE=" + strconv.FormatInt(deadline.Unix(), 10)}
		out, err := runCmd(bins[p.Race], budget+5*time.Minute, env, "check", p.ID, tier, strconv.Itoa(workers()), strconv.FormatInt(seed, 10))
		if err != nil {
			fmt.Fprintf(os.Stderr, "verif: INFRASTRUCTURE: harness %s failed: %v\n%s\n", p.ID, err, out)
			return 2
		}
		var r report
		if err := json.Unmarshal(out, &r); err != nil {
			fmt.Fprintf(os.Stderr, "verif: INFRASTRUCTURE: harness %s printed no report: %v\n%.2000s\n", p.ID, err, out)
			return 2
		}
		merged.Jobs += r.Jobs
		merged.States += r.States
		merged.Transitions += r.Transitions
		merged.Executions += r.Executions
		merged.Nontrivial += r.Nontrivial
		merged.Outcomes += r.Outcomes
		for i := range r.Violations {
			merged.Violations = append(merged.Violations, r.Violations[i])
			viols[len(merged.Violations)-1] = p
		}
		merged.Samples = append(merged.Samples, r.Samples...)
		if !r.Exhaustive {
			merged.Exhaustive = false
		}
		for k, v := range r.Bounds {
			merged.Bounds[p.ID+"."+k] = v
		}
		rules = append(rules, r.Rule)
		merged.Assumptions = append(merged.Assumptions, r.Assumptions...)
		merged.Notes = append(merged.Notes, r.Notes...)
		merged.Errors = append(merged.Errors, r.Errors...)
	}
	merged.Rule = strings.Join(rules, " || ")
	if len(merged.Errors) > 0 {
		fmt.Fprintf(os.Stderr, "verif: INFRASTRUCTURE: worker errors:\n%s\n", strings.Join(merged.Errors, "\n"))
		return 2
	}

	// classify violations
	known := loadKnown()
	knownHit := map[string]string{}
	type pending struct {
		v violation
		p part
	}
	var fresh []string // classes not listed as known findings, in order of discovery
	cands := map[string][]pending{}
	seenKey := map[string]bool{}
	for i, v := range merged.Violations {
		if seenKey[v.Key] {
			if _, isFresh := cands[v.Key]; isFresh && len(cands[v.Key]) < 12 {
				cands[v.Key] = append(cands[v.Key], pending{v, viols[i]})
			}
			continue
		}
		seenKey[v.Key] = true
		matched := false
		for _, f := range known.Findings {
			if f.Property == id && f.Key == v.Key {
				knownHit[v.Key] = f.Description
				matched = true
				break
			}
		}
		if !matched {
			fresh = append(fresh, v.Key)
			cands[v.Key] = []pending{{v, viols[i]}}
		}
	}
	keys := make([]string, 0, len(knownHit))
	for k := range knownHit {
		keys = append(keys, k)
	}
	sort.Strings(keys)
	for _, k := range keys {
		fmt.Printf("KNOWN-FINDING: property=%s %s: %s\n", id, k, knownHit[k])
	}
	unrepro := 0
	reported := 0
	_ = os.MkdirAll(filepath.Join(verifRoot(), "replays"), 0o755)
	for _, key := range fresh {
		// A class is reported with the first of its recorded cases that fails again five times out of five.
		// Explorations record several schedules for a class raised by the race detector (whether the detector
		// reports a race on a schedule depends on its bounded access history, see vsched.Explore).
		done := false
		var lastOut []byte
		for _, f := range cands[key] {
			art := map[string]any{"property": id, "check": f.p.ID, "race_build": f.p.Race, "key": f.v.Key, "message": f.v.Message, "replay": f.v.Replay}
			b, _ := json.MarshalIndent(art, "", " ")
			sum := sha256.Sum256(append([]byte(f.v.Key), f.v.Replay...))
			path := filepath.Join(verifRoot(), "replays", fmt.Sprintf("%s-%x.json", id, sum[:6]))
			if err := os.WriteFile(path, b, 0o644); err != nil {
				fmt.Fprintln(os.Stderr, "verif: cannot write replay:", err)
			}
			// Five replays out of five must fail. Classes raised by the race detector are the exception: a report
			// of the detector is sound (it has seen both accesses and no ordering between them), but whether it
			// sees them again on the same schedule is best effort (bounded shadow history: the same replay of a
			// seeded race was observed to report on some runs and not on others), so two failing replays out of
			// five of one recorded case are enough for these classes.
			need, hits := 5, 0
			if strings.Contains(key, ":race:") {
				need = 2
			}
			for k := 0; k < 5 && hits < need && hits+(5-k) >= need; k++ {
				out, err := runCmd(bins[f.p.Race], 10*time.Minute, nil, "replay", f.p.ID, path)
				if err != nil && bytes.Contains(out, []byte("REPRODUCED")) {
					hits++
				} else {
					lastOut = out
				}
			}
			ok := hits >= need
			if !ok {
				_ = os.Remove(path)
				continue
			}
			done = true
			reported++
			fmt.Printf("VIOLATION property=%s replay=%s\n", id, path)
			fmt.Printf("  class: %s\n  %s\n", f.v.Key, strings.ReplaceAll(firstLines(f.v.Message, 12), "\n", "\n  "))
			break
		}
		if !done {
			unrepro++
			fmt.Fprintf(os.Stderr, "UNREPRODUCIBLE: property=%s key=%s none of the %d recorded cases failed again five times out of five: %.500s\n", id, key, len(cands[key]), lastOut)
		}
	}

	wall := time.Since(start).Seconds()
	ev := map[string]any{
		"property_id": id, "tier": tier, "seed": seed, "level": "model_checking", "wall_s": wall,
		"violations": reported,
		"coverage": map[string]any{
			"states": merged.States, "transitions": merged.Transitions,
			"traces_validated_against_impl": merged.Executions,
			"evaluations":                   merged.Executions, "distinct_nontrivial": merged.Nontrivial,
			"rule": merged.Rule, "exhaustive": merged.Exhaustive, "bounds": merged.Bounds,
			"distinct_outcomes": merged.Outcomes, "jobs": merged.Jobs, "samples": samplesOrNote(merged.Samples),
			"known_findings_hit": keys, "unreproducible": unrepro, "notes": merged.Notes,
			"explanation": "every execution counted here is an execution of the instrumented implementation built from /repo's working tree (no separate model): traces_validated_against_impl equals executions",
		},
		"assumptions": dedupe(merged.Assumptions),
	}
	_ = os.MkdirAll(filepath.Join(verifRoot(), "evidence"), 0o755)
	b, _ := json.MarshalIndent(ev, "", " ")
	if err := os.WriteFile(filepath.Join(verifRoot(), "evidence", id+".json"), b, 0o644); err != nil {
		fmt.Fprintln(os.Stderr, "verif: cannot write evidence:", err)
		return 2
	}
	fmt.Printf("verif: %s tier=%s states=%d transitions=%d executions=%d nontrivial=%d outcomes=%d exhaustive=%v known=%d violations=%d wall=%.1fs\n",
		id, tier, merged.States, merged.Transitions, merged.Executions, merged.Nontrivial, merged.Outcomes, merged.Exhaustive, len(keys), reported, wall)
	if reported > 0 {
		return 1
	}
	return 0
}

var viols = map[int]part{}

func workers() int {
	if v := os.Getenv("VERIF_WORKERS"); v != "" {
		if n, err := strconv.Atoi(v); err == nil && n > 0 {
			return n
		}
	}
	return runtime.NumCPU()
}

func samplesOrNote(s []any) []any {
	if len(s) == 0 {
		return []any{"(no sample recorded)"}
	}
	if len(s) > 8 {
		s = s[:8]
	}
	return s
}

func dedupe(l []string) []string {
	seen := map[string]bool{}
	var out []string
	for _, s := range l {
		if !seen[s] {
			seen[s] = true
			out = append(out, s)
		}
	}
	return out
}

func firstLines(s string, n int) string {
	l := strings.Split(s, "\n")
	if len(l) > n {
		l = l[:n]
	}
	return strings.Join(l, "\n")
}

func runCmd(bin string, timeout time.Duration, env []string, args ...string) ([]byte, error) {
	cmd := exec.Command(bin, args...)
	cmd.Env = append(append(os.Environ(), "GORACE=halt_on_error=0 exitcode=0 suppress_equal_stacks=0 suppress_equal_addresses=0"), env...)
	var out, errb bytes.Buffer
	cmd.Stdout = &out
	cmd.Stderr = &errb
	if err := cmd.Start(); err != nil {
		return nil, err
	}
	done := make(chan error, 1)
	go func() { done <- cmd.Wait() }()
	select {
	case err := <-done:
		if err != nil {
			return append(out.Bytes(), errb.Bytes()...), err
		}
		return out.Bytes(), nil
	case <-time.After(timeout):
		_ = cmd.Process.Kill()
		return append(out.Bytes(), errb.Bytes()...), fmt.Errorf("timeout after %v", timeout)
	}
}

func replay(args []string) int {
	if len(args) < 1 {
		fmt.Fprintln(os.Stderr, "usage: verif replay <file>")
		return 2
	}
	raw, err := os.ReadFile(args[0])
	if err != nil {
		fmt.Fprintln(os.Stderr, err)
		return 2
	}
	var art struct {
		Check string `json:"check"`
		Race  bool   `json:"race_build"`
	}
	if err := json.Unmarshal(raw, &art); err != nil || art.Check == "" {
		fmt.Fprintln(os.Stderr, "verif: not a replay artefact")
		return 2
	}
	bin, cleanup, err := buildHarness(art.Race, false)
	if err != nil {
		fmt.Fprintln(os.Stderr, err)
		return 2
	}
	defer cleanup()
	out, err := runCmd(bin, 10*time.Minute, nil, "replay", art.Check, args[0])
	fmt.Print(string(out))
	if err != nil {
		return 1
	}
	return 0
}
