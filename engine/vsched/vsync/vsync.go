// Package vsync replaces "sync" in instrumented code.
package vsync

import "github.com/pion/interceptor/vsched"

type (
	Mutex     = vsched.Mutex
	RWMutex   = vsched.RWMutex
	WaitGroup = vsched.WaitGroup
	Once      = vsched.Once
	Pool      = vsched.Pool
	Map       = vsched.Map
	Cond      = vsched.Cond
	Locker    = vsched.Locker
)

// NewCond mirrors sync.NewCond.
func NewCond(l Locker) *Cond { return vsched.NewCond(l) }

// OnceFunc mirrors sync.OnceFunc.
func OnceFunc(f func()) func() {
	var o Once
	return func() { o.Do(f) }
}

// OnceValue mirrors sync.OnceValue.
func OnceValue[T any](f func() T) func() T {
	var o Once
	var v T
	return func() T { o.Do(func() { v = f() }); return v }
}
