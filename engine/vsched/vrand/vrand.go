// Package vrand replaces "math/rand" in instrumented code with a generator
// that is deterministic per execution.
package vrand

import "github.com/pion/interceptor/vsched"

func Uint32() uint32   { return uint32(vsched.RandUint64() >> 32) }
func Uint64() uint64   { return vsched.RandUint64() }
func Int63() int64     { return int64(vsched.RandUint64() >> 1) }
func Int31() int32     { return int32(vsched.RandUint64() >> 33) }
func Int() int         { return int(vsched.RandUint64() >> 1) }
func Float64() float64 { return float64(vsched.RandUint64()>>11) / (1 << 53) }
func Float32() float32 { return float32(vsched.RandUint64()>>40) / (1 << 24) }
func Seed(int64)       {}
func Intn(n int) int {
	if n <= 0 {
		panic("invalid argument to Intn")
	}
	return int(vsched.RandUint64() % uint64(n))
}
func Int63n(n int64) int64 {
	if n <= 0 {
		panic("invalid argument to Int63n")
	}
	return int64(vsched.RandUint64() % uint64(n))
}
func Int31n(n int32) int32 {
	if n <= 0 {
		panic("invalid argument to Int31n")
	}
	return int32(vsched.RandUint64() % uint64(n))
}
func Perm(n int) []int {
	p := make([]int, n)
	for i := range p {
		j := Intn(i + 1)
		p[i] = p[j]
		p[j] = i
	}
	return p
}
func Shuffle(n int, swap func(i, j int)) {
	for i := n - 1; i > 0; i-- {
		swap(i, Intn(i+1))
	}
}
func Read(p []byte) (int, error) {
	for i := range p {
		p[i] = byte(vsched.RandUint64())
	}
	return len(p), nil
}
