// Package vsched is the controlled runtime used by the /verif model checker.
//
// Instrumented code (see engine/vrewrite) calls into this package for every
// scheduling-relevant operation: locks, atomics, channel operations, select,
// goroutine creation, timers and clocks.  Exactly one managed goroutine runs
// at a time; every hooked operation is a scheduling point at which the
// installed Strategy decides who runs next.  All nondeterminism of an
// execution is therefore owned by the Strategy, and an execution is fully
// described by its sequence of choices.
//
// Every function in this package is //go:norace and baton hand-offs are
// bracketed by RaceDisable/RaceEnable, so under -race the scheduler itself
// contributes no happens-before edges; the shim primitives announce exactly
// the edges of the primitives they replace (see race_on.go).
package vsched

import (
	"fmt"
	"runtime"
	"runtime/debug"
	"sort"
	"strings"
	"time"
	"unsafe"
)

// Op identifies the kind of operation at a scheduling point.
type Op uint8

// Operation kinds.
const (
	OpYield Op = iota
	OpLock
	OpUnlock
	OpRLock
	OpRUnlock
	OpWGAdd
	OpWGWait
	OpAtomic
	OpSend
	OpRecv
	OpClose
	OpSelect
	OpGo
	OpTimer
	OpPool
	OpMap
	OpOnce
	OpExit
	OpBlocked // the running thread just blocked (forced switch)
	OpJoin
	OpCond
)

var opNames = [...]string{"yield", "lock", "unlock", "rlock", "runlock", "wgadd", "wgwait", "atomic", "send", "recv",
	"close", "select", "go", "timer", "pool", "map", "once", "exit", "blocked", "join", "cond"}

//go:norace
func (o Op) String() string {
	if int(o) < len(opNames) {
		return opNames[o]
	}
	return "op?"
}

const (
	stRunnable = iota
	stBlocked
	stDone
)

// ClockID is the pseudo thread id of the virtual clock in Point.Opts.
const ClockID = -1

type thread struct {
	id      int
	parent  int
	name    string
	state   int
	app     bool // created by harness code (vsched.GoApp / main)
	wake    chan struct{}
	exited  chan struct{}
	why     string
	obj     any
	started bool
	quiesce bool // parked in Quiesce()
	// select bookkeeping
	selFired int
	selDone  bool
	joiners  []*thread
	vc       []uint32 // vector clock for happens-before fingerprints
	cid      uint64   // canonical (schedule independent) id: position in the spawn tree
	spawned  uint64
	armed    uint64
}

// Point describes one scheduling decision.
type Point struct {
	Opts           []int // thread ids, ascending except that the running thread (if enabled) comes first; ClockID last
	Running        int   // id of the thread that reached the point
	RunningEnabled bool
	Op             Op
	Obj            int // per-execution object id (0 = none)
}

// Strategy owns every nondeterministic decision of an execution.
type Strategy interface {
	// Choose returns an index into p.Opts.
	Choose(p *Point) int
	// Pick returns a value in [0,n): select arm among n ready cases etc.
	Pick(n int, what string) int
}

// PanicInfo records a panic captured in a managed goroutine.
type PanicInfo struct {
	Thread int
	Name   string
	Value  string
	Stack  string
}

// ThreadInfo describes a thread that had not finished when the execution ended.
type ThreadInfo struct {
	ID     int
	Parent int
	Name   string
	App    bool
	Why    string
}

// Result is what Run reports about one execution.
type Result struct {
	Panics      []PanicInfo
	Deadlock    bool // main thread (or an app thread) blocked with nothing enabled before body finished
	StepLimit   bool
	StepWhere   string
	Blocked     []ThreadInfo // threads not done at the end
	Points      int
	Steps       int
	Races       int
	Divergence  string
	Failures    []string // harness-reported failures (Failf)
	Threads     int
	Fingerprint uint64
}

// Options configure one execution.
type Options struct {
	Strategy Strategy
	MaxSteps int   // loop-iteration + point budget (default 200000)
	Horizon  int   // number of clock firings the scheduler may take on its own (E1); 0 = only Advance moves time
	Start    int64 // virtual start time in ns since Unix epoch (default 1_700_000_000 s)
	Seed     uint64
	TrackHB  bool // maintain vector clocks and fingerprint
}

type exec struct {
	opts     Options
	threads  []*thread
	live     []*thread // unfinished threads, ascending id
	cur      *thread
	now      int64
	timers   []*timer
	timerSeq int
	horizon  int
	steps    int
	points   int
	aborting bool
	finished bool
	doneCh   chan struct{}
	res      *Result
	objIDs   ptrTab
	rand     uint64
	pools    []*Pool
	hb       *hbState
}

var cur *exec

// Active reports whether an execution is in progress.
//
//go:norace
func Active() bool { return cur != nil && !cur.aborting }

//go:norace
func (e *exec) objID(p unsafe.Pointer) int {
	if p == nil {
		return 0
	}
	return e.objIDs.id(p)
}

// Run executes body on managed thread 0 under the given options and returns
// when the execution is over and every goroutine it created has exited.
//
//go:norace
func Run(opts Options, body func()) *Result {
	if cur != nil {
		panic("vsched: nested Run")
	}
	if opts.MaxSteps == 0 {
		opts.MaxSteps = 200000
	}
	if opts.Start == 0 {
		opts.Start = 1_700_000_000 * int64(time.Second)
	}
	if opts.Strategy == nil {
		opts.Strategy = DefaultStrategy{}
	}
	e := &exec{opts: opts, now: opts.Start, horizon: opts.Horizon, doneCh: make(chan struct{}),
		res: &Result{}, rand: opts.Seed*2862933555777941757 + 3037000493}
	if opts.TrackHB {
		e.hb = newHB()
	}
	races0 := raceErrors()
	cur = e
	main := e.newThread(-1, "main", true)
	e.cur = main
	e.startThread(main, body)
	raceDisable()
	main.wake <- struct{}{}
	<-e.doneCh
	raceEnable()
	e.res.Races = raceErrors() - races0
	// The execution is over and its race count taken. Abort sweep: wake every
	// unfinished goroutine, one at a time, in abort mode. From here on the
	// synchronisation is deliberately visible to the race detector, so that
	// the caller happens-after everything the execution did.
	e.aborting = true
	for i := 0; i < len(e.threads); i++ {
		t := e.threads[i]
		if t.state != stDone {
			e.res.Blocked = append(e.res.Blocked, ThreadInfo{t.id, t.parent, t.name, t.app, t.why})
		}
		select {
		case t.wake <- struct{}{}:
		default:
		}
		<-t.exited
	}
	for _, p := range e.pools {
		p.reset()
	}
	e.res.Points = e.points
	e.res.Steps = e.steps
	e.res.Threads = len(e.threads)
	if e.hb != nil {
		e.res.Fingerprint = e.hb.fp
	}
	cur = nil
	return e.res
}

//go:norace
func (e *exec) newThread(parent int, name string, app bool) *thread {
	t := &thread{id: len(e.threads), parent: parent, name: name, app: app,
		wake: make(chan struct{}, 1), exited: make(chan struct{}), cid: 1}
	if parent >= 0 && parent < len(e.threads) {
		p := e.threads[parent]
		p.spawned++
		t.cid = mix(mix(0x51ed270b, p.cid), p.spawned)
	}
	e.threads = append(e.threads, t)
	e.live = append(e.live, t)
	if e.hb != nil {
		e.hb.newThread(t, parent)
	}
	return t
}

//go:norace
func (e *exec) startThread(t *thread, f func()) {
	go threadMain(e, t, f)
}

//go:norace
func threadMain(e *exec, t *thread, f func()) {
	defer threadExit(e, t)
	raceDisable()
	<-t.wake
	raceEnable()
	if e.aborting {
		return
	}
	t.started = true
	f()
}

//go:norace
func threadExit(e *exec, t *thread) {
	r := recover()
	if e.aborting {
		close(t.exited)
		return
	}
	if r != nil {
		e.res.Panics = append(e.res.Panics, PanicInfo{t.id, t.name, fmt.Sprint(r), trimStack(string(debug.Stack()))})
		t.state = stDone
		e.dropLive(t)
		e.finish()
		close(t.exited)
		return
	}
	if !t.started {
		close(t.exited)
		return
	}
	// normal exit (or Goexit from user code)
	raceReleaseMerge(unsafe.Pointer(t)) // Thread.Join acquires
	t.state = stDone
	e.dropLive(t)
	for _, j := range t.joiners {
		e.makeRunnable(j)
	}
	t.joiners = nil
	if e.hb != nil {
		e.hb.exit(t)
	}
	if t.id == 0 {
		// the main body returned: the execution is over
		e.finish()
	} else {
		e.dispatch(t, OpExit, 0)
	}
	close(t.exited)
}

//go:norace
func trimStack(s string) string {
	lines := strings.Split(s, "\n")
	out := make([]string, 0, 24)
	for _, l := range lines {
		if strings.Contains(l, "vsched") || strings.Contains(l, "runtime/debug") || strings.Contains(l, "runtime/panic") {
			continue
		}
		out = append(out, l)
		if len(out) >= 24 {
			break
		}
	}
	return strings.Join(out, "\n")
}

// finish ends the execution; the caller must not touch scheduler state afterwards.
//
//go:norace
func (e *exec) finish() {
	if e.finished {
		return
	}
	e.finished = true
	raceDisable()
	close(e.doneCh)
	raceEnable()
}

//go:norace
func (e *exec) makeRunnable(t *thread) {
	if t.state == stBlocked {
		t.state = stRunnable
		t.why = ""
		t.obj = nil
	}
}

// dropLive removes a finished thread from the list the scheduler scans at every point (ascending ids are
// kept): executions that spawn a goroutine per packet stay linear in their length.
//
//go:norace
func (e *exec) dropLive(t *thread) {
	for i := len(e.live) - 1; i >= 0; i-- {
		if e.live[i] == t {
			for k := i; k+1 < len(e.live); k++ {
				e.live[k] = e.live[k+1]
			}
			e.live[len(e.live)-1] = nil
			e.live = e.live[:len(e.live)-1]
			return
		}
	}
}

// enabledOpts lists the runnable threads in canonical order.
//
//go:norace
func (e *exec) enabledOpts(running *thread, runningEnabled bool, withClock bool) []int {
	opts := make([]int, 0, 4)
	if runningEnabled {
		opts = append(opts, running.id)
	}
	for _, t := range e.live {
		if t.state == stRunnable && !t.quiesce && t != running {
			opts = append(opts, t.id)
		}
	}
	if withClock && e.horizon > 0 && e.nextTimer() != nil {
		opts = append(opts, ClockID)
	}
	return opts
}

// point is a scheduling point reached by the running thread, which stays runnable.
//
//go:norace
func point(op Op, obj unsafe.Pointer) {
	e := cur
	if e == nil || e.aborting {
		return
	}
	t := e.cur
	e.countStep(op)
	e.dispatchFrom(t, true, op, e.objID(obj))
}

//go:norace
func (e *exec) countStep(op Op) {
	e.steps++
	if e.steps > e.opts.MaxSteps && !e.finished {
		e.res.StepLimit = true
		e.res.StepWhere = "point " + op.String() + "\n" + trimStack(string(debug.Stack()))
		e.finish()
		e.parkForever(e.cur)
	}
}

// LoopTick is inserted at the top of every loop body of instrumented code; it
// enforces the step budget so that a non-terminating loop ends the execution
// deterministically instead of hanging the checker.
//
//go:norace
func LoopTick() {
	e := cur
	if e == nil {
		return
	}
	if e.aborting {
		runtime.Goexit()
	}
	e.steps++
	if e.steps > e.opts.MaxSteps && !e.finished {
		e.res.StepLimit = true
		e.res.StepWhere = "loop\n" + trimStack(string(debug.Stack()))
		e.finish()
		e.parkForever(e.cur)
	}
}

//go:norace
func (e *exec) parkForever(t *thread) {
	raceDisable()
	<-t.wake
	raceEnable()
	runtime.Goexit()
}

// dispatch is called by a thread that cannot continue (blocked or exiting).
//
//go:norace
func (e *exec) dispatch(t *thread, op Op, obj int) {
	e.dispatchFrom(t, false, op, obj)
}

//go:norace
func (e *exec) dispatchFrom(t *thread, runningEnabled bool, op Op, obj int) {
	for {
		if e.finished {
			if t.state != stDone {
				e.parkForever(t)
			}
			return
		}
		opts := e.enabledOpts(t, runningEnabled, true)
		if len(opts) == 0 {
			// nothing can run. Wake a quiescing thread if there is one.
			if q := e.quiescer(); q != nil {
				q.quiesce = false
				e.switchTo(t, q)
				return
			}
			// every thread done or blocked: the execution is over
			// (deadlock if thread 0 has not finished its body).
			if e.threads[0].state != stDone {
				e.res.Deadlock = true
			}
			e.finish()
			if t.state != stDone {
				e.parkForever(t)
			}
			return
		}
		var choice int
		if len(opts) == 1 {
			choice = 0
		} else {
			e.points++
			p := &Point{Opts: opts, Running: t.id, RunningEnabled: runningEnabled, Op: op, Obj: obj}
			choice = e.opts.Strategy.Choose(p)
			if choice < 0 || choice >= len(opts) {
				e.res.Divergence = fmt.Sprintf("choice %d out of range %d at point %d", choice, len(opts), e.points)
				e.finish()
				if t.state != stDone {
					e.parkForever(t)
				}
				return
			}
		}
		if opts[choice] == ClockID {
			e.horizon--
			e.fireNext()
			continue
		}
		next := e.threads[opts[choice]]
		if next == t {
			return
		}
		e.switchTo(t, next)
		return
	}
}

//go:norace
func (e *exec) quiescer() *thread {
	for _, t := range e.live {
		if t.quiesce && t.state == stRunnable {
			return t
		}
	}
	return nil
}

// switchTo hands the baton from t to next and parks t (unless t is done).
//
//go:norace
func (e *exec) switchTo(t, next *thread) {
	e.cur = next
	raceDisable()
	next.wake <- struct{}{}
	raceEnable()
	if t.state == stDone {
		return
	}
	raceDisable()
	<-t.wake
	raceEnable()
	if e.aborting {
		runtime.Goexit()
	}
}

// block parks the running thread until some other thread makes it runnable
// again and the strategy chooses it.
//
//go:norace
func (e *exec) block(op Op, obj unsafe.Pointer, why string) {
	t := e.cur
	t.state = stBlocked
	t.why = why
	e.dispatch(t, OpBlocked, e.objID(obj))
}

// Go starts f as a managed goroutine (the instrumented form of a go statement).
//
//go:norace
func Go(f func()) {
	e := cur
	if e == nil {
		go f()
		return
	}
	if e.aborting {
		return
	}
	t := e.newThread(e.cur.id, callerName(2), false)
	e.startThread(t, f)
	e.hbOp(nil, OpGo)
	point(OpGo, nil)
}

// GoApp starts f as an application (harness) thread and returns its handle.
//
//go:norace
func GoApp(name string, f func()) *Thread {
	e := cur
	if e == nil {
		panic("vsched.GoApp outside Run")
	}
	t := e.newThread(e.cur.id, name, true)
	e.startThread(t, f)
	e.hbOp(nil, OpGo)
	point(OpGo, nil)
	return &Thread{t}
}

// Thread is a handle on an application thread.
type Thread struct{ t *thread }

// Done reports whether the thread has finished.
//
//go:norace
func (h *Thread) Done() bool { return h.t.state == stDone }

// BlockedWhy returns a description of what the thread is blocked on ("" if not blocked).
//
//go:norace
func (h *Thread) BlockedWhy() string {
	if h.t.state == stBlocked {
		return h.t.why
	}
	return ""
}

// Join blocks until the thread has finished; it is a happens-before edge like
// the WaitGroup a real program would use.
//
//go:norace
func (h *Thread) Join() {
	e := cur
	if e == nil || e.aborting {
		return
	}
	point(OpJoin, nil)
	for h.t.state != stDone {
		h.t.joiners = append(h.t.joiners, e.cur)
		e.block(OpJoin, nil, "join "+h.t.name)
	}
	raceAcquire(unsafe.Pointer(h.t))
	if e.hb != nil {
		e.hb.join(e.cur, h.t)
	}
}

//go:norace
func callerName(skip int) string {
	pc, _, _, ok := runtime.Caller(skip)
	if !ok {
		return "?"
	}
	fn := runtime.FuncForPC(pc)
	if fn == nil {
		return "?"
	}
	n := fn.Name()
	if i := strings.LastIndex(n, "/"); i >= 0 {
		n = n[i+1:]
	}
	return n
}

// Yield is an explicit scheduling point.
//
//go:norace
func Yield() { point(OpYield, nil) }

// Quiesce parks the calling (harness) thread until no other thread can run.
// Timers do not fire during Quiesce.
//
//go:norace
func Quiesce() {
	e := cur
	if e == nil || e.aborting {
		return
	}
	t := e.cur
	saved := e.horizon
	e.horizon = 0
	t.quiesce = true
	e.dispatch(t, OpYield, 0)
	t.quiesce = false
	e.horizon = saved
}

// Failf records a harness-level failure for the current execution.
//
//go:norace
func Failf(format string, a ...any) {
	if cur == nil {
		return
	}
	cur.res.Failures = append(cur.res.Failures, fmt.Sprintf(format, a...))
}

// OtherThreads describes all threads other than the caller that have not finished.
//
//go:norace
func OtherThreads() []ThreadInfo {
	e := cur
	if e == nil {
		return nil
	}
	var out []ThreadInfo
	for _, t := range e.threads {
		if t != e.cur && t.state != stDone {
			out = append(out, ThreadInfo{t.id, t.parent, t.name, t.app, t.why})
		}
	}
	return out
}

// LiveNonApp returns the unfinished threads that were started by code under test.
//
//go:norace
func LiveNonApp() []ThreadInfo {
	var out []ThreadInfo
	for _, t := range OtherThreads() {
		if !t.App {
			out = append(out, t)
		}
	}
	return out
}

// DefaultStrategy keeps the running thread while it is enabled, otherwise
// runs the lowest-numbered enabled thread; never fires the clock by choice;
// picks the first ready select case.
type DefaultStrategy struct{}

// Choose implements Strategy.
//
//go:norace
func (DefaultStrategy) Choose(p *Point) int { return 0 }

// Pick implements Strategy.
//
//go:norace
func (DefaultStrategy) Pick(n int, what string) int { return 0 }

// BackgroundFirst is the E2 strategy: threads started by the code under test
// run before application threads, so that after every operation the
// interceptor's goroutines have run to quiescence.  Deterministic.
type BackgroundFirst struct{}

// Choose implements Strategy.
//
//go:norace
func (BackgroundFirst) Choose(p *Point) int {
	e := cur
	best := -1
	for i, id := range p.Opts {
		if id == ClockID {
			continue
		}
		if !e.threads[id].app {
			if best < 0 {
				best = i
			}
		}
	}
	if best >= 0 {
		return best
	}
	return 0
}

// Pick implements Strategy.
//
//go:norace
func (BackgroundFirst) Pick(n int, what string) int { return 0 }

//go:norace
func sortInts(a []int) { sort.Ints(a) }

// CurrentIsApp reports whether the running thread is an application (harness) thread.
//
//go:norace
func CurrentIsApp() bool {
	e := cur
	return e == nil || e.cur == nil || e.cur.app
}

// CurrentID returns the id of the running thread (-1 outside an execution).
//
//go:norace
func CurrentID() int {
	e := cur
	if e == nil || e.cur == nil {
		return -1
	}
	return e.cur.id
}

// AcquireFinished makes the calling (harness) thread happen-after every thread
// that has already finished, as if it had joined each of them. Harnesses call
// it after the scenario is over and before evaluating the oracle on data
// recorded by goroutines they could not Join (goroutines the code under test
// started). It adds edges only into the caller, after the fact.
//
//go:norace
func AcquireFinished() {
	e := cur
	if e == nil || e.aborting {
		return
	}
	for _, t := range e.threads {
		if t.state == stDone {
			raceAcquire(unsafe.Pointer(t))
		}
	}
}

// AppFirst runs application (harness) threads whenever one is enabled and the
// interceptor's own goroutines only when every application thread is blocked
// or parked in Quiesce: the adversarial order for "uses caller memory after
// the call returned". Deterministic.
type AppFirst struct{}

// Choose implements Strategy.
//
//go:norace
func (AppFirst) Choose(p *Point) int {
	e := cur
	for i, id := range p.Opts {
		if id != ClockID && e.threads[id].app {
			return i
		}
	}
	return 0
}

// Pick implements Strategy.
//
//go:norace
func (AppFirst) Pick(n int, what string) int { return 0 }

// StepBudget restarts the step counter with a new budget: harnesses that feed
// many independent inputs into one execution give each input its own budget,
// so that "loops forever" is detected quickly and attributed to the input.
//
//go:norace
func StepBudget(n int) {
	e := cur
	if e == nil {
		return
	}
	e.steps = 0
	e.opts.MaxSteps = n
}
