package vsched

import (
	"fmt"
	"strings"
	"time"
)

// Choice records one decision taken during an execution.
type Choice struct {
	N     int      // number of options
	C     int      // option taken
	RunEn bool     // scheduling point: the running thread could have continued
	Pick  bool     // select/pick decision rather than a thread choice
	Clock int      // index of the clock option, -1 if none
	FP    uint64   // happens-before fingerprint when the decision was taken
	TID   []int    // thread ids of the options (nil for picks)
	CID   []uint64 // canonical ids of the options
	Op    Op
}

// Replay follows a recorded prefix of choices and takes option 0 afterwards,
// recording every decision.
type Replay struct {
	Prefix   []int
	Trace    []Choice
	Diverged string
	From     int // decisions before this index belong to the harness's sequential setup (SetupDone) and are not branched
}

// SetupDone is called by a scenario when its sequential set-up phase is over (after a Quiesce): the explorer
// keeps the default schedule for every decision taken so far and branches only at later ones. The set-up of
// a scenario is a fixed prefix, not part of the behaviour explored; evidence states it as a bound.
//
//go:norace
func SetupDone() {
	e := cur
	if e == nil {
		return
	}
	if r, ok := e.opts.Strategy.(*Replay); ok && r.From == 0 {
		r.From = len(r.Trace)
	}
}

// Choose implements Strategy.
//
//go:norace
func (r *Replay) Choose(p *Point) int {
	i := len(r.Trace)
	c := 0
	if i < len(r.Prefix) {
		c = r.Prefix[i]
		if c >= len(p.Opts) {
			r.Diverged = fmt.Sprintf("replay: choice %d at decision %d but only %d options", c, i, len(p.Opts))
			c = 0
		}
	}
	clock := -1
	for k, id := range p.Opts {
		if id == ClockID {
			clock = k
		}
	}
	cids := make([]uint64, len(p.Opts))
	for k, id := range p.Opts {
		cids[k] = 2
		if id >= 0 && cur != nil && id < len(cur.threads) {
			cids[k] = cur.threads[id].cid
		}
	}
	r.Trace = append(r.Trace, Choice{N: len(p.Opts), C: c, RunEn: p.RunningEnabled, Clock: clock, FP: Fingerprint(),
		TID: p.Opts, CID: cids, Op: p.Op})
	return c
}

// Pick implements Strategy.
//
//go:norace
func (r *Replay) Pick(n int, what string) int {
	i := len(r.Trace)
	c := 0
	if i < len(r.Prefix) {
		c = r.Prefix[i]
		if c >= n {
			r.Diverged = fmt.Sprintf("replay: pick %d at decision %d but only %d options", c, i, n)
			c = 0
		}
	}
	r.Trace = append(r.Trace, Choice{N: n, C: c, Pick: true, Clock: -1, FP: Fingerprint()})
	return c
}

// Choices returns the choice sequence actually taken.
//
//go:norace
func (r *Replay) Choices() []int {
	out := make([]int, len(r.Trace))
	for i, c := range r.Trace {
		out[i] = c.C
	}
	return out
}

// ExploreStats summarises a schedule exploration.
type ExploreStats struct {
	Executions   int
	Points       int64 // decisions over all executions
	Transitions  int64
	States       int // distinct happens-before fingerprints seen at decision points
	Pruned       int
	MaxDecisions int
	BoundDone    int  // largest preemption bound completely explored (-1 none)
	Complete     bool // the whole tree (within MaxBound) was explored
	Unbounded    bool // no branch was cut by the preemption bound: all interleavings covered
	Outcomes     map[string]int
	Violations   []*Violation // one per distinct key, in order of discovery
	Elapsed      time.Duration
	TimedOut     bool
	// RaceExecutions counts the schedules on which the race detector reported (exploration stops at 2048)
	RaceExecutions int
	FirstTrace     string // decisions of the first (default) schedule, for diagnosis
}

// Violation is a failing execution with its replayable schedule.
type Violation struct {
	Key      string
	Schedule []int
	Message  string
	Result   *Result
}

// ExploreConfig configures Explore.
type ExploreConfig struct {
	MaxBound int // preemption bound (iterated 0..MaxBound)
	Deadline time.Time
	Prune    bool // happens-before fingerprint pruning (requires Options.TrackHB in run)
	// Run executes one schedule under the given strategy and returns an
	// outcome label and, if the property is violated, a violation key and message.
	Run func(s Strategy) (res *Result, outcome string, key string, message string)
	// MaxViolations bounds the number of distinct violation keys collected (default 8);
	// exploration continues after a violation so that a known finding cannot hide a new one.
	MaxViolations int
}

type pruneKey struct {
	fp  uint64
	tid uint64 // canonical id of the thread taken (2 = clock)
}

// Explore enumerates schedules depth-first with iterative deviation bounding:
// the default schedule runs the current thread until it blocks and then the
// lowest-numbered enabled thread, fires timers only when nothing else can run
// and takes the first ready select clause; bound k covers every schedule that
// departs from that default at most k times (any alternative thread at any
// scheduling point, an early timer firing, another select clause). This is the
// "delay bounding" variant of context bounding: the number of schedules is
// polynomial in the execution length for a fixed bound, including at bound 0.
func Explore(cfg ExploreConfig) *ExploreStats {
	st := &ExploreStats{Outcomes: map[string]int{}, BoundDone: -1}
	start := time.Now()
	if cfg.MaxViolations == 0 {
		cfg.MaxViolations = 8
	}
	states := map[uint64]struct{}{}
	vkeys := map[string]bool{}
	vcount := map[string]int{}
	// bounds 0,1,2 first (the first counterexample then has the fewest
	// preemptions), then straight to MaxBound
	var bounds []int
	for b := 0; b <= cfg.MaxBound && b <= 2; b++ {
		bounds = append(bounds, b)
	}
	if cfg.MaxBound > 2 {
		bounds = append(bounds, cfg.MaxBound)
	}
	for _, bound := range bounds {
		seen := map[pruneKey]int{}
		cut := false
		ex := &explorer{cfg: cfg, st: st, bound: bound, seen: seen, states: states, cut: &cut, vkeys: vkeys, vcount: vcount}
		ex.explore(nil, 0, 0)
		st.States = len(states)
		if st.TimedOut || ex.fatal {
			break
		}
		st.BoundDone = bound
		if !cut {
			st.Unbounded = true
			st.Complete = true
			break
		}
		if bound == cfg.MaxBound {
			st.Complete = true
		}
	}
	st.Elapsed = time.Since(start)
	return st
}

type explorer struct {
	cfg    ExploreConfig
	st     *ExploreStats
	bound  int
	seen   map[pruneKey]int
	states map[uint64]struct{}
	cut    *bool
	vkeys  map[string]bool
	vcount map[string]int
	fatal  bool
}

// explore runs the schedule prefix+default and recurses into every
// alternative at decisions after the prefix. cost0 is the number of
// preemptions inside the prefix.
func (x *explorer) explore(prefix []int, cost0 int, depth int) {
	if x.fatal || x.st.TimedOut {
		return
	}
	if !x.cfg.Deadline.IsZero() && time.Now().After(x.cfg.Deadline) {
		x.st.TimedOut = true
		return
	}
	rp := &Replay{Prefix: prefix}
	res, outcome, key, viol := x.cfg.Run(rp)
	x.st.Executions++
	x.st.Points += int64(len(rp.Trace))
	if len(rp.Trace) > x.st.MaxDecisions {
		x.st.MaxDecisions = len(rp.Trace)
	}
	if rp.Diverged != "" || (res != nil && res.Divergence != "") {
		msg := rp.Diverged
		if msg == "" {
			msg = res.Divergence
		}
		x.st.Violations = append(x.st.Violations, &Violation{Key: "UNREPRODUCIBLE", Schedule: rp.Choices(), Message: "UNREPRODUCIBLE: " + msg, Result: res})
		x.fatal = true
		return
	}
	if len(x.st.Outcomes) < 4096 || x.st.Outcomes[outcome] > 0 {
		x.st.Outcomes[outcome]++
	}
	if key != "" {
		// One schedule per class is what a report needs; for classes raised by the race detector a few more are
		// kept (the 1st, 2nd, 3rd, 4th, 8th, 16th, ... violating schedule of the class): whether the detector still
		// remembers the earlier of two conflicting accesses depends on how many other accesses to the same 8-byte
		// word lie between them (four shadow cells per word, evicted pseudo-randomly), so one schedule may report
		// the race in the exploring process and not in the replaying one. The CLI reports the first candidate that
		// fails again five times out of five.
		x.vcount[key]++
		n := x.vcount[key]
		first := n == 1 && len(x.vcount) <= x.cfg.MaxViolations
		more := strings.Contains(key, ":race:") && n <= 1024 && (n <= 4 || n&(n-1) == 0) && x.vkeys[key]
		if first || more {
			x.vkeys[key] = true
			x.st.Violations = append(x.st.Violations, &Violation{Key: key, Schedule: rp.Choices(), Message: viol, Result: res})
		}
		if strings.Contains(key, ":race:") {
			// every race report is appended to the worker's log: the exploration of a scenario stops after 2048
			// schedules with a report (each of them is a failure of the check already; what is left unexplored is
			// reported as not exhaustive)
			x.st.RaceExecutions++
			if x.st.RaceExecutions >= 2048 {
				x.st.TimedOut = true
				return
			}
		}
	}
	trace := rp.Trace
	if x.st.Executions == 1 {
		for _, c := range trace {
			tag := c.Op.String()
			if c.Pick {
				tag = "pick"
			}
			if !c.RunEn && !c.Pick {
				tag += "*" // free choice: the running thread could not continue
			}
			x.st.FirstTrace += fmt.Sprintf("%s/%d ", tag, c.N)
		}
	}
	// preemptions before decision i
	cost := cost0
	for i := len(prefix); i < len(trace); i++ {
		c := trace[i]
		x.states[c.FP] = struct{}{}
		if i < rp.From {
			continue // sequential set-up of the scenario: default schedule only
		}
		for alt := 1; alt < c.N; alt++ {
			// deviation (delay) bounding: every departure from the default
			// schedule costs one, whether it preempts a running thread,
			// picks another thread at a blocking point, fires a timer early
			// or takes another ready select clause.
			altCost := cost + 1
			if altCost > x.bound {
				*x.cut = true
				continue
			}
			if x.cfg.Prune && !c.Pick {
				k := pruneKey{c.FP, c.CID[alt]}
				rem := x.bound - altCost
				if old, ok := x.seen[k]; ok && old >= rem {
					x.st.Pruned++
					continue
				}
				x.seen[k] = rem
			}
			np := make([]int, i+1)
			for j := 0; j < i; j++ {
				np[j] = trace[j].C
			}
			np[i] = alt
			x.st.Transitions++
			x.explore(np, altCost, depth+1)
			if x.fatal || x.st.TimedOut {
				return
			}
		}
		// the default continuation (choice 0) costs nothing
	}
}
