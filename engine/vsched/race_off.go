//go:build !race

package vsched

import "unsafe"

// RaceEnabled reports whether the binary was built with -race.
const RaceEnabled = false

func raceDisable()                      {}
func raceEnable()                       {}
func raceAcquire(p unsafe.Pointer)      {}
func raceRelease(p unsafe.Pointer)      {}
func raceReleaseMerge(p unsafe.Pointer) {}
func raceErrors() int                   { return 0 }
func raceRead(p unsafe.Pointer)         {}
func raceWrite(p unsafe.Pointer)        {}
