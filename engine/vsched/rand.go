package vsched

// RandUint64 returns the next value of the per-execution deterministic
// generator (splitmix64).
//
//go:norace
func RandUint64() uint64 {
	var s *uint64
	if cur != nil {
		s = &cur.rand
	} else {
		s = &offlineRand
	}
	*s += 0x9e3779b97f4a7c15
	z := *s
	z = (z ^ (z >> 30)) * 0xbf58476d1ce4e5b9
	z = (z ^ (z >> 27)) * 0x94d049bb133111eb
	return z ^ (z >> 31)
}

var offlineRand uint64 = 1
