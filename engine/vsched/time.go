package vsched

import (
	"runtime"
	"time"
	"unsafe"
)

//go:norace
func runtimeGoexit() { runtime.Goexit() }

type timer struct {
	cseq   uint64 // canonical id: (arming thread, its arm count)
	when   int64
	period int64
	seq    int
	active bool
	c      *Chan[time.Time]
	f      func()
	sleep  *thread
}

//go:norace
func (e *exec) addTimer(t *timer) {
	e.hbTimeWrite()
	e.timerSeq++
	t.seq = e.timerSeq
	if e.cur != nil {
		e.cur.armed++
		t.cseq = mix(mix(0x7137, e.cur.cid), e.cur.armed)
	}
	t.active = true
	e.timers = append(e.timers, t)
}

//go:norace
func (e *exec) nextTimer() *timer {
	var best *timer
	j := 0
	for _, t := range e.timers {
		if !t.active {
			continue
		}
		e.timers[j] = t
		j++
		if best == nil || t.when < best.when || (t.when == best.when && t.cseq < best.cseq) {
			best = t
		}
	}
	for k := j; k < len(e.timers); k++ {
		e.timers[k] = nil
	}
	e.timers = e.timers[:j]
	return best
}

// fireNext advances virtual time to the earliest pending deadline and fires it.
//
//go:norace
func (e *exec) fireNext() {
	t := e.nextTimer()
	if t == nil {
		return
	}
	if t.when > e.now {
		e.now = t.when
	}
	e.fire(t)
	if e.hb != nil {
		obj := 0
		if t.c != nil {
			obj = e.objID(unsafe.Pointer(t.c))
		}
		e.hb.clock(t.cseq, e.now, obj)
	}
}

//go:norace
func (e *exec) hbTimeRead() {
	if e != nil && e.hb != nil && !e.aborting && e.cur != nil {
		e.hb.timeRead(e.cur)
	}
}

//go:norace
func (e *exec) hbTimeWrite() {
	if e != nil && e.hb != nil && !e.aborting && e.cur != nil {
		e.hb.timeWrite(e.cur)
	}
}

//go:norace
func (e *exec) fire(t *timer) {
	at := t.when
	if t.period > 0 {
		t.when += t.period
	} else {
		t.active = false
	}
	switch {
	case t.c != nil:
		t.c.pushFromClock(e, time.Unix(0, at))
	case t.f != nil:
		th := e.newThread(-1, "AfterFunc", false)
		th.cid = mix(0xaf7e4, t.cseq)
		e.startThread(th, t.f)
	case t.sleep != nil:
		e.makeRunnable(t.sleep)
	}
}

// Now is the instrumented form of time.Now.
//
//go:norace
func Now() time.Time {
	e := cur
	if e == nil {
		return time.Unix(1_700_000_000, 0)
	}
	e.hbTimeRead()
	return time.Unix(0, e.now)
}

// NowNanos returns the virtual time in ns since the Unix epoch.
//
//go:norace
func NowNanos() int64 {
	if cur == nil {
		return 1_700_000_000 * int64(time.Second)
	}
	return cur.now
}

// Since is the instrumented form of time.Since.
//
//go:norace
func Since(t time.Time) time.Duration { return Now().Sub(t) }

// Until is the instrumented form of time.Until.
//
//go:norace
func Until(t time.Time) time.Duration { return t.Sub(Now()) }

// Sleep is the instrumented form of time.Sleep.
//
//go:norace
func Sleep(d time.Duration) {
	e := cur
	if e == nil || e.aborting {
		return
	}
	point(OpTimer, nil)
	if d <= 0 {
		return
	}
	t := &timer{when: e.now + int64(d), sleep: e.cur}
	e.addTimer(t)
	for t.active {
		e.block(OpTimer, nil, "Sleep")
	}
}

// Ticker is the model of time.Ticker.
type Ticker struct {
	C *Chan[time.Time]
	t *timer
}

// NewTicker is the instrumented form of time.NewTicker.
//
//go:norace
func NewTicker(d time.Duration) *Ticker {
	if d <= 0 {
		panic("non-positive interval for NewTicker")
	}
	e := cur
	tk := &Ticker{C: MakeChan[time.Time](1)}
	if e == nil || e.aborting {
		return tk
	}
	tk.t = &timer{when: e.now + int64(d), period: int64(d), c: tk.C}
	e.addTimer(tk.t)
	point(OpTimer, unsafe.Pointer(tk))
	return tk
}

// Stop implements time.Ticker.Stop.
//
//go:norace
func (t *Ticker) Stop() {
	if t.t != nil {
		cur.hbTimeWrite()
		t.t.active = false
	}
}

// Reset implements time.Ticker.Reset.
//
//go:norace
func (t *Ticker) Reset(d time.Duration) {
	if d <= 0 {
		panic("non-positive interval for Ticker.Reset")
	}
	e := cur
	if e == nil || e.aborting || t.t == nil {
		return
	}
	t.t.active = false
	t.t = &timer{when: e.now + int64(d), period: int64(d), c: t.C}
	e.addTimer(t.t)
}

// Tick is the instrumented form of time.Tick.
//
//go:norace
func Tick(d time.Duration) *Chan[time.Time] {
	if d <= 0 {
		return nil
	}
	return NewTicker(d).C
}

// Timer is the model of time.Timer.
type Timer struct {
	C *Chan[time.Time]
	t *timer
}

// NewTimer is the instrumented form of time.NewTimer.
//
//go:norace
func NewTimer(d time.Duration) *Timer {
	e := cur
	tm := &Timer{C: MakeChan[time.Time](1)}
	if e == nil || e.aborting {
		return tm
	}
	if d < 0 {
		d = 0
	}
	tm.t = &timer{when: e.now + int64(d), c: tm.C}
	e.addTimer(tm.t)
	point(OpTimer, unsafe.Pointer(tm))
	return tm
}

// After is the instrumented form of time.After.
//
//go:norace
func After(d time.Duration) *Chan[time.Time] { return NewTimer(d).C }

// AfterFunc is the instrumented form of time.AfterFunc.
//
//go:norace
func AfterFunc(d time.Duration, f func()) *Timer {
	e := cur
	tm := &Timer{}
	if e == nil || e.aborting {
		return tm
	}
	if d < 0 {
		d = 0
	}
	tm.t = &timer{when: e.now + int64(d), f: f}
	e.addTimer(tm.t)
	point(OpTimer, unsafe.Pointer(tm))
	return tm
}

// Stop implements time.Timer.Stop.
//
//go:norace
func (t *Timer) Stop() bool {
	if t.t == nil {
		return false
	}
	was := t.t.active
	cur.hbTimeWrite()
	t.t.active = false
	return was
}

// Reset implements time.Timer.Reset.
//
//go:norace
func (t *Timer) Reset(d time.Duration) bool {
	e := cur
	if e == nil || e.aborting || t.t == nil {
		return false
	}
	was := t.t.active
	t.t.active = false
	if d < 0 {
		d = 0
	}
	nt := &timer{when: e.now + int64(d), c: t.t.c, f: t.t.f}
	t.t = nt
	e.addTimer(nt)
	return was
}

// Advance moves virtual time forward by d on behalf of a sequential harness:
// every timer due in (now, now+d] fires in deadline order, and after each
// firing (and at the end) all other threads run to quiescence.
//
//go:norace
func Advance(d time.Duration) {
	e := cur
	if e == nil || e.aborting {
		return
	}
	target := e.now + int64(d)
	for {
		t := e.nextTimer()
		if t == nil || t.when > target {
			break
		}
		if t.when > e.now {
			e.now = t.when
		}
		e.fire(t)
		Quiesce()
		if e.aborting {
			return
		}
	}
	e.now = target
	Quiesce()
}

// SetNow sets the virtual clock without firing timers (only for harness setup).
//
//go:norace
func SetNow(ns int64) {
	if cur != nil {
		cur.now = ns
	}
}

// PendingTimers reports the number of armed timers.
//
//go:norace
func PendingTimers() int {
	e := cur
	if e == nil {
		return 0
	}
	n := 0
	for _, t := range e.timers {
		if t.active {
			n++
		}
	}
	return n
}

// TimerDeadlines returns the deadlines (ns) of all armed timers in ascending
// order; harnesses fold them into state keys.
//
//go:norace
func TimerDeadlines() []int64 {
	e := cur
	if e == nil {
		return nil
	}
	var out []int64
	for _, t := range e.timers {
		if t.active {
			out = append(out, t.when)
		}
	}
	for i := 1; i < len(out); i++ {
		for j := i; j > 0 && out[j] < out[j-1]; j-- {
			out[j], out[j-1] = out[j-1], out[j]
		}
	}
	return out
}
