package vsched

import (
	"fmt"
	"iter"
	"reflect"
	"sort"
)

// SortedMap is the instrumented form of ranging over a map: keys are visited
// in a canonical order (numeric / lexical) instead of Go's randomised order,
// so that an execution is determined by the scheduler's choices alone. As in
// Go, an entry deleted before it is reached is not produced; entries added
// during the iteration are not produced.
func SortedMap[M ~map[K]V, K comparable, V any](m M) iter.Seq2[K, V] {
	return func(yield func(K, V) bool) {
		keys := make([]K, 0, len(m))
		for k := range m {
			keys = append(keys, k)
		}
		sortKeys(keys)
		for _, k := range keys {
			v, ok := m[k]
			if !ok {
				continue
			}
			if !yield(k, v) {
				return
			}
		}
	}
}

func sortKeys[K comparable](keys []K) {
	if len(keys) < 2 {
		return
	}
	switch reflect.TypeOf(keys[0]).Kind() {
	case reflect.Int, reflect.Int8, reflect.Int16, reflect.Int32, reflect.Int64:
		sort.Slice(keys, func(i, j int) bool { return reflect.ValueOf(keys[i]).Int() < reflect.ValueOf(keys[j]).Int() })
	case reflect.Uint, reflect.Uint8, reflect.Uint16, reflect.Uint32, reflect.Uint64, reflect.Uintptr:
		sort.Slice(keys, func(i, j int) bool { return reflect.ValueOf(keys[i]).Uint() < reflect.ValueOf(keys[j]).Uint() })
	case reflect.String:
		sort.Slice(keys, func(i, j int) bool { return reflect.ValueOf(keys[i]).String() < reflect.ValueOf(keys[j]).String() })
	default:
		sort.Slice(keys, func(i, j int) bool { return fmt.Sprint(keys[i]) < fmt.Sprint(keys[j]) })
	}
}
