package vsched

import "unsafe"

// hbState maintains vector clocks per thread and per shim object and an
// order-independent fingerprint of the happens-before relation of the
// execution so far. Two execution prefixes with equal fingerprints executed
// the same events with the same per-object operation orders, hence (the
// program being deterministic apart from scheduling) reach the same state.
type hbState struct {
	obj     [][]uint32 // indexed by object id
	fp      uint64
	clockVC []uint32
	timeW   []uint32 // vector clock of the last write of the time object
	timeR   []uint32 // join of the reads since
}

//go:norace
func newHB() *hbState { return &hbState{} }

//go:norace
func (h *hbState) newThread(t *thread, parent int) {
	e := cur
	if parent >= 0 && e != nil && parent < len(e.threads) {
		p := e.threads[parent]
		t.vc = make([]uint32, len(p.vc))
		for i := 0; i < len(p.vc); i++ {
			t.vc[i] = p.vc[i]
		}
	}
	for len(t.vc) <= t.id+1 {
		t.vc = append(t.vc, 0)
	}
}

//go:norace
func vcJoin(a, b []uint32) []uint32 {
	for len(a) < len(b) {
		a = append(a, 0)
	}
	for i, x := range b {
		if x > a[i] {
			a[i] = x
		}
	}
	return a
}

//go:norace
func (h *hbState) event(t *thread, obj int, op Op) {
	for len(t.vc) <= t.id+1 {
		t.vc = append(t.vc, 0)
	}
	t.vc[t.id+1]++ // index 0 belongs to the clock pseudo-thread
	if obj != 0 {
		for len(h.obj) <= obj {
			h.obj = append(h.obj, nil)
		}
		t.vc = vcJoin(t.vc, h.obj[obj])
		o := h.obj[obj]
		if len(o) != len(t.vc) {
			o = make([]uint32, len(t.vc))
		}
		for i := 0; i < len(t.vc); i++ {
			o[i] = t.vc[i]
		}
		h.obj[obj] = o
	}
	h.hashEvent(t.cid, op, 0, t.vc)
}

//go:norace
func mix(x, v uint64) uint64 {
	x ^= v
	x *= 1099511628211
	return x
}

// The virtual clock is a pseudo-thread (vector-clock index 0). A timer firing
// is a write to the "time" object and to the timer's channel; Now() is a read
// of the time object; arming/stopping a timer is a write of the time object.
// Reads commute with each other, so threads that merely look at the clock are
// not ordered among themselves.

//go:norace
func vcCopy(a []uint32) []uint32 {
	b := make([]uint32, len(a))
	for i := 0; i < len(a); i++ {
		b[i] = a[i]
	}
	return b
}

// hashEvent adds one event to the fingerprint. Everything that goes into the
// hash is schedule independent: threads are named by their canonical ids
// (position in the spawn tree), objects are not named at all (the vector
// clock already encodes which events precede this one), and the vector is
// hashed as a set of (canonical thread, count) pairs.
//
//go:norace
func (h *hbState) hashEvent(who uint64, op Op, _ int, vc []uint32) {
	e := cur
	var acc uint64
	for i, c := range vc {
		if c == 0 {
			continue
		}
		var cid uint64 = 2 // clock
		if i > 0 && e != nil && i-1 < len(e.threads) {
			cid = e.threads[i-1].cid
		}
		y := mix(mix(14695981039346656037, cid), uint64(c))
		y ^= y >> 31
		y *= 0x9e3779b97f4a7c15
		acc += y
	}
	x := mix(mix(mix(14695981039346656037, who), uint64(op)), acc)
	x ^= x >> 29
	x *= 0xbf58476d1ce4e5b9
	x ^= x >> 32
	h.fp += x
}

// clock records a timer firing that delivers into channel object obj (0 if none).
//
//go:norace
func (h *hbState) clock(seq uint64, now int64, obj int) {
	if len(h.clockVC) == 0 {
		h.clockVC = make([]uint32, 1)
	}
	h.clockVC[0]++
	h.clockVC = vcJoin(h.clockVC, h.timeR)
	h.clockVC = vcJoin(h.clockVC, h.timeW)
	if obj != 0 {
		for len(h.obj) <= obj {
			h.obj = append(h.obj, nil)
		}
		h.clockVC = vcJoin(h.clockVC, h.obj[obj])
		h.obj[obj] = vcCopy(h.clockVC)
	}
	h.timeW = vcCopy(h.clockVC)
	h.timeR = nil
	h.hashEvent(mix(2, seq), OpTimer, obj, h.clockVC)
}

// timeRead records that thread t looked at the clock.
//
//go:norace
func (h *hbState) timeRead(t *thread) {
	for len(t.vc) <= t.id+1 {
		t.vc = append(t.vc, 0)
	}
	t.vc[t.id+1]++
	t.vc = vcJoin(t.vc, h.timeW)
	h.timeR = vcJoin(h.timeR, t.vc)
	h.hashEvent(t.cid, OpYield, -1, t.vc)
}

// timeWrite records that thread t armed or stopped a timer.
//
//go:norace
func (h *hbState) timeWrite(t *thread) {
	for len(t.vc) <= t.id+1 {
		t.vc = append(t.vc, 0)
	}
	t.vc[t.id+1]++
	t.vc = vcJoin(t.vc, h.timeW)
	t.vc = vcJoin(t.vc, h.timeR)
	h.timeW = vcCopy(t.vc)
	h.timeR = nil
	h.hashEvent(t.cid, OpTimer, -1, t.vc)
}

//go:norace
func (h *hbState) exit(t *thread) { h.event(t, 0, OpExit) }

//go:norace
func (h *hbState) join(t, child *thread) {
	t.vc = vcJoin(t.vc, child.vc)
	h.event(t, 0, OpJoin)
}

// hbOp records an operation of the running thread on a shim object.
//
//go:norace
func (e *exec) hbOp(obj unsafe.Pointer, op Op) {
	if e == nil || e.hb == nil {
		return
	}
	e.hb.event(e.cur, e.objID(obj), op)
}

// HBNote lets harness code fold an observation (for example "mock writer was
// called with packet k") into the fingerprint, ordered on a named object.
//
//go:norace
func HBNote(key unsafe.Pointer, v uint64) {
	e := cur
	if e == nil || e.hb == nil {
		return
	}
	e.hb.event(e.cur, e.objID(key), Op(100+v%100))
}

// Fingerprint returns the current happens-before fingerprint.
//
//go:norace
func Fingerprint() uint64 {
	if cur == nil || cur.hb == nil {
		return 0
	}
	return cur.hb.fp
}
