package vsched

import "unsafe"

// hbState maintains vector clocks per thread and per shim object and an
// order-independent fingerprint of the happens-before relation of the
// execution so far. Two execution prefixes with equal fingerprints executed
// the same events with the same per-object operation orders, hence (the
// program being deterministic apart from scheduling) reach the same state.
type hbState struct {
	obj [][]uint32 // indexed by object id
	fp  uint64
}

//go:norace
func newHB() *hbState { return &hbState{} }

//go:norace
func (h *hbState) newThread(t *thread, parent int) {
	e := cur
	if parent >= 0 && e != nil && parent < len(e.threads) {
		p := e.threads[parent]
		t.vc = make([]uint32, len(p.vc))
		for i := 0; i < len(p.vc); i++ {
			t.vc[i] = p.vc[i]
		}
	}
	for len(t.vc) <= t.id {
		t.vc = append(t.vc, 0)
	}
}

//go:norace
func vcJoin(a, b []uint32) []uint32 {
	for len(a) < len(b) {
		a = append(a, 0)
	}
	for i, x := range b {
		if x > a[i] {
			a[i] = x
		}
	}
	return a
}

//go:norace
func (h *hbState) event(t *thread, obj int, op Op) {
	for len(t.vc) <= t.id {
		t.vc = append(t.vc, 0)
	}
	t.vc[t.id]++
	if obj != 0 {
		for len(h.obj) <= obj {
			h.obj = append(h.obj, nil)
		}
		t.vc = vcJoin(t.vc, h.obj[obj])
		o := h.obj[obj]
		if len(o) != len(t.vc) {
			o = make([]uint32, len(t.vc))
		}
		for i := 0; i < len(t.vc); i++ {
			o[i] = t.vc[i]
		}
		h.obj[obj] = o
	}
	// hash of (thread, op, obj, vc)
	x := uint64(14695981039346656037)
	x = mix(x, uint64(t.id))
	x = mix(x, uint64(op))
	x = mix(x, uint64(obj))
	for i, c := range t.vc {
		if c != 0 {
			x = mix(x, uint64(i)<<32|uint64(c))
		}
	}
	x ^= x >> 29
	x *= 0xbf58476d1ce4e5b9
	x ^= x >> 32
	h.fp += x
}

//go:norace
func mix(x, v uint64) uint64 {
	x ^= v
	x *= 1099511628211
	return x
}

// clock folds a timer firing into the fingerprint. Firings do not commute
// with anything: the fingerprint after the firing depends on the whole
// fingerprint before it.
//
//go:norace
func (h *hbState) clock(n int, now int64) {
	x := mix(mix(h.fp, uint64(n)), uint64(now))
	x ^= x >> 29
	x *= 0xbf58476d1ce4e5b9
	x ^= x >> 32
	h.fp = x
}

//go:norace
func (h *hbState) exit(t *thread) { h.event(t, 0, OpExit) }

//go:norace
func (h *hbState) join(t, child *thread) {
	t.vc = vcJoin(t.vc, child.vc)
	h.event(t, 0, OpJoin)
}

// hbOp records an operation of the running thread on a shim object.
//
//go:norace
func (e *exec) hbOp(obj unsafe.Pointer, op Op) {
	if e == nil || e.hb == nil {
		return
	}
	e.hb.event(e.cur, e.objID(obj), op)
}

// HBNote lets harness code fold an observation (for example "mock writer was
// called with packet k") into the fingerprint, ordered on a named object.
//
//go:norace
func HBNote(key unsafe.Pointer, v uint64) {
	e := cur
	if e == nil || e.hb == nil {
		return
	}
	e.hb.event(e.cur, e.objID(key), Op(100+v%100))
}

// Fingerprint returns the current happens-before fingerprint.
//
//go:norace
func Fingerprint() uint64 {
	if cur == nil || cur.hb == nil {
		return 0
	}
	return cur.hb.fp
}
