package vsched

import (
	"unsafe"
)

// waitq is a list of threads blocked on an object.
type waitq struct{ ts []*thread }

//go:norace
func (w *waitq) add(t *thread) { w.ts = append(w.ts, t) }

//go:norace
func (w *waitq) wakeAll(e *exec) {
	for _, t := range w.ts {
		e.makeRunnable(t)
	}
	w.ts = w.ts[:0]
}

// Mutex is the model of sync.Mutex.
type Mutex struct {
	held bool
	gen  *exec
	q    waitq
}

//go:norace
func (m *Mutex) fresh(e *exec) {
	if m.gen != e {
		m.gen = e
		m.held = false
		m.q.ts = nil
	}
}

// Lock implements sync.Mutex.Lock.
//
//go:norace
func (m *Mutex) Lock() {
	e := cur
	if e == nil || e.aborting {
		return
	}
	m.fresh(e)
	point(OpLock, unsafe.Pointer(m))
	for m.held {
		m.q.add(e.cur)
		e.block(OpLock, unsafe.Pointer(m), "Mutex.Lock")
	}
	m.held = true
	raceAcquire(unsafe.Pointer(m))
	e.hbOp(unsafe.Pointer(m), OpLock)
}

// TryLock implements sync.Mutex.TryLock.
//
//go:norace
func (m *Mutex) TryLock() bool {
	e := cur
	if e == nil || e.aborting {
		return true
	}
	m.fresh(e)
	point(OpLock, unsafe.Pointer(m))
	if m.held {
		return false
	}
	m.held = true
	raceAcquire(unsafe.Pointer(m))
	e.hbOp(unsafe.Pointer(m), OpLock)
	return true
}

// Unlock implements sync.Mutex.Unlock.
//
//go:norace
func (m *Mutex) Unlock() {
	e := cur
	if e == nil || e.aborting {
		return
	}
	m.fresh(e)
	point(OpUnlock, unsafe.Pointer(m))
	if !m.held {
		panic("sync: unlock of unlocked mutex")
	}
	raceRelease(unsafe.Pointer(m))
	e.hbOp(unsafe.Pointer(m), OpUnlock)
	m.held = false
	m.q.wakeAll(e)
}

// RWMutex is the model of sync.RWMutex. No writer preference is modelled:
// a reader may acquire while a writer is waiting (a superset of the real
// behaviours with respect to safety; recursive read locking therefore does not
// deadlock in the model).
type RWMutex struct {
	writer  bool
	readers int
	gen     *exec
	q       waitq
	r, w    byte // addresses used for race annotations
}

//go:norace
func (m *RWMutex) fresh(e *exec) {
	if m.gen != e {
		m.gen = e
		m.writer = false
		m.readers = 0
		m.q.ts = nil
	}
}

// Lock implements sync.RWMutex.Lock.
//
//go:norace
func (m *RWMutex) Lock() {
	e := cur
	if e == nil || e.aborting {
		return
	}
	m.fresh(e)
	point(OpLock, unsafe.Pointer(m))
	for m.writer || m.readers > 0 {
		m.q.add(e.cur)
		e.block(OpLock, unsafe.Pointer(m), "RWMutex.Lock")
	}
	m.writer = true
	raceAcquire(unsafe.Pointer(&m.w))
	raceAcquire(unsafe.Pointer(&m.r))
	e.hbOp(unsafe.Pointer(m), OpLock)
}

// Unlock implements sync.RWMutex.Unlock.
//
//go:norace
func (m *RWMutex) Unlock() {
	e := cur
	if e == nil || e.aborting {
		return
	}
	m.fresh(e)
	point(OpUnlock, unsafe.Pointer(m))
	if !m.writer {
		panic("sync: Unlock of unlocked RWMutex")
	}
	raceRelease(unsafe.Pointer(&m.w))
	e.hbOp(unsafe.Pointer(m), OpUnlock)
	m.writer = false
	m.q.wakeAll(e)
}

// RLock implements sync.RWMutex.RLock.
//
//go:norace
func (m *RWMutex) RLock() {
	e := cur
	if e == nil || e.aborting {
		return
	}
	m.fresh(e)
	point(OpRLock, unsafe.Pointer(m))
	for m.writer {
		m.q.add(e.cur)
		e.block(OpRLock, unsafe.Pointer(m), "RWMutex.RLock")
	}
	m.readers++
	raceAcquire(unsafe.Pointer(&m.w))
	e.hbOp(unsafe.Pointer(m), OpRLock)
}

// RUnlock implements sync.RWMutex.RUnlock.
//
//go:norace
func (m *RWMutex) RUnlock() {
	e := cur
	if e == nil || e.aborting {
		return
	}
	m.fresh(e)
	point(OpRUnlock, unsafe.Pointer(m))
	if m.readers <= 0 {
		panic("sync: RUnlock of unlocked RWMutex")
	}
	raceReleaseMerge(unsafe.Pointer(&m.r))
	e.hbOp(unsafe.Pointer(m), OpRUnlock)
	m.readers--
	if m.readers == 0 {
		m.q.wakeAll(e)
	}
}

// TryLock implements sync.RWMutex.TryLock.
//
//go:norace
func (m *RWMutex) TryLock() bool {
	e := cur
	if e == nil || e.aborting {
		return true
	}
	m.fresh(e)
	point(OpLock, unsafe.Pointer(m))
	if m.writer || m.readers > 0 {
		return false
	}
	m.writer = true
	raceAcquire(unsafe.Pointer(&m.w))
	raceAcquire(unsafe.Pointer(&m.r))
	e.hbOp(unsafe.Pointer(m), OpLock)
	return true
}

// TryRLock implements sync.RWMutex.TryRLock.
//
//go:norace
func (m *RWMutex) TryRLock() bool {
	e := cur
	if e == nil || e.aborting {
		return true
	}
	m.fresh(e)
	point(OpRLock, unsafe.Pointer(m))
	if m.writer {
		return false
	}
	m.readers++
	raceAcquire(unsafe.Pointer(&m.w))
	e.hbOp(unsafe.Pointer(m), OpRLock)
	return true
}

// Locker mirrors sync.Locker.
type Locker interface {
	Lock()
	Unlock()
}

type rlocker RWMutex

//go:norace
func (r *rlocker) Lock() { (*RWMutex)(r).RLock() }

//go:norace
func (r *rlocker) Unlock() { (*RWMutex)(r).RUnlock() }

// RLocker implements sync.RWMutex.RLocker.
//
//go:norace
func (m *RWMutex) RLocker() Locker { return (*rlocker)(m) }

// WaitGroup is the model of sync.WaitGroup.
type WaitGroup struct {
	n       int
	waiters int
	gen     *exec
	q       waitq
	probe   byte
}

//go:norace
func (w *WaitGroup) fresh(e *exec) {
	if w.gen != e {
		w.gen = e
		w.n = 0
		w.waiters = 0
		w.q.ts = nil
	}
}

// Add implements sync.WaitGroup.Add.
//
//go:norace
func (w *WaitGroup) Add(delta int) {
	e := cur
	if e == nil || e.aborting {
		return
	}
	w.fresh(e)
	point(OpWGAdd, unsafe.Pointer(w))
	if delta < 0 {
		raceReleaseMerge(unsafe.Pointer(w))
	}
	if delta > 0 && w.n == 0 {
		// mirrors sync.WaitGroup: the first Add from zero must be
		// synchronised with Wait; modelled as a read racing Wait's write.
		raceRead(unsafe.Pointer(&w.probe))
	}
	e.hbOp(unsafe.Pointer(w), OpWGAdd)
	w.n += delta
	if w.n < 0 {
		panic("sync: negative WaitGroup counter")
	}
	if w.n == 0 {
		w.waiters = 0
		w.q.wakeAll(e)
	}
}

// Done implements sync.WaitGroup.Done.
//
//go:norace
func (w *WaitGroup) Done() { w.Add(-1) }

// Go implements sync.WaitGroup.Go.
//
//go:norace
func (w *WaitGroup) Go(f func()) {
	w.Add(1)
	Go(func() {
		defer w.Done()
		f()
	})
}

// Wait implements sync.WaitGroup.Wait.
//
//go:norace
func (w *WaitGroup) Wait() {
	e := cur
	if e == nil || e.aborting {
		return
	}
	w.fresh(e)
	point(OpWGWait, unsafe.Pointer(w))
	if w.n > 0 && w.waiters == 0 {
		raceWrite(unsafe.Pointer(&w.probe))
	}
	for w.n > 0 {
		w.waiters++
		w.q.add(e.cur)
		e.block(OpWGWait, unsafe.Pointer(w), "WaitGroup.Wait")
	}
	raceAcquire(unsafe.Pointer(w))
	e.hbOp(unsafe.Pointer(w), OpWGWait)
}

// Once is the model of sync.Once.
type Once struct {
	done    bool
	running bool
	gen     *exec
	q       waitq
}

// Do implements sync.Once.Do.
//
//go:norace
func (o *Once) Do(f func()) {
	e := cur
	if e == nil || e.aborting {
		if !o.done {
			o.done = true
			f()
		}
		return
	}
	if o.gen != e {
		o.gen = e
		o.done, o.running = false, false
		o.q.ts = nil
	}
	point(OpOnce, unsafe.Pointer(o))
	for o.running {
		o.q.add(e.cur)
		e.block(OpOnce, unsafe.Pointer(o), "Once.Do")
	}
	if !o.done {
		o.running = true
		onceRun(o, f)
		return
	}
	raceAcquire(unsafe.Pointer(o))
	e.hbOp(unsafe.Pointer(o), OpOnce)
}

//go:norace
func onceRun(o *Once, f func()) {
	defer onceDone(o)
	f()
}

//go:norace
func onceDone(o *Once) {
	e := cur
	o.done = true
	o.running = false
	if e == nil || e.aborting {
		return
	}
	raceRelease(unsafe.Pointer(o))
	e.hbOp(unsafe.Pointer(o), OpOnce)
	o.q.wakeAll(e)
}

// Pool is the model of sync.Pool: a deterministic LIFO free list, which is the
// adversarial legal behaviour for "recycled while still referenced" bugs.
// The free list is emptied at the end of every execution.
type Pool struct {
	New  func() any
	free []any
	reg  *exec
}

//go:norace
func (p *Pool) reset() {
	p.free = nil
	p.reg = nil
}

//go:norace
func (p *Pool) register() {
	e := cur
	if e != nil && p.reg != e {
		p.reg = e
		p.free = nil
		e.pools = append(e.pools, p)
	}
}

// Get implements sync.Pool.Get.
//
//go:norace
func (p *Pool) Get() any {
	e := cur
	if e == nil || e.aborting {
		if p.New != nil {
			return p.New()
		}
		return nil
	}
	p.register()
	point(OpPool, unsafe.Pointer(p))
	e.hbOp(unsafe.Pointer(p), OpPool)
	if n := len(p.free); n > 0 {
		x := p.free[n-1]
		p.free = p.free[:n-1]
		raceAcquire(poolAddr(x, p))
		return x
	}
	if p.New != nil {
		return p.New()
	}
	return nil
}

// Put implements sync.Pool.Put.
//
//go:norace
func (p *Pool) Put(x any) {
	e := cur
	if e == nil || e.aborting || x == nil {
		return
	}
	p.register()
	point(OpPool, unsafe.Pointer(p))
	e.hbOp(unsafe.Pointer(p), OpPool)
	raceReleaseMerge(poolAddr(x, p))
	p.free = append(p.free, x)
}

// FreeLen reports the number of pooled objects (used by retained-size checks).
//
//go:norace
func (p *Pool) FreeLen() int { return len(p.free) }

type eface struct {
	typ  unsafe.Pointer
	data unsafe.Pointer
}

// poolAddr returns the address used to carry the Put->Get edge for object x:
// the data word of the interface (the pointer for pointer-shaped values).
//
//go:norace
func poolAddr(x any, p *Pool) unsafe.Pointer {
	d := (*eface)(unsafe.Pointer(&x)).data
	if d == nil {
		return unsafe.Pointer(p)
	}
	return d
}

// Map is the model of sync.Map: an association list in insertion order (the
// library keeps a handful of entries per map). Every operation is one atomic
// step; write operations release, every operation acquires, mirroring the
// "a write synchronizes before a read that observes it" rule of sync.Map.
type Map struct {
	keys []any
	vals []any
}

//go:norace
func (m *Map) enter(write bool) {
	e := cur
	if e != nil && !e.aborting {
		point(OpMap, unsafe.Pointer(m))
		raceAcquire(unsafe.Pointer(m))
		if write {
			raceReleaseMerge(unsafe.Pointer(m))
		}
		e.hbOp(unsafe.Pointer(m), OpMap)
	}
}

//go:norace
func (m *Map) find(k any) int {
	for i := 0; i < len(m.keys); i++ {
		if m.keys[i] == k {
			return i
		}
	}
	return -1
}

//go:norace
func (m *Map) del(i int) {
	n := len(m.keys)
	for j := i; j+1 < n; j++ {
		m.keys[j] = m.keys[j+1]
		m.vals[j] = m.vals[j+1]
	}
	m.keys[n-1], m.vals[n-1] = nil, nil
	m.keys, m.vals = m.keys[:n-1], m.vals[:n-1]
}

// Load implements sync.Map.Load.
//
//go:norace
func (m *Map) Load(k any) (any, bool) {
	m.enter(false)
	if i := m.find(k); i >= 0 {
		return m.vals[i], true
	}
	return nil, false
}

// Store implements sync.Map.Store.
//
//go:norace
func (m *Map) Store(k, v any) {
	m.enter(true)
	if i := m.find(k); i >= 0 {
		m.vals[i] = v
		return
	}
	m.keys = append(m.keys, k)
	m.vals = append(m.vals, v)
}

// LoadOrStore implements sync.Map.LoadOrStore.
//
//go:norace
func (m *Map) LoadOrStore(k, v any) (any, bool) {
	m.enter(true)
	if i := m.find(k); i >= 0 {
		return m.vals[i], true
	}
	m.keys = append(m.keys, k)
	m.vals = append(m.vals, v)
	return v, false
}

// LoadAndDelete implements sync.Map.LoadAndDelete.
//
//go:norace
func (m *Map) LoadAndDelete(k any) (any, bool) {
	m.enter(true)
	if i := m.find(k); i >= 0 {
		v := m.vals[i]
		m.del(i)
		return v, true
	}
	return nil, false
}

// Delete implements sync.Map.Delete.
//
//go:norace
func (m *Map) Delete(k any) { m.LoadAndDelete(k) }

// Swap implements sync.Map.Swap.
//
//go:norace
func (m *Map) Swap(k, v any) (any, bool) {
	m.enter(true)
	if i := m.find(k); i >= 0 {
		old := m.vals[i]
		m.vals[i] = v
		return old, true
	}
	m.keys = append(m.keys, k)
	m.vals = append(m.vals, v)
	return nil, false
}

// CompareAndSwap implements sync.Map.CompareAndSwap.
//
//go:norace
func (m *Map) CompareAndSwap(k, old, new any) bool {
	m.enter(true)
	if i := m.find(k); i >= 0 && m.vals[i] == old {
		m.vals[i] = new
		return true
	}
	return false
}

// CompareAndDelete implements sync.Map.CompareAndDelete.
//
//go:norace
func (m *Map) CompareAndDelete(k, old any) bool {
	m.enter(true)
	if i := m.find(k); i >= 0 && m.vals[i] == old {
		m.del(i)
		return true
	}
	return false
}

// Clear implements sync.Map.Clear.
//
//go:norace
func (m *Map) Clear() {
	m.enter(true)
	m.keys, m.vals = nil, nil
}

// Range implements sync.Map.Range: it visits a snapshot of the keys in
// insertion order; each callback sees the current value, as the real Range may.
//
//go:norace
func (m *Map) Range(f func(k, v any) bool) {
	m.enter(false)
	n := len(m.keys)
	snap := make([]any, n)
	for i := 0; i < n; i++ {
		snap[i] = m.keys[i]
	}
	for i := 0; i < n; i++ {
		j := m.find(snap[i])
		if j < 0 {
			continue
		}
		if !f(snap[i], m.vals[j]) {
			return
		}
	}
}

// Len reports the number of entries (used by retained-size checks).
//
//go:norace
func (m *Map) Len() int { return len(m.keys) }

// Cond is the model of sync.Cond.
type Cond struct {
	L Locker
	q waitq
}

// NewCond implements sync.NewCond.
//
//go:norace
func NewCond(l Locker) *Cond { return &Cond{L: l} }

// Wait implements sync.Cond.Wait.
//
//go:norace
func (c *Cond) Wait() {
	e := cur
	if e == nil || e.aborting {
		return
	}
	c.L.Unlock()
	c.q.add(e.cur)
	e.block(OpCond, unsafe.Pointer(c), "Cond.Wait")
	raceAcquire(unsafe.Pointer(c))
	c.L.Lock()
}

// Signal implements sync.Cond.Signal.
//
//go:norace
func (c *Cond) Signal() {
	e := cur
	if e == nil || e.aborting {
		return
	}
	point(OpCond, unsafe.Pointer(c))
	raceRelease(unsafe.Pointer(c))
	if len(c.q.ts) > 0 {
		t := c.q.ts[0]
		c.q.ts = c.q.ts[1:]
		e.makeRunnable(t)
	}
}

// Broadcast implements sync.Cond.Broadcast.
//
//go:norace
func (c *Cond) Broadcast() {
	e := cur
	if e == nil || e.aborting {
		return
	}
	point(OpCond, unsafe.Pointer(c))
	raceRelease(unsafe.Pointer(c))
	c.q.wakeAll(e)
}
