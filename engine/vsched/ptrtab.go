package vsched

import "unsafe"

// ptrTab maps addresses to small per-execution ids. It is an open-addressing
// table written with plain loads and stores only: under -race the runtime's
// map and slice-copy helpers are instrumented even inside //go:norace
// functions, and scheduler state is shared between goroutines without
// detector-visible synchronisation, so vsched must not use them.
type ptrTab struct {
	keys []unsafe.Pointer
	vals []int
	n    int
}

//go:norace
func (t *ptrTab) id(p unsafe.Pointer) int {
	if len(t.keys) == 0 {
		t.keys = make([]unsafe.Pointer, 256)
		t.vals = make([]int, 256)
	}
	if t.n*2 >= len(t.keys) {
		ok, ov := t.keys, t.vals
		t.keys = make([]unsafe.Pointer, 2*len(ok))
		t.vals = make([]int, 2*len(ok))
		for i := 0; i < len(ok); i++ {
			if ok[i] != nil {
				t.put(ok[i], ov[i])
			}
		}
	}
	mask := uintptr(len(t.keys) - 1)
	h := (uintptr(p) >> 3) * 0x9e3779b1
	for i := h & mask; ; i = (i + 1) & mask {
		if t.keys[i] == p {
			return t.vals[i]
		}
		if t.keys[i] == nil {
			t.n++
			t.keys[i] = p
			t.vals[i] = t.n
			return t.n
		}
	}
}

//go:norace
func (t *ptrTab) put(p unsafe.Pointer, v int) {
	mask := uintptr(len(t.keys) - 1)
	h := (uintptr(p) >> 3) * 0x9e3779b1
	for i := h & mask; ; i = (i + 1) & mask {
		if t.keys[i] == nil {
			t.keys[i] = p
			t.vals[i] = v
			return
		}
	}
}
