package vsched

import "unsafe"

// atomicOp is the common part of every atomic operation: a scheduling point
// plus acquire/release on the address.
//
//go:norace
func atomicOp(addr unsafe.Pointer, write bool) {
	e := cur
	if e == nil || e.aborting {
		return
	}
	point(OpAtomic, addr)
	raceAcquire(addr)
	if write {
		raceReleaseMerge(addr)
	}
	e.hbOp(addr, OpAtomic)
}

// AtomicPre must be called by the atomic shims immediately before the plain
// memory operation that implements the atomic.
//
//go:norace
func AtomicPre(addr unsafe.Pointer, write bool) { atomicOp(addr, write) }
