package vsched

import (
	"iter"
	"unsafe"
)

// selState is shared by all waiters of one blocked select (a blocked plain
// send/receive is a select with a single case).
type selState struct {
	th    *thread
	fired int // case index that completed, -1 while waiting
}

type waiter[T any] struct {
	sel    *selState
	idx    int
	val    T    // value to send (senders) or received value (receivers)
	ok     bool // receivers: true if a value was delivered
	closed bool // woken by close
}

// Chan is the model of a Go channel. A nil *Chan[T] blocks forever on send
// and receive like a nil channel.
type Chan[T any] struct {
	capacity int
	closed   bool
	gen      *exec
	sendx    int
	recvx    int
	slots    []byte // addresses for race annotations, one per buffer slot (at most 64)
	slot0    byte
	buf      []T
	recvq    []*waiter[T]
	sendq    []*waiter[T]
}

// MakeChan is the instrumented form of make(chan T, n).
//
//go:norace
func MakeChan[T any](n ...int) *Chan[T] {
	c := &Chan[T]{}
	if len(n) > 0 {
		if n[0] < 0 {
			panic("makechan: size out of range")
		}
		c.capacity = n[0]
	}
	c.gen = cur
	return c
}

//go:norace
func (c *Chan[T]) fresh(e *exec) {
	if c.gen != e {
		// a channel that survived from an earlier execution keeps its
		// buffered values but nobody can be waiting on it any more
		c.gen = e
		c.recvq = nil
		c.sendq = nil
	}
}

//go:norace
func (c *Chan[T]) slot(i int) unsafe.Pointer {
	if c.capacity == 0 {
		return unsafe.Pointer(&c.slot0)
	}
	if c.slots == nil {
		n := c.capacity
		if n > 64 {
			n = 64
		}
		c.slots = make([]byte, n)
	}
	return unsafe.Pointer(&c.slots[i%len(c.slots)])
}

//go:norace
func pruneQ[T any](q []*waiter[T]) []*waiter[T] {
	for len(q) > 0 && q[0].sel.fired >= 0 {
		q = q[1:]
	}
	return q
}

//go:norace
func (c *Chan[T]) canSend() bool {
	if c == nil {
		return false
	}
	if c.closed {
		return true // will panic
	}
	c.recvq = pruneQ(c.recvq)
	return len(c.recvq) > 0 || len(c.buf) < c.capacity
}

//go:norace
func (c *Chan[T]) canRecv() bool {
	if c == nil {
		return false
	}
	c.sendq = pruneQ(c.sendq)
	return len(c.buf) > 0 || len(c.sendq) > 0 || c.closed
}

// doSend completes a send that canSend() said is possible.
//
//go:norace
func (c *Chan[T]) doSend(e *exec, v T) {
	if c.closed {
		panic("send on closed channel")
	}
	c.recvq = pruneQ(c.recvq)
	if len(c.recvq) > 0 {
		w := c.recvq[0]
		c.recvq = c.recvq[1:]
		w.sel.fired = w.idx
		w.val, w.ok = v, true
		// rendezvous: both directions synchronise
		raceAcquire(unsafe.Pointer(&c.slot0))
		raceReleaseMerge(unsafe.Pointer(&c.slot0))
		e.makeRunnable(w.sel.th)
		e.hbOp(unsafe.Pointer(c), OpSend)
		return
	}
	s := c.slot(c.sendx)
	raceAcquire(s)
	raceRelease(s)
	c.sendx++
	c.buf = append(c.buf, v)
	e.hbOp(unsafe.Pointer(c), OpSend)
}

// doRecv completes a receive that canRecv() said is possible.
//
//go:norace
func (c *Chan[T]) doRecv(e *exec) (v T, ok bool) {
	if len(c.buf) > 0 {
		v = c.buf[0]
		var zero T
		c.buf[0] = zero
		c.buf = c.buf[1:]
		s := c.slot(c.recvx)
		raceAcquire(s)
		raceRelease(s)
		c.recvx++
		// a blocked sender can now move its value into the buffer
		c.sendq = pruneQ(c.sendq)
		if len(c.sendq) > 0 {
			w := c.sendq[0]
			c.sendq = c.sendq[1:]
			w.sel.fired = w.idx
			c.buf = append(c.buf, w.val)
			c.sendx++
			raceAcquire(unsafe.Pointer(&c.slot0))
			raceReleaseMerge(unsafe.Pointer(&c.slot0))
			e.makeRunnable(w.sel.th)
		}
		e.hbOp(unsafe.Pointer(c), OpRecv)
		return v, true
	}
	c.sendq = pruneQ(c.sendq)
	if len(c.sendq) > 0 {
		w := c.sendq[0]
		c.sendq = c.sendq[1:]
		w.sel.fired = w.idx
		raceAcquire(unsafe.Pointer(&c.slot0))
		raceReleaseMerge(unsafe.Pointer(&c.slot0))
		e.makeRunnable(w.sel.th)
		e.hbOp(unsafe.Pointer(c), OpRecv)
		return w.val, true
	}
	if c.closed {
		raceAcquire(unsafe.Pointer(c))
		e.hbOp(unsafe.Pointer(c), OpRecv)
		return v, false
	}
	panic("vsched: doRecv on channel that is not ready")
}

// Send is the instrumented form of c <- v.
//
//go:norace
func (c *Chan[T]) Send(v T) {
	e := cur
	if e == nil {
		if c != nil && len(c.buf) < c.capacity {
			c.buf = append(c.buf, v)
			return
		}
		panic("vsched: blocking channel send outside an execution")
	}
	if e.aborting {
		return
	}
	if c != nil {
		c.fresh(e)
	}
	point(OpSend, unsafe.Pointer(c))
	if c.canSend() {
		c.doSend(e, v)
		return
	}
	if c == nil {
		for {
			e.block(OpSend, nil, "send on nil channel")
		}
	}
	st := &selState{th: e.cur, fired: -1}
	w := &waiter[T]{sel: st, idx: 0, val: v}
	raceReleaseMerge(unsafe.Pointer(&c.slot0))
	c.sendq = append(c.sendq, w)
	for st.fired < 0 {
		e.block(OpSend, unsafe.Pointer(c), "chan send")
	}
	if w.closed {
		panic("send on closed channel")
	}
	raceAcquire(unsafe.Pointer(&c.slot0))
	e.hbOp(unsafe.Pointer(c), OpSend)
}

// Recv is the instrumented form of <-c.
//
//go:norace
func (c *Chan[T]) Recv() T {
	v, _ := c.Recv2()
	return v
}

// Recv2 is the instrumented form of v, ok := <-c.
//
//go:norace
func (c *Chan[T]) Recv2() (T, bool) {
	var zero T
	e := cur
	if e == nil {
		if c != nil && len(c.buf) > 0 {
			v := c.buf[0]
			c.buf = c.buf[1:]
			return v, true
		}
		if c != nil && c.closed {
			return zero, false
		}
		panic("vsched: blocking channel receive outside an execution")
	}
	if e.aborting {
		return zero, false
	}
	if c != nil {
		c.fresh(e)
	}
	point(OpRecv, unsafe.Pointer(c))
	if c.canRecv() {
		return c.doRecv(e)
	}
	if c == nil {
		for {
			e.block(OpRecv, nil, "receive from nil channel")
		}
	}
	st := &selState{th: e.cur, fired: -1}
	w := &waiter[T]{sel: st, idx: 0}
	raceReleaseMerge(unsafe.Pointer(&c.slot0))
	c.recvq = append(c.recvq, w)
	for st.fired < 0 {
		e.block(OpRecv, unsafe.Pointer(c), "chan receive")
	}
	if w.closed {
		raceAcquire(unsafe.Pointer(c))
		e.hbOp(unsafe.Pointer(c), OpRecv)
		return zero, false
	}
	raceAcquire(unsafe.Pointer(&c.slot0))
	e.hbOp(unsafe.Pointer(c), OpRecv)
	return w.val, w.ok
}

// Close is the instrumented form of close(c).
//
//go:norace
func (c *Chan[T]) Close() {
	e := cur
	if c == nil {
		panic("close of nil channel")
	}
	if e == nil {
		if c.closed {
			panic("close of closed channel")
		}
		c.closed = true
		return
	}
	if e.aborting {
		return
	}
	c.fresh(e)
	point(OpClose, unsafe.Pointer(c))
	if c.closed {
		panic("close of closed channel")
	}
	raceRelease(unsafe.Pointer(c))
	e.hbOp(unsafe.Pointer(c), OpClose)
	c.closed = true
	for _, w := range c.recvq {
		if w.sel.fired < 0 {
			w.sel.fired = w.idx
			w.closed = true
			e.makeRunnable(w.sel.th)
		}
	}
	c.recvq = nil
	for _, w := range c.sendq {
		if w.sel.fired < 0 {
			w.sel.fired = w.idx
			w.closed = true
			e.makeRunnable(w.sel.th)
		}
	}
	c.sendq = nil
}

// Len is the instrumented form of len(c).
//
//go:norace
func (c *Chan[T]) Len() int {
	if c == nil {
		return 0
	}
	return len(c.buf)
}

// Cap is the instrumented form of cap(c).
//
//go:norace
func (c *Chan[T]) Cap() int {
	if c == nil {
		return 0
	}
	return c.capacity
}

// Iter is the instrumented form of ranging over a channel.
//
//go:norace
func (c *Chan[T]) Iter() iter.Seq[T] {
	return chanIter[T]{c}.run
}

type chanIter[T any] struct{ c *Chan[T] }

//go:norace
func (it chanIter[T]) run(yield func(T) bool) {
	for {
		v, ok := it.c.Recv2()
		if !ok {
			return
		}
		if !yield(v) {
			return
		}
	}
}

// QueuedValues returns the buffered values (used by hashing/size walks).
//
//go:norace
func (c *Chan[T]) QueuedValues() []T { return c.buf }

// pushFromClock is used by timers: non-blocking send that drops if full.
//
//go:norace
func (c *Chan[T]) pushFromClock(e *exec, v T) {
	c.fresh(e)
	if c.closed {
		return
	}
	c.recvq = pruneQ(c.recvq)
	if len(c.recvq) > 0 {
		w := c.recvq[0]
		c.recvq = c.recvq[1:]
		w.sel.fired = w.idx
		w.val, w.ok = v, true
		e.makeRunnable(w.sel.th)
		return
	}
	if len(c.buf) < c.capacity {
		c.buf = append(c.buf, v)
		c.sendx++
	}
}

// SelCase is one communication clause of an instrumented select.
type SelCase interface {
	ready() bool
	run(e *exec)
	enqueue(st *selState, idx int)
	finish()
	addr() unsafe.Pointer
	freshen(e *exec)
}

// RecvCase is a receive clause; after Select returns its index, Val and Ok
// hold the received value.
type RecvCase[T any] struct {
	c   *Chan[T]
	w   *waiter[T]
	Val T
	Ok  bool
}

// SendCase is a send clause; the value is evaluated on entry to the select,
// as in Go.
type SendCase[T any] struct {
	c *Chan[T]
	w *waiter[T]
	v T
}

// R builds a receive clause.
//
//go:norace
func R[T any](c *Chan[T]) *RecvCase[T] { return &RecvCase[T]{c: c} }

// S builds a send clause.
//
//go:norace
func S[T any](c *Chan[T], v T) *SendCase[T] { return &SendCase[T]{c: c, v: v} }

//go:norace
func (r *RecvCase[T]) ready() bool { return r.c.canRecv() }

//go:norace
func (r *RecvCase[T]) run(e *exec) { r.Val, r.Ok = r.c.doRecv(e) }

//go:norace
func (r *RecvCase[T]) enqueue(st *selState, idx int) {
	if r.c == nil {
		return
	}
	r.w = &waiter[T]{sel: st, idx: idx}
	raceReleaseMerge(unsafe.Pointer(&r.c.slot0))
	r.c.recvq = append(r.c.recvq, r.w)
}

//go:norace
func (r *RecvCase[T]) finish() {
	if r.w.closed {
		raceAcquire(unsafe.Pointer(r.c))
		var zero T
		r.Val, r.Ok = zero, false
		return
	}
	raceAcquire(unsafe.Pointer(&r.c.slot0))
	r.Val, r.Ok = r.w.val, r.w.ok
}

//go:norace
func (r *RecvCase[T]) addr() unsafe.Pointer { return unsafe.Pointer(r.c) }

//go:norace
func (r *RecvCase[T]) freshen(e *exec) {
	if r.c != nil {
		r.c.fresh(e)
	}
}

//go:norace
func (s *SendCase[T]) ready() bool { return s.c.canSend() }

//go:norace
func (s *SendCase[T]) run(e *exec) { s.c.doSend(e, s.v) }

//go:norace
func (s *SendCase[T]) enqueue(st *selState, idx int) {
	if s.c == nil {
		return
	}
	s.w = &waiter[T]{sel: st, idx: idx, val: s.v}
	raceReleaseMerge(unsafe.Pointer(&s.c.slot0))
	s.c.sendq = append(s.c.sendq, s.w)
}

//go:norace
func (s *SendCase[T]) finish() {
	if s.w.closed {
		panic("send on closed channel")
	}
	raceAcquire(unsafe.Pointer(&s.c.slot0))
}

//go:norace
func (s *SendCase[T]) addr() unsafe.Pointer { return unsafe.Pointer(s.c) }

//go:norace
func (s *SendCase[T]) freshen(e *exec) {
	if s.c != nil {
		s.c.fresh(e)
	}
}

// Select is the instrumented form of a select statement. It returns the index
// of the clause that completed, or -1 for the default clause. Among several
// ready clauses the Strategy chooses (Go chooses pseudo-randomly).
//
//go:norace
func Select(hasDefault bool, cases ...SelCase) int {
	e := cur
	if e == nil {
		for i, c := range cases {
			if c.ready() {
				c.run(nil)
				return i
			}
		}
		if hasDefault {
			return -1
		}
		panic("vsched: blocking select outside an execution")
	}
	if e.aborting {
		runtimeGoexit()
	}
	for _, c := range cases {
		c.freshen(e)
	}
	point(OpSelect, nil)
	var ready []int
	for i, c := range cases {
		if c.ready() {
			ready = append(ready, i)
		}
	}
	if len(ready) > 0 {
		k := 0
		if len(ready) > 1 {
			k = e.opts.Strategy.Pick(len(ready), "select")
			if k < 0 || k >= len(ready) {
				e.res.Divergence = "select pick out of range"
				k = 0
			}
		}
		cases[ready[k]].run(e)
		return ready[k]
	}
	if hasDefault {
		return -1
	}
	st := &selState{th: e.cur, fired: -1}
	for i, c := range cases {
		c.enqueue(st, i)
	}
	for st.fired < 0 {
		e.block(OpSelect, nil, "select")
	}
	cases[st.fired].finish()
	e.hbOp(cases[st.fired].addr(), OpSelect)
	return st.fired
}
