//go:build race

package vsched

import (
	"runtime"
	"unsafe"
)

// RaceEnabled reports whether the binary was built with -race.
const RaceEnabled = true

//go:norace
func raceDisable() { runtime.RaceDisable() }

//go:norace
func raceEnable() { runtime.RaceEnable() }

//go:norace
func raceAcquire(p unsafe.Pointer) { runtime.RaceAcquire(p) }

//go:norace
func raceRelease(p unsafe.Pointer) { runtime.RaceRelease(p) }

//go:norace
func raceReleaseMerge(p unsafe.Pointer) { runtime.RaceReleaseMerge(p) }

//go:norace
func raceErrors() int { return runtime.RaceErrors() }

//go:norace
func raceRead(p unsafe.Pointer) { runtime.RaceRead(p) }

//go:norace
func raceWrite(p unsafe.Pointer) { runtime.RaceWrite(p) }
