// Package build assembles the instrumented harness binary from /repo's current
// working tree: vrewrite output + vsched + harness sources, combined through a
// `go build -overlay` so that /repo itself is never written.
package build

import (
	"bytes"
	"encoding/json"
	"fmt"
	"os"
	"os/exec"
	"path/filepath"
	"strings"

	"verif/engine/vrewrite"
)

// Config describes one build.
type Config struct {
	Repo     string // /repo
	Verif    string // /verif
	Race     bool
	Plain    bool   // do not instrument repository sources (plain-build cross-check)
	Out      string // output binary path
	Scratch  string // scratch dir (created by caller, removed by caller)
	ExtraEnv []string
	Tags     string
}

func goEnv(extra []string) []string {
	env := os.Environ()
	out := env[:0:0]
	for _, e := range env {
		if strings.HasPrefix(e, "GOFLAGS=") || strings.HasPrefix(e, "GOPROXY=") || strings.HasPrefix(e, "GOTOOLCHAIN=") || strings.HasPrefix(e, "GOSUMDB=") {
			continue
		}
		out = append(out, e)
	}
	out = append(out, "GOFLAGS=-mod=mod", "GOPROXY=off")
	return append(out, extra...)
}

// Build instruments and builds. It returns the combined compiler output on failure.
func Build(c Config) error {
	overlay := map[string]string{}
	inst := filepath.Join(c.Scratch, "inst")
	// 1. repository packages
	var dirs []string
	err := filepath.WalkDir(c.Repo, func(p string, d os.DirEntry, err error) error {
		if err != nil {
			return err
		}
		if !d.IsDir() {
			return nil
		}
		rel, _ := filepath.Rel(c.Repo, p)
		base := filepath.Base(p)
		if rel != "." && (strings.HasPrefix(base, ".") || base == "examples" || base == "testdata" || rel == "vsched" || rel == "verifh" || rel == filepath.Join("internal", "test")) {
			return filepath.SkipDir
		}
		dirs = append(dirs, p)
		return nil
	})
	if err != nil {
		return err
	}
	if !c.Plain {
		typer, err := vrewrite.NewTyper(c.Repo, goEnv(c.ExtraEnv))
		if err != nil {
			return fmt.Errorf("type information for the instrumenter: %w", err)
		}
		for _, d := range dirs {
			rel, _ := filepath.Rel(c.Repo, d)
			ip := "github.com/pion/interceptor"
			if rel != "." {
				ip += "/" + filepath.ToSlash(rel)
			}
			m, err := vrewrite.RewriteDir(d, filepath.Join(inst, rel), vrewrite.Options{LoopTicks: true, Typer: typer, ImportPath: ip})
			if err != nil {
				return err
			}
			for k, v := range m {
				overlay[k] = v
			}
		}
		// golang.org/x/time/rate calls time.Now and uses sync.Mutex: an instrumented copy is
		// served as the virtual package github.com/pion/interceptor/vsched/xrate and the
		// repository's import of it is redirected there by vrewrite.
		if dir := moduleDir(c, "golang.org/x/time"); dir != "" {
			m, err := vrewrite.RewriteDir(filepath.Join(dir, "rate"), filepath.Join(inst, "_xrate"), vrewrite.Options{Light: true})
			if err != nil {
				return err
			}
			for k, v := range m {
				overlay[filepath.Join(c.Repo, "vsched", "xrate", filepath.Base(k))] = v
			}
		}
	}
	// 2. vsched runtime and harness sources as virtual packages inside the repository module
	if err := mapTree(filepath.Join(c.Verif, "engine", "vsched"), filepath.Join(c.Repo, "vsched"), overlay); err != nil {
		return err
	}
	if err := mapHarness(filepath.Join(c.Verif, "harness"), filepath.Join(c.Repo, "verifh"), filepath.Join(inst, "_verifh"), overlay, c.Plain); err != nil {
		return err
	}
	ov, _ := json.Marshal(map[string]any{"Replace": overlay})
	ovPath := filepath.Join(c.Scratch, "overlay.json")
	if err := os.WriteFile(ovPath, ov, 0o644); err != nil {
		return err
	}
	args := []string{"build", "-overlay", ovPath, "-o", c.Out}
	if c.Race {
		args = append(args, "-race")
	}
	if c.Tags != "" {
		args = append(args, "-tags", c.Tags)
	}
	args = append(args, "github.com/pion/interceptor/verifh")
	cmd := exec.Command("go", args...)
	cmd.Dir = c.Repo
	cmd.Env = goEnv(c.ExtraEnv)
	var buf bytes.Buffer
	cmd.Stdout, cmd.Stderr = &buf, &buf
	if err := cmd.Run(); err != nil {
		return fmt.Errorf("go build failed: %v\n%s", err, buf.String())
	}
	return nil
}

func moduleDir(c Config, mod string) string {
	cmd := exec.Command("go", "list", "-m", "-f", "{{.Dir}}", mod)
	cmd.Dir = c.Repo
	cmd.Env = goEnv(c.ExtraEnv)
	out, err := cmd.Output()
	if err != nil {
		return ""
	}
	return strings.TrimSpace(string(out))
}

func mapTree(src, dst string, overlay map[string]string) error {
	return filepath.WalkDir(src, func(p string, d os.DirEntry, err error) error {
		if err != nil {
			return err
		}
		if d.IsDir() || !strings.HasSuffix(p, ".go") || strings.HasSuffix(p, "_test.go") {
			return nil
		}
		rel, _ := filepath.Rel(src, p)
		overlay[filepath.Join(dst, rel)] = p
		return nil
	})
}

// mapHarness maps the harness tree; directories containing a file named
// REWRITE are instrumented like repository code (without loop ticks).
func mapHarness(src, dst, inst string, overlay map[string]string, plain bool) error {
	return filepath.WalkDir(src, func(p string, d os.DirEntry, err error) error {
		if err != nil || !d.IsDir() {
			return err
		}
		rel, _ := filepath.Rel(src, p)
		if _, err := os.Stat(filepath.Join(p, "REWRITE")); err == nil && !plain {
			m, err := vrewrite.RewriteDir(p, filepath.Join(inst, rel), vrewrite.Options{})
			if err != nil {
				return err
			}
			for k, v := range m {
				overlay[filepath.Join(dst, rel, filepath.Base(k))] = v
			}
			return nil
		}
		ents, err := os.ReadDir(p)
		if err != nil {
			return err
		}
		for _, e := range ents {
			n := e.Name()
			if e.IsDir() || !strings.HasSuffix(n, ".go") || strings.HasSuffix(n, "_test.go") {
				continue
			}
			overlay[filepath.Join(dst, rel, n)] = filepath.Join(p, n)
		}
		return nil
	})
}
