// Package vrewrite instruments Go source so that every scheduling-relevant
// operation goes through the vsched runtime. It is syntax-directed and total:
// constructs it does not know pass through unchanged, and anything it cannot
// translate faithfully surfaces as a compile error of the instrumented build
// (fail closed), never as a silently different program.
package vrewrite

import (
	"bytes"
	"fmt"
	"go/ast"
	"go/parser"
	"go/printer"
	"go/token"
	"go/types"
	"os"
	"path/filepath"
	"reflect"
	"sort"
	"strconv"
	"strings"
)

const (
	vschedPath  = "github.com/pion/interceptor/vsched"
	vsyncPath   = vschedPath + "/vsync"
	vatomicPath = vschedPath + "/vatomic"
	vrandPath   = vschedPath + "/vrand"
	vName       = "vsched_"
)

// timeFuncs maps identifiers of package time to their vsched replacements.
var timeFuncs = map[string]string{
	"Now": "Now", "Since": "Since", "Until": "Until", "Sleep": "Sleep", "After": "After",
	"AfterFunc": "AfterFunc", "Tick": "Tick", "NewTimer": "NewTimer", "NewTicker": "NewTicker",
	"Timer": "Timer", "Ticker": "Ticker",
}

// Package holds the per-package facts the syntactic rewriter needs.
type Package struct {
	Dir        string
	Files      []string
	chanFields map[string]bool // struct field / package var names declared with a channel type
	topLevel   map[string]bool // package-level identifiers
	info       *types.Info     // nil without a Typer
}

// Options control a rewrite.
type Options struct {
	LoopTicks bool // insert vsched.LoopTick() in loop bodies
	// Light restricts the rewrite to the sync / sync/atomic / math/rand imports and
	// time.Now/Since/Until (used for third-party packages that exchange real
	// channels with uninstrumented code, e.g. context.Done()).
	Light bool
	// Typer, if set, supplies type information (ImportPath must be set too).
	Typer      *Typer
	ImportPath string
}

// RewriteDir instruments every non-test .go file of dir and writes the result
// under outDir with the same base name. It returns a map original->rewritten.
func RewriteDir(dir, outDir string, opt Options) (map[string]string, error) {
	ents, err := os.ReadDir(dir)
	if err != nil {
		return nil, err
	}
	var files []string
	for _, e := range ents {
		n := e.Name()
		if e.IsDir() || !strings.HasSuffix(n, ".go") || strings.HasSuffix(n, "_test.go") {
			continue
		}
		files = append(files, filepath.Join(dir, n))
	}
	if len(files) == 0 {
		return nil, nil
	}
	sort.Strings(files)
	fset := token.NewFileSet()
	var asts []*ast.File
	for _, f := range files {
		af, err := parser.ParseFile(fset, f, nil, parser.ParseComments)
		if err != nil {
			return nil, fmt.Errorf("vrewrite: parse %s: %w", f, err)
		}
		asts = append(asts, af)
	}
	pkg := &Package{Dir: dir, Files: files, chanFields: map[string]bool{}, topLevel: map[string]bool{}}
	for _, af := range asts {
		pkg.collect(af)
	}
	if opt.Typer != nil {
		pkg.info = opt.Typer.check(opt.ImportPath, fset, asts)
	}
	if err := os.MkdirAll(outDir, 0o755); err != nil {
		return nil, err
	}
	out := map[string]string{}
	for i, af := range asts {
		src, err := rewriteFile(fset, af, pkg, opt)
		if err != nil {
			return nil, fmt.Errorf("vrewrite: %s: %w", files[i], err)
		}
		dst := filepath.Join(outDir, filepath.Base(files[i]))
		if err := os.WriteFile(dst, src, 0o644); err != nil {
			return nil, err
		}
		out[files[i]] = dst
	}
	return out, nil
}

func (p *Package) collect(f *ast.File) {
	for _, d := range f.Decls {
		switch d := d.(type) {
		case *ast.FuncDecl:
			if d.Recv == nil {
				p.topLevel[d.Name.Name] = true
			}
		case *ast.GenDecl:
			for _, s := range d.Specs {
				switch s := s.(type) {
				case *ast.ValueSpec:
					for _, n := range s.Names {
						p.topLevel[n.Name] = true
						if _, ok := s.Type.(*ast.ChanType); ok {
							p.chanFields[n.Name] = true
						}
					}
				case *ast.TypeSpec:
					p.topLevel[s.Name.Name] = true
				}
			}
		}
	}
	ast.Inspect(f, func(n ast.Node) bool {
		if st, ok := n.(*ast.StructType); ok && st.Fields != nil {
			for _, fl := range st.Fields.List {
				if _, ok := fl.Type.(*ast.ChanType); ok {
					for _, n := range fl.Names {
						p.chanFields[n.Name] = true
					}
				}
			}
		}
		return true
	})
}

type rewriter struct {
	fset      *token.FileSet
	file      *ast.File
	pkg       *Package
	opt       Options
	timeName  string // local name of package "time" ("" if not imported)
	usedV     bool
	chanLocal []map[string]bool // stack of function-local channel-typed names
	counter   int
	err       error
}

func rewriteFile(fset *token.FileSet, f *ast.File, pkg *Package, opt Options) ([]byte, error) {
	r := &rewriter{fset: fset, file: f, pkg: pkg, opt: opt}
	// imports
	for _, im := range f.Imports {
		path, _ := strconv.Unquote(im.Path.Value)
		local := ""
		if im.Name != nil {
			local = im.Name.Name
		}
		switch path {
		case "time":
			r.timeName = "time"
			if local != "" {
				r.timeName = local
			}
		case "sync":
			im.Path.Value = strconv.Quote(vsyncPath)
			if local == "" {
				im.Name = ast.NewIdent("sync")
			}
		case "sync/atomic":
			im.Path.Value = strconv.Quote(vatomicPath)
			if local == "" {
				im.Name = ast.NewIdent("atomic")
			}
		case "math/rand":
			im.Path.Value = strconv.Quote(vrandPath)
			if local == "" {
				im.Name = ast.NewIdent("rand")
			}
		case "math/rand/v2":
			return nil, fmt.Errorf("math/rand/v2 is not modelled")
		case "golang.org/x/time/rate":
			// instrumented copy served from inside the repository module (see engine/build)
			im.Path.Value = strconv.Quote(vschedPath + "/xrate")
			if local == "" {
				im.Name = ast.NewIdent("rate")
			}
		}
	}
	// keep only leading build-constraint comments
	var keep []*ast.CommentGroup
	for _, cg := range f.Comments {
		if cg.End() < f.Package {
			for _, c := range cg.List {
				if strings.HasPrefix(c.Text, "//go:build") {
					keep = append(keep, &ast.CommentGroup{List: []*ast.Comment{c}})
				}
			}
		}
	}
	f.Comments = keep
	f.Doc = nil
	stripDocs(f)

	r.children(f)
	if r.err != nil {
		return nil, r.err
	}
	if r.usedV {
		addImport(f, vName, vschedPath)
	}
	if r.timeName != "" {
		// keep "time" referenced even if every use was redirected
		f.Decls = append(f.Decls, &ast.GenDecl{Tok: token.VAR, Specs: []ast.Spec{&ast.ValueSpec{
			Names: []*ast.Ident{ast.NewIdent("_")}, Type: sel(r.timeName, "Duration")}}})
	}
	var buf bytes.Buffer
	cfg := printer.Config{Mode: printer.UseSpaces | printer.TabIndent, Tabwidth: 8}
	if err := cfg.Fprint(&buf, token.NewFileSet(), f); err != nil {
		return nil, err
	}
	return buf.Bytes(), nil
}

func stripDocs(f *ast.File) {
	ast.Inspect(f, func(n ast.Node) bool {
		switch n := n.(type) {
		case *ast.FuncDecl:
			n.Doc = keepDirectives(n.Doc)
		case *ast.GenDecl:
			n.Doc = nil
		case *ast.Field:
			n.Doc, n.Comment = nil, nil
		case *ast.ValueSpec:
			n.Doc, n.Comment = nil, nil
		case *ast.TypeSpec:
			n.Doc, n.Comment = nil, nil
		case *ast.ImportSpec:
			n.Doc, n.Comment = nil, nil
		}
		return true
	})
}

func keepDirectives(cg *ast.CommentGroup) *ast.CommentGroup {
	if cg == nil {
		return nil
	}
	var l []*ast.Comment
	for _, c := range cg.List {
		if strings.HasPrefix(c.Text, "//go:") {
			l = append(l, &ast.Comment{Text: c.Text})
		}
	}
	if len(l) == 0 {
		return nil
	}
	return &ast.CommentGroup{List: l}
}

func addImport(f *ast.File, name, path string) {
	spec := &ast.ImportSpec{Name: ast.NewIdent(name), Path: &ast.BasicLit{Kind: token.STRING, Value: strconv.Quote(path)}}
	decl := &ast.GenDecl{Tok: token.IMPORT, Specs: []ast.Spec{spec}}
	f.Decls = append([]ast.Decl{decl}, f.Decls...)
	f.Imports = append(f.Imports, spec)
}

func sel(x, s string) *ast.SelectorExpr {
	return &ast.SelectorExpr{X: ast.NewIdent(x), Sel: ast.NewIdent(s)}
}

func (r *rewriter) v(name string) *ast.SelectorExpr {
	r.usedV = true
	return sel(vName, name)
}

func call(fun ast.Expr, args ...ast.Expr) *ast.CallExpr { return &ast.CallExpr{Fun: fun, Args: args} }

func method(x ast.Expr, name string, args ...ast.Expr) *ast.CallExpr {
	return call(&ast.SelectorExpr{X: x, Sel: ast.NewIdent(name)}, args...)
}

func (r *rewriter) tmp(prefix string) *ast.Ident {
	r.counter++
	return ast.NewIdent(fmt.Sprintf("vs_%s%d", prefix, r.counter))
}

var (
	exprType = reflect.TypeOf((*ast.Expr)(nil)).Elem()
	stmtType = reflect.TypeOf((*ast.Stmt)(nil)).Elem()
	nodeType = reflect.TypeOf((*ast.Node)(nil)).Elem()
)

var skipFields = map[string]bool{"Obj": true, "Scope": true, "Unresolved": true, "Comments": true, "Doc": true,
	"Comment": true, "Imports": true, "GoVersion": true, "FileStart": true, "FileEnd": true}

// children rewrites every Expr/Stmt reachable through the fields of n.
func (r *rewriter) children(n ast.Node) {
	v := reflect.ValueOf(n)
	if v.Kind() != reflect.Ptr || v.IsNil() {
		return
	}
	v = v.Elem()
	if v.Kind() != reflect.Struct {
		return
	}
	t := v.Type()
	for i := 0; i < v.NumField(); i++ {
		if skipFields[t.Field(i).Name] {
			continue
		}
		r.field(v.Field(i))
	}
}

func (r *rewriter) field(fv reflect.Value) {
	switch fv.Kind() {
	case reflect.Interface:
		if fv.IsNil() {
			return
		}
		switch x := fv.Interface().(type) {
		case *ast.FuncDecl:
			if x.Recv != nil {
				r.children(x.Recv)
			}
			r.funcScope(x.Type, x.Body)
		case ast.Expr:
			fv.Set(reflect.ValueOf(r.expr(x)))
		case ast.Stmt:
			fv.Set(reflect.ValueOf(r.stmt(x)))
		case ast.Node:
			r.children(x)
		}
	case reflect.Ptr:
		if fv.IsNil() {
			return
		}
		if n, ok := fv.Interface().(ast.Node); ok {
			switch x := n.(type) {
			case *ast.BlockStmt:
				r.block(x)
			case *ast.FuncType:
				r.children(x)
			default:
				// concrete pointer fields that are also Expr/Stmt (e.g. *ast.Ident, *ast.CallExpr,
				// *ast.FuncType, *ast.FieldList): rewrite in place, replacement impossible
				if e, ok := n.(ast.Expr); ok {
					ne := r.expr(e)
					if ne != e {
						if reflect.TypeOf(ne) == fv.Type() {
							fv.Set(reflect.ValueOf(ne))
						} else {
							r.fail(n, "cannot replace %T in a typed field", n)
						}
					}
				} else if s, ok := n.(ast.Stmt); ok {
					ns := r.stmt(s)
					if ns != s {
						if reflect.TypeOf(ns) == fv.Type() {
							fv.Set(reflect.ValueOf(ns))
						} else {
							r.fail(n, "cannot replace %T in a typed field", n)
						}
					}
				} else {
					r.children(n)
				}
			}
		}
	case reflect.Slice:
		for i := 0; i < fv.Len(); i++ {
			r.field(fv.Index(i))
		}
	}
}

func (r *rewriter) fail(n ast.Node, format string, a ...any) {
	if r.err == nil {
		r.err = fmt.Errorf("%s: %s", r.fset.Position(n.Pos()), fmt.Sprintf(format, a...))
	}
}

func (r *rewriter) block(b *ast.BlockStmt) {
	if b == nil {
		return
	}
	for i, s := range b.List {
		b.List[i] = r.stmt(s)
	}
}

func isBuiltin(id *ast.Ident, name string, pkg *Package) bool {
	return id.Name == name && id.Obj == nil && !pkg.topLevel[name]
}

func (r *rewriter) isTimePkg(x ast.Expr) bool {
	id, ok := x.(*ast.Ident)
	return ok && r.timeName != "" && id.Name == r.timeName && id.Obj == nil && !r.pkg.topLevel[id.Name]
}

// isChanExpr guesses syntactically whether e denotes a channel: a local
// declared with a channel type, or a selector whose field was declared with a
// channel type somewhere in the package, or a Ticker/Timer ".C".
func (r *rewriter) isChanExpr(e ast.Expr) bool {
	switch chanKind(r.pkg.info, e) {
	case 1:
		return true
	case 0:
		return false
	}
	switch e := e.(type) {
	case *ast.Ident:
		for i := len(r.chanLocal) - 1; i >= 0; i-- {
			if r.chanLocal[i][e.Name] {
				return true
			}
		}
		return e.Obj == nil && r.pkg.chanFields[e.Name]
	case *ast.SelectorExpr:
		return r.pkg.chanFields[e.Sel.Name]
	case *ast.ParenExpr:
		return r.isChanExpr(e.X)
	}
	return false
}

func (r *rewriter) noteChanLocal(name string) {
	if len(r.chanLocal) > 0 {
		r.chanLocal[len(r.chanLocal)-1][name] = true
	}
}

func (r *rewriter) expr(e ast.Expr) ast.Expr {
	if r.opt.Light {
		if x, ok := e.(*ast.SelectorExpr); ok && r.isTimePkg(x.X) {
			switch x.Sel.Name {
			case "Now", "Since", "Until":
				return r.v(x.Sel.Name)
			}
			return x
		}
		if fl, ok := e.(*ast.FuncLit); ok {
			r.funcScope(fl.Type, fl.Body)
			return fl
		}
		if _, ok := e.(*ast.Ident); ok {
			return e
		}
		r.children(e)
		return e
	}
	switch x := e.(type) {
	case *ast.FuncLit:
		r.funcScope(x.Type, x.Body)
		return x
	case *ast.CallExpr:
		if id, ok := x.Fun.(*ast.Ident); ok {
			switch {
			case isBuiltin(id, "make", r.pkg) && len(x.Args) >= 1:
				if ct, ok := x.Args[0].(*ast.ChanType); ok {
					elem := r.expr(ct.Value)
					args := make([]ast.Expr, 0, 1)
					for _, a := range x.Args[1:] {
						args = append(args, r.expr(a))
					}
					return call(&ast.IndexExpr{X: r.v("MakeChan"), Index: elem}, args...)
				}
			case isBuiltin(id, "close", r.pkg) && len(x.Args) == 1:
				return method(r.expr(x.Args[0]), "Close")
			case (isBuiltin(id, "len", r.pkg) || isBuiltin(id, "cap", r.pkg)) && len(x.Args) == 1 && r.isChanExpr(x.Args[0]):
				m := "Len"
				if id.Name == "cap" {
					m = "Cap"
				}
				return method(r.expr(x.Args[0]), m)
			}
		}
	case *ast.UnaryExpr:
		if x.Op == token.ARROW {
			return method(r.expr(x.X), "Recv")
		}
	case *ast.SelectorExpr:
		if r.isTimePkg(x.X) {
			if nn, ok := timeFuncs[x.Sel.Name]; ok {
				return r.v(nn)
			}
			return x
		}
	case *ast.ChanType:
		return &ast.StarExpr{X: &ast.IndexExpr{X: r.v("Chan"), Index: r.expr(x.Value)}}
	case *ast.Ident:
		return x
	}
	r.children(e)
	return e
}

func (r *rewriter) funcScope(ft *ast.FuncType, body *ast.BlockStmt) {
	scope := map[string]bool{}
	if ft != nil && ft.Params != nil {
		for _, f := range ft.Params.List {
			if _, ok := f.Type.(*ast.ChanType); ok {
				for _, n := range f.Names {
					scope[n.Name] = true
				}
			}
		}
	}
	r.chanLocal = append(r.chanLocal, scope)
	if ft != nil {
		r.children(ft)
	}
	r.block(body)
	r.chanLocal = r.chanLocal[:len(r.chanLocal)-1]
}

func isRecv(e ast.Expr) (*ast.UnaryExpr, bool) {
	for {
		p, ok := e.(*ast.ParenExpr)
		if !ok {
			break
		}
		e = p.X
	}
	u, ok := e.(*ast.UnaryExpr)
	return u, ok && u.Op == token.ARROW
}

func (r *rewriter) stmt(s ast.Stmt) ast.Stmt {
	if r.opt.Light {
		if b, ok := s.(*ast.BlockStmt); ok {
			r.block(b)
			return b
		}
		r.children(s)
		return s
	}
	switch x := s.(type) {
	case *ast.DeclStmt:
		if gd, ok := x.Decl.(*ast.GenDecl); ok {
			for _, sp := range gd.Specs {
				if vs, ok := sp.(*ast.ValueSpec); ok {
					if _, ok := vs.Type.(*ast.ChanType); ok {
						for _, n := range vs.Names {
							r.noteChanLocal(n.Name)
						}
					}
					if len(vs.Names) == 2 && len(vs.Values) == 1 {
						if u, ok := isRecv(vs.Values[0]); ok {
							vs.Values[0] = method(r.expr(u.X), "Recv2")
							if vs.Type != nil {
								vs.Type = r.expr(vs.Type)
							}
							return x
						}
					}
					for i, v := range vs.Values {
						if c, ok := v.(*ast.CallExpr); ok && i < len(vs.Names) {
							if id, ok := c.Fun.(*ast.Ident); ok && isBuiltin(id, "make", r.pkg) && len(c.Args) > 0 {
								if _, ok := c.Args[0].(*ast.ChanType); ok {
									r.noteChanLocal(vs.Names[i].Name)
								}
							}
						}
					}
				}
			}
		}
		r.children(x)
		return x
	case *ast.SendStmt:
		return &ast.ExprStmt{X: method(r.expr(x.Chan), "Send", r.expr(x.Value))}
	case *ast.AssignStmt:
		if len(x.Lhs) == 2 && len(x.Rhs) == 1 {
			if u, ok := isRecv(x.Rhs[0]); ok {
				x.Rhs[0] = method(r.expr(u.X), "Recv2")
				for i := range x.Lhs {
					x.Lhs[i] = r.expr(x.Lhs[i])
				}
				return x
			}
		}
		if x.Tok == token.DEFINE {
			for i, rhs := range x.Rhs {
				if c, ok := rhs.(*ast.CallExpr); ok && i < len(x.Lhs) && len(x.Lhs) == len(x.Rhs) {
					if id, ok := c.Fun.(*ast.Ident); ok && isBuiltin(id, "make", r.pkg) && len(c.Args) > 0 {
						if _, ok := c.Args[0].(*ast.ChanType); ok {
							if l, ok := x.Lhs[i].(*ast.Ident); ok {
								r.noteChanLocal(l.Name)
							}
						}
					}
				}
			}
		}
		r.children(x)
		return x
	case *ast.GoStmt:
		return r.goStmt(x)
	case *ast.SelectStmt:
		return r.selectStmt(x, nil)
	case *ast.LabeledStmt:
		if ss, ok := x.Stmt.(*ast.SelectStmt); ok {
			return r.selectStmt(ss, x.Label)
		}
		x.Stmt = r.stmt(x.Stmt)
		return x
	case *ast.ForStmt:
		r.children(x)
		r.loopTick(x.Body)
		return x
	case *ast.RangeStmt:
		if isMap(r.pkg.info, x.X) {
			// Go randomises map iteration order; the instrumented build iterates in sorted key order
			// so that an execution is a function of the scheduler's choices alone.
			x.X = call(r.v("SortedMap"), r.expr(x.X))
			if x.Key != nil {
				x.Key = r.expr(x.Key)
			}
			if x.Value != nil {
				x.Value = r.expr(x.Value)
			}
			r.block(x.Body)
			r.loopTick(x.Body)
			return x
		}
		if r.isChanExpr(x.X) {
			x.X = method(r.expr(x.X), "Iter")
			if x.Key != nil {
				x.Key = r.expr(x.Key)
			}
			if x.Value != nil {
				x.Value = r.expr(x.Value)
			}
			r.block(x.Body)
		} else {
			r.children(x)
		}
		r.loopTick(x.Body)
		return x
	case *ast.BlockStmt:
		r.block(x)
		return x
	}
	r.children(s)
	return s
}

// typeOf looks an expression up in the type information, if there is any for this package.
func typeOf(info *types.Info, e ast.Expr) (types.TypeAndValue, bool) {
	if info == nil || info.Types == nil {
		return types.TypeAndValue{}, false
	}
	tv, ok := info.Types[e]
	return tv, ok
}

func (r *rewriter) loopTick(b *ast.BlockStmt) {
	if !r.opt.LoopTicks || b == nil {
		return
	}
	b.List = append([]ast.Stmt{&ast.ExprStmt{X: call(r.v("LoopTick"))}}, b.List...)
}

// goStmt turns `go f(a, b)` into
//
//	{ vs_f := f; vs_a1 := a; vs_a2 := b; vsched.Go(func() { vs_f(vs_a1, vs_a2) }) }
//
// preserving Go's rule that the function value and arguments are evaluated
// in the calling goroutine.
func (r *rewriter) goStmt(g *ast.GoStmt) ast.Stmt {
	c := g.Call
	if fl, ok := c.Fun.(*ast.FuncLit); ok && len(c.Args) == 0 {
		r.funcScope(fl.Type, fl.Body)
		return &ast.ExprStmt{X: call(r.v("Go"), fl)}
	}
	var pre []ast.Stmt
	var fun ast.Expr
	switch f := c.Fun.(type) {
	case *ast.FuncLit:
		r.funcScope(f.Type, f.Body)
		fun = f
	default:
		id := r.tmp("f")
		pre = append(pre, &ast.AssignStmt{Lhs: []ast.Expr{id}, Tok: token.DEFINE, Rhs: []ast.Expr{r.expr(c.Fun)}})
		fun = id
	}
	args := make([]ast.Expr, len(c.Args))
	for i, a := range c.Args {
		if bl, ok := a.(*ast.BasicLit); ok {
			args[i] = bl
			continue
		}
		if tv, ok := typeOf(r.pkg.info, a); ok && (tv.Value != nil || tv.IsNil()) {
			// a constant or the untyped nil: no temporary (`x := nil` does not compile, and a temporary would
			// give an untyped constant its default type instead of the parameter's)
			args[i] = a
			continue
		}
		id := r.tmp("a")
		pre = append(pre, &ast.AssignStmt{Lhs: []ast.Expr{id}, Tok: token.DEFINE, Rhs: []ast.Expr{r.expr(a)}})
		args[i] = id
	}
	inner := &ast.CallExpr{Fun: fun, Args: args, Ellipsis: c.Ellipsis}
	lit := &ast.FuncLit{Type: &ast.FuncType{Params: &ast.FieldList{}}, Body: &ast.BlockStmt{List: []ast.Stmt{&ast.ExprStmt{X: inner}}}}
	pre = append(pre, &ast.ExprStmt{X: call(r.v("Go"), lit)})
	return &ast.BlockStmt{List: pre}
}

// selectStmt turns a select into a block that builds one case object per
// communication clause (evaluating channel and send-value expressions in
// source order, as Go does), asks vsched.Select which clause completed, and
// switches on the answer.
func (r *rewriter) selectStmt(s *ast.SelectStmt, label *ast.Ident) ast.Stmt {
	var pre []ast.Stmt
	var cases []ast.Expr
	sw := &ast.SwitchStmt{Body: &ast.BlockStmt{}}
	hasDefault := false
	idx := 0
	for _, cl := range s.Body.List {
		cc := cl.(*ast.CommClause)
		var head []ast.Stmt
		clause := &ast.CaseClause{}
		if cc.Comm == nil {
			hasDefault = true
			clause.List = nil
		} else {
			id := r.tmp("c")
			clause.List = []ast.Expr{&ast.BasicLit{Kind: token.INT, Value: strconv.Itoa(idx)}}
			idx++
			cases = append(cases, id)
			switch cm := cc.Comm.(type) {
			case *ast.SendStmt:
				pre = append(pre, &ast.AssignStmt{Lhs: []ast.Expr{id}, Tok: token.DEFINE,
					Rhs: []ast.Expr{call(r.v("S"), r.expr(cm.Chan), r.expr(cm.Value))}})
			case *ast.ExprStmt:
				u, ok := isRecv(cm.X)
				if !ok {
					r.fail(cm, "unsupported select clause")
					return s
				}
				pre = append(pre, &ast.AssignStmt{Lhs: []ast.Expr{id}, Tok: token.DEFINE,
					Rhs: []ast.Expr{call(r.v("R"), r.expr(u.X))}})
			case *ast.AssignStmt:
				u, ok := isRecv(cm.Rhs[0])
				if !ok || len(cm.Rhs) != 1 {
					r.fail(cm, "unsupported select clause")
					return s
				}
				pre = append(pre, &ast.AssignStmt{Lhs: []ast.Expr{id}, Tok: token.DEFINE,
					Rhs: []ast.Expr{call(r.v("R"), r.expr(u.X))}})
				rhs := []ast.Expr{&ast.SelectorExpr{X: id, Sel: ast.NewIdent("Val")}}
				if len(cm.Lhs) == 2 {
					rhs = append(rhs, &ast.SelectorExpr{X: id, Sel: ast.NewIdent("Ok")})
				}
				lhs := make([]ast.Expr, len(cm.Lhs))
				for i := range cm.Lhs {
					lhs[i] = r.expr(cm.Lhs[i])
				}
				head = append(head, &ast.AssignStmt{Lhs: lhs, Tok: cm.Tok, Rhs: rhs})
				if cm.Tok == token.DEFINE {
					// keep "declared and not used" from firing when the body ignores the value
					for _, l := range lhs {
						if li, ok := l.(*ast.Ident); ok && li.Name != "_" {
							head = append(head, &ast.AssignStmt{Lhs: []ast.Expr{ast.NewIdent("_")}, Tok: token.ASSIGN, Rhs: []ast.Expr{ast.NewIdent(li.Name)}})
						}
					}
				}
			default:
				r.fail(cc, "unsupported select clause")
				return s
			}
		}
		body := make([]ast.Stmt, 0, len(cc.Body)+len(head))
		body = append(body, head...)
		for _, b := range cc.Body {
			body = append(body, r.stmt(b))
		}
		clause.Body = body
		sw.Body.List = append(sw.Body.List, clause)
	}
	def := "false"
	if hasDefault {
		def = "true"
	} else {
		// keeps the statement terminating when every clause is (vsched.Select returns one of the indices)
		sw.Body.List = append(sw.Body.List, &ast.CaseClause{Body: []ast.Stmt{&ast.ExprStmt{X: call(ast.NewIdent("panic"),
			&ast.BasicLit{Kind: token.STRING, Value: strconv.Quote("vsched: select returned no clause")})}}})
	}
	args := append([]ast.Expr{ast.NewIdent(def)}, cases...)
	sw.Tag = call(r.v("Select"), args...)
	var swStmt ast.Stmt = sw
	if label != nil {
		swStmt = &ast.LabeledStmt{Label: label, Stmt: sw}
	}
	return &ast.BlockStmt{List: append(pre, swStmt)}
}
