package vrewrite

import (
	"fmt"
	"go/ast"
	"go/importer"
	"go/token"
	"go/types"
	"io"
	"os"
	"os/exec"
	"strings"
)

// Typer type-checks repository packages from source, resolving imports
// through the compiler export data that `go list -export` leaves in the build
// cache. The rewriter uses it for the three questions syntax cannot answer:
// is this range/len/cap/close operand a channel, and is this range operand a
// map (whose iteration order must be made deterministic).
type Typer struct {
	fset    *token.FileSet
	exports map[string]string
	imp     types.Importer
}

// NewTyper runs `go list -export -deps ./...` in dir.
func NewTyper(dir string, env []string) (*Typer, error) {
	cmd := exec.Command("go", "list", "-export", "-deps", "-f", "{{.ImportPath}}={{.Export}}", "./...")
	cmd.Dir = dir
	cmd.Env = env
	out, err := cmd.Output()
	if err != nil {
		msg := ""
		if ee, ok := err.(*exec.ExitError); ok {
			msg = string(ee.Stderr)
		}
		return nil, fmt.Errorf("go list -export: %v\n%s", err, msg)
	}
	t := &Typer{fset: token.NewFileSet(), exports: map[string]string{}}
	for _, l := range strings.Split(string(out), "\n") {
		if i := strings.Index(l, "="); i > 0 && i+1 < len(l) {
			t.exports[l[:i]] = l[i+1:]
		}
	}
	t.imp = importer.ForCompiler(t.fset, "gc", func(path string) (io.ReadCloser, error) {
		f, ok := t.exports[path]
		if !ok {
			return nil, fmt.Errorf("no export data for %s", path)
		}
		return os.Open(f)
	})
	return t, nil
}

// check type-checks one package; errors are tolerated (partial information is still useful).
func (t *Typer) check(path string, fset *token.FileSet, files []*ast.File) *types.Info {
	info := &types.Info{Types: map[ast.Expr]types.TypeAndValue{}}
	conf := types.Config{Importer: t.imp, Error: func(error) {}}
	_, _ = conf.Check(path, fset, files, info)
	return info
}

func isMap(info *types.Info, e ast.Expr) bool {
	if info == nil {
		return false
	}
	tv, ok := info.Types[e]
	if !ok || tv.Type == nil {
		return false
	}
	_, ok = tv.Type.Underlying().(*types.Map)
	return ok
}

// chanKind: 1 = channel, 0 = not a channel, -1 = unknown.
func chanKind(info *types.Info, e ast.Expr) int {
	if info == nil {
		return -1
	}
	tv, ok := info.Types[e]
	if !ok || tv.Type == nil {
		return -1
	}
	if _, ok := tv.Type.Underlying().(*types.Chan); ok {
		return 1
	}
	return 0
}
