package jitterbuffer

import (
	"runtime"
	"testing"

	"github.com/pion/rtp"
)

func TestZZPoppedNodesAreCollectable(t *testing.T) {
	q := NewQueue()
	q.Push(&rtp.Packet{Header: rtp.Header{SequenceNumber: 0}}, 0)
	var before, after runtime.MemStats
	runtime.GC()
	runtime.ReadMemStats(&before)
	for i := 1; i <= 60_000; i++ {
		q.Push(&rtp.Packet{Header: rtp.Header{SequenceNumber: uint16(i)}}, uint16(i))
		if _, err := q.Pop(); err != nil {
			t.Fatal(err)
		}
	}
	runtime.GC()
	runtime.ReadMemStats(&after)
	grown := int64(after.HeapAlloc) - int64(before.HeapAlloc)
	t.Logf("heap grew by %d bytes over 60,000 push/pop pairs (queue length %d)", grown, q.Length())
	if grown > 1<<19 {
		t.Fatalf("popped nodes are retained: %d bytes", grown)
	}
}
